#!/usr/bin/env python3
"""writes MANIFEST.json from the table below (kept as code so that it is always schema-valid)"""
import json, os, subprocess
V = os.path.abspath(os.path.join(os.path.dirname(__file__), '..'))

TB = ('Trusted: Coq 8.16.1 kernel/vm_compute; hand-written Gallina model tied to /repo by a per-run correspondence check '
      '(Go harness built from the working tree, outputs compared inside Coq); Go stdlib/OPA/third-party components named in '
      'the evidence are modelled or oracles, not verified.')

CHECKS = {
 'C20': dict(cat='proof', ref='DESIGN.md §7 C20',
   text='Kernel-checked theorems: the version lookup equals the deepest-containing-directory specification for every map of clean '
        'distinct keys and every rooted file name (unbounded), is iteration-order independent, config beats manifest; the executable '
        'model is compared with RegoVersionFromVersionsMap/AllRegoVersions/InputFromPaths on exhaustive small key sets and on real '
        'temp trees addressed relatively and absolutely.',
   technique='Coq proof over a Gallina model + differential correspondence (vm_compute) with the Go implementation'),
}

NOT_YET = {}

def main():
    props = [json.loads(l)['id'] for l in open(os.path.join(V, 'properties.jsonl'))]
    hooks = []
    try:
        hooks = [l.split()[0] for l in open(os.path.join(V, 'MANIFEST.hooks')) if l.strip() and not l.startswith('#')]
    except OSError:
        pass
    m = {
     'version': 1,
     'setup_cmd': 'sh tools/setup.sh',
     'hooks': {'guard': 'verif', 'enable': 'go build -tags verif (no hook is needed by any check at present; overlay test files are injected with go test -overlay)',
               'baseline_off_cmd': 'cd /repo && GOFLAGS=-mod=mod GOPROXY=off go test -vet=off -count=1 -timeout 25m ./...',
               'source_commits': hooks, 'add_only': True},
     'engines': [{'name': 'coq-model+correspondence', 'path': 'tools/check', 'serves_properties': sorted(CHECKS),
                  'kind_free_text': 'Coq 8.16.1 development under coq/ (models, proofs, property theorems) + Go harness under harness/ + python driver'}],
     'checks': [], 'not_applicable': [],
     'notes': 'See DESIGN.md. Repairs of genuine defects are unguarded "fix:" commits in /repo, listed in known_findings.json as fixed.',
    }
    for p in props:
        if p in CHECKS:
            c = CHECKS[p]
            m['checks'].append({
              'property_id': p, 'quick_cmd': 'tools/check %s --tier quick' % p, 'thorough_cmd': 'tools/check %s --tier thorough' % p,
              'evidence_file': 'evidence/%s.json' % p, 'replay_cmd_template': 'tools/check %s --replay {path}' % p,
              'engine': 'coq-model+correspondence',
              'level_claimed': {'category': c['cat'], 'text': c['text'], 'design_ref': c['ref']},
              'level_note': c.get('note', TB), 'technique': c['technique']})
        else:
            m['not_applicable'].append({'property_id': p, 'reason': NOT_YET.get(p, 'check not built yet in this round (planned, see DESIGN.md §7); not a claim that the technique cannot apply')})
    json.dump(m, open(os.path.join(V, 'MANIFEST.json'), 'w'), indent=1)

if __name__ == '__main__':
    main()
