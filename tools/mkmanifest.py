#!/usr/bin/env python3
"""writes MANIFEST.json from the table below (kept as code so that it is always schema-valid)"""
import json, os, subprocess
V = os.path.abspath(os.path.join(os.path.dirname(__file__), '..'))

TB = ('Trusted: Coq 8.16.1 kernel/vm_compute; hand-written Gallina model tied to /repo by a per-run correspondence check '
      '(Go harness built from the working tree, outputs compared inside Coq); Go stdlib/OPA/third-party components named in '
      'the evidence are modelled or oracles, not verified.')

CHECKS = {
 'C20': dict(cat='proof', ref='DESIGN.md §7 C20',
   text='Kernel-checked theorems: the version lookup equals the deepest-containing-directory specification for every map of clean '
        'distinct keys and every rooted file name (unbounded), is iteration-order independent and local (maps agreeing on the configured ancestors of the directory of the file choose the same version; an added non-ancestor key changes nothing), config beats manifest; the executable '
        'model is compared with RegoVersionFromVersionsMap/AllRegoVersions/InputFromPaths on exhaustive small key sets and on real '
        'temp trees addressed relatively and absolutely.',
   technique='Coq proof over a Gallina model + differential correspondence (vm_compute) with the Go implementation'),
}

CHECKS['C16'] = dict(cat='proof', ref='DESIGN.md §7 C16, Appendix A.1, notes/C16.md',
   text='Kernel-checked, axiom-free: for ALL pairs of byte strings the model of ComputeEdits returns an edit list (compute_edits_total: '
        'Myers furthest-reaching + overshoot lemmas, index bounds, no fuel exhaustion) and applying it per LSP 3.17 gives exactly `after`, '
        'edits ordered, non-overlapping, inside the document (compute_edits_sound). The model is compared edit list for edit list with the real '
        'ComputeEdits (overlay test) on the exhaustive <=4-line domain over {a,b,""} (40,401 distinct pairs, thorough) and random/real-policy/'
        'CRLF/CR/unicode/malformed pairs and a large-distance stream; the real edits are also applied independently in Go and by the Coq lsp_apply. The server-level producers of edits (textDocument/formatting in all branches, regal.fix.* commands, the template worker) are modelled (Model/FormatFlow.v: formatting_reproduces_intended) and driven on a real LanguageServer over JSON-RPC: edits applied to the client text must give the text the server holds.',
   technique='Coq proof (Myers diff invariants F1-F3,B1,O1,E1,T1,T2) over a Gallina model of diff.go + differential correspondence via go test -overlay',
   note=TB + ' Editor-specific application and UTF-16 columns are not modelled (all characters are 0). Finding fixed in /repo 778ab02 (lone CR line ends).')

CHECKS['C05'] = dict(cat='proof', ref='DESIGN.md §7 C05, notes/C05.md',
   text='Kernel-checked for ALL patterns, file names, prefixes and glob engines (the engine is a Section variable, nothing assumed): the Go and Rego '
        'pattern expansions coincide, root-relative names coincide for every rule kind, --ignore-files replaces the config list on both sides, filterPaths '
        'returns exactly the order-preserving sublist matched by no non-empty pattern, a matching file yields no violation of the ignored rules and is not scanned '
        'when ignored globally, a non-matching file is never dropped. The model is compared with FilterIgnoredPaths, the OPA-evaluated data.regal.config/main helpers, '
        'linter.Lint, the regal binary and the LSP call sites over all patterns of <=3 tokens (4 in thorough) x 340 paths x 9 prefix/spelling shapes, gobwas/glob as oracle table.',
   technique='Coq proof over a Gallina model of filter.go + exclusion.rego (glob engine as oracle) + differential correspondence (Go API, OPA helper evaluation, binary, LSP overlay)',
   note=TB + ' Domain: every expanded pattern compiles in gobwas/glob (outside it Go errors, Rego says no match). One open finding (relative argument with cwd != project root); '
        'three defects repaired in /repo (5296c24, 85ee130, e493c86).')

CHECKS['C10'] = dict(cat='proof', ref='DESIGN.md §7 C10, notes/C10.md',
   text='Kernel-checked for ALL reports: exit status is 1 iff linting failed, else 3/2/0 exactly as stated for both fail levels; each format (pretty/festive, github at byte level incl. '
        'workflow-command escaping round trip, sarif incl. notices, junit, json) carries every violation exactly once with file, position, rule and level under stated hypotheses whose '
        'necessity is shown by _refuted witnesses; JSON decode(encode r) = r modulo json:"-" fields; compact carries only file and position (open finding). Generated reports go '
        'through the 7 real reporters and are read back by independent parsers, compared inside Coq with the model; exit codes and stdout through the real binary on 6-7 workspaces x 2 fail levels x 7 formats; the output channel is covered too (--output-file over existing longer/shorter/garbage content equals the stdout bytes; failing devices give exit 1: c10_exit_code_delivery_failed, c10_output_file_is_this_runs_rendering).',
   technique='Coq proof over executable models of cmd/lint.go, main.go, pkg/reporter, pkg/report + differential correspondence (real reporters, real binary, independent output parsers)',
   note=TB + ' Output parsers of the harness are trusted glue. Four defects repaired in /repo (669b4f4 JUnit n^2, 37fa06a XML control chars, ef39a79 UTF-8 cut, 6b7e728 GitHub escaping); '
        'open finding: compact omits rule and level.')

CHECKS['C08'] = dict(cat='other', ref='DESIGN.md §7 C08, notes/C08.md',
   text='Partial by nature: there is no Coq semantics of Rego/OPA, so no theorem speaks about rule bodies. Kernel-checked: the layout layer (blank-line insertion, CRLF conversion, '
        'appending a rule: each original line sits at a computed row with identical content, operations commute, regal\'s line table is independent of line ends) and, by vm_compute '
        'over the docs table regenerated from /repo on every run, that rule directories, docs pages and the provided config correspond and every page has a well-formed Avoid/Prefer pair or a reasoned '
        'exception with a fixture. The sensitivity/specificity claim itself is decided by enumeration: every table row x embeddings of the grammar linted with only that rule enabled.',
   technique='enumeration of the regenerated docs table x layout grammar through linter.Lint, with a Coq-proved layout model (correspondence of texts, rows and line tables) and vm_compute obligations over Gen/GenDocs.v',
   note=TB + ' The oracle is the documentation\'s own Avoid/Prefer labelling; 31 pages need fixtures under corpus/C08. Defects repaired in /repo: ba0fc92, 5309b36 (docs), dd4570e.')

CHECKS['C01'] = dict(cat='proof', ref='DESIGN.md §7 C01, notes/C01.md',
  text='Kernel-checked: every complete execution, under any scheduler, of any per-file worker program that keeps its shared accesses inside one critical section ends in the '
       'sequential fold of the merge over a permutation of the per-file results; that fold, Lint\'s post-processing (notice de-dup, rules_skipped, aggregate phase, summary, exports) '
       'and InputFromPaths/NewInput are invariant under permutations/duplicates of the path list (multiset equality of violations and notices, equal summary); the shared base cache only '
       'ever answers with the document\'s own value. The goroutine/lock shapes of lintWithRegoRules, InputFromPaths and internal/cache are re-extracted from the tree with go/ast on every run and '
       'the side condition is re-proved by computation. Correspondence: real Linter.Lint on generated workspaces under all argument permutations (<=4 files), GOMAXPROCS 1/2/16, repetition and '
       'concurrent calls (-race in thorough) must give identical canonical reports equal to the Coq fold of per-file oracle tables.',
  technique='Coq proof over a worker-LTS model + regenerated go/ast shape obligation + differential correspondence (vm_compute) with the Go implementation',
  note=TB + ' Rule bodies/OPA evaluation are oracles; H_aggperm (aggregate rules read input.aggregate as a set) is tested by shuffling, not proved; the Go scheduler is modelled as any interleaving of lock/unlock/load/store steps.')

CHECKS['C02'] = dict(cat='proof', ref='DESIGN.md §7 C02, notes/C02.md',
  text='Kernel-checked: FilterIgnoredPaths (model of filepath.WalkDir + skip directories + suffix + filterPaths) discovers exactly the .rego files reachable from some argument without passing a skipped '
       'directory and excluded by no non-empty pattern; a missing argument or unparseable file fails the run; files_scanned = number of distinct cleaned discovered files; the summary equals what the '
       'violation/notice lists contain; per-file violations of a file in any multi-file run equal those of the file alone (under H_ops/H_loc). Skip names, suffix and guards are re-extracted from the tree on '
       'every run. Correspondence: real FilterIgnoredPaths/Lint on generated directory trees (exact discovered list), an independent Go rendering of the specification with delta-debugged failing trees, '
       'batch-vs-single runs over all partitions of <=4 files.',
  technique='Coq proof over a file-tree model + regenerated constants obligation + differential correspondence (vm_compute) with the Go implementation',
  note=TB + ' File system = tree of named nodes (no symlinks/permissions); glob matching is an oracle tabulated with the real matcher; H_ops/H_loc are tested by the batch-vs-single comparison, not proved.')

CHECKS['C03'] = dict(cat='other', ref='DESIGN.md §7 C03, notes/C03.md',
  text='Partial: kernel-checked (i) error propagation of Lint (all oracles ok => report, for every completion order and select choice; one failing file => no report; ok iff nothing fails) and (ii) '
       'conflict-freeness of 11 multi-body framework functions (premises explicit, each shown necessary by a witness); tied by OPA evaluation of those functions on the real bundle and by error-propagation '
       'scenarios with an oracle table taken from roast+OPA directly. The remainder - no rule body/OPA/roast fails on a parseable module - is exercised by linting, all rules enabled, the bundle, all 3714 OPA '
       'conformance modules, stress shapes, grammar-generated modules and mutations in crash-isolating workers (testing, not proof).',
  technique='Coq proof over models of linter error propagation and framework functions + differential correspondence + corpus fuzzing of linter.Lint with bisection/minimisation',
  note=TB + ' Open finding: number literal beyond float64 aborts the run (roast dependency). Repaired in /repo: eaab71a, 0b544c6, 83a5518.')

CHECKS['C04'] = dict(cat='proof', ref='DESIGN.md §7 C04, notes/C04.md',
  text='Kernel-checked for ALL params/configs: ignored_rule/level_for_rule equal the README first-match chain; the Go merge gives rule > category > global > provided ("error" for custom rules); same chain for '
       'bundled and custom rules; the enabled list is exactly the rules that can report; table obligations on bundle rules vs provided config re-proved each run. Exhaustive (25,856 / 38,784 cases) comparison through '
       'the real GetConfig merge and real Rego functions + Lint/DetermineEnabledRules runs.',
  technique='Coq proof over a Gallina model of config.rego/main.rego/bundle.go/linter.go + exhaustive differential correspondence',
  note=TB + ' Three defects repaired in /repo (ea37eca, 7c60550, 548f045).')

CHECKS['C07'] = dict(cat='other', ref='DESIGN.md §7 C07, notes/C07.md',
  text='Partial: kernel-checked for the helper layer (to_location_object, _with_text, location, ranged_*, infix_expr_location, line table, getRangeForViolation): well-formed ordered locations yield positions inside '
       'the file with the exact line text and end >= start; k blank lines shift rows by k and nothing else for ALL k; CRLF and LF twins have one line table; LSP ranges are ordered. Tied by OPA evaluation of every helper on '
       'the real bundle (incl. out-of-range rows, empty tables, non-ASCII), roast line table, overlay test. That every rule reports through these helpers with ordered arguments is exercised end to end: bounds/text of every '
       'violation and the k-shift relation for k in {1,3,10,100} over the corpora of C03 (testing).',
  technique='Coq proof over a Gallina model of util.rego/result.rego/lsp range conversion + differential correspondence + metamorphic corpus testing of linter.Lint',
  note=TB + ' Exempt from the shift relation: file-length, opa-fmt. Open finding: impossible-not single-file text is synthesised. Repaired in /repo: 7b4f9ea.')

CHECKS['C11'] = dict(cat='proof', ref='DESIGN.md §7 C11, notes/C11.md',
  text='Kernel-checked over a byte-level model of the three location-based fixes (all contents, all locations): each fix returns the old content with exactly the documented splice or nothing iff its guard fails; '
       'character columns vs byte indices; the raw string written denotes the same value; the column the use-assignment-operator rule reports is the operator and is code whenever the head value is; fixes of one pass are '
       'row-local and commute across rows; pinned _eq_col / byte-column behaviour refuted by witness. Tie: every unit call, every language-server code action and every violation location of generated modules recomputed by '
       'the model inside Coq; predicate on Fixer.Fix results (parses, AST equal modulo documented effects, lines explained by documented splices, opa-fmt = formatter fixpoint).',
  technique='Coq proof over a Gallina model + differential correspondence (vm_compute) + AST/byte-level predicate on the implementation',
  note=TB + ' OPA parser/formatter and the Rego rule bodies are oracles (only the reported column is modelled); defects repaired in /repo: 68685e7, 115e11c, 98459b0, 2ffbfcb.')

CHECKS['C12'] = dict(cat='proof', ref='DESIGN.md §7 C12, notes/C12.md',
  text='Kernel-checked over a model of applyLinterFixes with the linter/formatter/rename as oracles: termination within mu+1 iterations under an explicit progress measure, post-condition (every remaining violation is declined by its fix), '
       'idempotence; the progress hypothesis is discharged for every combination of the three text rules and refuted for the pinned code by an inductive non-termination proof. Tie: real Fixer.Fix on generated file sets x rule subsets x '
       'conflict modes under an iteration cap/deadline, every iteration recomputed by the model; re-lint and second fix; real binary on the corpus in the thorough tier.',
  technique='Coq proof over a Gallina model + per-iteration differential correspondence + termination/idempotence predicate on the implementation',
  note=TB + ' Progress of opa-fmt and directory-package-mismatch is a hypothesis validated by the harness; two open known findings (violations the fixes rightly decline remain reported); repaired: ec2ae94.')

CHECKS['C13'] = dict(cat='proof', ref='DESIGN.md §7 C13, Appendix A.3, notes/C13.md',
  text='Kernel-checked: the in-memory provider refines a map and keeps the invariant the commit needs; for files tagged with their original path, after ANY sequence of fix results and for ANY walk order of the deleted/modified sets, a successful '
       '`regal fix` leaves every original file on disk exactly once and unloaded files untouched; conflicts (policy error) stop before any disk operation; policy rename always finds a fresh name in the same directory (incl. Atoi overflow); dry-run is a '
       'no-op; the commit cannot stop between deletes and writes; the closest root is an ancestor and order independent. Models compared with renameCandidate/handleRename/InMemoryFileProvider/FindClosestMatchingRoot/DirCleanUpPaths (overlay tests) '
       'and with the real binary on small workspaces; conservation predicate computed on tree snapshots.',
  technique='Coq proof over Gallina models + differential correspondence (vm_compute) with Go overlay tests and the regal binary',
  note=TB + ' File system model: regular files and directories only (no permissions/symlinks); linter and root discovery are oracles. Repaired in /repo: fc4cdc9, 7b0691a, 8979e4d.')

CHECKS['C14'] = dict(cat='proof', ref='DESIGN.md §7 C14, notes/C14.md',
  text='Kernel-checked: without --force/--dry-run the command reaches its commit only if FindGitRepo found one repository containing every argument and no modified or deleted path is named by a go-git status key (component-wise), otherwise the tree is '
       'identical; pinned gate refuted three ways. Model compared with FindGitRepo/GetChangedFiles (overlay) and the real binary over git states x fix kinds x argument spellings; restorability judged independently with the git CLI.',
  technique='Coq proof over a Gallina model + differential correspondence with the regal binary in real git repositories',
  note=TB + ' go-git status is an oracle (its key set is taken as given). Open known finding: git-ignored files are rewritten. Repaired in /repo: 97032bc, d50b17a.')

CHECKS['C18'] = dict(cat='proof', ref='DESIGN.md §7 C18, notes/C18.md',
  text='Kernel-checked, axiom-free. (a) config.FindConfig modelled on path strings returns, for directory chains of ANY depth and any spelling of the start path, what the closest directory holding .regal/ or .regal.yaml yields (conflict iff both closest '
       'holders coincide), then user-level file, then defaults; the strict files-only reading is refuted (open finding: config-less .regal/ directories). (b) LoadConfigWithDefaultsFromBundle keeps every rule/option/ignore/level/top-level key the user did not write '
       'and applies what they wrote, instantiated with the regenerated provided config. (c) MarshalYAML/UnmarshalYAML gives back rules, defaults, ignore, project, features for every loaded config; capabilities refuted. Models compared with FindConfig and the real '
       '`regal lint` on exhaustive placements of both kinds on chains of depth <=4 (plus trees rooted at / in a chroot jail, spelled paths), and with yaml decoding, the real mergo merge and yaml round trips on generated user configs.',
  technique='Coq proof over Gallina models + regenerated provided-config table + differential correspondence (vm_compute) with the Go implementation and the built binary',
  note=TB + ' Repaired in /repo: 946e045, eec8980, c2a44f9, f78e575; one open finding (config-less .regal/ directory counts as a configuration).')

CHECKS['C19'] = dict(cat='proof', ref='DESIGN.md §7 C19, notes/C19.md',
  text='Kernel-checked with rule bodies as arbitrary functions: a rule with a notice reports nothing and is listed; rules_skipped = distinct notices with severity != none, identical for one file and n copies and under any completion order; builtins = '
       '(base - minus) + plus; every notices rule fires exactly when the documented need is unmet (regenerated table). Every embedded OPA/EOPA version, a capabilities file and all plus/minus subsets through the real predicates and the real Lint.',
  technique='Coq proof over a Gallina model of capabilities.rego gates, main.rego notice gate, linter.go dedup/counter, plus/minus + differential correspondence',
  note=TB + ' Two defects repaired in /repo (f7a7fe3 nil decl panic, bda07f4 plus declarations dropped).')

CHECKS['C06'] = dict(cat='proof', ref='DESIGN.md §7 C06, notes/C06.md',
  text='Kernel-checked, axiom-free, for ALL comment sets and violations: ignored <=> a directive comment naming exactly the title sits on the same row or the row above; names = comma list with arbitrary '
       'whitespace, exact byte match; reported = raw minus exactly the ignored ones; JSON string keys round-trip; inserting a directive line / appending a trailing directive removes precisely the named violations of '
       'the covered rows and shifts the rest (row-equivariance of rule bodies and parser as named hypotheses; exact general effect also proved); the aggregate report of one run, and of any split into runs that hands the '
       'exported directives on, applies each file its own directives. Compared with ast.ignore_directives/_ignored/keys_to_numbers through OPA on the real bundle and with linter.Lint before/after every violation x 4 '
       'placements x 4 spellings for built-in, custom and aggregate rules (one-shot, two-phase, mixed).',
  technique='Coq proof over a Gallina model of comments.rego/main.rego/util.rego/linter.go carry + differential correspondence (OPA helper evaluation, metamorphic lint runs, vm_compute)',
  note=TB + ' Valid UTF-8 comment text; H_shift observed per case, not proved. Defect repaired in /repo 4817eed (aggregate-only runs ignored no directives).')

CHECKS['C09'] = dict(cat='proof', ref='DESIGN.md §7 C09, notes/C09.md',
  text='Kernel-checked, axiom-free: for ALL rule bodies with order-independent aggregate_report, all workspaces of >=2 distinctly named files, every partition into collect runs, every merge order and completion order, '
       'the two-phase aggregate violations equal the one-shot ones as multisets (bundled+custom rules, empty marker, inline ignores); the language-server cache refines file -> multiset of entries, and one edit '
       '(re-collect, SetFileAggregates, SetFileIgnoreDirectives, report from cache) equals one Lint over the updated workspace unless a custom rule is present by its empty marker alone (_refuted witness, open finding). '
       'Rule bodies tabulated by direct OPA evaluation; compared with linter.Lint over all partitions of <=4 (5) files x merge orders, replace/add/delete histories, cache.Cache and updateFile/AllDiagnostics (overlay).',
  technique='Coq proof over a Gallina model of the collect/report split (linter.go, main.rego) and lsp/cache + differential correspondence (oracle tables, public API, go test -overlay)',
  note=TB + ' H_aggperm observed on every oracle row. Defects repaired in /repo 4817eed, 42020a4; open: cache loses the empty-aggregate marker of custom rules (latent, LSP loads no custom rules).')

CHECKS['C15'] = dict(cat='other', ref='DESIGN.md §7 C15, Appendix A.2, notes/C15.md',
  text='Partial: kernel-checked job-atomic model of the diagnostics pipeline (handlers, file-lint job, dispatcher + rate limiter, workspace run; linter as oracles under linter_ok). Proved, unbounded: at quiescence '
       'published = fresh lint and deleted URIs have none, for every job-atomic schedule of (a) histories that never introduce an unparseable document, config changes allowed, and (b) histories without config change with '
       'arbitrary documents once every file parses (module count != 1). The unrestricted statement, the pinned behaviour and fine-grained schedules are refuted by vm_compute witnesses, each attributed to one modelled defect. '
       'Real server with all workers: corpus + exhaustive short histories + random <=8 + bursts; last publishes vs a from-scratch lint (model-free), vs the model (exact for one-at-a-time delivery) with linter oracles tabulated '
       'on the real linter for exactly the keys the predictions use; every divergence attributed inside Coq.',
  technique='Coq invariant proof over a Gallina LTS + two-pass differential correspondence (vm_compute) against a real LanguageServer via go test -overlay with exact quiescence detection',
  note=TB + ' Real interleavings are sampled only. Not covered: ignored files, config drop, inline ignores, templating. Repaired in /repo: 18a3a58, 5b03de6. Five open findings (see known_findings.d/C15.json).')

CHECKS['C17'] = dict(cat='other', ref='DESIGN.md §7 C17, notes/C17.md',
  text='Partial: kernel-checked guard skeletons (nil/len tests around every pointer dereference, constant index and re-read of the loaded config) of all 25 handled methods and 8 worker bodies: no_panic for the current '
       'revision for all states, messages and concurrent re-reads; refuting witnesses for the pinned revision; the 53 risky sites of server.go are re-extracted on every run and must equal the modelled ones; channel network: '
       'potential strictly decreases, no deadlock. Real server with all workers under generated message sequences (<=30, all methods, unknown/ignored URIs, broken documents, config appearing/disappearing), one process per batch, '
       'crash attribution and shrinking, every request answered, idle at the end; -race in the thorough tier.',
  technique='Coq proof over guard-skeleton programs with a proved-sound static check + regenerated source-site obligation + sequence fuzzing of a real LanguageServer (go test -overlay, -race) with per-message comparison in Coq',
  note=TB + ' Panics inside callee packages and data races are exercised, not proved absent; quick tier runs without -race. Repaired in /repo: 64390fc, 7453f4a, c526ed0, 9066b08, 9bf6f39, f0eaedd, e2330d8.')

NOT_YET = {}

def main():
    props = [json.loads(l)['id'] for l in open(os.path.join(V, 'properties.jsonl'))]
    hooks = []
    try:
        hooks = [l.split()[0] for l in open(os.path.join(V, 'MANIFEST.hooks')) if l.strip() and not l.startswith('#')]
    except OSError:
        pass
    m = {
     'version': 1,
     'setup_cmd': 'sh tools/setup.sh',
     'hooks': {'guard': 'verif', 'enable': 'go build -tags verif (no hook is needed by any check at present; overlay test files are injected with go test -overlay)',
               'baseline_off_cmd': 'cd /repo && GOFLAGS=-mod=mod GOPROXY=off go test -vet=off -count=1 -timeout 25m ./...',
               'source_commits': hooks, 'add_only': True},
     'engines': [{'name': 'coq-model+correspondence', 'path': 'tools/check', 'serves_properties': sorted(CHECKS),
                  'kind_free_text': 'Coq 8.16.1 development under coq/ (models, proofs, property theorems) + Go harness under harness/ + python driver'}],
     'checks': [], 'not_applicable': [],
     'notes': 'See DESIGN.md. Repairs of genuine defects are unguarded "fix:" commits in /repo, listed in known_findings.json as fixed.',
    }
    for p in props:
        if p in CHECKS:
            c = CHECKS[p]
            m['checks'].append({
              'property_id': p, 'quick_cmd': 'tools/check %s --tier quick' % p, 'thorough_cmd': 'tools/check %s --tier thorough' % p,
              'evidence_file': 'evidence/%s.json' % p, 'replay_cmd_template': 'tools/check %s --replay {path}' % p,
              'engine': 'coq-model+correspondence',
              'level_claimed': {'category': c['cat'], 'text': c['text'], 'design_ref': c['ref']},
              'level_note': c.get('note', TB), 'technique': c['technique']})
        else:
            m['not_applicable'].append({'property_id': p, 'reason': NOT_YET.get(p, 'check not built yet in this round (planned, see DESIGN.md §7); not a claim that the technique cannot apply')})
    json.dump(m, open(os.path.join(V, 'MANIFEST.json'), 'w'), indent=1)

if __name__ == '__main__':
    main()
