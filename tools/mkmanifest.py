#!/usr/bin/env python3
"""writes MANIFEST.json from the table below (kept as code so that it is always schema-valid)"""
import json, os, subprocess
V = os.path.abspath(os.path.join(os.path.dirname(__file__), '..'))

TB = ('Trusted: Coq 8.16.1 kernel/vm_compute; hand-written Gallina model tied to /repo by a per-run correspondence check '
      '(Go harness built from the working tree, outputs compared inside Coq); Go stdlib/OPA/third-party components named in '
      'the evidence are modelled or oracles, not verified.')

CHECKS = {
 'C20': dict(cat='proof', ref='DESIGN.md §7 C20',
   text='Kernel-checked theorems: the version lookup equals the deepest-containing-directory specification for every map of clean '
        'distinct keys and every rooted file name (unbounded), is iteration-order independent, config beats manifest; the executable '
        'model is compared with RegoVersionFromVersionsMap/AllRegoVersions/InputFromPaths on exhaustive small key sets and on real '
        'temp trees addressed relatively and absolutely.',
   technique='Coq proof over a Gallina model + differential correspondence (vm_compute) with the Go implementation'),
}

CHECKS['C16'] = dict(cat='proof', ref='DESIGN.md §7 C16, Appendix A.1, notes/C16.md',
   text='Kernel-checked, axiom-free: for ALL pairs of byte strings the model of ComputeEdits returns an edit list (compute_edits_total: '
        'Myers furthest-reaching + overshoot lemmas, index bounds, no fuel exhaustion) and applying it per LSP 3.17 gives exactly `after`, '
        'edits ordered, non-overlapping, inside the document (compute_edits_sound). The model is compared edit list for edit list with the real '
        'ComputeEdits (overlay test) on the exhaustive <=4-line domain over {a,b,""} (40,401 distinct pairs, thorough) and random/real-policy/'
        'CRLF/CR/unicode/malformed pairs; the real edits are also applied independently in Go and by the Coq lsp_apply.',
   technique='Coq proof (Myers diff invariants F1-F3,B1,O1,E1,T1,T2) over a Gallina model of diff.go + differential correspondence via go test -overlay',
   note=TB + ' Editor-specific application and UTF-16 columns are not modelled (all characters are 0). Finding fixed in /repo 778ab02 (lone CR line ends).')

CHECKS['C05'] = dict(cat='proof', ref='DESIGN.md §7 C05, notes/C05.md',
   text='Kernel-checked for ALL patterns, file names, prefixes and glob engines (the engine is a Section variable, nothing assumed): the Go and Rego '
        'pattern expansions coincide, root-relative names coincide for every rule kind, --ignore-files replaces the config list on both sides, filterPaths '
        'returns exactly the order-preserving sublist matched by no non-empty pattern, a matching file yields no violation of the ignored rules and is not scanned '
        'when ignored globally, a non-matching file is never dropped. The model is compared with FilterIgnoredPaths, the OPA-evaluated data.regal.config/main helpers, '
        'linter.Lint, the regal binary and the LSP call sites over all patterns of <=3 tokens (4 in thorough) x 340 paths x 9 prefix/spelling shapes, gobwas/glob as oracle table.',
   technique='Coq proof over a Gallina model of filter.go + exclusion.rego (glob engine as oracle) + differential correspondence (Go API, OPA helper evaluation, binary, LSP overlay)',
   note=TB + ' Domain: every expanded pattern compiles in gobwas/glob (outside it Go errors, Rego says no match). One open finding (relative argument with cwd != project root); '
        'three defects repaired in /repo (5296c24, 85ee130, e493c86).')

CHECKS['C10'] = dict(cat='proof', ref='DESIGN.md §7 C10, notes/C10.md',
   text='Kernel-checked for ALL reports: exit status is 1 iff linting failed, else 3/2/0 exactly as stated for both fail levels; each format (pretty/festive, github at byte level incl. '
        'workflow-command escaping round trip, sarif incl. notices, junit, json) carries every violation exactly once with file, position, rule and level under stated hypotheses whose '
        'necessity is shown by _refuted witnesses; JSON decode(encode r) = r modulo json:"-" fields; compact carries only file and position (open finding). Generated reports go '
        'through the 7 real reporters and are read back by independent parsers, compared inside Coq with the model; exit codes and stdout through the real binary on 6-7 workspaces x 2 fail levels x 7 formats.',
   technique='Coq proof over executable models of cmd/lint.go, main.go, pkg/reporter, pkg/report + differential correspondence (real reporters, real binary, independent output parsers)',
   note=TB + ' Output parsers of the harness are trusted glue. Four defects repaired in /repo (669b4f4 JUnit n^2, 37fa06a XML control chars, ef39a79 UTF-8 cut, 6b7e728 GitHub escaping); '
        'open finding: compact omits rule and level.')

CHECKS['C08'] = dict(cat='other', ref='DESIGN.md §7 C08, notes/C08.md',
   text='Partial by nature: there is no Coq semantics of Rego/OPA, so no theorem speaks about rule bodies. Kernel-checked: the layout layer (blank-line insertion, CRLF conversion, '
        'appending a rule: each original line sits at a computed row with identical content, operations commute, regal\'s line table is independent of line ends) and, by vm_compute '
        'over the docs table regenerated from /repo on every run, that rule directories, docs pages and the provided config correspond and every page has a well-formed Avoid/Prefer pair or a reasoned '
        'exception with a fixture. The sensitivity/specificity claim itself is decided by enumeration: every table row x embeddings of the grammar linted with only that rule enabled.',
   technique='enumeration of the regenerated docs table x layout grammar through linter.Lint, with a Coq-proved layout model (correspondence of texts, rows and line tables) and vm_compute obligations over Gen/GenDocs.v',
   note=TB + ' The oracle is the documentation\'s own Avoid/Prefer labelling; 31 pages need fixtures under corpus/C08. Defects repaired in /repo: ba0fc92, 5309b36 (docs), dd4570e.')

NOT_YET = {}

def main():
    props = [json.loads(l)['id'] for l in open(os.path.join(V, 'properties.jsonl'))]
    hooks = []
    try:
        hooks = [l.split()[0] for l in open(os.path.join(V, 'MANIFEST.hooks')) if l.strip() and not l.startswith('#')]
    except OSError:
        pass
    m = {
     'version': 1,
     'setup_cmd': 'sh tools/setup.sh',
     'hooks': {'guard': 'verif', 'enable': 'go build -tags verif (no hook is needed by any check at present; overlay test files are injected with go test -overlay)',
               'baseline_off_cmd': 'cd /repo && GOFLAGS=-mod=mod GOPROXY=off go test -vet=off -count=1 -timeout 25m ./...',
               'source_commits': hooks, 'add_only': True},
     'engines': [{'name': 'coq-model+correspondence', 'path': 'tools/check', 'serves_properties': sorted(CHECKS),
                  'kind_free_text': 'Coq 8.16.1 development under coq/ (models, proofs, property theorems) + Go harness under harness/ + python driver'}],
     'checks': [], 'not_applicable': [],
     'notes': 'See DESIGN.md. Repairs of genuine defects are unguarded "fix:" commits in /repo, listed in known_findings.json as fixed.',
    }
    for p in props:
        if p in CHECKS:
            c = CHECKS[p]
            m['checks'].append({
              'property_id': p, 'quick_cmd': 'tools/check %s --tier quick' % p, 'thorough_cmd': 'tools/check %s --tier thorough' % p,
              'evidence_file': 'evidence/%s.json' % p, 'replay_cmd_template': 'tools/check %s --replay {path}' % p,
              'engine': 'coq-model+correspondence',
              'level_claimed': {'category': c['cat'], 'text': c['text'], 'design_ref': c['ref']},
              'level_note': c.get('note', TB), 'technique': c['technique']})
        else:
            m['not_applicable'].append({'property_id': p, 'reason': NOT_YET.get(p, 'check not built yet in this round (planned, see DESIGN.md §7); not a claim that the technique cannot apply')})
    json.dump(m, open(os.path.join(V, 'MANIFEST.json'), 'w'), indent=1)

if __name__ == '__main__':
    main()
