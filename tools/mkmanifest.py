#!/usr/bin/env python3
"""writes MANIFEST.json from the table below (kept as code so that it is always schema-valid)"""
import json, os, subprocess
V = os.path.abspath(os.path.join(os.path.dirname(__file__), '..'))

TB = ('Trusted: Coq 8.16.1 kernel/vm_compute; hand-written Gallina model tied to /repo by a per-run correspondence check '
      '(Go harness built from the working tree, outputs compared inside Coq); Go stdlib/OPA/third-party components named in '
      'the evidence are modelled or oracles, not verified.')

CHECKS = {
 'C20': dict(cat='proof', ref='DESIGN.md §7 C20',
   text='Kernel-checked theorems: the version lookup equals the deepest-containing-directory specification for every map of clean '
        'distinct keys and every rooted file name (unbounded), is iteration-order independent, config beats manifest; the executable '
        'model is compared with RegoVersionFromVersionsMap/AllRegoVersions/InputFromPaths on exhaustive small key sets and on real '
        'temp trees addressed relatively and absolutely.',
   technique='Coq proof over a Gallina model + differential correspondence (vm_compute) with the Go implementation'),
}

CHECKS['C16'] = dict(cat='proof', ref='DESIGN.md §7 C16, Appendix A.1, notes/C16.md',
   text='Kernel-checked, axiom-free: for ALL pairs of byte strings the model of ComputeEdits returns an edit list (compute_edits_total: '
        'Myers furthest-reaching + overshoot lemmas, index bounds, no fuel exhaustion) and applying it per LSP 3.17 gives exactly `after`, '
        'edits ordered, non-overlapping, inside the document (compute_edits_sound). The model is compared edit list for edit list with the real '
        'ComputeEdits (overlay test) on the exhaustive <=4-line domain over {a,b,""} (40,401 distinct pairs, thorough) and random/real-policy/'
        'CRLF/CR/unicode/malformed pairs; the real edits are also applied independently in Go and by the Coq lsp_apply.',
   technique='Coq proof (Myers diff invariants F1-F3,B1,O1,E1,T1,T2) over a Gallina model of diff.go + differential correspondence via go test -overlay',
   note=TB + ' Editor-specific application and UTF-16 columns are not modelled (all characters are 0). Finding fixed in /repo 778ab02 (lone CR line ends).')

NOT_YET = {}

def main():
    props = [json.loads(l)['id'] for l in open(os.path.join(V, 'properties.jsonl'))]
    hooks = []
    try:
        hooks = [l.split()[0] for l in open(os.path.join(V, 'MANIFEST.hooks')) if l.strip() and not l.startswith('#')]
    except OSError:
        pass
    m = {
     'version': 1,
     'setup_cmd': 'sh tools/setup.sh',
     'hooks': {'guard': 'verif', 'enable': 'go build -tags verif (no hook is needed by any check at present; overlay test files are injected with go test -overlay)',
               'baseline_off_cmd': 'cd /repo && GOFLAGS=-mod=mod GOPROXY=off go test -vet=off -count=1 -timeout 25m ./...',
               'source_commits': hooks, 'add_only': True},
     'engines': [{'name': 'coq-model+correspondence', 'path': 'tools/check', 'serves_properties': sorted(CHECKS),
                  'kind_free_text': 'Coq 8.16.1 development under coq/ (models, proofs, property theorems) + Go harness under harness/ + python driver'}],
     'checks': [], 'not_applicable': [],
     'notes': 'See DESIGN.md. Repairs of genuine defects are unguarded "fix:" commits in /repo, listed in known_findings.json as fixed.',
    }
    for p in props:
        if p in CHECKS:
            c = CHECKS[p]
            m['checks'].append({
              'property_id': p, 'quick_cmd': 'tools/check %s --tier quick' % p, 'thorough_cmd': 'tools/check %s --tier thorough' % p,
              'evidence_file': 'evidence/%s.json' % p, 'replay_cmd_template': 'tools/check %s --replay {path}' % p,
              'engine': 'coq-model+correspondence',
              'level_claimed': {'category': c['cat'], 'text': c['text'], 'design_ref': c['ref']},
              'level_note': c.get('note', TB), 'technique': c['technique']})
        else:
            m['not_applicable'].append({'property_id': p, 'reason': NOT_YET.get(p, 'check not built yet in this round (planned, see DESIGN.md §7); not a claim that the technique cannot apply')})
    json.dump(m, open(os.path.join(V, 'MANIFEST.json'), 'w'), indent=1)

if __name__ == '__main__':
    main()
