#!/usr/bin/env python3
# props: C19
"""Gen/GatedRules.v: every `notices contains result.notice(rego.metadata.chain()) if <body>` rule of the
bundled lint rules (bundle/regal/rules/**, non-test files), with the METADATA description / custom.severity
in front of it and its body translated into the small condition language of Model/Notices.v.  Also the gated
rules that define `aggregate` / `aggregate_report` (main.rego only gates `report`), and the predicates of
bundle/regal/capabilities/capabilities.rego as written (one row per `<predicate> if <condition>` rule).
Gen/GatedRules.json: the capability dimensions (built-in functions, future keywords, features) named by any of
these conditions -- tools/props/c19.py generates capabilities files over all subsets of them.
Regenerated on every C19 check."""
import json, os, re, sys
sys.path.insert(0, os.path.join(os.path.dirname(os.path.abspath(__file__)), '..', 'lib'))
import vlib
import yaml


def cstr(s):
    return '[' + ';'.join(str(b) for b in s.encode()) + ']'


def is_test_file(name):
    return name.endswith('_test.rego') and name != 'todo_test.rego'


PKG = re.compile(r'^package\s+(\S+)', re.M)
PREDS = {'has_object_keys': 'PHasObjectKeys', 'has_strings_count': 'PHasStringsCount', 'has_if': 'PHasIf',
         'has_contains': 'PHasContains', 'has_rego_v1_feature': 'PHasRegoV1Feature', 'is_opa_v1': 'PIsOpaV1'}


def package_path(text):
    m = PKG.search(text)
    if not m:
        return None
    return [t.group(1) if t.group(1) is not None else t.group(2)
            for t in re.finditer(r'\["([^"]*)"\]|\.?([A-Za-z_][A-Za-z0-9_]*)', m.group(1))]


def literal(expr):
    e = expr.strip()
    neg = False
    if e.startswith('not '):
        neg, e = True, e[4:].strip()
    m = re.fullmatch(r'capabilities\.([a-z0-9_]+)', e)
    if m and m.group(1) in PREDS:
        atom = 'ACap %s' % PREDS[m.group(1)]
    elif re.fullmatch(r'"([^"]*)" in object\.keys\(config\.capabilities\.builtins\)', e):
        atom = 'ABuiltin %s' % cstr(re.fullmatch(r'"([^"]*)" in .*', e).group(1))
    elif re.fullmatch(r'"([^"]*)" in config\.capabilities\.features', e):
        atom = 'AFeature %s' % cstr(re.fullmatch(r'"([^"]*)" in .*', e).group(1))
    elif re.fullmatch(r'"([^"]*)" in config\.capabilities\.special', e):
        atom = 'ASpecial %s' % cstr(re.fullmatch(r'"([^"]*)" in .*', e).group(1))
    elif e == 'input.regal.file.rego_version != "v0"':
        atom = 'AFileNotV0'
    else:
        atom = 'AUnknown %s' % cstr(e)
    return '(%s, %s)' % ('true' if neg else 'false', atom), expr.strip()


def cap_pred_rules(dims):
    """capabilities.rego: `<name> if <condition>` rules -> rows (pred, clause), source order; names the model does not
    know are listed apart"""
    path = os.path.join(vlib.REPO, 'bundle', 'regal', 'capabilities', 'capabilities.rego')
    rows, other = [], []
    try:
        lines = open(path, errors='replace').read().split('\n')
    except OSError:
        return [('PHasIf', 'CUnknown %s' % cstr('capabilities.rego not found'), 'missing file')], []
    for line in lines:
        m = re.match(r'([a-z0-9_]+) if (.*)$', line)
        if not m:
            continue
        name, cond = m.group(1), m.group(2).strip()
        if name not in PREDS:
            other.append(name)
            continue
        k = re.fullmatch(r'"([^"]*)" in config\.capabilities\.future_keywords', cond)
        f = re.fullmatch(r'"([^"]*)" in config\.capabilities\.features', cond)
        b = re.fullmatch(r'"([^"]*)" in object\.keys\(config\.capabilities\.builtins\)', cond)
        if k:
            clause = 'CKeyword %s' % cstr(k.group(1))
            dims['future_keywords'].add(k.group(1))
        elif f:
            clause = 'CFeature %s' % cstr(f.group(1))
            dims['features'].add(f.group(1))
        elif b:
            clause = 'CBuiltin %s' % cstr(b.group(1))
            dims['builtins'].add(b.group(1))
        elif cond in PREDS:
            clause = 'CPred %s' % PREDS[cond]
        else:
            clause = 'CUnknown %s' % cstr(cond)
        rows.append((PREDS[name], clause, line.strip()))
    return rows, other


def metadata_before(lines, i):
    """the METADATA comment block that ends right above line i"""
    j = i - 1
    block = []
    while j >= 0 and lines[j].startswith('#'):
        block.append(lines[j])
        j -= 1
    block.reverse()
    if not block or block[0].strip() != '# METADATA':
        return {}
    try:
        return yaml.safe_load('\n'.join(l[2:] if l.startswith('# ') else l[1:] for l in block[1:])) or {}
    except yaml.YAMLError:
        return {}


def main():
    root = os.path.join(vlib.REPO, 'bundle', 'regal', 'rules')
    rows, with_agg = [], []
    for d, _, files in sorted(os.walk(root)):
        for f in sorted(files):
            if not f.endswith('.rego') or is_test_file(f):
                continue
            text = open(os.path.join(d, f), errors='replace').read()
            parts = package_path(text)
            if not parts or len(parts) != 4 or parts[:2] != ['regal', 'rules']:
                continue
            cat, title = parts[2], parts[3]
            lines = text.split('\n')
            found = False
            for i, line in enumerate(lines):
                if not re.match(r'notices\b', line):
                    continue
                found = True
                m = re.match(r'notices contains result\.notice\(rego\.metadata\.chain\(\)\) if (.*)$', line)
                body, src = [], []
                if not m:
                    body, src = ['(false, AUnknown %s)' % cstr(line.strip())], [line.strip()]
                elif m.group(1).strip() == '{':
                    k = i + 1
                    while k < len(lines) and lines[k].strip() != '}':
                        if lines[k].strip() and not lines[k].strip().startswith('#'):
                            l, t = literal(lines[k])
                            body.append(l)
                            src.append(t)
                        k += 1
                else:
                    l, t = literal(m.group(1))
                    body, src = [l], [t]
                md = metadata_before(lines, i)
                desc = md.get('description') if isinstance(md.get('description'), str) else ''
                sev = (md.get('custom') or {}).get('severity') if isinstance(md.get('custom'), dict) else None
                rows.append((cat, title, desc, sev if isinstance(sev, str) else '', body, src))
            if found and re.search(r'^aggregate(_report)?\b', text, re.M):
                with_agg.append((cat, title))
    dims = {'builtins': set(), 'future_keywords': set(), 'features': set()}
    for _, _, _, _, _, src in rows:
        for e in src:
            for kind, pat in (('builtins', r'"([^"]*)" in object\.keys\(config\.capabilities\.builtins\)'),
                              ('features', r'"([^"]*)" in config\.capabilities\.features'),
                              ('future_keywords', r'"([^"]*)" in config\.capabilities\.future_keywords')):
                for m in re.finditer(pat, e):
                    dims[kind].add(m.group(1))
    prules, other = cap_pred_rules(dims)
    out = ['(* GENERATED by tools/gen/gatedrules.py from bundle/regal/rules/**/*.rego -- do not edit *)',
           'From Regal Require Import Base.Str Model.Notices.', '',
           '(* one row per `notices` rule: category, title, description, severity, body *)',
           'Definition gated_rules : list gate_row := [']
    out.append(';\n'.join('  (* %s/%s [%s]: %s *)\n  mkRow %s %s\n        %s\n        %s\n        [%s]'
                          % (c, t, sev, ' ; '.join(src).replace('*)', '* )'), cstr(c), cstr(t), cstr(desc), cstr(sev), '; '.join(body))
                          for c, t, desc, sev, body, src in rows))
    out += ['].', '', '(* gated rules that also define aggregate / aggregate_report (main.rego gates only `report`) *)',
            'Definition gated_with_aggregate : list (str * str) := [' +
            '; '.join('(%s, %s)' % (cstr(c), cstr(t)) for c, t in with_agg) + '].', '',
            '(* bundle/regal/capabilities/capabilities.rego: one row per `<predicate> if <condition>` rule *)',
            'Definition cap_pred_rules : list (cap_pred * pred_clause) := [',
            ';\n'.join('  (* %s *)\n  (%s, %s)' % (src.replace('*)', '* )'), p, c) for p, c, src in prules), '].', '']
    vlib.write_if_changed(os.path.join(vlib.COQ, 'theories', 'Gen', 'GatedRules.json'),
                          json.dumps({'dims': {k: sorted(v) for k, v in dims.items()}, 'other_capability_rules': sorted(set(other))},
                                     indent=1, sort_keys=True) + '\n')
    vlib.write_if_changed(os.path.join(vlib.COQ, 'theories', 'Gen', 'GatedRules.v'), '\n'.join(out))


if __name__ == '__main__':
    main()
