#!/usr/bin/env python3
"""Regenerates coq/theories/Gen/GenDocs.v (+ GenDocs.json) from <repo>/docs/rules, <repo>/bundle/regal/rules,
<repo>/bundle/regal/config/provided/data.yaml and the committed exception list corpus/C08/exceptions.json.

One row per docs page: (category, rule, kind, #Avoid rego blocks, #Prefer rego blocks, lines of the first block of
each, exception reason code, fixture present?).  The example texts themselves only go to the JSON (for the harness);
the Coq side needs the shape of the table, not the Rego text (there is no Rego semantics in Coq).

Page format (docs/rules/<category>/<rule>.md): a line `**Avoid**`, then fenced ```rego blocks (possibly several: one
per file of a multi-file example, or alternatives), then `**Prefer**` with the same; a section ends at the next
`**Avoid**`/`**Prefer**` line or `## ` heading.  Redirect stubs (renamed/moved rules) have no `**Summary**` line."""
import json, os, re, sys

HERE = os.path.dirname(os.path.abspath(__file__))
VERIF = os.path.abspath(os.path.join(HERE, '..', '..'))
sys.path.insert(0, os.path.join(VERIF, 'tools', 'lib'))

KINDS = ('KPair', 'KAvoidOnly', 'KMulti', 'KNone', 'KRedirect')
# reason classes an exception may carry (justification text lives in exceptions.json)
REASONS = ('RNone', 'RMultiFile', 'RConfig', 'RFileName', 'RCapabilities', 'RNoExample', 'RDocsDefect', 'RAlternatives')

SEC_RE = re.compile(r'^\*\*(Avoid|Prefer)\*\*\s*$')
FENCE_RE = re.compile(r'^(`{3,})\s*([A-Za-z0-9_+-]*)\s*$')


def parse_page(text):
    """-> dict(summary, sections={'Avoid': {'rego': [...], 'other_blocks': n, 'prose': n}, 'Prefer': ...}, present=set)"""
    lines = text.split('\n')
    secs = {s: {'rego': [], 'other_blocks': 0, 'prose': 0} for s in ('Avoid', 'Prefer')}
    present = []
    sec = None
    fence = None        # (ticks, lang, acc)
    summary = None
    typeline = False
    for ln in lines:
        if fence is not None:
            m = FENCE_RE.match(ln)
            if m and len(m.group(1)) >= len(fence[0]) and m.group(2) == '':
                if sec:
                    if fence[1] == 'rego':
                        secs[sec]['rego'].append('\n'.join(fence[2]) + '\n')
                    else:
                        secs[sec]['other_blocks'] += 1
                fence = None
            else:
                fence[2].append(ln)
            continue
        m = SEC_RE.match(ln)
        if m:
            sec = m.group(1)
            present.append(sec)
            continue
        if ln.startswith('## '):
            sec = None
            continue
        m = re.match(r'^\*\*Summary\*\*:\s*(.*)$', ln)
        if m:
            summary = m.group(1)
        if re.match(r'^\*\*Type\*\*:\s*Aggregate\b', ln):
            typeline = True
        m = FENCE_RE.match(ln)
        if m:
            fence = (m.group(1), m.group(2), [])
            continue
        if sec and ln.strip():
            secs[sec]['prose'] += 1
    return {'summary': summary, 'sections': secs, 'present': present, 'unterminated_fence': fence is not None,
            'typeline': typeline}


def classify(p):
    a, b = p['sections']['Avoid'], p['sections']['Prefer']
    na, nb = len(a['rego']), len(b['rego'])
    if p['summary'] is None:
        return 'KRedirect'
    if na == 1 and nb == 1 and a['other_blocks'] == 0 and b['other_blocks'] == 0:
        return 'KPair'
    if na == 0 and nb == 0:
        return 'KNone'
    if na == 1 and nb == 0 and a['other_blocks'] == 0:
        return 'KAvoidOnly'
    return 'KMulti'


def provided_rules(repo):
    """(category, rule) pairs of bundle/regal/config/provided/data.yaml (two-level mapping under `rules:`);
    a tiny indentation reader: no yaml module dependency"""
    out = []
    cat = None
    in_rules = False
    for ln in open(os.path.join(repo, 'bundle/regal/config/provided/data.yaml')):
        if re.match(r'^rules:\s*$', ln):
            in_rules = True
            continue
        if in_rules and re.match(r'^\S', ln):
            in_rules = False
        if not in_rules:
            continue
        m = re.match(r'^  ([A-Za-z0-9_-]+):\s*$', ln)
        if m:
            cat = m.group(1)
            continue
        m = re.match(r'^    ([A-Za-z0-9_-]+):\s*$', ln)
        if m and cat:
            out.append((cat, m.group(1)))
    return sorted(out)


def build_table(repo, verif=VERIF):
    docs = os.path.join(repo, 'docs', 'rules')
    rules = os.path.join(repo, 'bundle', 'regal', 'rules')
    exc_path = os.path.join(verif, 'corpus', 'C08', 'exceptions.json')
    exceptions = json.load(open(exc_path))['exceptions'] if os.path.exists(exc_path) else {}
    rows = []
    for cat in sorted(os.listdir(docs)):
        d = os.path.join(docs, cat)
        if not os.path.isdir(d):
            continue
        for f in sorted(os.listdir(d)):
            if not f.endswith('.md'):
                continue
            name = f[:-3]
            p = parse_page(open(os.path.join(d, f), encoding='utf-8').read())
            kind = classify(p)
            key = cat + '/' + name
            exc = exceptions.get(key)
            fixture = os.path.exists(os.path.join(verif, 'corpus', 'C08', cat, name, 'case.json'))
            a, b = p['sections']['Avoid']['rego'], p['sections']['Prefer']['rego']
            rows.append({
                'category': cat, 'name': name, 'kind': kind, 'summary': p['summary'],
                'avoid': a, 'prefer': b,
                'avoid_lines': a[0].count('\n') if a else 0, 'prefer_lines': b[0].count('\n') if b else 0,
                'reason': exc['reason'] if exc else 'RNone', 'why': exc.get('why', '') if exc else '',
                'fixture': fixture, 'typeline': p['typeline'],
                'redirect_to': redirect_target(open(os.path.join(d, f), encoding='utf-8').read()) if kind == 'KRedirect' else None,
            })
    rule_dirs = []
    for cat in sorted(os.listdir(rules)):
        d = os.path.join(rules, cat)
        if not os.path.isdir(d):
            continue
        for r in sorted(os.listdir(d)):
            rd = os.path.join(d, r)
            if os.path.isdir(rd) and any(x.endswith('.rego') for x in os.listdir(rd)):
                rule_dirs.append((cat, r))
    aggregate = []
    for cat, r in rule_dirs:
        rd = os.path.join(rules, cat, r)
        src = ''.join(open(os.path.join(rd, x)).read() for x in sorted(os.listdir(rd))
                      if x.endswith('.rego') and not x.endswith('_test.rego'))
        if re.search(r'^aggregate_report\b', src, re.M):
            aggregate.append((cat, r))
    stale = sorted(k for k in exceptions if k not in {r['category'] + '/' + r['name'] for r in rows})
    return {'rows': rows, 'rule_dirs': rule_dirs, 'provided': provided_rules(repo), 'aggregate': aggregate,
            'stale_exceptions': stale}


def redirect_target(text):
    """name of the rule a redirect stub points to (last path component of the first link)"""
    m = re.search(r'\]\(([^)]+)\)', text)
    if not m:
        return None
    t = m.group(1).rstrip('/')
    t = t[:-3] if t.endswith('.md') else t
    parts = t.split('/')
    return parts[-2] + '/' + parts[-1] if len(parts) >= 2 else None


def cstr(s):
    return '[' + ';'.join(str(x) for x in s.encode('utf-8')) + ']%N'


def coq_text(t):
    o = ['(* GENERATED by tools/gen/docs_table.py from docs/rules, bundle/regal/rules, provided/data.yaml and',
         '   corpus/C08/exceptions.json -- do not edit. Data only; the obligations over it are in Model/DocsTable.v, Proofs/DocsTable.v. *)',
         'From Coq Require Import List NArith.', 'Import ListNotations.', 'Open Scope N_scope.', '',
         'Inductive page_kind := KPair | KAvoidOnly | KMulti | KNone | KRedirect.',
         'Inductive exc_reason := RNone | RMultiFile | RConfig | RFileName | RCapabilities | RNoExample | RDocsDefect | RAlternatives.',
         '',
         '(* category, rule, kind, #Avoid rego blocks, #Prefer rego blocks, lines of first Avoid block, lines of first',
         '   Prefer block, exception reason, dedicated fixture corpus/C08/<category>/<rule>/case.json present,',
         '   page carries a Type: Aggregate line, redirect target (category/rule, [] when none) *)',
         'Record docs_row := { d_cat : list N; d_name : list N; d_kind : page_kind; d_navoid : nat; d_nprefer : nat;',
         '  d_avoid_lines : nat; d_prefer_lines : nat; d_reason : exc_reason; d_fixture : bool; d_typeline : bool;',
         '  d_redirect : list N * list N }.',
         '', 'Definition docs_rows : list docs_row := [']
    rs = []
    for r in t['rows']:
        rt = (r['redirect_to'] or '/').split('/')
        rs.append('  (* %s/%s *) {| d_cat := %s; d_name := %s; d_kind := %s; d_navoid := %d; d_nprefer := %d; '
                  'd_avoid_lines := %d; d_prefer_lines := %d; d_reason := %s; d_fixture := %s; d_typeline := %s; d_redirect := (%s, %s) |}' % (
                      r['category'], r['name'], cstr(r['category']), cstr(r['name']), r['kind'], len(r['avoid']),
                      len(r['prefer']), r['avoid_lines'], r['prefer_lines'], r['reason'],
                      'true' if r['fixture'] else 'false', 'true' if r['typeline'] else 'false', cstr(rt[0]) if rt[0] else '[]', cstr(rt[1]) if rt[1] else '[]'))
    o.append(';\n'.join(rs))
    o.append('].')
    o.append('')

    def pairs(name, xs, comment):
        o.append('(* %s *)' % comment)
        o.append('Definition %s : list (list N * list N) := [' % name)
        o.append(';\n'.join('  (* %s/%s *) (%s, %s)' % (c, r, cstr(c), cstr(r)) for c, r in xs))
        o.append('].')
        o.append('')
    pairs('rule_dirs', t['rule_dirs'], 'directories bundle/regal/rules/<category>/<rule>/ holding a non-test .rego file')
    pairs('provided_rules', t['provided'], 'rules listed in bundle/regal/config/provided/data.yaml')
    pairs('aggregate_rules', t['aggregate'], 'rule directories whose source defines aggregate_report')
    pairs('stale_exceptions', [tuple(k.split('/', 1)) for k in t['stale_exceptions']],
          'exception entries naming no docs page (must be empty)')
    return '\n'.join(o) + '\n'


def main():
    import vlib
    t = build_table(vlib.REPO)
    vlib.write_if_changed(os.path.join(VERIF, 'coq', 'theories', 'Gen', 'GenDocs.v'), coq_text(t))
    vlib.write_if_changed(os.path.join(VERIF, 'coq', 'theories', 'Gen', 'GenDocs.json'),
                          json.dumps(t, indent=1, sort_keys=True) + '\n')
    return 0


if __name__ == '__main__':
    sys.exit(main())
