#!/usr/bin/env python3
# props: C15 C17
"""Regenerates coq/theories/Gen/LspShape.v from <repo>/internal/lsp/server.go, <repo>/internal/lsp/cache/*.go and
the other non-test files of <repo>/internal/lsp.

Purely syntactic extract.

A. (C17) per top-level function of server.go, the risky accesses that the guard skeletons of Model/LspGuards.v are
   about, in source order:
     1 = a slice indexed with the constant 0            (`xs[0]`)
     2 = a use of the loaded-config pointer             (`*cfg`, `cfg.Field`, `l.getLoadedConfig().Field`)
     3 = dereference of an optional request/option ptr  (`*params.X`, `*l.clientInitializationOptions.X`)
     4 = `.CodeDescription.Href` (optional pointer in a diagnostic)
     5 = a send on one of the server's job channels     (`l.<chan> <- ...`; the channel network of C17)
   Props of C17 compare this list with the sites the skeletons were written from
   (Model.LspGuards.modelled_sites): a new or removed site breaks the obligation until the model is revisited.

B. (C15, C17) the shape of the language server's cache (internal/lsp/cache), the state shared by the request handler,
   the file-lint worker and the workspace-lint worker.  The job-atomic model of C15 and its theorem
   `set_for_rules_merge` ASSUME that every cache operation on one map entry is atomic and that values handed in/out
   are never written through afterwards.  Extracted, per function of the package in source order:
     cache_funcs    every function / method (so that a new one is noticed: the cache-level test drives every one);
     cache_fields   the concurrent maps of the Cache struct;
     cache_sites    every access of a concurrent map: (function, field, map method, text of the key argument);
                    a use of a map field that is not a direct method call is listed with method "<escapes>";
     cache_calls    calls of other functions of the package (compositions of atomic operations);
     cache_inplace  every write through a slice or map: `x[:0]`-style reslicing, element assignment `x[i] = v`,
                    `delete(x, k)`, `clear(x)`, in-place sorts, `copy(x, ...)`, `slices.DeleteFunc(x, ..)` and the like, with the written
                    variable and whether
                    that variable is a fresh local of the function (`x := make(...)`, `x := T{...}`, `var x T`);
     lsp_cache_rmw  for every function of internal/lsp/*.go: pairs Get<X> ... Set<X> (or Set<X>ForRules) of the same
                    cache item called in one function, i.e. read-modify-write sequences made OUTSIDE the cache.
   Model.LspCache lists what the model of the cache was written from; Props compare (vm_compute).

C. (C15, C17; go/ast, extractor harness/cmd/lspshape, binary cached under /var/tmp keyed by the hash of its source)
     lsp_guarded_sites   every risky access of internal/lsp/*.go PAIRED with the guards that dominate it
                         (file, function, kind, expression, guard conditions, protected by a length / nil test);
                         kinds: 1 constant index, 6 computed index, 7 slice expression, 3 pointer dereference;
     lint_cache_writes   every cache write of internal/lsp/lint.go after the call of the linter, with the way its key
                         is known to be still present in the cache (range-post / range-pre / whole / none);
     limiter_drop_gen    the condition under which the dispatcher of StartDiagnosticsWorker drops a workspace-lint
                         job, as a Coq function of (AggregateReportOnly, OverwriteAggregates, len(workspaceLintRuns))."""
import hashlib, json, os, re, subprocess, sys

HERE = os.path.dirname(os.path.abspath(__file__))
VERIF = os.path.abspath(os.path.join(HERE, '..', '..'))
sys.path.insert(0, os.path.join(VERIF, 'tools', 'lib'))
import vlib

PATTERNS = [
    (1, re.compile(r'\[0\]')),
    (2, re.compile(r'\*cfg\b|\bcfg\.[A-Za-z]|getLoadedConfig\(\)\.')),
    (3, re.compile(r'\*params\.\w+|\*l\.clientInitializationOptions\.\w+')),
    (4, re.compile(r'\.CodeDescription\.Href')),
    (5, re.compile(r'\bl\.(lintFileJobs|lintWorkspaceJobs|builtinsPositionJobs|commandRequest|templateFileJobs)\s*<-|\bworkspaceLintRuns\s*<-')),
]
FUNC_RE = re.compile(r'^func (?:\([^)]*\)\s*)?([A-Za-z0-9_]+)')


def strip_line(code):
    code = re.sub(r'"(?:[^"\\]|\\.)*"', '""', code)      # string literals first: they may contain /* or //
    code = re.sub(r'`[^`]*`', '``', code)
    code = re.sub(r"'(?:[^'\\]|\\.)'", "' '", code)
    return code


def code_lines(src):
    """(line without comments and string contents) per source line"""
    out = []
    in_block_comment = False
    for line in src.split('\n'):
        code = line
        if in_block_comment:
            if '*/' in code:
                code = code.split('*/', 1)[1]
                in_block_comment = False
            else:
                out.append('')
                continue
        code = strip_line(code)
        code = re.sub(r'/\*.*?\*/', '', code)
        if '/*' in code:
            code = code.split('/*', 1)[0]
            in_block_comment = True
        code = code.split('//', 1)[0]
        out.append(code)
    return out


def sites(src):
    out = []
    fn = None
    for raw, code in zip(src.split('\n'), code_lines(src)):
        m = FUNC_RE.match(raw)
        if m:
            fn = m.group(1)
        if fn is None:
            continue
        for kind, rx in PATTERNS:
            for _ in rx.finditer(code):
                out.append((fn, kind))
    return out


# ---------------------------------------------------------------------------------- B: the cache
def functions(src):
    """[(name, receiver variable or '', parameter text, body with comments/strings stripped and white space collapsed)]
    for every top-level function of a gofmt-formatted file (a body ends at the next line that is exactly `}`)"""
    raw = src.split('\n')
    code = code_lines(src)
    out = []
    i = 0
    while i < len(raw):
        m = re.match(r'^func (?:\(\s*(\w+)?\s*\*?\s*[\w.\[\], ]+\)\s*)?([A-Za-z0-9_]+)', raw[i])
        if not m:
            i += 1
            continue
        j = i
        while j < len(raw) and raw[j] != '}' and not (j == i and raw[j].rstrip().endswith('}') and raw[j].count('{') == raw[j].count('}') and '{' in raw[j]):
            j += 1
        text = ' '.join(code[i:j + 1])
        text = re.sub(r'\s+', ' ', text)
        text = re.sub(r'\s*\.\s*', '.', text)           # method chains broken over lines
        text = re.sub(r'\s*\(\s*', '(', text)
        out.append((m.group(2), m.group(1) or '', text))
        i = j + 1
    return out


def first_arg(text, pos):
    """text of the first argument of the call whose '(' is at pos"""
    depth, k = 0, pos
    start = pos + 1
    while k < len(text):
        c = text[k]
        if c in '([{':
            depth += 1
        elif c in ')]}':
            depth -= 1
            if depth == 0:
                return text[start:k].strip()
        elif c == ',' and depth == 1:
            return text[start:k].strip()
        k += 1
    return text[start:].strip()


def struct_fields(src, name):
    """names of the fields of struct `name` whose type mentions concurrent.Map"""
    code = code_lines(src)
    out, inside = [], False
    for line in code:
        if re.match(r'^type %s struct\b' % name, line):
            inside = True
            continue
        if inside:
            if line.startswith('}'):
                break
            m = re.match(r'^\s*(\w+)\s+(\*?\s*concurrent\.Map\b.*)$', line)
            if m:
                out.append(m.group(1))
    return out


INPLACE = [
    ('reslice0', re.compile(r'\b([A-Za-z_]\w*)\[\s*:\s*0\s*\]')),
    ('elemwrite', re.compile(r'(?<![\w.\])])([A-Za-z_]\w*)\[[^\[\]]*(?:\[[^\[\]]*\][^\[\]]*)*\]\s*(?:=(?!=)|\+=|-=|\+\+|--)')),
    ('delete', re.compile(r'(?<![\w.])delete\(([A-Za-z_]\w*)')),
    ('clear', re.compile(r'(?<![\w.])clear\(([A-Za-z_]\w*)')),
    ('copy', re.compile(r'(?<![\w.])copy\(([A-Za-z_]\w*)')),
    ('sort', re.compile(r'\b(?:sort\.(?:Slice|SliceStable|Strings|Ints|Sort|Stable)|slices\.(?:Sort|SortFunc|SortStableFunc|Reverse))\(([A-Za-z_]\w*)')),
    ('appendprefix', re.compile(r'\bappend\(([A-Za-z_]\w*)\[\s*:[^\]]*\]')),
    ('slicesinplace', re.compile(r'\bslices\.(?:DeleteFunc|Delete|Compact|CompactFunc|Insert|Replace)\(([A-Za-z_]\w*)')),
    ('mapsinplace', re.compile(r'\bmaps\.(?:DeleteFunc|Copy|Insert)\(([A-Za-z_]\w*)')),
]


def fresh_locals(text):
    """variables that are created empty in the function: x := make(..), x := T{..} / []T{..} / map[..]..{..}, var x T"""
    out = set(re.findall(r'\b([A-Za-z_]\w*) := make\(', text))
    out |= set(re.findall(r'\b([A-Za-z_]\w*) := (?:\[\]|map\[|&?[A-Za-z_][\w.]*\{)', text))
    out |= set(re.findall(r'\bvar ([A-Za-z_]\w*) ', text))
    return out


def cache_shape(repo):
    d = os.path.join(repo, 'internal', 'lsp', 'cache')
    try:
        files = sorted(f for f in os.listdir(d) if f.endswith('.go') and not f.endswith('_test.go'))
    except OSError:
        files = []
    funcs, fields, acc, calls, inplace = [], [], [], [], []
    srcs = []
    for f in files:
        try:
            srcs.append(open(os.path.join(d, f), errors='replace').read())
        except OSError:
            pass
    for src in srcs:
        fields += struct_fields(src, 'Cache')
    allf = []
    for src in srcs:
        allf += functions(src)
    names = [n for n, _, _ in allf]
    for name, recv, text in allf:
        funcs.append(name)
        body = text[text.find('{'):] if '{' in text else ''
        ev = []
        # accesses of the concurrent maps: <anything>.<field>.<Method>(key
        for fld in fields:
            for m in re.finditer(r'\b(\w+)\.%s\b(\.(\w+)\()?' % re.escape(fld), body):
                if m.group(2):
                    key = first_arg(body, m.end() - 1)
                    ev.append((m.start(), 'site', (fld, m.group(3), key)))
                else:
                    ev.append((m.start(), 'site', (fld, '<escapes>', '')))
        # calls of functions of the package
        for m in re.finditer(r'(?<![\w])(?:(\w+)\.)?([A-Za-z_]\w*)\(', body):
            callee = m.group(2)
            if callee in names and m.group(1) not in fields:
                # x.Name( where x is not one of the concurrent maps (whose methods Delete, ... share names with methods of
                # the Cache), or a bare Name(
                ev.append((m.start(), 'call', callee))
        loc = fresh_locals(body)
        for kind, rx in INPLACE:
            for m in rx.finditer(body):
                v = m.group(1)
                ev.append((m.start(), 'inplace', (kind, v, v in loc)))
        ev.sort(key=lambda e: e[0])
        for _, k, x in ev:
            if k == 'site':
                acc.append((name,) + x)
            elif k == 'call':
                calls.append((name, x))
            else:
                inplace.append((name,) + x)
    return bool(srcs), funcs, fields, acc, calls, inplace


def lsp_rmw(repo):
    """(file, function, item) for every function of internal/lsp/*.go (non-test) in which the cache getter Get<item> is
    called and, later in the text of the same function, a setter of the same item (Set<item>, Set<item>ForRules)"""
    d = os.path.join(repo, 'internal', 'lsp')
    out = []
    try:
        files = sorted(f for f in os.listdir(d) if f.endswith('.go') and not f.endswith('_test.go'))
    except OSError:
        files = []
    for f in files:
        try:
            src = open(os.path.join(d, f), errors='replace').read()
        except OSError:
            continue
        for name, _, text in functions(src):
            gets = [(m.start(), m.group(1)) for m in re.finditer(r'\b[cC]ache\.Get(\w+)\(', text)]
            sets = [(m.start(), m.group(1)) for m in re.finditer(r'\b[cC]ache\.Set(\w+)\(', text)]
            seen = set()
            for gp, item in gets:
                for sp, sitem in sets:
                    if sp > gp and (sitem == item or sitem == item + 'ForRules') and item not in seen:
                        seen.add(item)
                        out.append((f, name, item))
    return out


def lspshape_json():
    """output of the go/ast extractor, or None when it cannot be built / the tree does not parse"""
    src = os.path.join(vlib.HARNESS, 'cmd', 'lspshape', 'main.go')
    h = hashlib.sha1(open(src, 'rb').read()).hexdigest()[:16]
    binp = os.path.join(os.environ.get('VERIF_TMP', '/var/tmp'), 'verif_lspshape_' + h)
    if not os.path.exists(binp):
        tmp = binp + '.%d' % os.getpid()
        rc, out = vlib.run([vlib.GO, 'build', '-o', tmp, src], cwd=os.path.dirname(src), env=vlib.goenv(), timeout=300)
        if rc != 0:
            sys.stderr.write(out)
            sys.exit(1)
        os.replace(tmp, binp)
    p = subprocess.run([binp, vlib.REPO], stdout=subprocess.PIPE, stderr=subprocess.PIPE, text=True, timeout=120)
    if p.returncode != 0:
        return None
    return json.loads(p.stdout)


def qs(s):
    """text of a Go expression as the contents of a Coq string literal (ASCII, no double quote)"""
    s = s.replace('"', "'")
    return ''.join(c if 32 <= ord(c) < 127 else '?' for c in s)


def ast_part():
    o = lspshape_json()
    if o is None:
        o = {'guarded': [], 'lintwrites': [], 'lint_found': False,
             'limiter': {'found': False, 'cond': '', 'coq': 'true', 'translatable': False, 'capacity': 0, 'drops': 0}}
    lim = o['limiter']
    v = ['', '(* ---- go/ast extract (harness/cmd/lspshape) ---- *)',
         '(* (file, function, kind, expression, dominating guards that are about the site, protected by a length / nil test) *)',
         'Definition lsp_guarded_sites : list (str * str * N * str * list str * bool) := [',
         ';\n'.join('  (lit "%s", lit "%s", %d, lit "%s", [%s], %s)' % (
             g['file'], g['func'], g['kind'], qs(g['expr']), '; '.join('lit "%s"' % qs(x) for x in g['guards']),
             vlib.cbool(g['protected'])) for g in o['guarded']), '].',
         '(* internal/lsp/lint.go: (function, cache method, key argument, how the key is known to be present) for every cache',
         '   write after the call of the linter *)',
         'Definition lint_found : bool := %s.' % vlib.cbool(o['lint_found']),
         'Definition lint_cache_writes : list (str * str * str * str) := [',
         ';\n'.join('  (lit "%s", lit "%s", lit "%s", lit "%s")' % (w['func'], w['method'], qs(w['key']), w['guard'])
                    for w in o['lintwrites']), '].',
         '(* StartDiagnosticsWorker, clause `case job := <-l.lintWorkspaceJobs`: when is the job NOT forwarded to workspaceLintRuns *)',
         'Definition limiter_found : bool := %s.' % vlib.cbool(lim['found']),
         'Definition limiter_translatable : bool := %s.' % vlib.cbool(lim['translatable']),
         'Definition limiter_capacity : N := %d.' % lim['capacity'],
         'Definition limiter_cond_text : str := lit "%s".' % qs(lim['cond']),
         'Definition limiter_drop_gen (aggonly overwrite : bool) (qlen : N) : bool :=',
         '  %s.' % lim['coq']]
    return v


def coq_str_list(xs):
    return '[' + '; '.join('lit "%s"' % x for x in xs) + ']'


def q(s):
    return s.replace('"', "'")


def main():
    p = os.path.join(vlib.REPO, 'internal', 'lsp', 'server.go')
    try:
        src = open(p, errors='replace').read()
        found = True
    except OSError:
        src, found = '', False
    ss = sites(src)
    v = ['(* GENERATED by tools/gen/lspshape.py from internal/lsp/server.go, internal/lsp/cache/*.go and internal/lsp/*.go of the',
         '   working tree; do not edit. *)',
         'From Coq Require Import List NArith String.', 'From Regal Require Import Base.StrLit.', 'Import ListNotations.',
         'Open Scope N_scope.', '',
         'Definition lsp_server_found : bool := %s.' % vlib.cbool(found),
         '(* (function of server.go, kind of risky access), in source order *)',
         'Definition lsp_sites : list (str * N) := [']
    v.append(';\n'.join('  (lit "%s", %d)' % (fn, k) for fn, k in ss))
    v.append('].')
    cfound, funcs, fields, acc, calls, inplace = cache_shape(vlib.REPO)
    rmw = lsp_rmw(vlib.REPO)
    v += ['', '(* ---- internal/lsp/cache ---- *)',
          'Definition cache_found : bool := %s.' % vlib.cbool(cfound),
          '(* concurrent maps of the Cache struct, in source order *)',
          'Definition cache_fields : list str := %s.' % coq_str_list(fields),
          '(* every function / method of the package, in source order *)',
          'Definition cache_funcs : list str := [',
          ';\n'.join('  lit "%s"' % f for f in funcs), '].',
          '(* (function, (map field, method of concurrent.Map, text of the key argument)), in source order *)',
          'Definition cache_sites : list (str * (str * str * str)) := [',
          ';\n'.join('  (lit "%s", (lit "%s", lit "%s", lit "%s"))' % (fn, fld, meth, q(key)) for fn, fld, meth, key in acc), '].',
          '(* (function, function of the package it calls), in source order *)',
          'Definition cache_calls : list (str * str) := [',
          ';\n'.join('  (lit "%s", lit "%s")' % (a, b) for a, b in calls), '].',
          '(* writes through a slice or map: (function, (kind, variable written, variable is a fresh local)) *)',
          'Definition cache_inplace : list (str * (str * str * bool)) := [',
          ';\n'.join('  (lit "%s", (lit "%s", lit "%s", %s))' % (fn, k, var, vlib.cbool(loc)) for fn, k, var, loc in inplace), '].',
          '(* internal/lsp/*.go: (file, function, cache item X) where Get<X> is followed by Set<X>[ForRules] in one function *)',
          'Definition lsp_cache_rmw : list (str * str * str) := [',
          ';\n'.join('  (lit "%s", lit "%s", lit "%s")' % x for x in rmw), '].']
    v += ast_part()
    vlib.write_if_changed(os.path.join(vlib.COQ, 'theories', 'Gen', 'LspShape.v'), '\n'.join(v) + '\n')


if __name__ == '__main__':
    main()
