#!/bin/sh
# tools/seedtest.sh <PROPERTY_ID> <patch.diff> [tier]
# applies a seeded change to a scratch worktree of /repo (never to /repo itself), runs the property's check
# against it via VERIF_REPO and reports whether the check raised an alarm; removes the worktree afterwards.
set -u
ID="$1"; PATCH="$(realpath "$2")"; TIER="${3:-quick}"
WT="$(mktemp -d /tmp/wt-seed-XXXXXX)"; rmdir "$WT"
git -C /repo worktree add --detach "$WT" HEAD -q || exit 2
( cd "$WT" && git apply "$PATCH" ) || { echo "patch does not apply"; git -C /repo worktree remove --force "$WT"; exit 2; }
cd "$(dirname "$0")/.."
VERIF_REPO="$WT" tools/check "$ID" --tier "$TIER"; rc=$?
git -C /repo worktree remove --force "$WT"
echo "seedtest: property=$ID patch=$PATCH exit=$rc"
exit $rc
