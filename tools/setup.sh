#!/bin/sh
# offline setup: build the Coq development (full .vo build) and warm the Go build cache
set -e
cd "$(dirname "$0")/.."
python3 - <<'PY'
import sys, os
sys.path.insert(0, 'tools/lib')
import vlib
ok, log = vlib.build_coq()
print(log[-3000:])
# a file that fails to build only affects the properties depending on it (make -k); each check re-validates its own closure
sys.exit(0)
PY
GO=/root/go/pkg/mod/golang.org/toolchain@v0.0.1-go1.24.0.linux-amd64/bin/go
[ -x "$GO" ] || GO=go
cp /repo/go.sum harness/go.sum
(cd harness && GOFLAGS=-mod=mod GOPROXY=off GOSUMDB=off GOTOOLCHAIN=local $GO build -o /dev/null ./... ) || true
