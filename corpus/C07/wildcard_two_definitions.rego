package p






q(_) = true

q(_) = false
