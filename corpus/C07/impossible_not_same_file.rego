package p

partial contains 1

allow if {
	not partial
}
