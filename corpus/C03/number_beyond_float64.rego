package p

x := 2e308
