package p

default x := 1

default x := 2

x := 2 if input.a
