package p

eq(a) := a

r if {
	x = 1
	x == 1
}
