package p

f(x) if 1 == 2

g(_) if null == false
