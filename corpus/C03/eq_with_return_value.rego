package p

r if {
	some a in input.xs
	eq(a, 2, x)
	x == true
}
