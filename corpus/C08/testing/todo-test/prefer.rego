package policy_test

import data.policy

# Make sure this passes
test_allow_if_admin if {
    policy.allow with input as {"user": {"roles": ["admin"]}}
}
