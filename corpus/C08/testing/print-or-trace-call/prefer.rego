package policy

reasons contains sprintf("%q is a dog!", [user.name]) if {
    some user in input.users
    user.species == "canine"
}
