package policy

allow if {
    trace("checking admin")
    input.user == "admin"
}
