package policy_test

import data.policy

test_allow if policy.allow with input as {"user": "admin"}
