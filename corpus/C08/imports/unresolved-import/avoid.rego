package policy

import data.users.first_names
import data.nowhere.to_be_found

has_waldo if "Waldo" in first_names

x := to_be_found
