package policy

# this is provided as data!
# regal ignore:unresolved-import
import data.nowhere.to_be_found

x := to_be_found
