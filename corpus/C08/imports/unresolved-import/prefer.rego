package policy

import data.users.first_names

has_waldo if "Waldo" in first_names
