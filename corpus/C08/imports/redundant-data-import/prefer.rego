package policy

import data.users
