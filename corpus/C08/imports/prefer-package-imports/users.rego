package users

first_names := {"Waldo", "Wenda"}
