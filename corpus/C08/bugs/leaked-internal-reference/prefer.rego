package policy

import data.users.all_users

allow if {
    some role in data.permissions.roles
    role in all_users
}
