package policy_test

import data.policy

test_helper if policy._is_admin with input as {"user": {"roles": ["admin"]}}
