package policy

allow if true
