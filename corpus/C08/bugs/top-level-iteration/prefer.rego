package policy

user := input.users[0]

users contains user if some user in input.users
