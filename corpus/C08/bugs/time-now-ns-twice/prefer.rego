package policy

timed if {
    now := time.now_ns()

    print("started at:", now)
}
