package policy

allow if true

allow if {
    input.x == 10
}
