package policy

either := 1 + 1

starts_with_r := indexof("rego", "r")
