package lib

helper := 1
