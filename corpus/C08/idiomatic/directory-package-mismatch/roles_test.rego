package authorization.rbac.roles_test

import data.authorization.rbac.roles

test_admin if "admin" in roles.roles
