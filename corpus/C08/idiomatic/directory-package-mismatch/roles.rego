package authorization.rbac.roles

roles := {"admin", "viewer"}
