package policy

allow if {
    input.x == 0
}

allow if {
    input.x == 1
}

allow if {
    input.x == 2
}

allow if {
    input.x == 3
}

allow if {
    input.x == 4
}

allow if {
    input.x == 5
}

allow if {
    input.x == 6
}

allow if {
    input.x == 7
}

allow if {
    input.x == 8
}

allow if {
    input.x == 9
}

allow if {
    input.x == 10
}

allow if {
    input.x == 11
}

allow if {
    input.x == 12
}

allow if {
    input.x == 13
}

allow if {
    input.x == 14
}

allow if {
    input.x == 15
}

allow if {
    input.x == 16
}

allow if {
    input.x == 17
}

allow if {
    input.x == 18
}

allow if {
    input.x == 19
}

allow if {
    input.x == 20
}

allow if {
    input.x == 21
}

allow if {
    input.x == 22
}

allow if {
    input.x == 23
}

allow if {
    input.x == 24
}

allow if {
    input.x == 25
}

allow if {
    input.x == 26
}

allow if {
    input.x == 27
}

allow if {
    input.x == 28
}

allow if {
    input.x == 29
}

allow if {
    input.x == 30
}

allow if {
    input.x == 31
}

allow if {
    input.x == 32
}

allow if {
    input.x == 33
}

allow if {
    input.x == 34
}

allow if {
    input.x == 35
}

allow if {
    input.x == 36
}

allow if {
    input.x == 37
}

allow if {
    input.x == 38
}

allow if {
    input.x == 39
}

allow if {
    input.x == 40
}

allow if {
    input.x == 41
}

allow if {
    input.x == 42
}

allow if {
    input.x == 43
}

allow if {
    input.x == 44
}

allow if {
    input.x == 45
}

allow if {
    input.x == 46
}

allow if {
    input.x == 47
}

allow if {
    input.x == 48
}

allow if {
    input.x == 49
}

allow if {
    input.x == 50
}

allow if {
    input.x == 51
}

allow if {
    input.x == 52
}

allow if {
    input.x == 53
}

allow if {
    input.x == 54
}

allow if {
    input.x == 55
}

allow if {
    input.x == 56
}

allow if {
    input.x == 57
}

allow if {
    input.x == 58
}

allow if {
    input.x == 59
}

allow if {
    input.x == 60
}

allow if {
    input.x == 61
}

allow if {
    input.x == 62
}

allow if {
    input.x == 63
}

allow if {
    input.x == 64
}

allow if {
    input.x == 65
}

allow if {
    input.x == 66
}

allow if {
    input.x == 67
}

allow if {
    input.x == 68
}

allow if {
    input.x == 69
}

allow if {
    input.x == 70
}

allow if {
    input.x == 71
}

allow if {
    input.x == 72
}

allow if {
    input.x == 73
}

allow if {
    input.x == 74
}

allow if {
    input.x == 75
}

allow if {
    input.x == 76
}

allow if {
    input.x == 77
}

allow if {
    input.x == 78
}

allow if {
    input.x == 79
}

allow if {
    input.x == 80
}

allow if {
    input.x == 81
}

allow if {
    input.x == 82
}

allow if {
    input.x == 83
}

allow if {
    input.x == 84
}

allow if {
    input.x == 85
}

allow if {
    input.x == 86
}

allow if {
    input.x == 87
}

allow if {
    input.x == 88
}

allow if {
    input.x == 89
}

allow if {
    input.x == 90
}

allow if {
    input.x == 91
}

allow if {
    input.x == 92
}

allow if {
    input.x == 93
}

allow if {
    input.x == 94
}

allow if {
    input.x == 95
}

allow if {
    input.x == 96
}

allow if {
    input.x == 97
}

allow if {
    input.x == 98
}

allow if {
    input.x == 99
}

allow if {
    input.x == 100
}

allow if {
    input.x == 101
}

allow if {
    input.x == 102
}

allow if {
    input.x == 103
}

allow if {
    input.x == 104
}

allow if {
    input.x == 105
}

allow if {
    input.x == 106
}

allow if {
    input.x == 107
}

allow if {
    input.x == 108
}

allow if {
    input.x == 109
}

allow if {
    input.x == 110
}

allow if {
    input.x == 111
}

allow if {
    input.x == 112
}

allow if {
    input.x == 113
}

allow if {
    input.x == 114
}

allow if {
    input.x == 115
}

allow if {
    input.x == 116
}

allow if {
    input.x == 117
}

allow if {
    input.x == 118
}

allow if {
    input.x == 119
}

allow if {
    input.x == 120
}

allow if {
    input.x == 121
}

allow if {
    input.x == 122
}

allow if {
    input.x == 123
}

allow if {
    input.x == 124
}

allow if {
    input.x == 125
}

allow if {
    input.x == 126
}

allow if {
    input.x == 127
}

allow if {
    input.x == 128
}

allow if {
    input.x == 129
}

