package policy

allow if {
    input.x == 0
}

allow if {
    input.x == 1
}

allow if {
    input.x == 2
}

allow if {
    input.x == 3
}

allow if {
    input.x == 4
}

allow if {
    input.x == 5
}

allow if {
    input.x == 6
}

allow if {
    input.x == 7
}

allow if {
    input.x == 8
}

allow if {
    input.x == 9
}

allow if {
    input.x == 10
}

allow if {
    input.x == 11
}

allow if {
    input.x == 12
}

allow if {
    input.x == 13
}

allow if {
    input.x == 14
}

allow if {
    input.x == 15
}

allow if {
    input.x == 16
}

allow if {
    input.x == 17
}

allow if {
    input.x == 18
}

allow if {
    input.x == 19
}

