package policy

# implementation
allow := true

i := input.i + 1
