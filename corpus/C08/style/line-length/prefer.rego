package policy

allow if {
    input.user.name == "aaaaaaaaaaaaaaaaaaaaaaaaaaaaaaaaaaaaaaaaaaaaaaaaaaaaaaaaaaaa"
    input.user.role == "bbbbbbbbbbbbbbbbbbbbbbbbbbbbbbbbbbbbbbbbbbbbbbbbbbbbbbbbbbbb"
}
