package policy

# word0 word1 word2 word3 word4 word5 word6 word7 word8 word9 word10 word11 word12 word13 word14 word15 word16 word17 word18 word19 word20 word21 word22 word23 word24 word25 word26 word27 word28 word29
allow := true
