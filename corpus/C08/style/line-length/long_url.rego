package policy

# see https://example.com/aaaaaaaaaaaaaaaaaaaaaaaaaaaaaaaaaaaaaaaaaaaaaaaaaaaaaaaaaaaaaaaaaaaaaaaaaaaaaaaaaaaaaaaaaaaaaaaaaaaaaaaaaaaaaa for details
allow := true
