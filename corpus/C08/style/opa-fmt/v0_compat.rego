package policy

import rego.v1

allow if {
	input.x == 1
}
