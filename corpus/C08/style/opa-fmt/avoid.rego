package policy

allow   if {
    input.x == 1
}
