package policy_test

test_allow if {
    data.policy.allow with input as {"x": 0}
    data.policy.allow with input as {"x": 1}
    data.policy.allow with input as {"x": 2}
    data.policy.allow with input as {"x": 3}
    data.policy.allow with input as {"x": 4}
    data.policy.allow with input as {"x": 5}
    data.policy.allow with input as {"x": 6}
    data.policy.allow with input as {"x": 7}
    data.policy.allow with input as {"x": 8}
    data.policy.allow with input as {"x": 9}
    data.policy.allow with input as {"x": 10}
    data.policy.allow with input as {"x": 11}
    data.policy.allow with input as {"x": 12}
    data.policy.allow with input as {"x": 13}
    data.policy.allow with input as {"x": 14}
    data.policy.allow with input as {"x": 15}
    data.policy.allow with input as {"x": 16}
    data.policy.allow with input as {"x": 17}
    data.policy.allow with input as {"x": 18}
    data.policy.allow with input as {"x": 19}
    data.policy.allow with input as {"x": 20}
    data.policy.allow with input as {"x": 21}
    data.policy.allow with input as {"x": 22}
    data.policy.allow with input as {"x": 23}
    data.policy.allow with input as {"x": 24}
    data.policy.allow with input as {"x": 25}
    data.policy.allow with input as {"x": 26}
    data.policy.allow with input as {"x": 27}
    data.policy.allow with input as {"x": 28}
    data.policy.allow with input as {"x": 29}
    data.policy.allow with input as {"x": 30}
    data.policy.allow with input as {"x": 31}
    data.policy.allow with input as {"x": 32}
    data.policy.allow with input as {"x": 33}
    data.policy.allow with input as {"x": 34}
    data.policy.allow with input as {"x": 35}
    data.policy.allow with input as {"x": 36}
    data.policy.allow with input as {"x": 37}
    data.policy.allow with input as {"x": 38}
    data.policy.allow with input as {"x": 39}
}
