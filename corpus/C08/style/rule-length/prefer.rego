package policy

allow if {
    input.x0 == 0
    input.x1 == 1
    input.x2 == 2
    input.x3 == 3
    input.x4 == 4
}
