package policy

allow if io.jwt.verify_hs256(input.token, "secret")
