package policy

allow if io.jwt.verify_rs256(input.token, data.keys.cert)
