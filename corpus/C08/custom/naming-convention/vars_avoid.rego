package acmecorp.policy

allow if {
    UserName := input.user
    UserName == "admin"
}
