package acmecorp.policy

allow if {
    user_name := input.user
    user_name == "admin"
}
