package acmecorp.policy

allow if _is_admin

_is_admin if input.user == "admin"
