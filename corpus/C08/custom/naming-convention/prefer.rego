package acmecorp.policy

allow if _admin

_admin if input.user == "admin"
