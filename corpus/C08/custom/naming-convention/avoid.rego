package policy

authorized if input.user == "admin"
