package policy

allow if input.user == "admin"
