# METADATA
# description: helpers
package acmecorp.lib

# METADATA
# description: a helper
helper := 1
