package acmecorp.lib

helper := 1
