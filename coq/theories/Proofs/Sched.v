(* C01 — proofs about the aggregation layer of Model/Sched.v: the merge under the mutex is
   insensitive to the order in which workers acquire it (up to the order-free reading of the
   report), so are Lint's post-processing and InputFromPaths/NewInput. *)
From Coq Require Import List Permutation Lia Arith Bool.
From Regal Require Import Model.Sched Proofs.SchedLTS.
Import ListNotations.
Local Open Scope nat_scope.

(* ---------------------------------------------------------------- small list facts *)
Lemma Permutation_filter' {A} (f : A -> bool) (l1 l2 : list A) :
  Permutation l1 l2 -> Permutation (filter f l1) (filter f l2).
Proof.
  induction 1 as [ | x l1 l2 _ IH | x y l | l1 l2 l3 _ IH1 _ IH2]; cbn.
  - constructor.
  - destruct (f x); [constructor | ]; exact IH.
  - destruct (f x), (f y); try apply Permutation_refl. apply perm_swap.
  - eapply Permutation_trans; eassumption.
Qed.

Lemma Permutation_flat_map' {A B} (f : A -> list B) (l1 l2 : list A) :
  Permutation l1 l2 -> Permutation (flat_map f l1) (flat_map f l2).
Proof.
  induction 1 as [ | x l1 l2 _ IH | x y l | l1 l2 l3 _ IH1 _ IH2]; cbn.
  - constructor.
  - apply Permutation_app_head. exact IH.
  - rewrite !app_assoc. apply Permutation_app_tail. apply Permutation_app_comm.
  - eapply Permutation_trans; eassumption.
Qed.

Lemma nodup_length_perm {A} (dec : forall a b : A, {a = b} + {a <> b}) (l1 l2 : list A) :
  Permutation l1 l2 -> length (nodup dec l1) = length (nodup dec l2).
Proof.
  intros H. apply Permutation_length. apply NoDup_Permutation; try apply NoDup_nodup.
  intros x. rewrite !nodup_In. split; intros Hx.
  - eapply Permutation_in; eassumption.
  - eapply Permutation_in; [apply Permutation_sym | ]; eassumption.
Qed.

Lemma map_nth_seq {A} (l : list A) (d : A) : map (fun i => nth i l d) (seq 0 (length l)) = l.
Proof.
  induction l as [ | x l IH]; [reflexivity | ].
  cbn [length seq map nth]. f_equal. rewrite <- seq_shift, map_map. exact IH.
Qed.

(* ---------------------------------------------------------------- Go maps *)
Lemma mget_mset_same {A} (m : list (str * A)) k v : mget (mset m k v) k = Some v.
Proof.
  induction m as [ | [k' v'] m IH]; cbn.
  - rewrite str_eqb_refl. reflexivity.
  - destruct (str_eqb k k') eqn:E; cbn; rewrite ?str_eqb_refl, ?E; auto.
Qed.

Lemma mget_mset_other {A} (m : list (str * A)) k q v : q <> k -> mget (mset m k v) q = mget m q.
Proof.
  intros Hne. induction m as [ | [k' v'] m IH]; cbn.
  - destruct (str_eqb_spec q k); [contradiction | reflexivity].
  - destruct (str_eqb_spec k k') as [<- | Hk]; cbn.
    + destruct (str_eqb_spec q k); [contradiction | reflexivity].
    + destruct (str_eqb q k'); [reflexivity | exact IH].
Qed.

Lemma mget_In_fst {A} (m : list (str * A)) k v : mget m k = Some v -> In k (map fst m).
Proof.
  induction m as [ | [k' v'] m IH]; cbn; [discriminate | ].
  destruct (str_eqb_spec k k') as [-> | Hne]; [left; reflexivity | right; auto].
Qed.

Lemma mget_None_not_In {A} (m : list (str * A)) k : mget m k = None -> ~ In k (map fst m).
Proof.
  induction m as [ | [k' v'] m IH]; cbn; [tauto | ].
  destruct (str_eqb_spec k k') as [-> | Hne]; [discriminate | ].
  intros H [E | Hin]; [congruence | exact (IH H Hin)].
Qed.

Lemma mset_keys {A} (m : list (str * A)) k v x :
  In x (map fst (mset m k v)) <-> x = k \/ In x (map fst m).
Proof.
  induction m as [ | [k' v'] m IH]; cbn.
  - split; [intros [<- | []]; auto | intros [-> | []]; auto].
  - destruct (str_eqb_spec k k') as [<- | Hk]; cbn.
    + split; [intros [<- | H]; auto | intros [-> | [<- | H]]; auto].
    + rewrite IH. split.
      * intros [<- | [-> | H]]; auto.
      * intros [-> | [<- | H]]; auto.
Qed.

Lemma mset_NoDup {A} (m : list (str * A)) k v : NoDup (map fst m) -> NoDup (map fst (mset m k v)).
Proof.
  induction m as [ | [k' v'] m IH]; cbn; intros Hnd.
  - constructor; [intros [] | constructor].
  - inversion Hnd as [ | ? ? Hnin Hnd']; subst.
    destruct (str_eqb_spec k k') as [<- | Hk]; cbn.
    + constructor; assumption.
    + constructor; [ | apply IH; assumption].
      rewrite mset_keys. intros [E | Hin]; [congruence | contradiction].
Qed.

(* ---------------------------------------------------------------- aggregates *)
Definition nonmarker (a : agg) : bool := negb (is_marker a).

(* what a batch of entries under one key does to that key of the shared map *)
Definition ext (o : option (list agg)) (es : list agg) : option (list agg) :=
  match es with
  | [] => o
  | _ => Some (match o with Some l => l | None => [] end ++ filter nonmarker es)
  end.

Lemma ext_app o e1 e2 : ext (ext o e1) e2 = ext o (e1 ++ e2).
Proof.
  destruct e1 as [ | a e1]; [reflexivity | ].
  destruct e2 as [ | b e2].
  - rewrite app_nil_r. reflexivity.
  - cbn [ext app]. f_equal. rewrite <- app_assoc. f_equal.
    change (a :: e1 ++ b :: e2) with ((a :: e1) ++ (b :: e2)). rewrite filter_app. reflexivity.
Qed.

Lemma mget_add_agg_same k m a : mget (add_agg k m a) k = ext (mget m k) [a].
Proof.
  unfold add_agg, ext, nonmarker. cbn [filter].
  destruct (is_marker a) eqn:E; cbn [negb].
  - destruct (mget m k) as [l | ] eqn:G.
    + rewrite G, app_nil_r. reflexivity.
    + rewrite mget_mset_same. reflexivity.
  - rewrite mget_mset_same. reflexivity.
Qed.

Lemma mget_add_agg_other k q m a : q <> k -> mget (add_agg k m a) q = mget m q.
Proof.
  intros Hne. unfold add_agg. destruct (is_marker a).
  - destruct (mget m k); [reflexivity | apply mget_mset_other; exact Hne].
  - apply mget_mset_other; exact Hne.
Qed.

Lemma mget_fold_add_same k l : forall m, mget (fold_left (add_agg k) l m) k = ext (mget m k) l.
Proof.
  induction l as [ | a l IH]; intros m; cbn [fold_left]; [reflexivity | ].
  rewrite IH, mget_add_agg_same. apply (ext_app (mget m k) [a] l).
Qed.

Lemma mget_fold_add_other k q l : q <> k -> forall m, mget (fold_left (add_agg k) l m) q = mget m q.
Proof.
  intros Hne. induction l as [ | a l IH]; intros m; cbn [fold_left]; [reflexivity | ].
  rewrite IH. apply mget_add_agg_other; exact Hne.
Qed.

(* all entries a per-file result holds under key q *)
Definition entries (q : str) (ra : amap) : list agg :=
  flat_map (fun kl => if str_eqb q (fst kl) then snd kl else []) ra.

Lemma mget_merge_aggs q ra : forall m, mget (merge_aggs m ra) q = ext (mget m q) (entries q ra).
Proof.
  unfold merge_aggs. induction ra as [ | [k l] ra IH]; intros m; cbn [fold_left entries flat_map fst snd].
  - reflexivity.
  - rewrite IH. fold (entries q ra). rewrite <- ext_app. f_equal.
    destruct (str_eqb_spec q k) as [-> | Hne].
    + apply mget_fold_add_same.
    + rewrite mget_fold_add_other by exact Hne. reflexivity.
Qed.

(* ---------------------------------------------------------------- directives *)
Fixpoint find_last (q : str) (l : dmap) : option str :=
  match l with
  | [] => None
  | (k, v) :: l' => match find_last q l' with
                    | Some v' => Some v'
                    | None => if str_eqb q k then Some v else None
                    end
  end.

Definition or_else {A} (a b : option A) : option A := match a with Some _ => a | None => b end.

Lemma mget_merge_dirs q rd : forall d, mget (merge_dirs d rd) q = or_else (find_last q rd) (mget d q).
Proof.
  unfold merge_dirs. induction rd as [ | [k v] rd IH]; intros d; cbn [fold_left find_last fst snd].
  - reflexivity.
  - rewrite IH. destruct (find_last q rd) as [v' | ]; cbn [or_else]; [reflexivity | ].
    destruct (str_eqb_spec q k) as [-> | Hne]; cbn [or_else].
    + apply mget_mset_same.
    + apply mget_mset_other; exact Hne.
Qed.

Lemma find_last_app q l1 l2 : find_last q (l1 ++ l2) = or_else (find_last q l2) (find_last q l1).
Proof.
  induction l1 as [ | [k v] l1 IH]; cbn [app find_last].
  - destruct (find_last q l2); reflexivity.
  - rewrite IH. destruct (find_last q l2); cbn [or_else]; reflexivity.
Qed.

Lemma find_last_In q l : NoDup (map fst l) -> forall v, (find_last q l = Some v <-> In (q, v) l).
Proof.
  induction l as [ | [k w] l IH]; cbn [find_last map fst]; intros Hnd v.
  - split; [discriminate | intros []].
  - inversion Hnd as [ | ? ? Hnin Hnd']; subst. specialize (IH Hnd').
    destruct (find_last q l) as [v' | ] eqn:E.
    + split.
      * intros [= ->]. right. apply IH. reflexivity.
      * intros [[= -> ->] | Hin].
        -- exfalso. apply Hnin. assert (H : In (q, v') l) by (apply IH; reflexivity).
           apply (in_map fst) in H. exact H.
        -- apply IH in Hin. exact Hin.
    + destruct (str_eqb_spec q k) as [-> | Hne].
      * split.
        -- intros [= ->]. left. reflexivity.
        -- intros [[= ->] | Hin]; [reflexivity | ]. apply IH in Hin. discriminate.
      * split; [discriminate | ].
        intros [[= E1 _] | Hin]; [congruence | ]. apply IH in Hin. discriminate.
Qed.

(* ---------------------------------------------------------------- the fold, field by field *)
Definition all_dirs (rs : list result) : dmap := flat_map r_dirs rs.

Lemma dir_keys_all_dirs rs : dir_keys rs = map fst (all_dirs rs).
Proof.
  unfold dir_keys, all_dirs. induction rs as [ | r rs IH]; cbn; [reflexivity | ].
  rewrite map_app, IH. reflexivity.
Qed.

Lemma fold_merge_V rs : forall s, V (fold_left merge rs s) = V s ++ flat_map r_viol rs.
Proof.
  induction rs as [ | r rs IH]; intros s; cbn [fold_left flat_map].
  - rewrite app_nil_r. reflexivity.
  - rewrite IH. cbn. rewrite app_assoc. reflexivity.
Qed.

Lemma fold_merge_N rs : forall s, Nn (fold_left merge rs s) = Nn s ++ flat_map r_notices rs.
Proof.
  induction rs as [ | r rs IH]; intros s; cbn [fold_left flat_map].
  - rewrite app_nil_r. reflexivity.
  - rewrite IH. cbn. rewrite app_assoc. reflexivity.
Qed.

Lemma fold_merge_A q rs : forall s,
  mget (A (fold_left merge rs s)) q = ext (mget (A s) q) (flat_map (fun r => entries q (r_aggs r)) rs).
Proof.
  induction rs as [ | r rs IH]; intros s; cbn [fold_left flat_map]; [reflexivity | ].
  rewrite IH. cbn [merge lupd A]. rewrite mget_merge_aggs. apply ext_app.
Qed.

Lemma fold_merge_D q rs : forall s,
  mget (D (fold_left merge rs s)) q = or_else (find_last q (all_dirs rs)) (mget (D s) q).
Proof.
  unfold all_dirs. induction rs as [ | r rs IH]; intros s; cbn [fold_left flat_map]; [reflexivity | ].
  rewrite IH. cbn [merge lupd D]. rewrite mget_merge_dirs, find_last_app.
  destruct (find_last q (flat_map r_dirs rs)); reflexivity.
Qed.

(* ---------------------------------------------------------------- permutation of the merge order *)
Lemma ext_perm o e1 e2 : Permutation e1 e2 ->
  match ext o e1, ext o e2 with
  | Some l1, Some l2 => Permutation l1 l2
  | None, None => True
  | _, _ => False
  end.
Proof.
  intros Hp. destruct e1 as [ | a e1].
  - apply Permutation_nil in Hp. subst. cbn. destruct o; [apply Permutation_refl | exact I].
  - destruct e2 as [ | b e2]; [apply Permutation_sym, Permutation_nil in Hp; discriminate | ].
    cbn [ext]. apply Permutation_app_head. apply Permutation_filter'. exact Hp.
Qed.

(* the three clauses of merge_perm_equiv *)
Theorem merge_perm_equiv (rs1 rs2 : list result) (s : report) :
  Permutation rs1 rs2 ->
  let x := fold_left merge rs1 s in
  let y := fold_left merge rs2 s in
  Permutation (V x) (V y) /\ Permutation (Nn x) (Nn y) /\ aggs_equiv (A x) (A y) /\
  (NoDup (dir_keys rs1) -> dirs_equiv (D x) (D y)).
Proof.
  intros Hp x y. subst x y. repeat split.
  - rewrite !fold_merge_V. apply Permutation_app_head, Permutation_flat_map'; exact Hp.
  - rewrite !fold_merge_N. apply Permutation_app_head, Permutation_flat_map'; exact Hp.
  - intros q. rewrite !fold_merge_A. apply ext_perm. apply Permutation_flat_map'; exact Hp.
  - intros Hnd q. rewrite !fold_merge_D.
    assert (Hpd : Permutation (all_dirs rs1) (all_dirs rs2)) by (apply Permutation_flat_map'; exact Hp).
    rewrite dir_keys_all_dirs in Hnd.
    assert (Hnd2 : NoDup (map fst (all_dirs rs2))).
    { eapply Permutation_NoDup; [apply Permutation_map; exact Hpd | exact Hnd]. }
    assert (E : find_last q (all_dirs rs1) = find_last q (all_dirs rs2)).
    { destruct (find_last q (all_dirs rs1)) as [v | ] eqn:E1.
      - apply (find_last_In q _ Hnd v) in E1. symmetry. apply (find_last_In q _ Hnd2 v).
        eapply Permutation_in; eassumption.
      - destruct (find_last q (all_dirs rs2)) as [v | ] eqn:E2; [ | reflexivity].
        apply (find_last_In q _ Hnd2 v) in E2.
        assert (H : In (q, v) (all_dirs rs1)) by (eapply Permutation_in; [apply Permutation_sym | ]; eassumption).
        apply (find_last_In q _ Hnd v) in H. congruence. }
    rewrite E. reflexivity.
Qed.

(* without distinct file names the directives DO depend on the order: last writer wins *)
Example dirs_need_distinct_names :
  exists r1 r2, ~ dirs_equiv (D (fold_left merge [r1; r2] empty_report))
                             (D (fold_left merge [r2; r1] empty_report)).
Proof.
  exists {| r_viol := []; r_notices := []; r_aggs := []; r_dirs := [([102%N], [49%N])] |},
         {| r_viol := []; r_notices := []; r_aggs := []; r_dirs := [([102%N], [50%N])] |}.
  intros H. specialize (H [102%N]). vm_compute in H. discriminate.
Qed.

(* ---------------------------------------------------------------- finalize *)
Lemma notice_eqb_spec a b : reflect (a = b) (notice_eqb a b).
Proof.
  destruct a as [k1 s1], b as [k2 s2]. unfold notice_eqb; cbn.
  destruct (str_eqb_spec k1 k2) as [-> | H1]; cbn.
  - destruct (str_eqb_spec s1 s2) as [-> | H2]; constructor; congruence.
  - constructor; congruence.
Qed.

Lemma notice_mem_In x l : notice_mem x l = true <-> In x l.
Proof.
  unfold notice_mem. rewrite existsb_exists. split.
  - intros (y & Hy & E). destruct (notice_eqb_spec x y); [subst; exact Hy | discriminate].
  - intros H. exists x. split; [exact H | ]. destruct (notice_eqb_spec x x); congruence.
Qed.

Definition counted (x : notice) : bool := negb (str_eqb (n_sev x) NONE).

Lemma dedup_fold_spec ns : forall acc,
  NoDup (fst acc) -> snd acc = length (filter counted (fst acc)) ->
  let r := fold_left dedup_step ns acc in
  NoDup (fst r) /\ snd r = length (filter counted (fst r)) /\
  (forall x, In x (fst r) <-> In x (fst acc) \/ In x ns).
Proof.
  induction ns as [ | n ns IH]; intros acc Hnd Hc; cbn [fold_left]; cbn zeta.
  - repeat split; auto. intros [H | []]; exact H.
  - assert (Hs : dedup_step acc n = if notice_mem n (fst acc) then acc
                 else (fst acc ++ [n], if str_eqb (n_sev n) NONE then snd acc else S (snd acc)))
      by reflexivity.
    rewrite Hs. clear Hs. destruct (notice_mem n (fst acc)) eqn:E.
    + destruct (IH acc Hnd Hc) as (H1 & H2 & H3). repeat split; auto.
      * intros Hx. apply H3 in Hx. destruct Hx as [Hx | Hx]; [left; exact Hx | right; right; exact Hx].
      * intros [Hx | [<- | Hx]]; apply H3; auto. left. apply notice_mem_In. exact E.
    + assert (Hnin : ~ In n (fst acc)).
      { intros Hin. apply notice_mem_In in Hin. congruence. }
      destruct (IH (fst acc ++ [n], if str_eqb (n_sev n) NONE then snd acc else S (snd acc)))
        as (H1 & H2 & H3); cbn [fst snd].
      * apply NoDup_app_snoc; assumption.
      * rewrite filter_app, app_length. cbn [filter]. unfold counted at 2.
        destruct (str_eqb (n_sev n) NONE); cbn [negb length]; lia.
      * repeat split; auto.
        -- intros Hx. apply H3 in Hx. cbn [fst] in Hx. rewrite in_app_iff in Hx. cbn [In] in *. tauto.
        -- intros Hx. apply H3. cbn [fst]. rewrite in_app_iff. cbn [In] in *. tauto.
Qed.

Lemma dedup_notices_spec ns :
  let r := dedup_notices ns in
  NoDup (fst r) /\ snd r = length (filter counted (fst r)) /\ (forall x, In x (fst r) <-> In x ns).
Proof.
  unfold dedup_notices. destruct (dedup_fold_spec ns ([], 0)) as (H1 & H2 & H3); cbn; auto.
  - constructor.
  - repeat split; auto.
    + intros Hx. apply H3 in Hx. destruct Hx as [[] | Hx]; exact Hx.
    + intros Hx. apply H3. right. exact Hx.
Qed.

Lemma dedup_notices_perm ns1 ns2 : Permutation ns1 ns2 ->
  Permutation (fst (dedup_notices ns1)) (fst (dedup_notices ns2)) /\
  snd (dedup_notices ns1) = snd (dedup_notices ns2).
Proof.
  intros Hp.
  destruct (dedup_notices_spec ns1) as (N1 & C1 & M1).
  destruct (dedup_notices_spec ns2) as (N2 & C2 & M2).
  assert (P : Permutation (fst (dedup_notices ns1)) (fst (dedup_notices ns2))).
  { apply NoDup_Permutation; auto. intros x. rewrite M1, M2. split; intros Hx.
    - eapply Permutation_in; eassumption.
    - eapply Permutation_in; [apply Permutation_sym | ]; eassumption. }
  split; [exact P | ]. rewrite C1, C2. apply Permutation_length. apply Permutation_filter'. exact P.
Qed.

Lemma aggs_equiv_refl a : aggs_equiv a a.
Proof. intros k. destruct (mget a k); [apply Permutation_refl | exact I]. Qed.

Lemma aggs_equiv_nil a b : aggs_equiv a b -> is_nil a = is_nil b.
Proof.
  intros H. destruct a as [ | [k v] a], b as [ | [k' v'] b]; cbn; auto.
  - specialize (H k'). cbn in H. rewrite str_eqb_refl in H. destruct H.
  - specialize (H k). cbn in H. rewrite str_eqb_refl in H. destruct H.
Qed.

Lemma dirs_equiv_refl d : dirs_equiv d d.
Proof. intros k. reflexivity. Qed.

Section Finalize.
  Variable aggreport : amap -> dmap -> list viol.
  (* H_aggperm: the aggregate phase reads its input as a set of entries per rule *)
  Hypothesis H_aggperm : forall a1 a2 d1 d2,
    aggs_equiv a1 a2 -> dirs_equiv d1 d2 -> Permutation (aggreport a1 d1) (aggreport a2 d2).

  Lemma mget_app {X} (a b : list (str * X)) q :
    mget (a ++ b) q = match mget a q with Some v => Some v | None => mget b q end.
  Proof.
    induction a as [ | [k v] a IH]; cbn; [reflexivity | ].
    destruct (str_eqb q k); [reflexivity | exact IH].
  Qed.

  Lemma dirs_union_equiv prior d1 d2 :
    dirs_equiv d1 d2 -> dirs_equiv (dirs_union prior d1) (dirs_union prior d2).
  Proof. intros H q. unfold dirs_union. rewrite !mget_app, H. reflexivity. Qed.

  Theorem finalize_equiv (overridden : option amap) (prior : dmap) (n : nat) (s1 s2 : report) :
    Permutation (V s1) (V s2) -> Permutation (Nn s1) (Nn s2) ->
    aggs_equiv (A s1) (A s2) -> dirs_equiv (D s1) (D s2) ->
    report_equiv (finalize aggreport overridden prior n s1) (finalize aggreport overridden prior n s2).
  Proof.
    intros HV HN HA HD.
    destruct (dedup_notices_perm _ _ HN) as [Pn Cn].
    pose proof (dirs_union_equiv prior _ _ HD) as HDu.
    assert (Hown : aggs_equiv (if Nat.ltb 1 n then A s1 else []) (if Nat.ltb 1 n then A s2 else [])).
    { destruct (Nat.ltb 1 n); [exact HA | apply aggs_equiv_refl]. }
    set (own1 := if Nat.ltb 1 n then A s1 else []) in *.
    set (own2 := if Nat.ltb 1 n then A s2 else []) in *.
    assert (Hall' : aggs_equiv
              (match overridden with Some o => if is_nil o then own1 else o | None => own1 end)
              (match overridden with Some o => if is_nil o then own2 else o | None => own2 end)).
    { destruct overridden as [o | ]; [ | exact Hown].
      destruct (is_nil o); [exact Hown | apply aggs_equiv_refl]. }
    set (all1 := match overridden with Some o => if is_nil o then own1 else o | None => own1 end) in *.
    set (all2 := match overridden with Some o => if is_nil o then own2 else o | None => own2 end) in *.
    assert (Hav : Permutation (f_aggviol (finalize aggreport overridden prior n s1))
                              (f_aggviol (finalize aggreport overridden prior n s2))).
    { unfold finalize; cbn [f_aggviol]. fold own1 own2. fold all1 all2.
      rewrite (aggs_equiv_nil _ _ Hall').
      destruct (negb (is_nil all2) || is_some overridden || Nat.ltb 1 n); [ | constructor].
      apply H_aggperm; assumption. }
    assert (Hall : Permutation (V s1 ++ f_aggviol (finalize aggreport overridden prior n s1))
                               (V s2 ++ f_aggviol (finalize aggreport overridden prior n s2))).
    { apply Permutation_app; assumption. }
    unfold report_equiv. unfold finalize in *;
      cbn [f_viol f_aggviol f_notices f_scanned f_failed f_skipped f_num f_aggs f_dirs] in *.
    repeat split; auto.
    - unfold failed_files. apply nodup_length_perm. apply Permutation_map. exact Hall.
    - apply Permutation_length. exact Hall.
  Qed.

  (* ---- the property theorem ---------------------------------------------------------------- *)
  Definition empty_result : result := {| r_viol := []; r_notices := []; r_aggs := []; r_dirs := [] |}.

  Lemma lput_lupd l r s : lput l (lupd l r s) s = lupd l r s.
  Proof. destruct l, s; reflexivity. Qed.

  Lemma rest_merge_writes (p : list (stmt lloc)) r : forall s,
    rest_merge lupd p r s = fold_left (fun s l => lupd l r s) (writes_until_unlock p) s.
  Proof.
    induction p as [ | [ | | l | l | ] p IH]; intros s; cbn; auto.
  Qed.

  Lemma fold_lupd_modelled ws r : forall s,
    fold_left (fun s l => lupd l r s) ws s = fold_left (fun s l => lupd l r s) (filter is_modelled ws) s.
  Proof.
    induction ws as [ | l ws IH]; intros s; cbn [fold_left filter]; [reflexivity | ].
    destruct l; cbn [is_modelled fold_left]; rewrite IH; reflexivity.
  Qed.

  Lemma merge_of_is_merge (prog : list (stmt lloc)) :
    modelled_writes prog = [LViol; LNotice; LAggs; LDirs] ->
    forall s r, merge_of lupd prog s r = merge s r.
  Proof.
    intros Hm s r. unfold merge_of. rewrite rest_merge_writes, fold_lupd_modelled.
    unfold modelled_writes, cs_writes in Hm. rewrite Hm. reflexivity.
  Qed.

  Lemma fold_left_ext {X Y} (f g : X -> Y -> X) l : (forall a b, f a b = g a b) ->
    forall a, fold_left f l a = fold_left g l a.
  Proof. intros H. induction l as [ | y l IH]; intros a; cbn; [reflexivity | rewrite H; apply IH]. Qed.

  (* lts_complete_is_fold for the linter: a complete execution of the per-file workers ends in
     the sequential fold of merge over the results in lock-acquisition order *)
  Theorem lts_complete_is_fold (prog : list (stmt lloc)) (rs : list result) sched st :
    all_shared_writes_locked lloc_eqb prog = true ->
    modelled_writes prog = [LViol; LNotice; LAggs; LDirs] ->
    complete lupd lput prog (length rs) (fun i => nth i rs empty_result) empty_report sched st ->
    exists pi, Permutation pi rs /\ sh st = fold_left merge pi empty_report.
  Proof.
    intros Hl Hm Hc.
    destruct (complete_is_fold _ _ _ lupd lput lput_lupd lloc_eqb (writes_of prog) prog
                (length rs) (fun i => nth i rs empty_result) empty_report Hl sched st Hc) as [Hsh Hp].
    exists (map (fun i => nth i rs empty_result) (acq st)). split.
    - eapply Permutation_trans; [apply Permutation_map; exact Hp | ].
      rewrite map_nth_seq. apply Permutation_refl.
    - rewrite Hsh. apply fold_left_ext. apply merge_of_is_merge. exact Hm.
  Qed.

  Theorem lint_schedule_independent (prog : list (stmt lloc)) :
    all_shared_writes_locked lloc_eqb prog = true ->
    modelled_writes prog = [LViol; LNotice; LAggs; LDirs] ->
    forall (res : str -> bool -> result) (overridden : option amap) (prior : dmap) (force : bool)
           (names1 names2 : list str),
    Permutation names1 names2 ->
    let rs1 := map (fun f => res f (collect_flag force (length names1))) names1 in
    let rs2 := map (fun f => res f (collect_flag force (length names2))) names2 in
    NoDup (dir_keys rs1) ->
    forall sched1 sched2 st1 st2,
    complete lupd lput prog (length rs1) (fun i => nth i rs1 empty_result) empty_report sched1 st1 ->
    complete lupd lput prog (length rs2) (fun i => nth i rs2 empty_result) empty_report sched2 st2 ->
    report_equiv (finalize aggreport overridden prior (length names1) (sh st1))
                 (finalize aggreport overridden prior (length names2) (sh st2)).
  Proof.
    intros Hl Hm res overridden prior force names1 names2 Hp rs1 rs2 Hnd sched1 sched2 st1 st2 H1 H2.
    destruct (lts_complete_is_fold prog rs1 sched1 st1 Hl Hm H1) as (p1 & Pp1 & E1).
    destruct (lts_complete_is_fold prog rs2 sched2 st2 Hl Hm H2) as (p2 & Pp2 & E2).
    assert (Hlen : length names2 = length names1) by (symmetry; apply Permutation_length; exact Hp).
    assert (Prs : Permutation rs1 rs2).
    { subst rs1 rs2. rewrite Hlen. apply Permutation_map. exact Hp. }
    assert (P12 : Permutation p1 p2).
    { eapply Permutation_trans; [exact Pp1 | ]. eapply Permutation_trans; [exact Prs | ].
      apply Permutation_sym. exact Pp2. }
    assert (Hnd1 : NoDup (dir_keys p1)).
    { rewrite dir_keys_all_dirs in *. eapply Permutation_NoDup; [ | exact Hnd].
      apply Permutation_map. apply Permutation_flat_map'. apply Permutation_sym. exact Pp1. }
    destruct (merge_perm_equiv p1 p2 empty_report P12) as (HV & HN & HA & HD).
    rewrite E1, E2, Hlen. apply finalize_equiv; auto.
  Qed.
End Finalize.

(* ---------------------------------------------------------------- executions exist; the lock matters *)
Lemma finishedb_sound {L St} n (s : state L St) : finishedb n s = true -> finished n s.
Proof.
  induction n as [ | n IH]; cbn; intros H i Hi; [lia | ].
  destruct (w_prog (ws s n)) eqn:E; [ | discriminate].
  destruct (Nat.eq_dec i n) as [-> | Hne]; [exact E | apply IH; [exact H | lia]].
Qed.

(* each worker runs to completion in turn: a schedule that always exists for a locked program *)
Definition sequential_schedule {L} (prog : list (stmt L)) (order : list nat) : list nat :=
  flat_map (fun i => repeat i (length prog + length (writes_of prog))) order.

Definition ex_r1 : result :=
  {| r_viol := [{| v_file := [97%N]; v_key := [49%N] |}]; r_notices := [{| n_key := [110%N]; n_sev := NONE |}];
     r_aggs := [([107%N], [[120%N]])]; r_dirs := [([97%N], [100%N])] |}.
Definition ex_r2 : result :=
  {| r_viol := [{| v_file := [98%N]; v_key := [50%N] |}]; r_notices := [{| n_key := [110%N]; n_sev := NONE |}];
     r_aggs := [([107%N], [[]; [121%N]])]; r_dirs := [([98%N], [101%N])] |}.

(* interleaved outside the critical section, worker 1 first inside it *)
Definition ex_sched : list nat := [0; 1; 1; 0] ++ repeat 1 14 ++ repeat 0 14.

Example lint_run_exists :
  exists st, complete lupd lput reference_lint_prog 2 (fun i => nth i [ex_r1; ex_r2] empty_result)
                      empty_report ex_sched st /\
             acq st = [1; 0] /\ sh st = fold_left merge [ex_r2; ex_r1] empty_report.
Proof.
  destruct (run lupd lput 2 (fun i => nth i [ex_r1; ex_r2] empty_result)
                (init reference_lint_prog empty_report) ex_sched) as [st | ] eqn:E.
  - exists st. split; [split; [exact E | ] | ].
    + apply finishedb_sound. vm_compute in E. injection E as <-. reflexivity.
    + vm_compute in E. injection E as <-. split; reflexivity.
  - vm_compute in E. discriminate.
Qed.

Example reference_prog_ok :
  all_shared_writes_locked lloc_eqb reference_lint_prog = true /\
  modelled_writes reference_lint_prog = [LViol; LNotice; LAggs; LDirs].
Proof. split; reflexivity. Qed.

(* the same workers without the mutex: both load, both store, one update is lost *)
Example unlocked_write_loses_update :
  exists sched st,
    complete lupd lput [SWrite LViol] 2 (fun i => nth i [ex_r1; ex_r2] empty_result) empty_report sched st /\
    length (V (sh st)) = 1 /\
    length (V (fold_left merge [ex_r1; ex_r2] empty_report)) = 2.
Proof.
  exists [0; 1; 0; 1].
  destruct (run lupd lput 2 (fun i => nth i [ex_r1; ex_r2] empty_result)
                (init [SWrite LViol] empty_report) [0; 1; 0; 1]) as [st | ] eqn:E.
  - exists st. split; [split; [exact E | ] | ].
    + apply finishedb_sound. vm_compute in E. injection E as <-. reflexivity.
    + vm_compute in E. injection E as <-. split; reflexivity.
  - vm_compute in E. discriminate.
Qed.

(* H_aggperm is satisfiable by an oracle that really looks at its arguments *)
Definition ex_aggreport (a : amap) (d : dmap) : list viol :=
  if is_nil a then [] else [{| v_file := []; v_key := [33%N] |}].

Example aggperm_satisfiable :
  (forall a1 a2 d1 d2, aggs_equiv a1 a2 -> dirs_equiv d1 d2 ->
                       Permutation (ex_aggreport a1 d1) (ex_aggreport a2 d2)) /\
  ex_aggreport [] [] <> ex_aggreport [([107%N], [])] [].
Proof.
  split.
  - intros a1 a2 d1 d2 Ha _. unfold ex_aggreport. rewrite (aggs_equiv_nil _ _ Ha). apply Permutation_refl.
  - discriminate.
Qed.
