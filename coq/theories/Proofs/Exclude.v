(* Proofs about Model/Exclude.v (property C05). *)
From Regal Require Import Model.Exclude.
From Coq Require Import Lia.

(* ------------------------------------------------------------------ small string facts *)

Lemma trim_prefix_skipn q pre :
  has_prefix q pre = true -> trim_prefix q pre = skipn (length pre) q.
Proof.
  intros H. apply has_prefix_spec in H. destruct H as [t ->].
  rewrite trim_prefix_app.
  rewrite skipn_app, skipn_all, Nat.sub_diag. reflexivity.
Qed.

Lemma has_suffix_nonempty s c : has_suffix s [c] = true -> s <> [].
Proof.
  intros H. apply has_suffix_spec in H. destruct H as [t ->].
  destruct t; discriminate.
Qed.

Lemma has_slash_app a b : has_slash (a ++ b) = has_slash a || has_slash b.
Proof. unfold has_slash. apply existsb_app. Qed.

Lemma rego_init_1_removelast p : rego_init_w 1 p = removelast p.
Proof.
  unfold rego_init_w. rewrite removelast_firstn_len.
  replace (length p - 1)%nat with (pred (length p)) by lia. reflexivity.
Qed.

Lemma has_slash_removelast_false t : has_slash t = false -> has_slash (removelast t) = false.
Proof.
  induction t as [|x t IH]; [reflexivity|].
  destruct t as [|y t]; [reflexivity|].
  cbn [removelast]. unfold has_slash in *. cbn [existsb] in *.
  intros H. apply orb_false_iff in H. destruct H as [Hx Ht].
  rewrite Hx. cbn [orb]. apply IH. exact Ht.
Qed.

(* substring counts runes, the byte model drops one byte: no difference for any width the last
   rune of a string can have (1 byte, or several bytes none of which is '/') *)
Lemma internal_slashes_rune_width s t :
  t <> [] -> (length t = 1%nat \/ has_slash t = false) ->
  has_slash (rego_init_w (length t) (s ++ t)) = has_slash (rego_init_w 1 (s ++ t)).
Proof.
  intros Hne Hw.
  assert (E1 : rego_init_w (length t) (s ++ t) = s).
  { unfold rego_init_w. rewrite app_length.
    replace (length s + length t - length t)%nat with (length s) by lia.
    rewrite firstn_app, Nat.sub_diag, firstn_all. cbn. apply app_nil_r. }
  rewrite E1, rego_init_1_removelast, removelast_app by exact Hne.
  rewrite has_slash_app.
  destruct Hw as [H1|Hns].
  - destruct t as [|x [|y t]]; cbn in H1; try lia. cbn. rewrite orb_false_r. reflexivity.
  - rewrite has_slash_removelast_false by exact Hns. rewrite orb_false_r. reflexivity.
Qed.

(* ------------------------------------------------------------------ compile_agree *)

Lemma internal_eq p : go_internal p = rego_internal_slashes p.
Proof. unfold go_internal, rego_internal_slashes. rewrite rego_init_1_removelast. reflexivity. Qed.

Lemma leading_eq q : go_leading q = rego_leading_doublestar q.
Proof.
  unfold go_leading, rego_leading_doublestar.
  destruct (has_prefix q dstar_slash) eqn:E; [|reflexivity].
  rewrite (trim_prefix_skipn _ _ E). reflexivity.
Qed.

Lemma trailing_eq q : go_trailing q = rego_trailing_slash q.
Proof.
  unfold go_trailing, rego_trailing_slash.
  destruct (has_suffix q [SLASH]) eqn:E1; destruct (has_suffix q dstar) eqn:E2; reflexivity.
Qed.

Lemma expand_eq p : go_expand p = rego_expand p.
Proof.
  unfold go_expand, rego_expand. rewrite internal_eq, leading_eq.
  induction (rego_leading_doublestar (trim_prefix (rego_internal_slashes p) [SLASH])) as [|q l IH];
    [reflexivity|].
  cbn [flat_map]. rewrite trailing_eq, IH. reflexivity.
Qed.

Lemma compile_agree p : p <> [] -> forall e, In e (go_expand p) <-> In e (rego_expand p).
Proof. intros _ e. rewrite expand_eq. tauto. Qed.

(* every pattern is expanded to at least one and at most four glob patterns *)
Lemma expand_nonempty p : go_expand p <> [].
Proof.
  unfold go_expand, go_leading.
  destruct (has_prefix _ dstar_slash); cbn [flat_map]; unfold go_trailing;
    repeat match goal with |- context [if ?c then _ else _] => destruct c end; discriminate.
Qed.

(* ------------------------------------------------------------------ relativise_agree *)

Lemma go_norm_prefix_nonempty pre : go_norm_prefix pre <> [].
Proof.
  unfold go_norm_prefix. destruct (has_suffix pre [SLASH]) eqn:E.
  - eapply has_suffix_nonempty; exact E.
  - destruct pre; discriminate.
Qed.

Lemma go_rel_trim f pre : go_rel f pre = trim_prefix f (go_norm_prefix pre).
Proof.
  unfold go_rel, go_trim.
  destruct (str_eqb_spec (go_norm_prefix pre) []) as [E|_]; [|reflexivity].
  exfalso. exact (go_norm_prefix_nonempty pre E).
Qed.

Lemma relativise_agree f pre : go_rel f pre = rego_rel f pre.
Proof.
  rewrite go_rel_trim. unfold go_norm_prefix, rego_rel.
  destruct (has_suffix pre [SLASH]); reflexivity.
Qed.

Lemma relativise_agree_kind k f pre : rego_rel_kind k f pre = go_rel f pre.
Proof. unfold rego_rel_kind. symmetry. apply relativise_agree. Qed.

(* a file below the prefix directory is named relative to it, whichever way the prefix is spelled *)
Lemma go_rel_below_dir d r : go_rel (d ++ [SLASH] ++ r) d = r \/ has_suffix d [SLASH] = true.
Proof.
  rewrite go_rel_trim. unfold go_norm_prefix.
  destruct (has_suffix d [SLASH]) eqn:E; [right; reflexivity|left].
  rewrite app_assoc. apply trim_prefix_app.
Qed.

Lemma go_rel_below_slash_dir d r : go_rel ((d ++ [SLASH]) ++ r) (d ++ [SLASH]) = r.
Proof.
  rewrite go_rel_trim. unfold go_norm_prefix.
  assert (H : has_suffix (d ++ [SLASH]) [SLASH] = true) by (apply has_suffix_spec; exists d; reflexivity).
  rewrite H. apply trim_prefix_app.
Qed.

(* pinned code: the three relativisation disagreements *)
Lemma relativise_pinned_noprefix_refuted :
  exists f, go_rel_pinned f [] <> rego_rel_pinned f [].
Proof. exists [SLASH; 97]. vm_compute. discriminate. Qed.

Lemma relativise_pinned_trailing_slash_refuted :
  exists f pre, go_rel_pinned f pre <> rego_rel_pinned f pre /\ has_prefix f pre = true.
Proof. exists [SLASH; 119; SLASH; 97], [SLASH; 119; SLASH]. vm_compute. split; [discriminate|reflexivity]. Qed.

Lemma relativise_pinned_custom_aggregate_refuted :
  exists f pre, rego_rel_kind_pinned KCustomAgg f pre <> rego_rel_kind_pinned KBuiltin f pre.
Proof. exists [SLASH; 119; SLASH; 97], [SLASH; 119]. vm_compute. discriminate. Qed.

Lemma relativise_pinned_custom_root_refuted :
  exists f pre, rego_rel_kind_pinned KCustom f pre <> rego_rel_kind_pinned KBuiltin f pre.
Proof. exists [SLASH; 97], [SLASH]. vm_compute. discriminate. Qed.

(* what did agree before the repair: a non-empty prefix without trailing separator, or "/" *)
Lemma relativise_pinned_partial f pre :
  pre <> [] -> (has_suffix pre [SLASH] = false \/ pre = [SLASH]) ->
  go_rel_pinned f pre = rego_rel_pinned f pre.
Proof.
  intros Hne [Hs| ->]; [|reflexivity].
  unfold go_rel_pinned, go_norm_prefix_pinned, rego_rel_pinned, go_trim.
  destruct (str_eqb_spec pre []) as [E|_]; [contradiction|]. rewrite Hs. cbn [negb andb].
  destruct (str_eqb_spec (pre ++ [SLASH]) []) as [E|_]; [destruct pre; discriminate|].
  destruct (str_eqb_spec pre [SLASH]) as [->|_]; [discriminate Hs|]. reflexivity.
Qed.

(* ------------------------------------------------------------------ cli_overrides_config *)

Lemma select_agree cli cfg :
  go_select cli cfg = match rego_global cli cfg with Some l => l | None => [] end.
Proof. destruct cli; reflexivity. Qed.

Lemma cli_overrides_config cli cfg :
  cli <> [] -> go_select cli cfg = cli /\ rego_global cli cfg = Some cli.
Proof. destruct cli; [contradiction|]. split; reflexivity. Qed.

Lemma config_used_without_cli cfg :
  go_select [] (Some cfg) = cfg /\ rego_global [] (Some cfg) = Some cfg.
Proof. split; reflexivity. Qed.

(* ------------------------------------------------------------------ matching *)

Section Generic.
  Context {E F : Type} (ok : E -> bool) (m : E -> F -> bool).

  Lemma go_match_loop_ok es f b :
    go_match_loop ok m es f = GOk b -> rego_match_any ok m es f = b.
  Proof.
    unfold rego_match_any. induction es as [|e es IH]; cbn; [intros [= <-]; reflexivity|].
    destruct (ok e) eqn:Eo; [|discriminate]. destruct (m e f) eqn:Em; cbn.
    - intros [= <-]. reflexivity.
    - exact IH.
  Qed.

  Lemma go_match_loop_total es f :
    forallb ok es = true -> go_match_loop ok m es f = GOk (rego_match_any ok m es f).
  Proof.
    unfold rego_match_any. induction es as [|e es IH]; cbn; [reflexivity|].
    intros H. apply andb_true_iff in H. destruct H as [Ho Hr]. rewrite Ho.
    destruct (m e f); cbn; [reflexivity|]. apply IH. exact Hr.
  Qed.

  Lemma go_match_loop_err es f :
    go_match_loop ok m es f = GErr -> forallb ok es = false.
  Proof.
    induction es as [|e es IH]; cbn; [discriminate|].
    destruct (ok e); [|reflexivity]. destruct (m e f); [discriminate|]. exact IH.
  Qed.

  Lemma go_match_loop_no_panic es f : go_match_loop ok m es f <> GPanic.
  Proof.
    induction es as [|e es IH]; cbn; [discriminate|].
    destruct (ok e); [|discriminate]. destruct (m e f); [discriminate|]. exact IH.
  Qed.

  (* the check runs the loop on table rows: same function, mapped representation *)
  Lemma go_match_loop_map {E'} (g : E' -> E) es f :
    go_match_loop ok m (map g es) f = go_match_loop (fun e => ok (g e)) (fun e => m (g e)) es f.
  Proof.
    induction es as [|e es IH]; cbn; [reflexivity|]. rewrite IH. reflexivity.
  Qed.

  Lemma rego_match_any_map {E'} (g : E' -> E) es f :
    rego_match_any ok m (map g es) f = rego_match_any (fun e => ok (g e)) (fun e => m (g e)) es f.
  Proof.
    unfold rego_match_any. induction es as [|e es IH]; cbn; [reflexivity|]. rewrite IH. reflexivity.
  Qed.
End Generic.

Section Oracle.
  Variable glob_ok : str -> bool.
  Variable glob_match : str -> str -> bool.

  Notation go_exclude_file := (go_exclude_file glob_ok glob_match).
  Notation go_excluded_by := (go_excluded_by glob_ok glob_match).
  Notation go_filter_paths := (go_filter_paths glob_ok glob_match).
  Notation go_filter_ignored_paths := (go_filter_ignored_paths glob_ok glob_match).
  Notation rego_exclude := (rego_exclude glob_ok glob_match).
  Notation rego_excluded_file := (rego_excluded_file glob_ok glob_match).
  Notation matches := (matches glob_ok glob_match).
  Notation matches_any := (matches_any glob_ok glob_match).
  Notation compiles := (compiles glob_ok).

  Lemma matches_rego p r : matches p r = rego_exclude p r.
  Proof. unfold matches, Exclude.rego_exclude, rego_match_any. rewrite expand_eq. reflexivity. Qed.

  Lemma matches_any_rego ps r : matches_any ps r = existsb (fun p => rego_exclude p r) ps.
  Proof.
    unfold Exclude.matches_any. induction ps as [|p ps IH]; cbn; [reflexivity|].
    rewrite matches_rego, IH. reflexivity.
  Qed.

  (* ---- exclude_agree: one pattern, one file, any prefix, any engine *)

  Lemma exclude_agree p f pre b :
    go_exclude_file p f (go_norm_prefix pre) = GOk b -> rego_exclude p (rego_rel f pre) = b.
  Proof.
    unfold Exclude.go_exclude_file, Exclude.rego_exclude.
    destruct p as [|c p]; [discriminate|]. cbn [str_eqb negb andb].
    intros H. apply go_match_loop_ok in H.
    rewrite <- expand_eq, <- relativise_agree. exact H.
  Qed.

  Lemma exclude_agree_total p f pre :
    p <> [] -> compiles p = true ->
    go_exclude_file p f (go_norm_prefix pre) = GOk (rego_exclude p (rego_rel f pre)).
  Proof.
    intros Hne Hc. unfold Exclude.go_exclude_file, Exclude.rego_exclude.
    destruct p as [|c p]; [contradiction|]. cbn [str_eqb negb andb].
    rewrite <- expand_eq, <- relativise_agree.
    apply go_match_loop_total. exact Hc.
  Qed.

  Lemma exclude_err_uncompilable p f npre :
    go_exclude_file p f npre = GErr -> compiles p = false.
  Proof.
    unfold Exclude.go_exclude_file. destruct p; [discriminate|]. apply go_match_loop_err.
  Qed.

  (* ---- filterPaths *)

  Lemma go_exclude_file_matches p f npre b :
    go_exclude_file p f npre = GOk b -> matches p (go_trim f npre) = b.
  Proof.
    unfold Exclude.go_exclude_file, Exclude.matches. destruct p as [|c p]; [discriminate|].
    cbn [str_eqb negb andb]. apply go_match_loop_ok.
  Qed.

  Lemma go_excluded_by_ok ignore f npre b :
    go_excluded_by ignore f npre = GOk b -> matches_any ignore (go_trim f npre) = b.
  Proof.
    unfold Exclude.matches_any. induction ignore as [|p ps IH]; cbn; [intros [= <-]; reflexivity|].
    destruct (str_eqb_spec p []) as [->|Hne].
    - cbn. exact IH.
    - destruct (go_exclude_file p f npre) as [[|]| |] eqn:Ex; try discriminate.
      + intros [= <-]. rewrite (go_exclude_file_matches _ _ _ _ Ex). reflexivity.
      + intros H. rewrite (go_exclude_file_matches _ _ _ _ Ex). cbn. apply IH. exact H.
  Qed.

  Definition all_compile (ignore : list str) : Prop :=
    forall p, In p ignore -> p <> [] -> compiles p = true.

  Lemma go_excluded_by_total ignore f npre :
    all_compile ignore ->
    go_excluded_by ignore f npre = GOk (matches_any ignore (go_trim f npre)).
  Proof.
    unfold Exclude.matches_any, all_compile.
    induction ignore as [|p ps IH]; intros Hc; cbn; [reflexivity|].
    destruct (str_eqb_spec p []) as [->|Hne].
    - cbn. apply IH. intros q Hq. apply Hc. right; exact Hq.
    - assert (Hp : compiles p = true) by (apply Hc; [left; reflexivity|exact Hne]).
      unfold Exclude.go_exclude_file, Exclude.matches. destruct p as [|c p]; [contradiction|].
      cbn [str_eqb negb andb].
      rewrite (go_match_loop_total _ _ _ _ Hp). unfold rego_match_any.
      destruct (existsb _ (go_expand (c :: p))); cbn; [reflexivity|].
      apply IH. intros q Hq. apply Hc. right; exact Hq.
  Qed.

  Lemma go_excluded_by_no_panic ignore f npre : go_excluded_by ignore f npre <> GPanic.
  Proof.
    induction ignore as [|p ps IH]; cbn; [discriminate|].
    destruct (str_eqb_spec p []) as [->|Hne]; [exact IH|].
    destruct (go_exclude_file p f npre) as [[|]| |] eqn:Ex; try discriminate; [exact IH|].
    unfold Exclude.go_exclude_file in Ex. destruct p; [contradiction|].
    exfalso. exact (go_match_loop_no_panic _ _ _ _ Ex).
  Qed.

  Lemma go_excluded_by_err ignore f npre :
    go_excluded_by ignore f npre = GErr -> exists p, In p ignore /\ p <> [] /\ compiles p = false.
  Proof.
    induction ignore as [|p ps IH]; cbn; [discriminate|].
    destruct (str_eqb_spec p []) as [->|Hne].
    - intros H. destruct (IH H) as [q [Hq Hr]]. exists q. split; [right; exact Hq|exact Hr].
    - destruct (go_exclude_file p f npre) as [[|]| |] eqn:Ex; try discriminate.
      + intros H. destruct (IH H) as [q [Hq Hr]]. exists q. split; [right; exact Hq|exact Hr].
      + intros _. exists p. split; [left; reflexivity|]. split; [exact Hne|].
        eapply exclude_err_uncompilable; exact Ex.
  Qed.

  Definition kept_spec (ignore : list str) (npre : str) (paths : list str) : list str :=
    filter (fun f => negb (matches_any ignore (go_trim f npre))) paths.

  (* whatever filterPaths returns without error is exactly the unmatched files, in order *)
  Lemma filter_exact_partial paths ignore npre kept :
    go_filter_paths paths ignore npre = Some kept -> kept = kept_spec ignore npre paths.
  Proof.
    unfold kept_spec. revert kept. induction paths as [|f fs IH]; cbn; intros kept.
    - intros [= <-]. reflexivity.
    - destruct (go_excluded_by ignore f npre) as [[|]| |] eqn:Ex; try discriminate.
      + rewrite (go_excluded_by_ok _ _ _ _ Ex). cbn. apply IH.
      + rewrite (go_excluded_by_ok _ _ _ _ Ex). cbn.
        destruct (go_filter_paths fs ignore npre) as [k|]; [|discriminate].
        cbn. intros [= <-]. f_equal. apply IH. reflexivity.
  Qed.

  Lemma filter_exact paths ignore npre :
    all_compile ignore -> go_filter_paths paths ignore npre = Some (kept_spec ignore npre paths).
  Proof.
    intros Hc. unfold kept_spec. induction paths as [|f fs IH]; cbn; [reflexivity|].
    rewrite (go_excluded_by_total _ _ _ Hc).
    destruct (matches_any ignore (go_trim f npre)); cbn; [exact IH|].
    rewrite IH. reflexivity.
  Qed.

  Lemma filter_error_only_uncompilable paths ignore npre :
    go_filter_paths paths ignore npre = None ->
    exists p, In p ignore /\ p <> [] /\ compiles p = false.
  Proof.
    induction paths as [|f fs IH]; cbn; [discriminate|].
    destruct (go_excluded_by ignore f npre) as [[|]| |] eqn:Ex.
    - exact IH.
    - destruct (go_filter_paths fs ignore npre); [discriminate|]. intros _. apply IH. reflexivity.
    - intros _. eapply go_excluded_by_err; exact Ex.
    - exfalso. exact (go_excluded_by_no_panic _ _ _ Ex).
  Qed.

  Lemma kept_spec_in ignore npre paths f :
    In f (kept_spec ignore npre paths) <->
    In f paths /\ matches_any ignore (go_trim f npre) = false.
  Proof.
    unfold kept_spec. rewrite filter_In. rewrite negb_true_iff. tauto.
  Qed.

  Lemma kept_spec_sublist ignore npre paths : sublist (kept_spec ignore npre paths) paths.
  Proof.
    unfold kept_spec. induction paths as [|f fs IH]; cbn [filter]; [constructor|].
    destruct (negb _); constructor; exact IH.
  Qed.

  (* ---- FilterIgnoredPaths (checkFileExists = false) *)

  Lemma filter_true_id {A} (l : list A) : filter (fun _ => true) l = l.
  Proof. induction l as [|x l IH]; cbn; [reflexivity|]. rewrite IH. reflexivity. Qed.

  Lemma filter_ignored_paths_exact paths ignore pre :
    is_stdin paths = false -> all_compile ignore ->
    go_filter_ignored_paths paths ignore pre =
    Some (filter (fun f => negb (matches_any ignore (go_rel f pre))) paths).
  Proof.
    intros Hs Hc. unfold Exclude.go_filter_ignored_paths. rewrite Hs.
    destruct ignore as [|p ps] eqn:Ei.
    - cbn. rewrite filter_true_id. reflexivity.
    - rewrite <- Ei in *. rewrite (filter_exact _ _ _ Hc). reflexivity.
  Qed.

  Lemma filter_ignored_paths_stdin paths ignore pre :
    is_stdin paths = true -> go_filter_ignored_paths paths ignore pre = Some paths.
  Proof. intros Hs. unfold Exclude.go_filter_ignored_paths. rewrite Hs. reflexivity. Qed.

  (* ---- the two matchers on a whole ignore list: Go keeps a file iff Rego's global check lets it through *)

  Lemma global_check_is_matches cli cfg r :
    rego_excluded_file cli cfg [] r = matches_any (go_select cli cfg) r.
  Proof.
    unfold Exclude.rego_excluded_file, rego_excluded_file_gen. cbn [existsb]. rewrite orb_false_r.
    rewrite select_agree, matches_any_rego.
    destruct (rego_global cli cfg); reflexivity.
  Qed.

  Lemma excluded_file_is_matches cli cfg rule r :
    rego_excluded_file cli cfg rule r = matches_any (go_select cli cfg) r || matches_any rule r.
  Proof.
    rewrite <- global_check_is_matches.
    unfold Exclude.rego_excluded_file, rego_excluded_file_gen. cbn [existsb]. rewrite orb_false_r.
    rewrite (matches_any_rego rule). reflexivity.
  Qed.

  Notation lint_scanned := (lint_scanned glob_ok glob_match).
  Notation lint_hits := (lint_hits glob_ok glob_match).
  Notation rule_runs_on := (rule_runs_on glob_ok glob_match).
  Notation aggregate_report_runs := (aggregate_report_runs glob_ok glob_match).

  Lemma scanned_iff_rego_global li scanned f :
    lint_scanned li = Some scanned ->
    (In f scanned <->
     In f (li_files li) /\
     rego_excluded_file (li_cli li) (li_cfg li) [] (rego_rel f (li_prefix li)) = false).
  Proof.
    unfold Exclude.lint_scanned. intros H. apply filter_exact_partial in H. subst scanned.
    rewrite kept_spec_in, global_check_is_matches, <- relativise_agree. unfold go_rel. tauto.
  Qed.

  Lemma globally_ignored_not_scanned li scanned f :
    lint_scanned li = Some scanned ->
    matches_any (go_select (li_cli li) (li_cfg li)) (go_rel f (li_prefix li)) = true ->
    ~ In f scanned.
  Proof.
    unfold Exclude.lint_scanned. intros H Hm Hin. apply filter_exact_partial in H. subst scanned.
    apply kept_spec_in in Hin. destruct Hin as [_ Hf]. unfold go_rel in Hm. congruence.
  Qed.

  Lemma unmatched_file_not_dropped li scanned f :
    lint_scanned li = Some scanned -> In f (li_files li) ->
    matches_any (go_select (li_cli li) (li_cfg li)) (go_rel f (li_prefix li)) = false ->
    In f scanned.
  Proof.
    unfold Exclude.lint_scanned. intros H Hin Hm. apply filter_exact_partial in H. subst scanned.
    apply kept_spec_in. split; [exact Hin|exact Hm].
  Qed.

  Lemma files_scanned_count li :
    all_compile (go_select (li_cli li) (li_cfg li)) ->
    option_map (@length str) (lint_scanned li) =
    Some (length (filter (fun f => negb (matches_any (go_select (li_cli li) (li_cfg li))
                                                      (go_rel f (li_prefix li)))) (li_files li))).
  Proof.
    intros Hc. unfold Exclude.lint_scanned. rewrite (filter_exact _ _ _ Hc). reflexivity.
  Qed.

  Lemma rule_runs_on_spec li k f :
    rule_runs_on li k f =
    negb (matches_any (go_select (li_cli li) (li_cfg li)) (go_rel f (li_prefix li)) ||
          matches_any (li_rule_ignore li k) (go_rel f (li_prefix li))).
  Proof.
    unfold Exclude.rule_runs_on. rewrite excluded_file_is_matches, relativise_agree_kind. reflexivity.
  Qed.

  Lemma ignored_file_silent fires li k hits f :
    lint_hits fires li k = Some hits ->
    matches_any (go_select (li_cli li) (li_cfg li)) (go_rel f (li_prefix li)) = true \/
    matches_any (li_rule_ignore li k) (go_rel f (li_prefix li)) = true ->
    ~ In f hits.
  Proof.
    unfold Exclude.lint_hits. destruct (lint_scanned li) as [sc|]; [|discriminate].
    intros [= <-] Hm Hin. apply filter_In in Hin. destruct Hin as [_ Hc].
    rewrite rule_runs_on_spec in Hc.
    destruct Hm as [Hm|Hm]; rewrite Hm in Hc; cbn in Hc;
      rewrite ?orb_true_r, ?andb_false_r in Hc; cbn in Hc; discriminate.
  Qed.

  Lemma unignored_file_reported fires li k hits scanned f :
    lint_hits fires li k = Some hits -> lint_scanned li = Some scanned ->
    In f (li_files li) -> fires k f = true ->
    matches_any (go_select (li_cli li) (li_cfg li)) (go_rel f (li_prefix li)) = false ->
    matches_any (li_rule_ignore li k) (go_rel f (li_prefix li)) = false ->
    (k = KCustomAgg -> aggregate_report_runs li scanned = true) ->
    In f hits.
  Proof.
    unfold Exclude.lint_hits. intros Hh Hs Hin Hf Hg Hr Ha. rewrite Hs in Hh.
    injection Hh as <-. apply filter_In. split.
    - eapply unmatched_file_not_dropped; eassumption.
    - rewrite Hf, rule_runs_on_spec, Hg, Hr. cbn.
      destruct k; try reflexivity. apply Ha. reflexivity.
  Qed.

  (* ---- language server: the path-based and the URI-based call site see the same relative name *)

  Lemma trim_prefix_app_both a x y : trim_prefix (a ++ x) (a ++ y) = if has_prefix x y then trim_prefix x y else a ++ x.
  Proof.
    destruct (has_prefix x y) eqn:E.
    - apply has_prefix_spec in E. destruct E as [t ->].
      rewrite trim_prefix_app, app_assoc, trim_prefix_app. reflexivity.
    - unfold trim_prefix. destruct (drop_prefix (a ++ x) (a ++ y)) as [t|] eqn:D; [|reflexivity].
      apply drop_prefix_spec in D. rewrite <- app_assoc in D. apply app_inv_head in D.
      assert (H : has_prefix x y = true) by (apply has_prefix_spec; exists t; exact D). congruence.
  Qed.

  Lemma has_suffix_app_nonempty a y c : y <> [] -> has_suffix (a ++ y) [c] = has_suffix y [c].
  Proof.
    intros Hy. unfold has_suffix. rewrite rev_app_distr.
    destruct (rev y) as [|z zs] eqn:E.
    - apply (f_equal (@rev N)) in E. rewrite rev_involutive in E. contradiction.
    - cbn. reflexivity.
  Qed.

  Lemma go_rel_uri_path a x y :
    y <> [] -> has_prefix x (go_norm_prefix y) = true ->
    go_rel (a ++ x) (a ++ y) = go_rel x y.
  Proof.
    intros Hy Hp. rewrite !go_rel_trim. unfold go_norm_prefix in *.
    rewrite (has_suffix_app_nonempty a y SLASH Hy).
    destruct (has_suffix y [SLASH]).
    - rewrite trim_prefix_app_both, Hp. reflexivity.
    - rewrite <- app_assoc, trim_prefix_app_both, Hp. reflexivity.
  Qed.

  Notation lsp_ignore_uri := (lsp_ignore_uri glob_ok glob_match).
  Notation lsp_filtered_modules := (lsp_filtered_modules glob_ok glob_match).

  (* what both call sites ask the matcher: the decoded path of one URI, relative to the decoded root *)
  Definition lsp_one (cl : lsp_client) (root_uri : str) (ignore : list str) (u : str) : option (list str) :=
    go_filter_ignored_paths [uri_to_path cl u] ignore (uri_to_path cl root_uri).

  Definition lsp_one_kept (cl : lsp_client) (root_uri : str) (ignore : list str) (u : str) : bool :=
    match lsp_one cl root_uri ignore u with Some [] => false | _ => true end.

  Lemma lsp_modules_filter cl root_uri ignore uris : forall kept,
    lsp_filtered_modules cl root_uri ignore uris = Some kept ->
    kept = filter (lsp_one_kept cl root_uri ignore) uris /\
    forall u, In u uris -> lsp_one cl root_uri ignore u <> None.
  Proof.
    induction uris as [|v us IH]; intros kept Hk.
    - cbn in Hk. injection Hk as <-. split; [reflexivity|intros u []].
    - cbn [Exclude.lsp_filtered_modules] in Hk. fold (lsp_one cl root_uri ignore v) in Hk.
      cbn [filter]. unfold lsp_one_kept at 1.
      destruct (lsp_one cl root_uri ignore v) as [[|x l]|] eqn:Ev; [| |discriminate Hk].
      + destruct (IH _ Hk) as [E Hn]. split; [exact E|].
        intros u [<-|Hin]; [rewrite Ev; discriminate|apply Hn; exact Hin].
      + destruct (Exclude.lsp_filtered_modules glob_ok glob_match cl root_uri ignore us) as [k'|] eqn:Ek; [|discriminate Hk].
        cbn in Hk. injection Hk as <-. destruct (IH _ eq_refl) as [E Hn]. split; [rewrite E; reflexivity|].
        intros u [<-|Hin]; [rewrite Ev; discriminate|apply Hn; exact Hin].
  Qed.

  (* the two call sites agree on every cached .rego URI whatever it looks like (no domain hypothesis: an
     uncompilable pattern makes getFilteredModules fail as a whole) *)
  Lemma lsp_call_sites_agree_any cl root_uri u ignore uris kept :
    has_suffix u dot_rego = true ->
    lsp_filtered_modules cl root_uri ignore uris = Some kept -> In u uris ->
    (lsp_ignore_uri cl root_uri ignore u = true <-> ~ In u kept).
  Proof.
    intros Hrego Hk Hin. destruct (lsp_modules_filter _ _ _ _ _ Hk) as [-> Hn].
    specialize (Hn u Hin). unfold Exclude.lsp_ignore_uri. rewrite Hrego. cbn [negb orb].
    fold (lsp_one cl root_uri ignore u). rewrite filter_In. unfold lsp_one_kept.
    destruct (lsp_one cl root_uri ignore u) as [[|x l]|]; [| |contradiction].
    - split; [intros _ [_ H]; discriminate H|reflexivity].
    - split; [discriminate|intros H; exfalso; apply H; split; [exact Hin|reflexivity]].
  Qed.

  Lemma single_not_stdin rootp r : rootp <> [] -> is_stdin (@cons str (rootp ++ [SLASH] ++ r) (@nil str)) = false.
  Proof.
    intros Hne. unfold is_stdin. destruct (str_eqb_spec (rootp ++ [SLASH] ++ r) [45]) as [E|_]; [|reflexivity].
    destruct rootp as [|c [|c' rp]]; [contradiction|discriminate E|discriminate E].
  Qed.

  (* a URI whose DECODED path lies below the decoded workspace root: the matcher is asked about the decoded
     root-relative path r, whatever the URI's spelling (escapes, upper/lower case hex, drive letter form) *)
  Lemma lsp_one_decoded cl root_uri u rootp r ignore :
    uri_to_path cl root_uri = rootp -> uri_to_path cl u = rootp ++ [SLASH] ++ r ->
    rootp <> [] -> has_suffix rootp [SLASH] = false -> all_compile ignore ->
    lsp_one cl root_uri ignore u = Some (if matches_any ignore r then [] else [rootp ++ [SLASH] ++ r]).
  Proof.
    intros Hr Hu Hne Hs Hc. unfold lsp_one. rewrite Hr, Hu.
    rewrite (filter_ignored_paths_exact _ _ _ (single_not_stdin rootp r Hne) Hc). cbn [filter].
    destruct (go_rel_below_dir rootp r) as [E|E]; [|congruence]. rewrite E.
    destruct (matches_any ignore r); reflexivity.
  Qed.

  Lemma lsp_ignore_uri_decoded cl root_uri u rootp r ignore :
    uri_to_path cl root_uri = rootp -> uri_to_path cl u = rootp ++ [SLASH] ++ r ->
    rootp <> [] -> has_suffix rootp [SLASH] = false -> has_suffix u dot_rego = true -> all_compile ignore ->
    lsp_ignore_uri cl root_uri ignore u = matches_any ignore r.
  Proof.
    intros Hr Hu Hne Hs Hrego Hc. unfold Exclude.lsp_ignore_uri. rewrite Hrego. cbn [negb orb].
    fold (lsp_one cl root_uri ignore u). rewrite (lsp_one_decoded _ _ _ _ _ _ Hr Hu Hne Hs Hc).
    destruct (matches_any ignore r); reflexivity.
  Qed.

  Lemma lsp_call_sites_agree cl root_uri u rootp r ignore uris kept :
    uri_to_path cl root_uri = rootp -> uri_to_path cl u = rootp ++ [SLASH] ++ r ->
    rootp <> [] -> has_suffix rootp [SLASH] = false ->
    has_suffix u dot_rego = true -> all_compile ignore ->
    lsp_filtered_modules cl root_uri ignore uris = Some kept -> In u uris ->
    lsp_ignore_uri cl root_uri ignore u = matches_any ignore r /\
    (In u kept <-> matches_any ignore r = false).
  Proof.
    intros Hr Hu Hne Hs Hrego Hc Hk Hin.
    pose proof (lsp_ignore_uri_decoded _ _ _ _ _ _ Hr Hu Hne Hs Hrego Hc) as E. split; [exact E|].
    pose proof (lsp_call_sites_agree_any _ _ _ _ _ _ Hrego Hk Hin) as A. rewrite E in A.
    destruct (matches_any ignore r) eqn:Em.
    - split; [intros H; exfalso; apply (proj1 A eq_refl); exact H|discriminate].
    - split; [reflexivity|intros _].
      destruct (lsp_modules_filter _ _ _ _ _ Hk) as [-> _]. apply filter_In. split; [exact Hin|].
      unfold lsp_one_kept. rewrite (lsp_one_decoded _ _ _ _ _ _ Hr Hu Hne Hs Hc), Em. reflexivity.
  Qed.
End Oracle.

(* ------------------------------------------------------------------ URIs: uri.ToPath undoes uri.FromPath *)

Lemma hexval_hexdigit d : d < 16 -> hexval (hexdigit d) = Some d.
Proof.
  intros H. unfold hexdigit, hexval.
  destruct (N.ltb_spec d 10) as [L|L].
  - assert (E : (48 <=? 48 + d) && (48 + d <=? 57) = true)
      by (apply andb_true_iff; split; apply N.leb_le; lia).
    rewrite E. f_equal. lia.
  - assert (E1 : (48 <=? 55 + d) && (55 + d <=? 57) = false)
      by (apply andb_false_iff; right; apply N.leb_gt; lia).
    assert (E2 : (65 <=? 55 + d) && (55 + d <=? 70) = true)
      by (apply andb_true_iff; split; apply N.leb_le; lia).
    rewrite E1, E2. f_equal. lia.
Qed.

Lemma unreserved_not_special c :
  unreserved c || (c =? SLASH) = true -> (c =? PERCENT) = false /\ (c =? PLUS) = false.
Proof.
  intros H. split.
  - destruct (N.eqb_spec c PERCENT) as [->|_]; [vm_compute in H; discriminate H|reflexivity].
  - destruct (N.eqb_spec c PLUS) as [->|_]; [vm_compute in H; discriminate H|reflexivity].
Qed.

(* every byte string survives FromPath's escaping followed by ToPath's unescaping *)
Lemma unescape_escape p : Forall (fun c => c < 256) p -> query_unescape (uri_escape p) = Some p.
Proof.
  induction 1 as [|c p Hc _ IH]; [reflexivity|].
  cbn [uri_escape]. destruct (unreserved c || (c =? SLASH)) eqn:Eu.
  - destruct (unreserved_not_special c Eu) as [E1 E2].
    cbn [query_unescape]. rewrite E1, E2, IH. reflexivity.
  - cbn [query_unescape]. rewrite N.eqb_refl.
    assert (Hd : c / 16 < 16) by (apply N.div_lt_upper_bound; [discriminate|exact Hc]).
    assert (Hm : c mod 16 < 16) by (apply N.mod_lt; discriminate).
    rewrite (hexval_hexdigit _ Hd), (hexval_hexdigit _ Hm), IH. cbn [option_map].
    rewrite <- (N.div_mod' c 16). reflexivity.
Qed.

Lemma uri_roundtrip p :
  Forall (fun c => c < 256) p -> uri_to_path ClientGeneric (file_scheme ++ uri_escape p) = p.
Proof.
  intros H. unfold uri_to_path. rewrite has_prefix_app, trim_prefix_app, (unescape_escape p H). reflexivity.
Qed.

(* ------------------------------------------------------------------ pinned code: getFilteredModules matched the
   percent-encoded text (repaired in round 3): a module that ignoreURI reports as ignored was kept *)
Lemma lsp_modules_pinned_refuted :
  exists root_uri u p,
    let lit := fun e f : str => str_eqb e f in
    lsp_ignore_uri (fun _ => true) lit ClientGeneric root_uri [p] u = true /\
    lsp_filtered_modules_pinned (fun _ => true) lit root_uri [p] [u] = Some [u] /\
    lsp_filtered_modules (fun _ => true) lit ClientGeneric root_uri [p] [u] = Some [].
Proof.
  (* root file:///w, module file:///w/a%20b.rego, pattern "a b.rego" *)
  exists (file_scheme ++ [SLASH; 119]), (file_scheme ++ [SLASH; 119; SLASH; 97; 37; 50; 48; 98] ++ dot_rego),
         ([97; 32; 98] ++ dot_rego).
  vm_compute. repeat split; reflexivity.
Qed.

(* ------------------------------------------------------------------ OPEN finding (round 3): the language server
   lints with the URIs as file names and the root URI as prefix; both relativising functions trim the prefix from
   the percent-encoded text, so a rule's own ignore list is matched against the ENCODED root-relative name *)
Definition lsp_lint_in (root_uri : str) (uris rule_ignore : list str) : lint_in :=
  {| li_files := uris; li_prefix := root_uri; li_cli := []; li_cfg := None; li_rule_ignore := fun _ => rule_ignore |}.

Lemma lsp_rule_ignore_decoded_refuted :
  exists root_uri u r p,
    let lit := fun e f : str => str_eqb e f in
    uri_to_path ClientGeneric u = uri_to_path ClientGeneric root_uri ++ [SLASH] ++ r /\
    matches (fun _ => true) lit p r = true /\
    rule_runs_on (fun _ => true) lit (lsp_lint_in root_uri [u] [p]) KBuiltin u = true.
Proof.
  exists (file_scheme ++ [SLASH; 119]), (file_scheme ++ [SLASH; 119; SLASH; 97; 37; 50; 48; 98] ++ dot_rego),
         ([97; 32; 98] ++ dot_rego), ([97; 32; 98] ++ dot_rego).
  vm_compute. repeat split; reflexivity.
Qed.

(* what does hold: a URI that spells the root-relative path r as it is (no character of r needs escaping) is
   decided on r, for every kind of rule *)
Lemma lsp_rule_ignore_plain_partial ok m root_uri r uris rule_ignore k :
  has_suffix root_uri [SLASH] = false ->
  rule_runs_on ok m (lsp_lint_in root_uri uris rule_ignore) k (root_uri ++ [SLASH] ++ r) =
  negb (rego_excluded_file ok m [] None rule_ignore r).
Proof.
  intros Hs. unfold rule_runs_on, lsp_lint_in. cbn [li_cli li_cfg li_rule_ignore li_prefix].
  rewrite relativise_agree_kind.
  destruct (go_rel_below_dir root_uri r) as [E|E]; [|congruence]. rewrite E. reflexivity.
Qed.

(* ------------------------------------------------------------------ how the file is spelled (CLI)
   The matchers see the name as given. For a file with root-relative path r under the root d: *)

(* absolute spelling d/r: the matchers see r *)
Lemma spelling_abs d r : has_suffix d [SLASH] = false -> go_rel (d ++ [SLASH] ++ r) d = r.
Proof. intros H. destruct (go_rel_below_dir d r) as [E|E]; [exact E|congruence]. Qed.

(* spelled relative to the root itself (working directory = root): the matchers see r *)
Lemma spelling_relative_at_root d r : has_prefix r (go_norm_prefix d) = false -> go_rel r d = r.
Proof.
  intros H. rewrite go_rel_trim. unfold trim_prefix.
  destruct (drop_prefix r (go_norm_prefix d)) as [t|] eqn:E; [|reflexivity].
  apply drop_prefix_spec in E.
  assert (has_prefix r (go_norm_prefix d) = true) by (apply has_prefix_spec; exists t; exact E).
  congruence.
Qed.

(* spelled relative to another working directory d/sub: the matchers see r' although the file is
   sub/r' — a root-anchored pattern then drops a file it does not match (literal engine) *)
Lemma spelling_relative_elsewhere_refuted :
  exists (d sub r' p : str),
    let truerel := sub ++ [SLASH] ++ r' in
    let lit := fun e f : str => str_eqb e f in
    go_rel r' d = r' /\ r' <> truerel /\
    matches (fun _ => true) lit p truerel = false /\
    go_filter_ignored_paths (fun _ => true) lit [r'] [p] d = Some [].
Proof.
  exists [SLASH; 119], [97], [98], [SLASH; 98]. vm_compute.
  repeat split; try reflexivity; discriminate.
Qed.

(* ------------------------------------------------------------------ pinned code: the empty pattern *)

(* an engine in which only "**/**" matches, and only names containing a separator
   (what gobwas/glob does for that pattern); every pattern compiles *)
Definition toy_match (e f : str) : bool := str_eqb e (dstar ++ [SLASH] ++ dstar) && has_slash f.

Lemma empty_pattern_pinned_refuted :
  exists ok m f,
    go_filter_paths ok m [f] [[]] [SLASH] = Some [f] /\ rego_exclude_pinned ok m [] f = true.
Proof.
  exists (fun _ => true), toy_match, [97; SLASH; 98]. vm_compute. split; reflexivity.
Qed.

Lemma empty_pattern_agrees ok m f : rego_exclude ok m [] f = false.
Proof. reflexivity. Qed.
