(* Proofs about Model/FindConfig.v: on every directory chain the upward searches of
   findUpwards find the deepest directory holding the wanted entry, and FindConfig's
   comparison of the two parents' string lengths selects the closest of the two. *)
From Coq Require Import Lia.
From Regal Require Import Base.PathModel Model.FindConfig Proofs.PathLemmas.
Local Open Scope nat_scope.

(* ---------------- components of a path ---------------- *)

Lemma split_on_app_sep_gen c a b :
  split_on c (a ++ c :: b) = split_on c a ++ split_on c b.
Proof.
  induction a as [|x a IH]; simpl.
  - rewrite N.eqb_refl. reflexivity.
  - destruct (N.eqb x c); [rewrite IH; reflexivity|].
    rewrite IH. pose proof (split_on_nonempty c a) as Hn.
    destruct (split_on c a) as [|w ws]; [contradiction | reflexivity].
Qed.

Lemma comps_of_app_slash a b : comps_of (a ++ SLASH :: b) = comps_of a ++ comps_of b.
Proof. unfold comps_of. rewrite split_on_app_sep_gen, filter_app. reflexivity. Qed.

Lemma comps_of_nil : comps_of [] = [].
Proof. reflexivity. Qed.

Lemma comps_of_slash_cons b : comps_of (SLASH :: b) = comps_of b.
Proof. change (SLASH :: b) with ([] ++ SLASH :: b). rewrite comps_of_app_slash. reflexivity. Qed.

Lemma good_noslash1 c : good_comp c -> ~ In SLASH c.
Proof. intros (_ & H & _); exact H. Qed.

Lemma comps_of_good c : good_comp c -> comps_of c = [c].
Proof.
  intros Hg. unfold comps_of. rewrite split_on_nosep by (apply good_noslash1; exact Hg).
  simpl. destruct (good_not_special c Hg) as (E & _). rewrite E. reflexivity.
Qed.

Lemma comps_of_join cs : good_comps cs -> comps_of (join [SLASH] cs) = cs.
Proof.
  induction cs as [|c cs IH]; intros Hg; [reflexivity|].
  inversion Hg as [|? ? Hc Hcs]; subst.
  destruct cs as [|c' cs'].
  - simpl. apply comps_of_good; assumption.
  - rewrite join_cons2.
    change (c ++ [SLASH] ++ join [SLASH] (c' :: cs')) with (c ++ SLASH :: join [SLASH] (c' :: cs')).
    rewrite comps_of_app_slash, comps_of_good, IH by assumption. reflexivity.
Qed.

Lemma comps_of_path ns : good_comps ns -> comps_of (path_of_names ns) = ns.
Proof. intros Hg. unfold path_of_names. rewrite comps_of_slash_cons. apply comps_of_join; assumption. Qed.

Lemma path_inj a b : good_comps a -> good_comps b -> path_of_names a = path_of_names b -> a = b.
Proof.
  intros Ha Hb E. rewrite <- (comps_of_path a Ha), <- (comps_of_path b Hb), E. reflexivity.
Qed.

(* path.Clean of a rooted path whose non-empty components are all ordinary names *)
Lemma clean_comps_filter r cs st :
  good_comps (filter (fun c => negb (str_eqb c [])) cs) ->
  clean_comps r cs st = rev st ++ filter (fun c => negb (str_eqb c [])) cs.
Proof.
  revert st; induction cs as [|c cs IH]; intros st Hg; simpl.
  - rewrite app_nil_r; reflexivity.
  - simpl in Hg. destruct (str_eqb c []) eqn:E0; simpl in *.
    + apply IH; assumption.
    + inversion Hg as [|? ? Hc Hcs]; subst.
      destruct (good_not_special c Hc) as (_ & E2 & E3). rewrite E2, E3.
      rewrite IH by assumption. simpl. rewrite <- app_assoc. reflexivity.
Qed.

Lemma clean_rooted p :
  is_rooted p = true -> good_comps (comps_of p) -> clean p = path_of_names (comps_of p).
Proof.
  intros Hr Hg. unfold clean. rewrite Hr. unfold comps_of in *.
  rewrite clean_comps_filter by assumption. reflexivity.
Qed.

Lemma good_comps_app a b : good_comps a -> good_comps b -> good_comps (a ++ b).
Proof. intros; apply Forall_app; split; assumption. Qed.

Lemma good_single x : good_comp x -> good_comps [x].
Proof. intros H. constructor; [exact H | constructor]. Qed.

Lemma good_snoc ns x : good_comps ns -> good_comp x -> good_comps (ns ++ [x]).
Proof. intros H1 H2. apply good_comps_app; [exact H1 | apply good_single; exact H2]. Qed.

Lemma path_nonempty ns : str_eqb (path_of_names ns) [] = false.
Proof. reflexivity. Qed.

Lemma good_nonempty c : good_comp c -> str_eqb c [] = false.
Proof. intros Hg. apply (good_not_special c Hg). Qed.

(* filepath.Join("/", dir, name) *)
Lemma join_root_dir_name ns x :
  good_comps ns -> good_comp x ->
  pjoin [[SLASH]; path_of_names ns; x] = path_of_names (ns ++ [x]).
Proof.
  intros Hn Hx. unfold pjoin. cbn [filter]. rewrite path_nonempty, (good_nonempty x Hx).
  cbn [str_eqb negb].
  change (join [SLASH] [[SLASH]; path_of_names ns; x])
    with ([SLASH] ++ [SLASH] ++ path_of_names ns ++ [SLASH] ++ x).
  cbn [app]. rewrite clean_rooted.
  - f_equal. rewrite comps_of_slash_cons, comps_of_slash_cons.
    change (path_of_names ns ++ SLASH :: x) with (path_of_names ns ++ SLASH :: x).
    rewrite comps_of_app_slash, comps_of_path, comps_of_good by assumption. reflexivity.
  - reflexivity.
  - rewrite comps_of_slash_cons, comps_of_slash_cons, comps_of_app_slash, comps_of_path, comps_of_good
      by assumption.
    apply good_snoc; assumption.
Qed.

(* filepath.Join(regalDir, "/", "config.yaml") *)
Lemma join_dir_root_name ns x :
  good_comps ns -> good_comp x ->
  pjoin [path_of_names ns; [SLASH]; x] = path_of_names (ns ++ [x]).
Proof.
  intros Hn Hx. unfold pjoin. cbn [filter]. rewrite path_nonempty, (good_nonempty x Hx).
  cbn [str_eqb negb].
  change (join [SLASH] [path_of_names ns; [SLASH]; x])
    with (path_of_names ns ++ [SLASH] ++ [SLASH] ++ [SLASH] ++ x).
  cbn [app].
  assert (C : comps_of (path_of_names ns ++ SLASH :: SLASH :: SLASH :: x) = ns ++ [x]).
  { rewrite comps_of_app_slash, comps_of_slash_cons, comps_of_slash_cons, comps_of_path, comps_of_good
      by assumption. reflexivity. }
  rewrite clean_rooted; [rewrite C; reflexivity | reflexivity |].
  rewrite C. apply good_snoc; assumption.
Qed.

Lemma join_snoc' ns x : ns <> [] -> join [SLASH] (ns ++ [x]) = join [SLASH] ns ++ SLASH :: x.
Proof.
  induction ns as [|c cs IH]; intros Hne; [contradiction|].
  destruct cs as [|c' cs'].
  - reflexivity.
  - change ((c :: c' :: cs') ++ [x]) with (c :: (c' :: cs') ++ [x]).
    change ((c' :: cs') ++ [x]) with (c' :: cs' ++ [x]) at 1.
    rewrite join_cons2. change (c' :: cs' ++ [x]) with ((c' :: cs') ++ [x]).
    rewrite IH by discriminate. rewrite join_cons2. rewrite <- !app_assoc. reflexivity.
Qed.

Lemma path_snoc ns x :
  path_of_names (ns ++ [x]) =
  match ns with [] => SLASH :: x | _ => path_of_names ns ++ SLASH :: x end.
Proof.
  destruct ns as [|c cs]; [reflexivity|].
  unfold path_of_names. rewrite join_snoc' by discriminate. reflexivity.
Qed.

(* filepath.Dir *)
Lemma dir_path_snoc ns x :
  good_comps ns -> good_comp x -> dir (path_of_names (ns ++ [x])) = path_of_names ns.
Proof.
  intros Hn Hx. unfold dir. rewrite path_snoc. destruct ns as [|c cs].
  - change (SLASH :: x) with ([] ++ SLASH :: x).
    rewrite upto_last_slash_app by (apply good_noslash1; exact Hx). reflexivity.
  - rewrite upto_last_slash_app by (apply good_noslash1; exact Hx).
    unfold path_of_names. cbn [app]. apply clean_rooted_trailing; [assumption | discriminate].
Qed.

(* the "stop at the root" test of findUpwards *)
Lemma root_test ns x :
  good_comps ns -> good_comp x ->
  str_eqb (path_of_names (ns ++ [x])) (SLASH :: x) = match ns with [] => true | _ => false end.
Proof.
  intros Hn Hx. destruct ns as [|c cs].
  - apply str_eqb_refl.
  - destruct (str_eqb_spec (path_of_names ((c :: cs) ++ [x])) (SLASH :: x)) as [E|]; [|reflexivity].
    exfalso. change (SLASH :: x) with (path_of_names [x]) in E.
    apply path_inj in E.
    + destruct cs; discriminate.
    + apply good_snoc; assumption.
    + apply good_single; assumption.
Qed.

(* "move up one level" *)
Lemma split_path ns :
  good_comps ns -> ns <> [] -> split_on SLASH (path_of_names ns) = [] :: ns.
Proof.
  intros Hg Hne. unfold path_of_names.
  change (SLASH :: join [SLASH] ns) with ([] ++ SLASH :: join [SLASH] ns).
  rewrite split_on_app_sep by (intros []).
  rewrite split_on_join; [reflexivity | assumption |].
  eapply Forall_impl; [|exact Hg]. intros c; apply good_noslash1.
Qed.

Lemma parent_dir_snoc ns x :
  good_comps ns -> good_comp x -> parent_dir (path_of_names (ns ++ [x])) = Some (path_of_names ns).
Proof.
  intros Hn Hx. unfold parent_dir.
  assert (Hg : good_comps (ns ++ [x])) by (apply good_snoc; assumption).
  rewrite split_path by (assumption || (destruct ns; discriminate)).
  match goal with |- context [Nat.ltb ?a 2] =>
    assert (L : Nat.ltb a 2 = false)
      by (apply Nat.ltb_ge; cbn [length]; rewrite app_length; cbn [length]; lia);
    rewrite L end.
  change ([] :: ns ++ [x]) with (([] :: ns) ++ [x]). rewrite removelast_last.
  cbn [str_eqb]. unfold pjoin. cbn [filter str_eqb negb].
  assert (F : filter (fun e => negb (str_eqb e [])) ns = ns).
  { clear -Hn. induction ns as [|c cs IH]; [reflexivity|].
    inversion Hn as [|? ? Hc Hcs]; subst. cbn [filter]. rewrite (good_nonempty c Hc). cbn [negb].
    rewrite IH by assumption. reflexivity. }
  rewrite F. f_equal.
  destruct ns as [|c cs].
  - reflexivity.
  - change (join [SLASH] ([SLASH] :: c :: cs)) with ([SLASH] ++ [SLASH] ++ join [SLASH] (c :: cs)).
    cbn [app]. rewrite clean_rooted.
    + rewrite comps_of_slash_cons, comps_of_slash_cons, comps_of_join by assumption. reflexivity.
    + reflexivity.
    + rewrite comps_of_slash_cons, comps_of_slash_cons, comps_of_join by assumption. assumption.
Qed.

(* ---------------- the reserved names ---------------- *)

Lemma REGAL_good : good_comp REGAL.
Proof. repeat split; try discriminate. cbn. intuition discriminate. Qed.
Lemma REGAL_YAML_good : good_comp REGAL_YAML.
Proof. repeat split; try discriminate. cbn. intuition discriminate. Qed.
Lemma CONFIG_YAML_good : good_comp CONFIG_YAML.
Proof. repeat split; try discriminate. cbn. intuition discriminate. Qed.

Lemma plain_good n : plain_name n -> good_comp n.
Proof. intros (H1 & H2 & H3 & H4 & _). repeat split; assumption. Qed.

Lemma plains_good ns : Forall plain_name ns -> good_comps ns.
Proof. intros H. eapply Forall_impl; [|exact H]. apply plain_good. Qed.

Lemma plain_not_reserved n : plain_name n -> str_eqb n REGAL = false /\ str_eqb n REGAL_YAML = false.
Proof.
  intros (_ & _ & _ & _ & H5 & H6). split.
  - destruct (str_eqb_spec n REGAL); congruence.
  - destruct (str_eqb_spec n REGAL_YAML); congruence.
Qed.

(* ---------------- the file system of a chain ---------------- *)

(* contents of the deepest directory *)
Fixpoint deepest (c0 : contents) (lv : levels) : contents :=
  match lv with [] => c0 | (_, c) :: lv' => deepest c lv' end.

Lemma deepest_snoc c0 lv n c : deepest c0 (lv ++ [(n, c)]) = c.
Proof. revert c0; induction lv as [|[n' c'] lv IH]; intros c0; [reflexivity | apply IH]. Qed.

Lemma walk_descend c0 above below file rest :
  Forall plain_name (names above) ->
  walk c0 (above ++ below) file (names above ++ rest) = walk (deepest c0 above) below file rest.
Proof.
  revert c0; induction above as [|[n c] above IH]; intros c0 Hp; [reflexivity|].
  inversion Hp as [|? ? Hn Hns]; subst.
  cbn [names map fst app walk]. destruct (plain_not_reserved n Hn) as (E1 & E2).
  rewrite E1, E2, str_eqb_refl. apply IH; assumption.
Qed.

Lemma clean_path comps : good_comps comps -> clean (path_of_names comps) = path_of_names comps.
Proof.
  intros Hg. rewrite clean_rooted; [rewrite comps_of_path by assumption; reflexivity | reflexivity |].
  rewrite comps_of_path; assumption.
Qed.

Lemma fs_path c0 lv file comps :
  good_comps comps -> fs_of_chain c0 lv file (path_of_names comps) = walk c0 lv file comps.
Proof.
  intros Hg. unfold fs_of_chain. rewrite clean_path by assumption.
  cbn [path_of_names is_rooted]. rewrite N.eqb_refl, comps_of_path by assumption. reflexivity.
Qed.

Lemma probe_regal c0 above below file :
  Forall plain_name (names above) ->
  fs_of_chain c0 (above ++ below) file (path_of_names (names above ++ [REGAL])) =
  regal_node (c_regal (deepest c0 above)).
Proof.
  intros Hp. rewrite fs_path.
  - rewrite walk_descend by assumption.
    destruct below as [|[n c] below]; cbn [walk]; rewrite str_eqb_refl;
      destruct (c_regal (deepest c0 above)) as [| |[|]]; reflexivity.
  - apply good_snoc; [apply plains_good; assumption | apply REGAL_good].
Qed.

Lemma probe_yaml c0 above below file :
  Forall plain_name (names above) ->
  fs_of_chain c0 (above ++ below) file (path_of_names (names above ++ [REGAL_YAML])) =
  yaml_node (c_yaml (deepest c0 above)).
Proof.
  intros Hp. rewrite fs_path.
  - rewrite walk_descend by assumption.
    assert (E : str_eqb REGAL_YAML REGAL = false) by reflexivity.
    destruct below as [|[n c] below]; cbn [walk]; rewrite E, str_eqb_refl; reflexivity.
  - apply good_snoc; [apply plains_good; assumption | apply REGAL_YAML_good].
Qed.

Lemma probe_config c0 above below file :
  Forall plain_name (names above) ->
  fs_of_chain c0 (above ++ below) file (path_of_names (names above ++ [REGAL; CONFIG_YAML])) =
  match c_regal (deepest c0 above) with RDir true => NFile | _ => NAbsent end.
Proof.
  intros Hp. rewrite fs_path.
  - rewrite walk_descend by assumption.
    destruct below as [|[n c] below]; cbn [walk]; rewrite !str_eqb_refl;
      destruct (c_regal (deepest c0 above)) as [| |[|]]; reflexivity.
  - apply good_comps_app; [apply plains_good; assumption |].
    constructor; [apply REGAL_good | apply good_single; apply CONFIG_YAML_good].
Qed.

Lemma probe_start_dir c0 lv file :
  Forall plain_name (names lv) -> fs_of_chain c0 lv file (path_of_names (names lv)) = NDir.
Proof.
  intros Hp. rewrite fs_path by (apply plains_good; assumption).
  rewrite <- (app_nil_r lv) at 1. rewrite <- (app_nil_r (names lv)).
  rewrite walk_descend by assumption. reflexivity.
Qed.

Lemma probe_start_file c0 lv f :
  Forall plain_name (names lv) -> plain_name f ->
  fs_of_chain c0 lv (Some f) (path_of_names (names lv ++ [f])) = NFile.
Proof.
  intros Hp Hf. rewrite fs_path.
  - rewrite <- (app_nil_r lv) at 1. rewrite walk_descend by assumption.
    cbn [walk]. destruct (plain_not_reserved f Hf) as (E1 & E2). rewrite E1, E2, str_eqb_refl. reflexivity.
  - apply good_snoc; [apply plains_good; assumption | apply plain_good; assumption].
Qed.

(* ---------------- nearest ---------------- *)

Lemma nearest_snoc P pre c0 lv n c :
  nearest P pre c0 (lv ++ [(n, c)]) =
  if P c then Some (pre ++ names lv ++ [n], c) else nearest P pre c0 lv.
Proof.
  revert pre c0; induction lv as [|[n' c'] lv IH]; intros pre c0.
  - cbn [app nearest names map]. destruct (P c); reflexivity.
  - cbn [app nearest names map fst]. rewrite IH. destruct (P c).
    + rewrite <- !app_assoc. reflexivity.
    + reflexivity.
Qed.

Lemma nearest_none_below P pre c0 above below :
  Forall (fun l => P (snd l) = false) below ->
  nearest P pre c0 (above ++ below) = nearest P pre c0 above.
Proof.
  intros Hb. revert above. induction below as [|[n c] below IH] using rev_ind; intros above.
  - rewrite app_nil_r; reflexivity.
  - apply Forall_app in Hb. destruct Hb as [Hb Hc]. inversion Hc as [|? ? Hc' _]; subst. cbn [snd] in Hc'.
    rewrite app_assoc, nearest_snoc, Hc'. apply IH; assumption.
Qed.

Lemma nearest_prefix P pre c0 lv p c :
  nearest P pre c0 lv = Some (p, c) ->
  exists q r, p = pre ++ q /\ names lv = q ++ r /\ P c = true.
Proof.
  revert pre c0; induction lv as [|[n' c'] lv IH]; intros pre c0 H; cbn [nearest] in H.
  - destruct (P c0) eqn:E; [|discriminate]. injection H as <- <-.
    exists [], []. rewrite app_nil_r. auto.
  - destruct (nearest P (pre ++ [n']) c' lv) as [[p' c'']|] eqn:En.
    + injection H as <- <-. destruct (IH _ _ En) as (q & r & -> & Hn & HP).
      exists (n' :: q), r. rewrite <- app_assoc. unfold names in *. cbn [map fst app]. rewrite Hn. auto.
    + destruct (P c0) eqn:E; [|discriminate]. injection H as <- <-.
      exists [], (names ((n', c') :: lv)). rewrite app_nil_r. auto.
Qed.

Lemma nearest_all_none P pre c0 lv :
  P c0 = false -> Forall (fun l => P (snd l) = false) lv -> nearest P pre c0 lv = None.
Proof.
  intros H0 Hl. rewrite <- (app_nil_l lv), nearest_none_below by assumption.
  cbn [nearest]. rewrite H0. reflexivity.
Qed.

(* ---------------- the loop of findUpwards ---------------- *)

Section Loop.
  Variables (c0 : contents) (lv : levels) (file : option str).
  Variables (name : str) (expect_dir : bool) (P : contents -> bool).
  Hypothesis Hplain : Forall plain_name (names lv).
  Hypothesis Hname : good_comp name.
  Hypothesis Hprobe : forall above below, lv = above ++ below ->
    node_is expect_dir (fs_of_chain c0 lv file (path_of_names (names above ++ [name]))) =
    P (deepest c0 above).

  Let fs := fs_of_chain c0 lv file.

  Definition up_spec (above : levels) : up_result :=
    match nearest P [] c0 above with
    | Some (p, _) => UFound (path_of_names (p ++ [name]))
    | None => UNone
    end.

  Lemma loop_spec above : forall below fuel,
    lv = above ++ below -> length above < fuel ->
    find_upwards_loop fuel fs (path_of_names (names above)) name expect_dir = up_spec above.
  Proof.
    induction above as [|[n c] above IH] using rev_ind; intros below fuel Hlv Hfuel.
    - destruct fuel as [|fuel]; [inversion Hfuel|]. cbn [find_upwards_loop names map].
      rewrite (join_root_dir_name [] name (Forall_nil _) Hname).
      cbn [app]. fold fs. unfold fs at 1.
      pose proof (Hprobe [] below Hlv) as Hp0. cbn [names map app] in Hp0. rewrite Hp0. cbn [deepest]. unfold up_spec. cbn [nearest].
      destruct (P c0); [reflexivity|].
      pose proof (root_test [] name (Forall_nil _) Hname) as Hr. cbn [app] in Hr. rewrite Hr. reflexivity.
    - destruct fuel as [|fuel]; [inversion Hfuel|]. cbn [find_upwards_loop].
      assert (Hpa : Forall plain_name (names (above ++ [(n, c)]))).
      { rewrite Hlv in Hplain. unfold names in *. rewrite map_app in Hplain. apply Forall_app in Hplain. tauto. }
      assert (Hga : good_comps (names (above ++ [(n, c)]))) by (apply plains_good; assumption).
      rewrite join_root_dir_name by assumption.
      fold fs. unfold fs at 1. rewrite (Hprobe _ below Hlv), deepest_snoc.
      unfold up_spec. rewrite nearest_snoc. cbn [app].
      destruct (P c) eqn:EP.
      + unfold names. rewrite map_app. reflexivity.
      + unfold names in *. rewrite map_app in *. cbn [map fst] in *.
        apply Forall_app in Hpa. destruct Hpa as [Hpa Hn]. inversion Hn as [|? ? Hn' _]; subst.
        assert (Hgab : good_comps (map fst above)) by (apply plains_good; assumption).
        rewrite root_test by assumption.
        destruct (map fst above ++ [n]) eqn:Eab; [destruct (map fst above); discriminate|]. rewrite <- Eab.
        rewrite parent_dir_snoc by (assumption || (apply plain_good; assumption)).
        apply (IH ((n, c) :: below) fuel).
        * rewrite <- app_assoc. reflexivity.
        * rewrite app_length in Hfuel. cbn [length] in Hfuel. lia.
  Qed.
End Loop.

Lemma names_length_le ns : Forall (fun n => n <> []) ns -> length ns <= length (path_of_names ns).
Proof.
  intros H. unfold path_of_names. cbn [length].
  induction H as [|n ns Hn Hns IH]; [cbn; lia|].
  destruct ns as [|n' ns'].
  - cbn. destruct n; [contradiction | cbn; lia].
  - rewrite join_cons2, !app_length. cbn [length] in *. destruct n; [contradiction|]. cbn [length]. unfold str in *. lia.
Qed.

Lemma plain_nonempty ns : Forall plain_name ns -> Forall (fun n => n <> []) ns.
Proof. intros H. eapply Forall_impl; [|exact H]. intros n (H1 & _); exact H1. Qed.

(* findUpwards on a chain = the deepest directory holding the wanted entry *)
Lemma find_upwards_spec c0 lv file cwd arg name expect_dir P :
  Forall plain_name (names lv) -> file_ok file -> good_comp name ->
  abs_path cwd arg = start_path lv file ->
  (forall above below, lv = above ++ below ->
     node_is expect_dir (fs_of_chain c0 lv file (path_of_names (names above ++ [name]))) =
     P (deepest c0 above)) ->
  find_upwards (fs_of_chain c0 lv file) cwd arg name expect_dir =
  up_spec c0 name P lv.
Proof.
  intros Hp Hf Hn Habs Hprobe. unfold find_upwards, find_upwards_gen. rewrite Habs. unfold start_path.
  destruct file as [f|].
  - rewrite probe_start_file by assumption.
    rewrite dir_path_snoc; [| apply plains_good; assumption | apply plain_good; exact Hf].
    apply (loop_spec c0 lv (Some f) name expect_dir P Hp Hn Hprobe lv []).
    + rewrite app_nil_r; reflexivity.
    + pose proof (names_length_le (names lv ++ [f])) as L.
      assert (Forall (fun n => n <> []) (names lv ++ [f])).
      { apply Forall_app; split; [apply plain_nonempty; assumption | constructor; [apply Hf | constructor]]. }
      specialize (L H). rewrite app_length in L. unfold names in *. rewrite map_length in L. cbn [length] in L. lia.
  - rewrite app_nil_r, probe_start_dir by assumption.
    apply (loop_spec c0 lv None name expect_dir P Hp Hn Hprobe lv []).
    + rewrite app_nil_r; reflexivity.
    + pose proof (names_length_le (names lv) (plain_nonempty _ Hp)) as L.
      unfold names in *. rewrite map_length in L. lia.
Qed.

Lemma find_dir_spec c0 lv file cwd arg :
  Forall plain_name (names lv) -> file_ok file -> abs_path cwd arg = start_path lv file ->
  find_regal_directory (fs_of_chain c0 lv file) cwd arg = up_spec c0 REGAL holds_dir lv.
Proof.
  intros Hp Hf Habs. apply find_upwards_spec; try assumption; [apply REGAL_good|].
  intros above below Hlv. subst lv. rewrite probe_regal.
  - unfold holds_dir. destruct (c_regal (deepest c0 above)); reflexivity.
  - unfold names in *. rewrite map_app in Hp. apply Forall_app in Hp. tauto.
Qed.

Lemma find_yaml_spec c0 lv file cwd arg :
  Forall plain_name (names lv) -> file_ok file -> abs_path cwd arg = start_path lv file ->
  find_regal_config_file (fs_of_chain c0 lv file) cwd arg = up_spec c0 REGAL_YAML holds_yaml lv.
Proof.
  intros Hp Hf Habs. apply find_upwards_spec; try assumption; [apply REGAL_YAML_good|].
  intros above below Hlv. subst lv. rewrite probe_yaml.
  - unfold holds_yaml. destruct (c_yaml (deepest c0 above)); reflexivity.
  - unfold names in *. rewrite map_app in Hp. apply Forall_app in Hp. tauto.
Qed.

(* ---------------- lengths of ancestors ---------------- *)

Lemma path_len_snoc ns x : x <> [] -> length (path_of_names ns) < length (path_of_names (ns ++ [x])).
Proof.
  intros Hx. rewrite path_snoc. destruct ns as [|c cs].
  - cbn. destruct x; [contradiction | cbn; lia].
  - rewrite app_length. cbn [length]. lia.
Qed.

Lemma path_len_app ns ext :
  Forall (fun n => n <> []) ext -> ext <> [] ->
  length (path_of_names ns) < length (path_of_names (ns ++ ext)).
Proof.
  revert ns; induction ext as [|x ext IH]; intros ns Hall Hne; [contradiction|].
  inversion Hall as [|? ? Hx Hext]; subst.
  pose proof (path_len_snoc ns x Hx) as L1.
  destruct ext as [|y ext'].
  - exact L1.
  - specialize (IH (ns ++ [x]) Hext ltac:(discriminate)). rewrite <- app_assoc in IH. cbn [app] in IH. unfold str in *. lia.
Qed.

Lemma prefix_total {A} (l q1 r1 q2 r2 : list A) :
  l = q1 ++ r1 -> l = q2 ++ r2 -> (exists e, q2 = q1 ++ e) \/ (exists e, q1 = q2 ++ e).
Proof.
  revert l q2 r1 r2; induction q1 as [|a q1 IH]; intros l q2 r1 r2 H1 H2.
  - left. exists q2. reflexivity.
  - destruct q2 as [|b q2].
    + right. exists (a :: q1). reflexivity.
    + subst l. injection H2 as <- H2.
      destruct (IH _ _ _ _ eq_refl H2) as [[e ->]|[e ->]]; [left | right]; exists e; reflexivity.
Qed.

(* ---------------- FindConfig on a chain ---------------- *)

Definition find_spec (c0 : contents) (lv : levels) : find_result :=
  match nearest holds_dir [] c0 lv, nearest holds_yaml [] c0 lv with
  | None, None => FErr ENotFound
  | Some (p, c), None => outcome_at p c
  | None, Some (q, c) => outcome_at q c
  | Some (p, c), Some (q, c') =>
      if Nat.eqb (length p) (length q) then FErr EConflict
      else if Nat.ltb (length p) (length q) then FFound (path_of_names (q ++ [REGAL_YAML]))
      else match c_regal c with
           | RDir true => FFound (path_of_names (p ++ [REGAL; CONFIG_YAML]))
           | _ => FErr ENoConfigInDir
           end
  end.

Lemma nearest_good P c0 lv p c :
  Forall plain_name (names lv) -> nearest P [] c0 lv = Some (p, c) ->
  exists r, names lv = p ++ r /\ Forall plain_name p /\ P c = true.
Proof.
  intros Hp H. destruct (nearest_prefix _ _ _ _ _ _ H) as (q & r & -> & Hn & HP).
  exists r. cbn [app]. repeat split; try assumption.
  rewrite Hn in Hp. apply Forall_app in Hp. tauto.
Qed.

(* the deepest holder really has the contents it was selected for: needed to evaluate
   the stat of .regal/config.yaml *)
Lemma nearest_deepest P pre c0 lv p c :
  nearest P pre c0 lv = Some (p, c) ->
  exists above below, lv = above ++ below /\ p = pre ++ names above /\ c = deepest c0 above.
Proof.
  revert pre c0; induction lv as [|[n' c'] lv IH]; intros pre c0 H; cbn [nearest] in H.
  - destruct (P c0); [|discriminate]. injection H as <- <-. exists [], []. unfold names; cbn [map app]. rewrite app_nil_r. auto.
  - destruct (nearest P (pre ++ [n']) c' lv) as [[p' c'']|] eqn:En.
    + injection H as <- <-. destruct (IH _ _ En) as (ab & bl & -> & -> & ->).
      exists ((n', c') :: ab), bl. unfold names; cbn [map fst app deepest]. rewrite <- app_assoc. auto.
    + destruct (P c0); [|discriminate]. injection H as <- <-.
      exists [], ((n', c') :: lv). unfold names; cbn [map app]. rewrite app_nil_r. auto.
Qed.

Lemma nearest_some_if_holder P pre c0 ab bl :
  P (deepest c0 ab) = true -> nearest P pre c0 (ab ++ bl) <> None.
Proof.
  intros E. induction bl as [|[n c''] bl IHb] using rev_ind.
  - rewrite app_nil_r. destruct ab as [|[n a] ab _] using rev_ind.
    + cbn in *. rewrite E. discriminate.
    + rewrite nearest_snoc. rewrite deepest_snoc in E. rewrite E. discriminate.
  - rewrite app_assoc, nearest_snoc. destruct (P c''); [discriminate | assumption].
Qed.

Lemma config_in_dir_spec c0 lv file p c :
  Forall plain_name (names lv) ->
  nearest holds_dir [] c0 lv = Some (p, c) ->
  config_in_regal_dir (fs_of_chain c0 lv file) (path_of_names (p ++ [REGAL])) =
  match c_regal c with
  | RDir true => FFound (path_of_names (p ++ [REGAL; CONFIG_YAML]))
  | _ => FErr ENoConfigInDir
  end.
Proof.
  intros Hp H. destruct (nearest_deepest _ _ _ _ _ _ H) as (ab & bl & -> & -> & ->). cbn [app] in *.
  assert (Hpa : Forall plain_name (names ab)).
  { unfold names in *. rewrite map_app in Hp. apply Forall_app in Hp. tauto. }
  unfold config_in_regal_dir.
  rewrite join_dir_root_name;
    [| apply good_snoc; [apply plains_good; assumption | apply REGAL_good]
     | apply CONFIG_YAML_good].
  rewrite <- app_assoc. cbn [app]. rewrite probe_config by assumption.
  destruct (c_regal (deepest c0 ab)) as [| |[|]]; reflexivity.
Qed.

Lemma str_eqb_len_ne a b : length a <> length b -> str_eqb a b = false.
Proof. intros H. destruct (str_eqb_spec a b) as [->|]; [contradiction | reflexivity]. Qed.

Lemma find_config_spec c0 lv file cwd arg :
  Forall plain_name (names lv) -> file_ok file -> abs_path cwd arg = start_path lv file ->
  find_config (fs_of_chain c0 lv file) cwd arg = find_spec c0 lv.
Proof.
  intros Hp Hf Habs. unfold find_config, find_config_gen.
  fold (find_upwards (fs_of_chain c0 lv file) cwd arg REGAL true).
  fold (find_upwards (fs_of_chain c0 lv file) cwd arg REGAL_YAML false).
  fold (find_regal_directory (fs_of_chain c0 lv file) cwd arg).
  fold (find_regal_config_file (fs_of_chain c0 lv file) cwd arg).
  rewrite (find_dir_spec c0 lv file cwd arg Hp Hf Habs), (find_yaml_spec c0 lv file cwd arg Hp Hf Habs).
  unfold up_spec, find_spec.
  destruct (nearest holds_dir [] c0 lv) as [[p c]|] eqn:Ed;
    destruct (nearest holds_yaml [] c0 lv) as [[q c']|] eqn:Ey; cbn [found andb negb].
  - (* both found *)
    destruct (nearest_good _ _ _ _ _ Hp Ed) as (r1 & Hn1 & Hpp & Hd).
    destruct (nearest_good _ _ _ _ _ Hp Ey) as (r2 & Hn2 & Hpq & Hy).
    rewrite !dir_path_snoc by (try (apply plains_good; assumption); apply REGAL_good || apply REGAL_YAML_good).
    destruct (prefix_total _ _ _ _ _ Hn1 Hn2) as [[e ->]|[e ->]].
    + destruct e as [|x e].
      * rewrite app_nil_r, str_eqb_refl, Nat.eqb_refl. reflexivity.
      * assert (L : length (path_of_names p) < length (path_of_names (p ++ x :: e))).
        { apply path_len_app; [|discriminate]. apply plain_nonempty. apply Forall_app in Hpq. tauto. }
        rewrite str_eqb_len_ne by lia.
        assert (L2 : length p < length (p ++ x :: e)) by (rewrite app_length; cbn [length]; lia).
        replace (Nat.eqb (length p) (length (p ++ x :: e))) with false by (symmetry; apply Nat.eqb_neq; lia).
        replace (Nat.ltb (length (path_of_names p)) (length (path_of_names (p ++ x :: e)))) with true
          by (symmetry; apply Nat.ltb_lt; lia).
        replace (Nat.ltb (length p) (length (p ++ x :: e))) with true by (symmetry; apply Nat.ltb_lt; lia).
        reflexivity.
    + destruct e as [|x e].
      * rewrite app_nil_r, str_eqb_refl, Nat.eqb_refl. reflexivity.
      * assert (L : length (path_of_names q) < length (path_of_names (q ++ x :: e))).
        { apply path_len_app; [|discriminate]. apply plain_nonempty. apply Forall_app in Hpp. tauto. }
        rewrite str_eqb_len_ne by lia.
        assert (L2 : length q < length (q ++ x :: e)) by (rewrite app_length; cbn [length]; lia).
        replace (Nat.eqb (length (q ++ x :: e)) (length q)) with false by (symmetry; apply Nat.eqb_neq; lia).
        replace (Nat.ltb (length (path_of_names (q ++ x :: e))) (length (path_of_names q))) with false
          by (symmetry; apply Nat.ltb_ge; lia).
        replace (Nat.ltb (length (q ++ x :: e)) (length q)) with false by (symmetry; apply Nat.ltb_ge; lia).
        apply config_in_dir_spec; assumption.
  - (* only the directory *)
    cbn [length Nat.ltb Nat.leb]. rewrite (config_in_dir_spec _ _ _ _ _ Hp Ed).
    destruct (nearest_good _ _ _ _ _ Hp Ed) as (_ & _ & _ & Hd).
    (* the holder has no .regal.yaml, otherwise the yaml search had found one at least as deep *)
    unfold outcome_at. rewrite Hd. cbn [andb].
    assert (Hny : holds_yaml c = false).
    { destruct (nearest_deepest _ _ _ _ _ _ Ed) as (ab & bl & Hlv & _ & Hc).
      destruct (holds_yaml c) eqn:E; [|reflexivity]. exfalso.
      subst lv. apply (nearest_some_if_holder holds_yaml [] c0 ab bl); [rewrite <- Hc; exact E | exact Ey]. }
    rewrite Hny. reflexivity.
  - (* only the file *)
    cbn [length Nat.ltb Nat.leb].
    destruct (nearest_good _ _ _ _ _ Hp Ey) as (_ & _ & _ & Hy).
    unfold outcome_at. rewrite Hy.
    assert (Hnd : holds_dir c' = false).
    { destruct (nearest_deepest _ _ _ _ _ _ Ey) as (ab & bl & Hlv & _ & Hc).
      destruct (holds_dir c') eqn:E; [|reflexivity]. exfalso.
      subst lv. apply (nearest_some_if_holder holds_dir [] c0 ab bl); [rewrite <- Hc; exact E | exact Ed]. }
    rewrite Hnd. reflexivity.
  - reflexivity.
Qed.

(* ---------------- the declarative statement ---------------- *)

Lemma none_hold_kind lv : none_hold lv ->
  Forall (fun l => holds_dir (snd l) = false) lv /\ Forall (fun l => holds_yaml (snd l) = false) lv.
Proof.
  intros H. split; (eapply Forall_impl; [|exact H]); intros l Hl; unfold holds in Hl;
    apply orb_false_iff in Hl; tauto.
Qed.

Lemma nearest_at P c0 above n c below :
  P c = true -> Forall (fun l => P (snd l) = false) below ->
  nearest P [] c0 (above ++ (n, c) :: below) = Some (names above ++ [n], c).
Proof.
  intros HP Hb. change (above ++ (n, c) :: below) with (above ++ [(n, c)] ++ below).
  rewrite app_assoc, nearest_none_below by assumption. rewrite nearest_snoc, HP. reflexivity.
Qed.

Lemma nearest_above P c0 above n c below :
  P c = false -> Forall (fun l => P (snd l) = false) below ->
  nearest P [] c0 (above ++ (n, c) :: below) = nearest P [] c0 above.
Proof.
  intros HP Hb. apply nearest_none_below. constructor; assumption.
Qed.

Lemma nearest_shorter P c0 above q c :
  nearest P [] c0 above = Some (q, c) -> length q <= length above.
Proof.
  intros H. destruct (nearest_prefix _ _ _ _ _ _ H) as (q' & r & -> & Hn & _). cbn [app].
  assert (length (names above) = length above) by (unfold names; apply map_length).
  rewrite Hn, app_length in H0. lia.
Qed.

Theorem find_nearest (c0 : contents) (lv : levels) (file : option str) (cwd arg : str) :
  Forall plain_name (map fst lv) -> file_ok file ->
  abs_path cwd arg = start_path lv file ->
  let fs := fs_of_chain c0 lv file in
  (forall above n c below, lv = above ++ (n, c) :: below ->
     holds c = true -> none_hold below ->
     find_config fs cwd arg = outcome_at (map fst above ++ [n]) c) /\
  (holds c0 = true -> none_hold lv -> find_config fs cwd arg = outcome_at [] c0) /\
  (holds c0 = false -> none_hold lv -> find_config fs cwd arg = FErr ENotFound).
Proof.
  intros Hp Hf Habs fs. unfold fs. rewrite (find_config_spec c0 lv file cwd arg Hp Hf Habs).
  repeat split.
  - intros above n c below -> Hc Hb. destruct (none_hold_kind _ Hb) as (Hbd & Hby).
    unfold find_spec, holds in *.
    destruct (holds_dir c) eqn:Ed; destruct (holds_yaml c) eqn:Ey; try discriminate.
    + rewrite !nearest_at by assumption. rewrite Nat.eqb_refl. unfold outcome_at. rewrite Ed, Ey. reflexivity.
    + rewrite nearest_at, nearest_above by assumption.
      destruct (nearest holds_yaml [] c0 above) as [[q c']|] eqn:En; [|reflexivity].
      pose proof (nearest_shorter _ _ _ _ _ En) as L.
      assert (L2 : length (names above ++ [n]) = S (length above))
        by (rewrite app_length; unfold names; rewrite map_length; cbn; lia).
      replace (Nat.eqb (length (names above ++ [n])) (length q)) with false by (symmetry; apply Nat.eqb_neq; lia).
      replace (Nat.ltb (length (names above ++ [n])) (length q)) with false by (symmetry; apply Nat.ltb_ge; lia).
      unfold outcome_at. rewrite Ed, Ey. reflexivity.
    + rewrite nearest_above, nearest_at by assumption.
      destruct (nearest holds_dir [] c0 above) as [[q c']|] eqn:En.
      * pose proof (nearest_shorter _ _ _ _ _ En) as L.
        assert (L2 : length (names above ++ [n]) = S (length above))
          by (rewrite app_length; unfold names; rewrite map_length; cbn; lia).
        replace (Nat.eqb (length q) (length (names above ++ [n]))) with false by (symmetry; apply Nat.eqb_neq; lia).
        replace (Nat.ltb (length q) (length (names above ++ [n]))) with true by (symmetry; apply Nat.ltb_lt; lia).
        unfold outcome_at. rewrite Ed, Ey. reflexivity.
      * reflexivity.
  - intros H0 Hl. destruct (none_hold_kind _ Hl) as (Hd & Hy). unfold find_spec, holds in *.
    rewrite <- (app_nil_l lv). rewrite !nearest_none_below by assumption. cbn [nearest].
    destruct (holds_dir c0) eqn:Ed; destruct (holds_yaml c0) eqn:Ey; try discriminate; try reflexivity.
    cbn. unfold outcome_at. rewrite Ed, Ey. reflexivity.
  - intros H0 Hl. destruct (none_hold_kind _ Hl) as (Hd & Hy). unfold find_spec, holds in *.
    apply orb_false_iff in H0. destruct H0 as [H1 H2].
    rewrite !nearest_all_none by assumption. reflexivity.
Qed.

(* error "conflict" exactly when the closest holders of the two kinds coincide *)
Theorem conflict_iff (c0 : contents) (lv : levels) (file : option str) (cwd arg : str) :
  Forall plain_name (map fst lv) -> file_ok file -> abs_path cwd arg = start_path lv file ->
  (find_config (fs_of_chain c0 lv file) cwd arg = FErr EConflict <->
   exists p c, nearest holds_dir [] c0 lv = Some (p, c) /\ nearest holds_yaml [] c0 lv = Some (p, c)).
Proof.
  intros Hp Hf Habs. rewrite (find_config_spec c0 lv file cwd arg Hp Hf Habs). unfold find_spec.
  destruct (nearest holds_dir [] c0 lv) as [[p c]|] eqn:Ed;
    destruct (nearest holds_yaml [] c0 lv) as [[q c']|] eqn:Ey.
  - destruct (nearest_deepest _ _ _ _ _ _ Ed) as (ab1 & bl1 & Hl1 & Hp1 & Hc1).
    destruct (nearest_deepest _ _ _ _ _ _ Ey) as (ab2 & bl2 & Hl2 & Hp2 & Hc2).
    cbn [app] in *.
    destruct (Nat.eqb (length p) (length q)) eqn:El.
    + split; [intros _ | reflexivity]. apply Nat.eqb_eq in El.
      assert (ab1 = ab2).
      { subst p q. unfold names in El. rewrite !map_length in El.
        clear -Hl1 Hl2 El. subst lv. revert ab2 bl1 bl2 Hl2 El.
        induction ab1 as [|x ab1 IH]; intros [|y ab2] bl1 bl2 H El; try discriminate; [reflexivity|].
        injection H as -> H. f_equal. eapply IH; [exact H | cbn in El; lia]. }
      subst ab2. exists p, c. split; [reflexivity|]. subst. reflexivity.
    + split.
      * destruct (Nat.ltb (length p) (length q)); [discriminate|].
        destruct (c_regal c) as [| |[|]]; discriminate.
      * intros (p' & c'' & [= <- <-] & [= <- <-]). rewrite Nat.eqb_refl in El. discriminate.
  - split; [|intros (p' & c'' & _ & H); discriminate].
    unfold outcome_at. destruct (nearest_good _ _ _ _ _ Hp Ed) as (_ & _ & _ & Hd).
    intros H. exfalso. rewrite Hd in H. cbn [andb] in H.
    destruct (holds_yaml c) eqn:E.
    + (* impossible: then the yaml search would have found it *)
      destruct (nearest_deepest _ _ _ _ _ _ Ed) as (ab & bl & Hlv & _ & Hc). subst lv.
      apply (nearest_some_if_holder holds_yaml [] c0 ab bl); [rewrite <- Hc; exact E | exact Ey].
    + destruct (c_regal c) as [| |[|]]; discriminate.
  - split; [|intros (p' & c'' & H & _); discriminate].
    unfold outcome_at. destruct (nearest_good _ _ _ _ _ Hp Ey) as (_ & _ & _ & Hy).
    intros H. exfalso. rewrite Hy in H.
    destruct (holds_dir c') eqn:E; cbn [andb] in H; [|discriminate].
    destruct (nearest_deepest _ _ _ _ _ _ Ey) as (ab & bl & Hlv & _ & Hc). subst lv.
    apply (nearest_some_if_holder holds_dir [] c0 ab bl); [rewrite <- Hc; exact E | exact Ed].
  - split; [discriminate | intros (p' & c'' & H & _); discriminate].
Qed.

(* ---------------- the user-level fallback and the CLI ---------------- *)

Theorem user_level_fallback found global_dir global_cfg :
  cli_config None found global_dir global_cfg =
  match found with
  | FFound p => UseFile p
  | FErr EConflict => Fatal
  | FErr _ => if global_dir && global_cfg then UseGlobal else UseDefaults
  end.
Proof. destruct found as [p|[]], global_dir, global_cfg; reflexivity. Qed.

(* "both in one directory is an error" did not hold for `regal lint` at the pinned commit: the
   error of FindConfig was discarded by readUserConfig / the switch in lint.go, and the run
   continued with the user-level file or with the defaults (repaired by commit c2a44f9) *)
Theorem cli_conflict_pinned_refuted :
  exists c0 lv file global_dir global_cfg,
    find_config (fs_of_chain c0 lv file) [SLASH] (start_path lv file) = FErr EConflict /\
    cli_config_pinned None (find_config (fs_of_chain c0 lv file) [SLASH] (start_path lv file)) global_dir global_cfg
      = UseDefaults.
Proof. exists both_kinds, [], None, false, false. split; vm_compute; reflexivity. Qed.

(* read strictly ("closest ancestor holding a configuration FILE"), the statement fails: a
   .regal/ directory without config.yaml (e.g. one that only has rules/) hides every
   configuration file further up *)
Theorem find_nearest_file_refuted :
  exists c0 lv,
    Forall plain_name (map fst lv) /\
    holds_file c0 = true /\ Forall (fun l => holds_file (snd l) = false) lv /\
    find_config (fs_of_chain c0 lv None) [SLASH] (start_path lv None) <> outcome_at [] c0.
Proof.
  exists {| c_regal := RAbsent; c_yaml := YIsFile |},
         [([97%N], {| c_regal := RDir false; c_yaml := YAbsent |})].
  repeat split.
  - repeat constructor; try discriminate. cbn. intuition discriminate.
  - repeat constructor.
  - vm_compute. discriminate.
Qed.

(* ... and holds whenever every .regal/ directory on the chain contains its config.yaml *)
Lemma holds_file_eq c : no_empty_regal_dir c -> holds_file c = holds c.
Proof.
  unfold no_empty_regal_dir, holds_file, holds, holds_dir. destruct (c_regal c) as [| |[|]]; try reflexivity.
  intros H; exfalso; apply H; reflexivity.
Qed.

Theorem find_nearest_file_partial (c0 : contents) (lv : levels) (file : option str) (cwd arg : str) :
  Forall plain_name (map fst lv) -> file_ok file -> abs_path cwd arg = start_path lv file ->
  no_empty_regal_dir c0 -> Forall (fun l => no_empty_regal_dir (snd l)) lv ->
  let fs := fs_of_chain c0 lv file in
  (forall above n c below, lv = above ++ (n, c) :: below ->
     holds_file c = true -> Forall (fun l => holds_file (snd l) = false) below ->
     find_config fs cwd arg = outcome_at (map fst above ++ [n]) c) /\
  (holds_file c0 = true -> Forall (fun l => holds_file (snd l) = false) lv ->
     find_config fs cwd arg = outcome_at [] c0) /\
  (holds_file c0 = false -> Forall (fun l => holds_file (snd l) = false) lv ->
     find_config fs cwd arg = FErr ENotFound).
Proof.
  intros Hp Hf Habs H0 Hl fs.
  destruct (find_nearest c0 lv file cwd arg Hp Hf Habs) as (A & B & C).
  assert (conv : forall l, Forall (fun l => no_empty_regal_dir (snd l)) l ->
                 Forall (fun l => holds_file (snd l) = false) l -> none_hold l).
  { intros l H1 H2. unfold none_hold. rewrite Forall_forall in *. intros x Hx.
    rewrite <- holds_file_eq by (apply H1; exact Hx). apply H2; exact Hx. }
  repeat split.
  - intros above n c below Hlv Hc Hb. apply (A above n c below Hlv).
    + rewrite <- holds_file_eq; [exact Hc|]. rewrite Forall_forall in Hl. apply (Hl (n, c)).
      rewrite Hlv. apply in_or_app. right. left. reflexivity.
    + apply conv; [|exact Hb]. rewrite Hlv in Hl. apply Forall_app in Hl. destruct Hl as [_ Hl].
      inversion Hl; assumption.
  - intros Hc Hb. apply B; [rewrite <- holds_file_eq; assumption | apply conv; assumption].
  - intros Hc Hb. apply C; [rewrite <- holds_file_eq; assumption | apply conv; assumption].
Qed.

(* the start path spelled as itself is one way to meet [abs_path cwd arg = start_path lv file] *)
Lemma abs_path_start lv file cwd :
  Forall plain_name (map fst lv) -> file_ok file ->
  abs_path cwd (start_path lv file) = start_path lv file.
Proof.
  intros Hp Hf. unfold abs_path, start_path. cbn [path_of_names is_rooted]. rewrite N.eqb_refl.
  apply (clean_path (names lv ++ match file with Some f => [f] | None => [] end)).
  apply good_comps_app; [apply plains_good; exact Hp|].
  destruct file as [f|]; [apply good_single; apply plain_good; exact Hf | constructor].
Qed.

(* at the pinned commit findUpwards cut elements off the path as it was spelled: from "/a/b/.."
   (the directory /a) it went "up" to /a/b and used the configuration of that DESCENDANT;
   repaired by commit f78e575 *)
Definition chain_ab : levels :=
  [([97%N], {| c_regal := RAbsent; c_yaml := YAbsent |}); ([98%N], {| c_regal := RAbsent; c_yaml := YIsFile |})].
Definition arg_ab_up : str := [47; 97; 47; 98; 47; 46; 46]%N.     (* "/a/b/.." *)

Theorem find_spelled_pinned_refuted :
  abs_path [SLASH] arg_ab_up = [47; 97]%N /\
  find_config_pinned (fs_of_chain {| c_regal := RAbsent; c_yaml := YAbsent |} chain_ab None) [SLASH] arg_ab_up
    = FFound [47; 97; 47; 98; 47; 46; 114; 101; 103; 97; 108; 46; 121; 97; 109; 108]%N /\
  find_config (fs_of_chain {| c_regal := RAbsent; c_yaml := YAbsent |} chain_ab None) [SLASH] arg_ab_up
    = FErr ENotFound.
Proof. repeat split; vm_compute; reflexivity. Qed.
