(* C13, root discovery: what the downward walk of FindBundleRootDirectories finds, exactly. *)
From Regal Require Import Model.RootDiscovery.

(* induction over the nested tree *)
Fixpoint rnode_ind' (P : rnode -> Prop) (Hf : forall c, P (RFile c))
         (Hd : forall cs, Forall (fun kc => P (snd kc)) cs -> P (RDir cs)) (n : rnode) : P n :=
  match n with
  | RFile c => Hf c
  | RDir cs =>
      Hd cs ((fix go (cs : entries) : Forall (fun kc => P (snd kc)) cs :=
                match cs with
                | [] => Forall_nil _
                | kc :: cs' => Forall_cons kc (rnode_ind' P Hf Hd (snd kc)) (go cs')
                end) cs)
  end.

Lemma dir_at_trans p nm t d dn ds r rn rs :
  dir_at p nm t d dn ds -> dir_at d dn (RDir ds) r rn rs -> dir_at p nm t r rn rs.
Proof.
  intros H1 H2. induction H1 as [p nm cs | p nm cs c n d dn ds Hin H1 IH].
  - exact H2.
  - exact (da_below _ _ _ _ _ _ _ _ Hin (IH H2)).
Qed.

(* the downward walk, first form: a root is found because of ONE directory of the tree, by its
   .manifest or through its .regal directory *)
Lemma walk_down_char t : forall p nm r,
  In r (walk_down p nm t) <->
  exists d dn ds, dir_at p nm t d dn ds /\
    ((holds_manifest ds = true /\ r = d) \/
     (exists rcs, regal_dir ds = Some rcs /\ In r (roots_from_regal_dir d dn ds rcs))).
Proof.
  induction t as [c | cs IH] using rnode_ind'; intros p nm r.
  - cbn [walk_down]. split; [intros [] |].
    intros (d & dn & ds & Hat & _). inversion Hat.
  - cbn [walk_down]. rewrite !in_app_iff, in_flat_map. split.
    + intros [Hm | [Hr | (kc & Hin & Hr)]].
      * destruct (holds_manifest cs) eqn:Em; [| destruct Hm].
        destruct Hm as [<- | []].
        exists p, nm, cs. split; [apply da_here | left; split; [exact Em | reflexivity]].
      * destruct (regal_dir cs) as [rcs |] eqn:Er; [| destruct Hr].
        exists p, nm, cs. split; [apply da_here | right; exists rcs; split; [exact Er | exact Hr]].
      * destruct kc as [k c]. rewrite Forall_forall in IH.
        apply (IH (k, c) Hin) in Hr. destruct Hr as (d & dn & ds & Hat & Hw).
        exists d, dn, ds. split; [exact (da_below _ _ _ _ _ _ _ _ Hin Hat) | exact Hw].
    + intros (d & dn & ds & Hat & Hw).
      inversion Hat as [p' nm' cs' | p' nm' cs' c n d' dn' ds' Hin Hat']; subst.
      * destruct Hw as [[Em ->] | (rcs & Er & Hr)].
        -- left. rewrite Em. left. reflexivity.
        -- right; left. rewrite Er. exact Hr.
      * right; right. exists (c, n). split; [exact Hin |].
        rewrite Forall_forall in IH. apply (IH (c, n) Hin).
        exists d, dn, ds. split; [exact Hat' | exact Hw].
Qed.

(* FindManifestLocations only ever names directories of the tree that hold a .manifest file *)
Lemma manifests_below_sound t : forall p nm r,
  In r (manifests_below p nm t) ->
  exists rn rs, dir_at p nm t r rn rs /\ holds_manifest rs = true.
Proof.
  induction t as [c | cs IH] using rnode_ind'; intros p nm r.
  - cbn [manifests_below]. intros [].
  - cbn [manifests_below]. destruct (str_in nm rd_skips) eqn:Es; [intros [] |].
    rewrite in_app_iff, in_flat_map. intros [Hm | (kc & Hin & Hr)].
    + destruct (holds_manifest cs) eqn:Em; [| destruct Hm].
      destruct Hm as [<- | []]. exists nm, cs. split; [apply da_here | exact Em].
    + destruct kc as [k c]. rewrite Forall_forall in IH.
      apply (IH (k, c) Hin) in Hr. destruct Hr as (rn & rs & Hat & Em).
      exists rn, rs. split; [exact (da_below _ _ _ _ _ _ _ _ Hin Hat) | exact Em].
Qed.

(* ... and, where nothing on the way is a skipped directory name, all of them.  (Not needed for the
   main theorem: the downward walk finds the .manifest directories itself.) *)

Theorem roots_discovered_exact p nm t r :
  In r (walk_down p nm t) <->
  (exists dn ds, dir_at p nm t r dn ds /\ marker ds = true)
  \/ (exists d dn ds rcs, dir_at p nm t d dn ds /\ regal_dir ds = Some rcs /\
        In r (declared d (cfg_of_regal rcs) ++ rules_of d rcs)).
Proof.
  rewrite walk_down_char. split.
  - intros (d & dn & ds & Hat & [[Em ->] | (rcs & Er & Hr)]).
    + left. exists dn, ds. split; [exact Hat |]. unfold marker. rewrite Em. reflexivity.
    + unfold roots_from_regal_dir in Hr. cbn [In] in Hr. rewrite !in_app_iff in Hr.
      destruct Hr as [<- | [Hd | [Hd | Hm]]].
      * left. exists dn, ds. split; [exact Hat |]. unfold marker. rewrite Er. apply orb_true_r.
      * right. exists d, dn, ds, rcs. rewrite in_app_iff. auto.
      * right. exists d, dn, ds, rcs. rewrite in_app_iff. auto.
      * left. apply manifests_below_sound in Hm. destruct Hm as (rn & rs & Hat' & Em).
        exists rn, rs. split; [eapply dir_at_trans; eassumption |].
        unfold marker. rewrite Em. reflexivity.
  - intros [(dn & ds & Hat & Hm) | (d & dn & ds & rcs & Hat & Er & Hr)].
    + unfold marker in Hm. destruct (holds_manifest ds) eqn:Em.
      * exists r, dn, ds. split; [exact Hat | left; split; [exact Em | reflexivity]].
      * destruct (regal_dir ds) as [rcs |] eqn:Er; [| discriminate Hm].
        exists r, dn, ds. split; [exact Hat |]. right. exists rcs. split; [exact Er |].
        unfold roots_from_regal_dir. left. reflexivity.
    + exists d, dn, ds. split; [exact Hat |]. right. exists rcs. split; [exact Er |].
      unfold roots_from_regal_dir. cbn [In]. rewrite !in_app_iff. rewrite in_app_iff in Hr.
      destruct Hr as [Hr | Hr]; auto.
Qed.

(* whatever a directory's ancestors and siblings hold (markers of their own or not), a directory with
   a marker is discovered *)
Corollary marker_dir_discovered p nm t d dn ds :
  dir_at p nm t d dn ds -> marker ds = true -> In d (walk_down p nm t).
Proof.
  intros Hat Hm. apply roots_discovered_exact. left. exists dn, ds. split; assumption.
Qed.

(* the arguments' own results are part of GetPotentialRoots' answer: nothing found by the downward walk
   of an argument is dropped *)
Lemma find_bundle_roots_includes_walk rp rn t comps p nm cs above roots :
  descend rp rn t comps [] = Some ((p, nm, cs), above) ->
  find_bundle_roots rp rn t comps = Some roots ->
  forall r, In r (walk_down p nm (RDir cs)) -> In r roots.
Proof.
  intros Hd Hf r Hr. unfold find_bundle_roots in Hf. rewrite Hd in Hf.
  injection Hf as <-. apply in_or_app. right. apply in_or_app. right. exact Hr.
Qed.
