(* Proofs about Model/Notices.v (C19). *)
From Coq Require Import Permutation.
From Regal Require Import Base.Str Model.Notices.

(* ---------------------------------------------------------------------------------------------- *)
(* notices as values: Go's == on the struct is Leibniz equality of the five strings               *)
Lemma notice_eqb_eq a b : notice_eqb a b = true <-> a = b.
Proof.
  destruct a, b. unfold notice_eqb. simpl. rewrite !andb_true_iff, !str_eqb_eq. split.
  - intros [[[[-> ->] ->] ->] ->]. reflexivity.
  - intros [= -> -> -> -> ->]. auto.
Qed.

Lemma notice_in_In n l : notice_in n l = true <-> In n l.
Proof.
  induction l as [|x l IH]; simpl; [split; [discriminate | tauto]|].
  rewrite orb_true_iff, notice_eqb_eq, IH. split; intros [H|H]; auto.
Qed.

Lemma notice_in_false n l : notice_in n l = false <-> ~ In n l.
Proof.
  rewrite <- notice_in_In. destruct (notice_in n l); split; congruence.
Qed.

Lemma dedup_In n l : In n (dedup l) <-> In n l.
Proof.
  induction l as [|x l IH]; simpl; [tauto|].
  destruct (notice_in x l) eqn:E.
  - rewrite IH. apply notice_in_In in E. split; [auto | intros [<-|H]; auto].
  - simpl. rewrite IH. tauto.
Qed.

Lemma dedup_NoDup l : NoDup (dedup l).
Proof.
  induction l as [|x l IH]; simpl; [constructor|].
  destruct (notice_in x l) eqn:E; [assumption|].
  constructor; [|assumption]. rewrite dedup_In. apply notice_in_false. assumption.
Qed.

Lemma NoDup_snoc {A} (l : list A) x : NoDup l -> ~ In x l -> NoDup (l ++ [x]).
Proof.
  induction l as [|y l IH]; simpl; intros Hnd Hx.
  - constructor; [tauto | constructor].
  - inversion Hnd as [|? ? Hy Hl]; subst. constructor.
    + rewrite in_app_iff. simpl. intros [H|[H|[]]]; [contradiction | subst; tauto].
    + apply IH; tauto.
Qed.

(* ---------------------------------------------------------------------------------------------- *)
(* the gate in main.rego                                                                          *)
Section Gate.
  Variables F V : Type.
  Variable notices_of : rule_id -> F -> list notice.
  Variable report_of : rule_id -> F -> list V.
  Variable custom_report_of : rule_id -> F -> list V.

  Notation file_violations := (file_violations F V notices_of report_of custom_report_of).
  Notation file_notices := (file_notices F notices_of).
  Notation rego_violations := (rego_violations F V notices_of report_of custom_report_of).
  Notation rego_notices := (rego_notices F notices_of).
  Notation lint_notices := (lint_notices F notices_of).
  Notation rules_skipped := (rules_skipped F notices_of).

  Lemma file_violations_inv to_run custom_to_run f r v :
    In (r, v) (file_violations to_run custom_to_run f) ->
    (In r to_run /\ notices_of r f = [] /\ In v (report_of r f)) \/
    (In r custom_to_run /\ In v (custom_report_of r f)).
  Proof.
    unfold Notices.file_violations. rewrite in_app_iff, !in_flat_map.
    intros [[r' [Hr Hin]]|[r' [Hr Hin]]].
    - left. destruct (notices_of r' f) eqn:En; [|destruct Hin].
      apply in_map_iff in Hin as [v' [[= <- <-] Hv]]. auto.
    - right. apply in_map_iff in Hin as [v' [[= <- <-] Hv]]. auto.
  Qed.

  (* a bundled rule that has a notice for a file contributes no violation for that file *)
  Lemma gated_rule_silent_file to_run custom_to_run f r v :
    ~ In r custom_to_run ->
    notices_of r f <> [] ->
    ~ In (r, v) (file_violations to_run custom_to_run f).
  Proof.
    intros Hc Hn Hin. apply file_violations_inv in Hin as [[_ [He _]]|[Hr _]]; contradiction.
  Qed.

  Lemma rego_violations_inv to_run custom_to_run order f r v :
    In (f, (r, v)) (rego_violations to_run custom_to_run order) ->
    In f order /\ In (r, v) (file_violations to_run custom_to_run f).
  Proof.
    unfold Notices.rego_violations. rewrite in_flat_map. intros [f' [Hf Hin]].
    apply in_map_iff in Hin as [rv [[= <- <-] Hrv]]. auto.
  Qed.

  (* ... and over a whole run: a rule that has a notice for every file (e.g. a capability the
     target lacks) reports nothing at all *)
  Lemma gated_rule_silent_run to_run custom_to_run order r :
    ~ In r custom_to_run ->
    (forall f, In f order -> notices_of r f <> []) ->
    forall f v, ~ In (f, (r, v)) (rego_violations to_run custom_to_run order).
  Proof.
    intros Hc Hn f v Hin. apply rego_violations_inv in Hin as [Hf Hin].
    exact (gated_rule_silent_file _ _ _ _ _ Hc (Hn f Hf) Hin).
  Qed.

  Lemma file_notices_In to_run f n :
    In n (file_notices to_run f) <-> exists r, In r to_run /\ In n (notices_of r f).
  Proof. unfold Notices.file_notices. rewrite dedup_In, in_flat_map. tauto. Qed.

  Lemma rego_notices_In to_run order n :
    In n (rego_notices to_run order) <-> exists f r, In f order /\ In r to_run /\ In n (notices_of r f).
  Proof.
    unfold Notices.rego_notices. rewrite in_flat_map. split.
    - intros [f [Hf Hn]]. apply file_notices_In in Hn as [r [Hr Hn]]. eauto.
    - intros [f [r [Hf [Hr Hn]]]]. exists f. split; [assumption|]. apply file_notices_In. eauto.
  Qed.

  (* ---- Go: de-duplication and the skipped counter ---- *)
  Lemma final_from_spec final counter l :
    NoDup final ->
    let '(res, cnt) := final_notices_from final counter l in
    NoDup res /\ (forall n, In n res <-> In n final \/ In n l) /\
    exists added, res = final ++ added /\ (cnt = counter + length (filter counted added))%nat.
  Proof.
    revert final counter. induction l as [|x l IH]; intros final counter Hnd; simpl.
    - split; [assumption|]. split; [tauto|]. exists []. rewrite app_nil_r. simpl. split; [reflexivity | lia].
    - destruct (notice_in x final) eqn:E.
      + specialize (IH final counter Hnd). destruct (final_notices_from final counter l) as [res cnt].
        destruct IH as [H1 [H2 H3]]. split; [assumption|]. split; [|assumption].
        intros n. rewrite H2. apply notice_in_In in E. split; [tauto|]. intros [H|[<-|H]]; auto.
      + assert (Hnd' : NoDup (final ++ [x])).
        { apply NoDup_snoc; [assumption | apply notice_in_false; assumption]. }
        specialize (IH (final ++ [x]) (if str_eqb (n_severity x) s_none then counter else S counter) Hnd').
        destruct (final_notices_from (final ++ [x]) _ l) as [res cnt].
        destruct IH as [H1 [H2 [added [H3 H4]]]]. split; [assumption|]. split.
        * intros n. rewrite H2, in_app_iff. simpl. tauto.
        * exists (x :: added). rewrite H3, <- app_assoc. split; [reflexivity|].
          rewrite H4. simpl. unfold counted at 2. destruct (str_eqb (n_severity x) s_none); simpl; lia.
  Qed.

  Lemma lint_notices_spec to_run order :
    NoDup (lint_notices to_run order) /\
    (forall n, In n (lint_notices to_run order) <->
               exists f r, In f order /\ In r to_run /\ In n (notices_of r f)) /\
    rules_skipped to_run order = length (filter counted (lint_notices to_run order)).
  Proof.
    unfold Notices.lint_notices, Notices.rules_skipped.
    pose proof (final_from_spec [] O (rego_notices to_run order) (NoDup_nil _)) as H.
    destruct (final_notices_from [] 0 (rego_notices to_run order)) as [res cnt]. simpl.
    destruct H as [H1 [H2 [added [H3 H4]]]]. split; [assumption|]. split.
    - intros n. rewrite H2, <- rego_notices_In. simpl. tauto.
    - simpl in H3. subst res. exact H4.
  Qed.

  (* the count only depends on WHICH notices occur, not on how many files produce them or in which
     order the files complete *)
  Lemma NoDup_filter {A} (p : A -> bool) l : NoDup l -> NoDup (filter p l).
  Proof.
    induction 1 as [|x l Hx Hl IH]; simpl; [constructor|].
    destruct (p x); [constructor; [rewrite filter_In; tauto | assumption] | assumption].
  Qed.

  Lemma skipped_depends_on_notice_set to_run order1 order2 :
    (forall n, (exists f r, In f order1 /\ In r to_run /\ In n (notices_of r f)) <->
               (exists f r, In f order2 /\ In r to_run /\ In n (notices_of r f))) ->
    rules_skipped to_run order1 = rules_skipped to_run order2.
  Proof.
    intros Hset.
    destruct (lint_notices_spec to_run order1) as [N1 [M1 C1]].
    destruct (lint_notices_spec to_run order2) as [N2 [M2 C2]].
    rewrite C1, C2. apply Nat.le_antisymm; apply NoDup_incl_length; try (apply NoDup_filter; assumption);
      intros n Hn; apply filter_In in Hn as [Hn Hc]; apply filter_In; split; try assumption.
    - apply M2, Hset, M1, Hn.
    - apply M1, Hset, M2, Hn.
  Qed.

  Lemma skipped_permutation_invariant to_run order1 order2 :
    Permutation order1 order2 -> rules_skipped to_run order1 = rules_skipped to_run order2.
  Proof.
    intros Hp. apply skipped_depends_on_notice_set. intros n.
    split; intros [f [r [Hf H]]]; exists f, r; (split; [|exact H]).
    - eapply Permutation_in; eassumption.
    - eapply Permutation_in; [apply Permutation_sym|]; eassumption.
  Qed.

  (* one file and any number of copies of it (files with the same notices): the same notices, in the
     same order, and the same count *)
  Lemma final_from_absorb final counter l :
    (forall n, In n l -> In n final) -> final_notices_from final counter l = (final, counter).
  Proof.
    induction l as [|x l IH]; intros H; simpl; [reflexivity|].
    assert (E : notice_in x final = true) by (apply notice_in_In, H; left; reflexivity).
    rewrite E. apply IH. intros n Hn. apply H. right. assumption.
  Qed.

  Lemma final_from_app final counter l1 l2 :
    final_notices_from final counter (l1 ++ l2)
    = let '(f1, c1) := final_notices_from final counter l1 in final_notices_from f1 c1 l2.
  Proof.
    revert final counter. induction l1 as [|x l1 IH]; intros final counter; simpl.
    - reflexivity.
    - destruct (notice_in x final); apply IH.
  Qed.

  Lemma copies_same_as_one to_run f copies :
    copies <> [] ->
    (forall f', In f' copies -> forall r, notices_of r f' = notices_of r f) ->
    lint_notices to_run copies = lint_notices to_run [f] /\
    rules_skipped to_run copies = rules_skipped to_run [f].
  Proof.
    intros Hne Hsame.
    assert (Hfile : forall f', In f' copies -> file_notices to_run f' = file_notices to_run f).
    { intros f' Hf'. unfold Notices.file_notices. f_equal.
      induction to_run as [|r rs IH]; simpl; [reflexivity|]. rewrite (Hsame f' Hf' r), IH. reflexivity. }
    set (X := file_notices to_run f).
    assert (Hone : rego_notices to_run [f] = X) by (unfold Notices.rego_notices; simpl; apply app_nil_r).
    assert (Hstep : forall fin cnt, (forall n, In n X -> In n fin) ->
              forall cs, (forall f', In f' cs -> file_notices to_run f' = X) ->
              final_notices_from fin cnt (rego_notices to_run cs) = (fin, cnt)).
    { intros fin cnt Hx cs. induction cs as [|c cs IH]; intros Hc; [reflexivity|].
      unfold Notices.rego_notices. simpl. rewrite final_from_app.
      rewrite (Hc c (or_introl eq_refl)), (final_from_absorb fin cnt X Hx).
      apply IH. intros f' Hf'. apply Hc. right. assumption. }
    destruct copies as [|c cs]; [contradiction|].
    assert (Hall : final_notices_from [] 0 (rego_notices to_run (c :: cs)) = final_notices_from [] 0 X).
    { change (rego_notices to_run (c :: cs)) with (file_notices to_run c ++ rego_notices to_run cs).
      rewrite final_from_app, (Hfile c (or_introl eq_refl)). fold X.
      pose proof (final_from_spec [] O X (NoDup_nil _)) as Hs.
      destruct (final_notices_from [] 0 X) as [fin cnt] eqn:E. destruct Hs as [_ [Hm _]].
      apply (Hstep fin cnt); [intros n Hn; apply Hm; right; assumption|].
      intros f' Hf'. apply Hfile. right. assumption. }
    unfold Notices.lint_notices, Notices.rules_skipped. rewrite Hone, Hall. split; reflexivity.
  Qed.

  (* a rule with a notice is listed: its notice is in the report's notices *)
  Lemma noticed_rule_is_listed to_run order r f n :
    In r to_run -> In f order -> In n (notices_of r f) -> In n (lint_notices to_run order).
  Proof.
    intros Hr Hf Hn. apply (proj1 (proj2 (lint_notices_spec to_run order))). eauto.
  Qed.
End Gate.

(* ---------------------------------------------------------------------------------------------- *)
(* capabilities plus / minus                                                                      *)
Section PlusMinusProofs.
  Variable D : Type.
  Notation b_lookup := (b_lookup D).
  Notation b_delete := (b_delete D).
  Notation b_set := (b_set D).

  Lemma lookup_delete k k' m :
    b_lookup k (b_delete k' m) = if str_eqb k k' then None else b_lookup k m.
  Proof.
    induction m as [|[k0 d] m IH]; simpl; [destruct (str_eqb k k'); reflexivity|].
    destruct (str_eqb_spec k' k0) as [->|Hne]; simpl.
    - rewrite IH. destruct (str_eqb_spec k k0); reflexivity.
    - rewrite IH. destruct (str_eqb_spec k k0) as [->|Hk]; [|reflexivity].
      destruct (str_eqb_spec k0 k'); [subst; contradiction | reflexivity].
  Qed.

  Lemma lookup_set k k' d m :
    b_lookup k (b_set k' d m) = if str_eqb k k' then Some d else b_lookup k m.
  Proof.
    unfold Notices.b_set. simpl. rewrite lookup_delete. destruct (str_eqb k k'); reflexivity.
  Qed.

  Lemma lookup_minus k minus m :
    b_lookup k (apply_minus D minus m) = if str_in k minus then None else b_lookup k m.
  Proof.
    unfold apply_minus. revert m. induction minus as [|k' minus IH]; intros m; simpl; [reflexivity|].
    rewrite IH, lookup_delete. destruct (str_eqb k k'); simpl; [destruct (str_in k minus)|]; reflexivity.
  Qed.

  Lemma lookup_plus k plus m :
    b_lookup k (apply_plus D plus m)
    = match last_plus D k plus with Some d => Some d | None => b_lookup k m end.
  Proof.
    unfold apply_plus. revert m. induction plus as [|[k' d] plus IH]; intros m; simpl; [reflexivity|].
    rewrite IH. destruct (last_plus D k plus); [reflexivity|].
    rewrite lookup_set. destruct (str_eqb k k'); reflexivity.
  Qed.

  (* resulting builtins = (base \ minus) U plus, a plus entry winning over everything *)
  Lemma plus_minus_lemma base minus plus k :
    b_lookup k (edit_builtins D base minus plus)
    = match last_plus D k plus with
      | Some d => Some d
      | None => if str_in k minus then None else b_lookup k base
      end.
  Proof. unfold edit_builtins. rewrite lookup_plus, lookup_minus. reflexivity. Qed.
End PlusMinusProofs.

(* ---------------------------------------------------------------------------------------------- *)
(* the conditions in the .rego sources say what the needs say                                     *)
Lemma body_of_need_sound n c f : eval_body c f (body_of_need n) = need_unmet n c f.
Proof.
  destruct n; simpl; unfold eval_body, eval_literal; simpl; rewrite ?andb_true_r; try reflexivity.
  - (* NeedBuiltin *)
    destruct (str_eqb_spec name s_object_keys) as [->|H1]; simpl; [rewrite andb_true_r; reflexivity|].
    destruct (str_eqb_spec name s_strings_count) as [->|H2]; simpl; rewrite andb_true_r; reflexivity.
Qed.

Lemma atom_eqb_eq a b : atom_eqb a b = true -> a = b.
Proof.
  destruct a as [p| | | | |], b as [q| | | | |]; simpl; try discriminate; try reflexivity;
    try (intros H; apply str_eqb_eq in H; congruence).
  destruct p, q; simpl; try discriminate; reflexivity.
Qed.

Lemma body_eqb_eq a b : body_eqb a b = true -> a = b.
Proof.
  revert b. induction a as [|[n x] a IH]; intros [|[m y] b]; simpl; try discriminate; [reflexivity|].
  rewrite !andb_true_iff. intros [[Hn Hx] Hb]. apply Bool.eqb_prop in Hn. apply atom_eqb_eq in Hx.
  rewrite (IH _ Hb). congruence.
Qed.

Lemma table_matches_sound gs ns :
  table_matches gs ns = true ->
  forall g, In g gs ->
  exists n, In n ns /\ g_cat g = nd_cat n /\ g_title g = nd_title n /\ g_severity g = nd_severity n /\
            forall c f, eval_body c f (g_body g) = need_unmet (nd_need n) c f.
Proof.
  revert ns. induction gs as [|g0 gs IH]; intros [|n0 ns]; simpl; try discriminate; [tauto|].
  rewrite andb_true_iff. intros [Hrow Hrest] g [<-|Hin].
  - exists n0. unfold row_matches in Hrow. rewrite !andb_true_iff, !str_eqb_eq in Hrow.
    destruct Hrow as [[[H1 H2] H3] H4]. apply body_eqb_eq in H4.
    repeat split; auto. intros c f. rewrite H4. apply body_of_need_sound.
  - destruct (IH _ Hrest g Hin) as [n [Hn H]]. exists n. split; [right; assumption | exact H].
Qed.

(* the converse reading of the row-by-row match: every need has its `notices` rule *)
Lemma table_matches_sound_conv gs ns :
  table_matches gs ns = true ->
  forall n, In n ns ->
  exists g, In g gs /\ g_cat g = nd_cat n /\ g_title g = nd_title n /\ g_severity g = nd_severity n /\
            forall c f, eval_body c f (g_body g) = need_unmet (nd_need n) c f.
Proof.
  revert ns. induction gs as [|g0 gs IH]; intros [|n0 ns]; simpl; try discriminate; [tauto|].
  rewrite andb_true_iff. intros [Hrow Hrest] n [<-|Hin].
  - exists g0. unfold row_matches in Hrow. rewrite !andb_true_iff, !str_eqb_eq in Hrow.
    destruct Hrow as [[[H1 H2] H3] H4]. apply body_eqb_eq in H4.
    repeat split; auto. intros c f. rewrite H4. apply body_of_need_sound.
  - destruct (IH _ Hrest n Hin) as [g [Hg H]]. exists g. split; [right; assumption | exact H].
Qed.

Lemma rule_eqb_refl r : rule_eqb r r = true.
Proof. unfold rule_eqb. rewrite !str_eqb_refl. reflexivity. Qed.

Lemma rule_eqb_eq a b : rule_eqb a b = true <-> a = b.
Proof.
  destruct a, b. unfold rule_eqb. simpl. rewrite andb_true_iff, !str_eqb_eq. split.
  - intros [-> ->]. reflexivity.
  - intros [= -> ->]. auto.
Qed.

(* notices computed from a table of gates *)
Lemma table_notices_In table c r f n :
  In n (table_notices table c r f) <->
  exists g, In g table /\ (g_cat g, g_title g) = r /\ eval_body c f (g_body g) = true /\ n = notice_of_row g.
Proof.
  unfold table_notices. rewrite in_map_iff. split.
  - intros [g [<- Hg]]. apply filter_In in Hg as [Hg Hc]. apply andb_true_iff in Hc as [Hr Hb].
    apply rule_eqb_eq in Hr. exists g. auto.
  - intros [g [Hg [Hr [Hb ->]]]]. exists g. split; [reflexivity|]. apply filter_In. split; [assumption|].
    rewrite Hb, andb_true_r. apply rule_eqb_eq. assumption.
Qed.

(* End to end, for any table of gates that matches a table of needs: a rule to run whose need is unmet
   for every file of the run reports nothing (whatever its report body says) and is listed with a
   notice of the severity written down for that need; and a notice is only ever listed for an unmet need. *)
Section EndToEnd.
  Variables F V : Type.
  Variable info : F -> file_info.
  Variable report_of custom_report_of : rule_id -> F -> list V.
  Variables (gs : list gate_row) (ns : list need_row).
  Hypothesis Hmatch : table_matches gs ns = true.
  Variable c : caps.

  Let notices_of (r : rule_id) (f : F) : list notice := table_notices gs c r (info f).

  Lemma unmet_need_silent_and_listed to_run custom_to_run order nd :
    In nd ns ->
    let r := (nd_cat nd, nd_title nd) in
    In r to_run -> ~ In r custom_to_run ->
    order <> [] ->
    (forall f, In f order -> need_unmet (nd_need nd) c (info f) = true) ->
    (forall f v, ~ In (f, (r, v)) (rego_violations F V notices_of report_of custom_report_of to_run custom_to_run order)) /\
    exists n, In n (lint_notices F notices_of to_run order) /\
              n_category n = nd_cat nd /\ n_title n = nd_title nd /\ n_severity n = nd_severity nd /\ n_level n = s_notice.
  Proof.
    intros Hnd r Hr Hc Hne Hun.
    destruct (table_matches_sound_conv _ _ Hmatch nd Hnd) as [g [Hg [H1 [H2 [H3 H4]]]]].
    assert (Hnot : forall f, In f order -> In (notice_of_row g) (notices_of r f)).
    { intros f Hf. apply table_notices_In. exists g. split; [assumption|]. split; [unfold r; congruence|].
      split; [rewrite H4; apply Hun; assumption | reflexivity]. }
    split.
    - apply gated_rule_silent_run; [assumption|]. intros f Hf Hnil. specialize (Hnot f Hf). rewrite Hnil in Hnot. exact Hnot.
    - destruct order as [|f0 order']; [contradiction|].
      exists (notice_of_row g). split.
      + apply (noticed_rule_is_listed F notices_of to_run (f0 :: order') r f0); [assumption | left; reflexivity | apply Hnot; left; reflexivity].
      + unfold notice_of_row. simpl. auto.
  Qed.

  Lemma listed_notice_has_unmet_need to_run order n :
    In n (lint_notices F notices_of to_run order) ->
    exists nd f, In nd ns /\ In f order /\ In (nd_cat nd, nd_title nd) to_run /\
                 need_unmet (nd_need nd) c (info f) = true /\
                 n_category n = nd_cat nd /\ n_title n = nd_title nd /\ n_severity n = nd_severity nd.
  Proof.
    intros Hn. apply (proj1 (proj2 (lint_notices_spec F notices_of to_run order))) in Hn.
    destruct Hn as [f [r [Hf [Hr Hn]]]]. apply table_notices_In in Hn as [g [Hg [Hgr [Hb ->]]]].
    destruct (table_matches_sound _ _ Hmatch g Hg) as [nd [Hnd [H1 [H2 [H3 H4]]]]].
    exists nd, f. rewrite <- H4, Hb, <- H1, <- H2, <- H3. rewrite Hgr. unfold notice_of_row. simpl. auto 10.
  Qed.
End EndToEnd.

(* ---------------------------------------------------------------------------------------------- *)
(* capabilities.rego as written means what [eval_pred] says                                       *)
Lemma pred_rules_spec_sound p c : pred_by_rules pred_rules_spec p c = eval_pred p c.
Proof.
  destruct p; unfold pred_by_rules, pred_rules_spec; cbn [existsb cap_pred_eqb fst snd andb orb eval_clause];
    rewrite ?orb_false_r; unfold eval_pred, has_if, has_contains, has_object_keys, has_strings_count,
    has_rego_v1_feature, is_opa_v1; rewrite ?orb_assoc; reflexivity.
Qed.

Lemma cap_pred_eqb_eq p q : cap_pred_eqb p q = true -> p = q.
Proof. destruct p, q; simpl; try discriminate; reflexivity. Qed.

Lemma clause_eqb_eq a b : clause_eqb a b = true -> a = b.
Proof.
  destruct a, b; simpl; try discriminate; intros H;
    try (apply str_eqb_eq in H; congruence).
  apply cap_pred_eqb_eq in H. congruence.
Qed.

Lemma pred_rules_eqb_eq a b : pred_rules_eqb a b = true -> a = b.
Proof.
  revert b. induction a as [|[p x] a IH]; intros [|[q y] b]; simpl; try discriminate; [reflexivity|].
  rewrite !andb_true_iff. intros [[Hp Hx] Hb]. apply cap_pred_eqb_eq in Hp. apply clause_eqb_eq in Hx.
  rewrite (IH _ Hb). congruence.
Qed.

(* ---------------------------------------------------------------------------------------------- *)
(* a need reads its own dimensions of the target and nothing else                                 *)
Lemma need_unmet_reads_only n c c' f :
  (forall d, In d (need_reads n) -> dim_on d c = dim_on d c') ->
  need_unmet n c f = need_unmet n c' f.
Proof.
  intros H. destruct n; cbn [need_reads] in H; cbn [need_unmet];
    repeat match goal with
           | |- context [str_in ?s (cap_builtins c)] =>
               change (str_in s (cap_builtins c)) with (dim_on (DBuiltin s) c); rewrite (H (DBuiltin s)) by (simpl; tauto)
           | |- context [str_in ?s (cap_future_keywords c)] =>
               change (str_in s (cap_future_keywords c)) with (dim_on (DKeyword s) c); rewrite (H (DKeyword s)) by (simpl; tauto)
           | |- context [str_in ?s (cap_features c)] =>
               change (str_in s (cap_features c)) with (dim_on (DFeature s) c); rewrite (H (DFeature s)) by (simpl; tauto)
           end; reflexivity.
Qed.

Lemma dim_eqb_eq a b : dim_eqb a b = true <-> a = b.
Proof.
  split.
  - destruct a, b; simpl; try discriminate; intros H; apply str_eqb_eq in H; congruence.
  - intros <-. destruct a; simpl; apply str_eqb_refl.
Qed.

Lemma dim_in_In d l : dim_in d l = true <-> In d l.
Proof.
  induction l as [|x l IH]; simpl; [split; [discriminate|tauto]|].
  rewrite orb_true_iff, IH, dim_eqb_eq. split; intros [H|H]; auto.
Qed.

Lemma dims_dedup_In d l : In d (dims_dedup l) <-> In d l.
Proof.
  induction l as [|x l IH]; simpl; [tauto|].
  destruct (dim_in x l) eqn:E.
  - rewrite IH. split; [auto|]. intros [<-|H]; [apply dim_in_In; exact E|exact H].
  - simpl. rewrite IH. tauto.
Qed.

(* every dimension a need of the table reads is one of the table's dimensions *)
Lemma table_dims_complete t r d : In r t -> In d (need_reads (nd_need r)) -> In d (table_dims t).
Proof.
  intros Hr Hd. unfold table_dims. apply dims_dedup_In. apply in_flat_map. exists r. split; assumption.
Qed.

(* [assignments] is complete: whatever the target, its own on/off pattern over ds is one of them *)
Lemma assignments_complete ds c :
  In (map (fun d => (d, dim_on d c)) ds) (assignments ds).
Proof.
  induction ds as [|d ds IH]; simpl; [left; reflexivity|].
  apply in_flat_map. exists (map (fun d0 => (d0, dim_on d0 c)) ds). split; [exact IH|].
  destruct (dim_on d c); simpl; auto.
Qed.

Lemma realises_spec c a : realises c a = true <-> forall d v, In (d, v) a -> dim_on d c = v.
Proof.
  unfold realises. rewrite forallb_forall. split.
  - intros H d v Hin. apply Bool.eqb_prop. exact (H (d, v) Hin).
  - intros H [d v] Hin. simpl. rewrite (H d v Hin). apply Bool.eqb_reflx.
Qed.

(* if the targets cover all assignments of the table's dimensions, then for EVERY capabilities c there is a target
   that every need of the table cannot tell from c *)
Lemma dims_covered_sound t targets :
  dims_covered t targets = true ->
  forall c, exists c0, In c0 targets /\
    forall r f, In r t -> need_unmet (nd_need r) c0 f = need_unmet (nd_need r) c f.
Proof.
  unfold dims_covered. rewrite forallb_forall. intros H c.
  specialize (H _ (assignments_complete (table_dims t) c)).
  apply existsb_exists in H. destruct H as (c0 & Hin & Hr). exists c0. split; [exact Hin|].
  intros r f Hrt. apply need_unmet_reads_only. intros d Hd.
  rewrite realises_spec in Hr. apply (Hr d (dim_on d c)).
  apply in_map_iff. exists d. split; [reflexivity|]. exact (table_dims_complete t r d Hrt Hd).
Qed.

(* ---------------------------------------------------------------------------------------------- *)
(* the configuration pipeline hands evaluation the capabilities of the configured target          *)
Section ConfigPipelineProofs.
  Variable R O X : Type.
  Variable this_version : caps.
  Variable provided_rules : R.
  Variable provided_other : O.
  Variable merge_rules : R -> R -> R.
  Variable merge_other : O -> O -> O.
  Variable add_custom_rules : R -> list rule_id -> R.

  Theorem eval_capabilities_are_configured (o : lopts R O X) :
    rego_capabilities R O X
      (data_bundle R O X this_version provided_rules provided_other merge_rules merge_other add_custom_rules o)
    = configured_target R O this_version (lo_user R O X o).
  Proof.
    unfold rego_capabilities, data_bundle, data_bundle_with, get_config_with, user_config_with_custom_rules,
      configured_target. cbn [ed_combined_config].
    destruct (lo_user R O X o) as [u|]; [|reflexivity].
    destruct (lo_custom R O X o); reflexivity.
  Qed.

  (* the by-field copy loses them whenever a custom rule is loaded and the target is not regal's own *)
  Theorem eval_capabilities_by_field_refuted (u : uconfig R O) (c : caps) (r : rule_id) (x : X) :
    uc_caps R O u = Some c -> c <> this_version ->
    rego_capabilities R O X
      (data_bundle_with R O X this_version provided_rules provided_other merge_rules merge_other
         (user_config_with_custom_rules_by_field R O X add_custom_rules) (mkOpts R O X (Some u) [r] x))
    <> configured_target R O this_version (Some u).
  Proof.
    intros Hc Hne. unfold rego_capabilities, data_bundle_with, get_config_with,
      user_config_with_custom_rules_by_field, configured_target. cbn. rewrite Hc. congruence.
  Qed.

  (* ... and only then *)
  Theorem eval_capabilities_by_field_partial (o : lopts R O X) :
    lo_custom R O X o = [] ->
    rego_capabilities R O X
      (data_bundle_with R O X this_version provided_rules provided_other merge_rules merge_other
         (user_config_with_custom_rules_by_field R O X add_custom_rules) o)
    = configured_target R O this_version (lo_user R O X o).
  Proof.
    intros Hc. unfold rego_capabilities, data_bundle_with, get_config_with,
      user_config_with_custom_rules_by_field, configured_target. cbn [ed_combined_config].
    destruct (lo_user R O X o) as [u|]; [|reflexivity]. rewrite Hc. reflexivity.
  Qed.
End ConfigPipelineProofs.
