(* compute_edits_sound: (a) O1 + (b) B1/F1/F2 + (c) E1 assembled. *)
From Regal Require Export Proofs.DiffTrace Proofs.DiffText.
From Coq Require Import Lia.
Open Scope Z_scope.

Section Lines.
  Variable A : Type.
  Variable eqb : A -> A -> bool.
  Hypothesis eqb_eq : forall u v, eqb u v = true -> u = v.

  (* line level: whatever operation list the model returns turns a into b, and is well formed *)
  Theorem operations_sound (a b : list A) (ops : list op) :
    operations A eqb a b = Ok ops ->
    ops_wf A a b ops 0 /\ apply_ops A a b ops 0 = b.
  Proof.
    unfold operations, operations_gen. intros H.
    destruct ((Z.of_nat (length a) =? 0) && (Z.of_nat (length b) =? 0)) eqn:H0.
    - injection H as <-. apply andb_true_iff in H0. destruct H0 as [Ha Hb].
      apply Z.eqb_eq in Ha, Hb. destruct a; [|simpl in Ha; lia]. destruct b; [|simpl in Hb; lia].
      simpl. split; [lia|reflexivity].
    - bind_inv H tr Htr. bind_inv H snakes Hsn.
      destruct (snakes_chain A eqb a b _ _ _ (lines_get_map a) (lines_get_map b) tr snakes Htr Hsn) as [Hc Hl].
      apply (ops_loop_sound A eqb a b eqb_eq) in H; try assumption; try lia.
  Qed.
End Lines.

Theorem compute_edits_sound_proof (before after : str) (es : list text_edit) :
  compute_edits before after = Ok es ->
  lsp_apply es before = Some after /\
  edits_ordered es = true /\
  forallb (edit_in_doc before) es = true.
Proof.
  unfold compute_edits, compute_edits_with. intros H. bind_inv H ops Hops. injection H as <-.
  apply (operations_sound str str_eqb) in Hops; [|intros u v Huv; apply str_eqb_eq; assumption].
  destruct Hops as [Hw Ha].
  split.
  - rewrite (text_apply before after ops Hw). rewrite Ha. rewrite split_lines_concat. reflexivity.
  - destruct (ordered_edits before after ops 0 Hw) as [Ho [_ Hin]]. split; assumption.
Qed.

(* when `before` is empty or ends with a line terminator, every position of every edit is an
   existing position of the document: the end-of-document clamp is only ever needed for the
   position just after an unterminated last line *)
Theorem compute_edits_in_doc_strict_proof (before after : str) (es : list text_edit) :
  compute_edits before after = Ok es ->
  open_tail before = false ->
  forallb (edit_in_doc_strict before) es = true.
Proof.
  intros H Ho. destruct (compute_edits_sound_proof before after es H) as [_ [_ Hin]].
  apply forallb_forall. intros e He. apply in_doc_strict; [assumption|].
  exact (proj1 (forallb_forall _ _) Hin e He).
Qed.
