(* C14, round 3: the keys handed to the gate cover every checked-out submodule whatever it is called, and the
   gate judges the tree that the commit is applied to. *)
From Regal Require Import Model.GitStatus Proofs.GitGuard Base.StrLit.
From Coq Require Import String.

(* ---------------------------------------------------------------- submodules *)

Lemma sub_listed_by_path mods n d : In (n, d) mods -> sub_listed false mods d = true.
Proof.
  intros H. unfold sub_listed. apply str_in_spec.
  apply in_map_iff. exists (n, d). split; [reflexivity | exact H].
Qed.

Lemma changed_files_sub by_name own mods dirs d r' x :
  In (d, r') dirs -> sub_listed by_name mods d = true -> In x (changed_files by_name r') ->
  In (sub_key d x) (changed_files by_name (Repo own mods dirs)).
Proof.
  intros Hd Hl Hx. cbn [changed_files]. apply in_or_app. right.
  apply in_flat_map. exists (d, r'). split; [exact Hd|].
  rewrite Hl. apply in_map. exact Hx.
Qed.

(* every key of the own status of a repository reachable through checked-out, registered submodules is among
   the keys handed to the gate, prefixed with the chain of submodule PATHS -- whatever the submodules are named *)
Lemma submodule_changes_listed r ps r'' k :
  reaches r ps r'' -> In k (repo_own r'') -> In (key_at ps k) (changed_files false r).
Proof.
  intros H. induction H as [r | own mods dirs n d r' ps r'' Hm Hd Hr IH]; intros Hk.
  - destruct r as [own mods dirs]. cbn [changed_files key_at fold_right]. apply in_or_app. left. exact Hk.
  - cbn [key_at fold_right]. apply changed_files_sub with (r' := r'); [exact Hd | | exact (IH Hk)].
    apply sub_listed_by_path with (n := n). exact Hm.
Qed.

(* hence the gate: when it lets a run through, no touched file is a file that ANY repository below the work tree
   (the superproject or a submodule at any depth) reports not clean *)
Lemma guard_covers_submodules cwd root r modified deleted ps r'' k :
  git_guard cwd (RepoAt root) (changed_files false r) modified deleted = GProceed ->
  reaches r ps r'' -> In k (repo_own r'') ->
  forall f, In f (modified ++ deleted) -> f <> pjoin [fp_abs cwd root; key_at ps k].
Proof.
  intros G Hr Hk f Hf.
  destruct (git_guard_proceed _ _ _ _ _ G) as [root' [Heq Hall]]. injection Heq as <-.
  apply Hall; [exact Hf|]. apply submodule_changes_listed with (r'' := r''); assumption.
Qed.

Local Open Scope string_scope.

(* the submodule checked out at policies/lib is called shared-lib: x.rego in it is modified *)
Definition named_sub : repo :=
  Repo [] [(lit "shared-lib", lit "policies/lib")] [(lit "policies/lib", Repo [lit "x.rego"] [] [])].

(* listing by NAME (not the code) loses the submodule: nothing is checked out at <root>/shared-lib *)
Lemma submodule_changes_by_name_refuted :
  exists r ps r'' k,
    reaches r ps r'' /\ In k (repo_own r'')
    /\ ~ In (key_at ps k) (changed_files true r)
    /\ In (key_at ps k) (changed_files false r).
Proof.
  exists named_sub, [lit "policies/lib"], (Repo [lit "x.rego"] [] []), (lit "x.rego").
  split.
  - unfold named_sub. eapply reach_sub with (n := lit "shared-lib"); [left; reflexivity | left; reflexivity | constructor].
  - split; [left; reflexivity|]. split; [vm_compute; intros []|vm_compute; left; reflexivity].
Qed.

(* and the gate, told the keys listed by name, lets the rewrite of that very file through *)
Lemma guard_by_name_refuted :
  exists cwd root r modified deleted ps r'' k,
    git_guard cwd (RepoAt root) (changed_files true r) modified deleted = GProceed
    /\ reaches r ps r'' /\ In k (repo_own r'')
    /\ In (pjoin [fp_abs cwd root; key_at ps k]) (modified ++ deleted)
    /\ git_guard cwd (RepoAt root) (changed_files false r) modified deleted = GRefuse.
Proof.
  exists (lit "/"), (lit "/R"), named_sub, [lit "/R/policies/lib/x.rego"], [], [lit "policies/lib"],
         (Repo [lit "x.rego"] [] []), (lit "x.rego").
  split; [vm_compute; reflexivity|]. split.
  - unfold named_sub. eapply reach_sub with (n := lit "shared-lib"); [left; reflexivity | left; reflexivity | constructor].
  - split; [left; reflexivity|]. split; [vm_compute; left; reflexivity | vm_compute; reflexivity].
Qed.

(* ---------------------------------------------------------------- when the status is asked *)
Section Writer.
  Variable C : Type.

  (* the code ([early = false]): whatever was written between reading and deciding, a run that reaches the commit
     touches no file that the status OF THE TREE IT WRITES TO reports, and a run that does not leaves that tree --
     the concurrent writer's work included -- as it is *)
  Lemma status_at_commit_time (fl : flags) cwd rr (status_of : fsys C -> list str) roots
        (fs_read fs_now : fsys C) lr dl ml out fs' :
    fl_force fl = false -> fl_dry_run fl = false ->
    command_with_writer false fl cwd rr status_of roots fs_read fs_now lr dl ml = (out, fs') ->
    (out = OutDone \/ out = OutCommitFailed ->
       exists p r root,
         lr = LDone p r /\ rr = RepoAt root /\
         forall f k, In f (pv_modified p ++ pv_deleted p) -> In k (status_of fs_now) ->
                     f <> pjoin [fp_abs cwd root; k])
    /\ (out <> OutDone -> out <> OutCommitFailed -> fs' = fs_now).
  Proof.
    intros Hf Hd H. unfold command_with_writer in H.
    destruct (guard_sound_lemma C fl cwd _ roots fs_now lr dl ml out fs' Hf Hd H) as [G1 G2].
    split; [|exact G2].
    intros Ho. destruct (G1 Ho) as [p [r [root [Hlr [_ [Hrr Hall]]]]]].
    exists p, r, root. repeat split; assumption.
  Qed.
End Writer.

(* the tree the command read, and the tree after the user saved pol/x.rego while the command was linting *)
Definition w_read : fsys str :=
  {| fs_files := [(lit "/R/pol/x.rego", lit "A")]; fs_dirs := [lit "/"; lit "/R"; lit "/R/.git"; lit "/R/pol"] |}.
Definition w_now : fsys str :=
  {| fs_files := [(lit "/R/pol/x.rego", lit "A and the user's new rule")];
     fs_dirs := [lit "/"; lit "/R"; lit "/R/.git"; lit "/R/pol"] |}.
(* HEAD holds "A": the status lists pol/x.rego exactly when the tree holds something else *)
Definition w_status (fs : fsys str) : list str :=
  match aget (fs_files fs) (lit "/R/pol/x.rego") with
  | Some c => if str_eqb c (lit "A") then [] else [lit "pol/x.rego"]
  | None => [lit "pol/x.rego"]
  end.
Definition w_prov : provider str :=
  {| pv_files := [(lit "/R/pol/x.rego", lit "A fixed")]; pv_modified := [lit "/R/pol/x.rego"];
     pv_deleted := []; pv_disk := [] |}.

(* NOT the code: with the status taken up front the run goes through and replaces the user's unsaved-in-git
   work by the fixed version of what was read; the code refuses and leaves the tree as the user left it *)
Lemma status_taken_early_refuted :
  exists fl cwd root (status_of : fsys str -> list str) roots fs_read fs_now lr dl ml,
    fl_force fl = false /\ fl_dry_run fl = false
    /\ (exists p r f k fs', lr = LDone p r
          /\ command_with_writer true fl cwd (RepoAt root) status_of roots fs_read fs_now lr dl ml = (OutDone, fs')
          /\ In f (pv_modified p ++ pv_deleted p) /\ In k (status_of fs_now)
          /\ f = pjoin [fp_abs cwd root; k]
          /\ aget (fs_files fs') f <> aget (fs_files fs_now) f)
    /\ command_with_writer false fl cwd (RepoAt root) status_of roots fs_read fs_now lr dl ml = (OutGitRefused, fs_now).
Proof.
  exists {| fl_force := false; fl_dry_run := false |}, (lit "/R"), (lit "/R"), w_status, [lit "/R"], w_read, w_now,
         (LDone w_prov new_report), [], [lit "/R/pol/x.rego"].
  split; [reflexivity|]. split; [reflexivity|]. split; [|vm_compute; reflexivity].
  exists w_prov, new_report, (lit "/R/pol/x.rego"), (lit "pol/x.rego").
  eexists. split; [reflexivity|]. split; [vm_compute; reflexivity|].
  split; [left; reflexivity|]. split; [vm_compute; left; reflexivity|].
  split; [vm_compute; reflexivity|]. vm_compute. discriminate.
Qed.

(* ---------------------------------------------------------------- a link to a file outside of the work tree *)

(* /R/pol/link.rego is a (tracked, unmodified) symbolic link to /outside/target.rego *)
Definition o_resolve (p : str) : str :=
  if str_eqb p (lit "/R/pol/link.rego") then lit "/outside/target.rego" else p.

(* the work tree is clean (no status key at all), the gate lets the run through, and the FILE it then writes lies in
   no work tree: nothing the gate compares could have named it (open finding: the command writes through the link) *)
Lemma guard_link_leaves_worktree_refuted :
  exists resolve cwd root status modified deleted f,
    git_guard cwd (RepoAt root) status modified deleted = GProceed
    /\ status = [] /\ In f (modified ++ deleted)
    /\ str_has_prefix (resolve f) (resolve (fp_abs cwd root) ++ [SLASH])%list = false
    /\ str_has_prefix f (fp_abs cwd root ++ [SLASH])%list = true.
Proof.
  exists o_resolve, (lit "/"), (lit "/R"), [], [lit "/R/pol/link.rego"], [], (lit "/R/pol/link.rego").
  repeat split; try (vm_compute; reflexivity). left; reflexivity.
Qed.
