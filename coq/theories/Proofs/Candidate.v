(* renameCandidate: the sequence of candidate names never repeats, so the rename loop of
   handleRename ends after at most (number of occupied names + 1) rounds. *)
From Regal Require Import Model.Rename Proofs.Provider Proofs.CleanPath.
From Coq Require Import Lia.
Local Open Scope N_scope.

(* ================================================================ decimal rendering *)

Definition dstep (a c : N) : N := a * 10 + (c - 48).

Lemma read_acc_digits s : forall a,
  forallb is_digit s = true -> read_N_acc s a = Some (fold_left dstep s a).
Proof.
  induction s as [|c s IH]; intros a H; simpl in *; [reflexivity|].
  apply andb_true_iff in H as [Hc Hs]. rewrite Hc. apply IH; exact Hs.
Qed.

Lemma digit_of_mod n : is_digit (48 + n mod 10) = true.
Proof.
  unfold is_digit. assert (Hm : n mod 10 < 10) by (apply N.mod_upper_bound; lia).
  generalize dependent (n mod 10). intros k Hk.
  apply andb_true_iff; split; apply N.leb_le; lia.
Qed.

Lemma show_fuel_digits f : forall n acc,
  forallb is_digit acc = true -> forallb is_digit (show_N_fuel f n acc) = true.
Proof.
  induction f as [|f IH]; intros n acc Hacc; cbn [show_N_fuel]; [exact Hacc|].
  cbv zeta. destruct (n <? 10) eqn:E.
  - cbn [forallb]. rewrite digit_of_mod. exact Hacc.
  - apply IH. cbn [forallb]. rewrite digit_of_mod. exact Hacc.
Qed.

Lemma show_fuel_nonempty f : forall n acc, acc <> [] -> show_N_fuel f n acc <> [].
Proof.
  induction f as [|f IH]; intros n acc Hacc; simpl; [exact Hacc|].
  destruct (n <? 10); [discriminate | apply IH; discriminate].
Qed.

Lemma show_N_nonempty n : show_N n <> [].
Proof.
  unfold show_N. simpl. destruct (n <? 10); [discriminate | apply show_fuel_nonempty; discriminate].
Qed.

Lemma show_N_digits n : forallb is_digit (show_N n) = true.
Proof. unfold show_N. apply show_fuel_digits. reflexivity. Qed.

Lemma show_fuel_val f : forall n,
  (0 < f)%nat -> n < 2 ^ N.of_nat f ->
  exists m, forall acc a, fold_left dstep (show_N_fuel f n acc) a = fold_left dstep acc (a * m + n).
Proof.
  induction f as [|f IH]; intros n Hf Hn; [lia|].
  cbn [show_N_fuel]. destruct (N.ltb_spec n 10) as [Hlt|Hge].
  - exists 10. intros acc a. cbn [fold_left]. unfold dstep at 2.
    rewrite N.mod_small by exact Hlt. f_equal. lia.
  - assert (Hpow : 2 ^ N.of_nat (S f) = 2 * 2 ^ N.of_nat f).
    { rewrite Nat2N.inj_succ, N.pow_succ_r'. reflexivity. }
    assert (Hdiv : n / 10 < 2 ^ N.of_nat f).
    { apply N.div_lt_upper_bound; lia. }
    assert (Hf' : (0 < f)%nat).
    { destruct f; [|lia]. cbn in Hdiv. assert (1 <= n / 10) by (apply N.div_le_lower_bound; lia). lia. }
    destruct (IH (n / 10) Hf' Hdiv) as [m Hm].
    exists (m * 10). intros acc a. rewrite Hm. cbn [fold_left]. unfold dstep at 2. f_equal.
    assert (Hdm : n = 10 * (n / 10) + n mod 10) by (apply N.div_mod; lia).
    generalize dependent (n / 10). intros q Hq1 Hq2. generalize dependent (n mod 10). intros k Hk. nia.
Qed.

Lemma read_acc_show n : read_N_acc (show_N n) 0 = Some n.
Proof.
  rewrite read_acc_digits by apply show_N_digits.
  unfold show_N.
  assert (Hn : n < 2 ^ N.of_nat (S (N.to_nat (N.log2 n)))).
  { rewrite Nat2N.inj_succ, N2Nat.id. destruct n as [|p]; [cbn; lia|].
    destruct (N.log2_spec (N.pos p)) as [_ H]; [lia | exact H]. }
  destruct (show_fuel_val (S (N.to_nat (N.log2 n))) n ltac:(lia) Hn) as [m Hm].
  rewrite Hm. cbn [fold_left]. f_equal; lia.
Qed.

Lemma atoi_show n : n <= MAXINT -> atoi_sat (show_N n) = n.
Proof. intros H. unfold atoi_sat. rewrite read_acc_show. apply N.min_l. exact H. Qed.

Lemma atoi_le ds : atoi_sat ds <= MAXINT.
Proof. unfold atoi_sat. destruct (read_N_acc ds 0); [apply N.le_min_r | unfold MAXINT; lia]. Qed.

(* ================================================================ split_last / the regexp *)

Lemma split_last_none c s : split_last c s = None <-> ~ In c s.
Proof.
  induction s as [|x s IH]; simpl; [tauto|].
  destruct (split_last c s) as [[a b]|].
  - split; [discriminate|]. intros Hn. exfalso. apply Hn. right.
    destruct (in_dec N.eq_dec c s) as [H|H]; [exact H|]. apply IH in H. discriminate.
  - destruct (N.eqb_spec x c) as [->|Hne].
    + split; [discriminate | intros Hn; exfalso; apply Hn; left; reflexivity].
    + split; [|reflexivity]. intros _ [H|H]; [congruence|]. apply IH in H; [exact H | reflexivity].
Qed.

Lemma split_last_app c a b : ~ In c b -> split_last c (a ++ c :: b) = Some (a, b).
Proof.
  intros Hn. induction a as [|x a IH]; simpl.
  - apply split_last_none in Hn. rewrite Hn, N.eqb_refl. reflexivity.
  - rewrite IH. reflexivity.
Qed.

Lemma split_last_some c s a b : split_last c s = Some (a, b) -> s = a ++ c :: b /\ ~ In c b.
Proof.
  revert a b. induction s as [|x s IH]; simpl; intros a b H; [discriminate|].
  destruct (split_last c s) as [[a' b']|] eqn:E.
  - injection H as <- <-. destruct (IH a' b' eq_refl) as [-> Hn]. split; [reflexivity | exact Hn].
  - destruct (N.eqb_spec x c) as [->|Hne]; [|discriminate].
    injection H as <- <-. split; [reflexivity|]. apply split_last_none. exact E.
Qed.

Lemma digits_no_underscore ds : forallb is_digit ds = true -> ~ In UNDERSCORE ds.
Proof.
  intros H Hin. rewrite forallb_forall in H. specialize (H _ Hin). discriminate.
Qed.

Lemma re_name_num_some b stem ds :
  re_name_num b = Some (stem, ds) ->
  b = stem ++ UNDERSCORE :: ds /\ ds <> [] /\ forallb is_digit ds = true
  /\ existsb (N.eqb NEWLINE) stem = false.
Proof.
  unfold re_name_num. destruct (split_last UNDERSCORE b) as [[pre d]|] eqn:E; [|discriminate].
  destruct (negb (is_nil d) && forallb is_digit d && negb (existsb (N.eqb NEWLINE) pre)) eqn:C; [|discriminate].
  intros [= <- <-]. apply andb_true_iff in C as [C C3]. apply andb_true_iff in C as [C1 C2].
  apply split_last_some in E as [-> _]. repeat split.
  - destruct d; [discriminate | discriminate].
  - exact C2.
  - apply negb_true_iff. exact C3.
Qed.

Lemma re_name_num_build stem ds :
  ds <> [] -> forallb is_digit ds = true -> existsb (N.eqb NEWLINE) stem = false ->
  re_name_num (stem ++ UNDERSCORE :: ds) = Some (stem, ds).
Proof.
  intros Hne Hd Hnl. unfold re_name_num.
  rewrite split_last_app by (apply digits_no_underscore; exact Hd).
  rewrite Hd, Hnl. destruct ds; [contradiction | reflexivity].
Qed.

Lemma re_name_num_newline stem ds :
  ~ In UNDERSCORE ds -> existsb (N.eqb NEWLINE) stem = true ->
  re_name_num (stem ++ UNDERSCORE :: ds) = None.
Proof.
  intros Hn Hnl. unfold re_name_num. rewrite split_last_app by exact Hn.
  rewrite Hnl. rewrite andb_false_r. reflexivity.
Qed.

Lemma re_name_num_minint stem : re_name_num (stem ++ UNDERSCORE :: s_minint) = None.
Proof.
  unfold re_name_num. rewrite split_last_app.
  - reflexivity.
  - vm_compute. intuition discriminate.
Qed.

(* ================================================================ the order *)

Definition key (b : str) : nat * N :=
  match re_name_num b with
  | Some (stem, ds) => (length stem, atoi_sat ds)
  | None => (length b, 0)
  end.

Definition lt_key (a b : nat * N) : Prop :=
  (fst a < fst b)%nat \/ (fst a = fst b /\ snd a < snd b).

Lemma lt_key_trans a b c : lt_key a b -> lt_key b c -> lt_key a c.
Proof. unfold lt_key. intros [H1|[H1 H1']] [H2|[H2 H2']]; [left|left|left|right]; try lia. Qed.

Lemma lt_key_irrefl a : ~ lt_key a a.
Proof. unfold lt_key. intros [H|[_ H]]; lia. Qed.

Lemma next_base_increases b : lt_key (key b) (key (next_base b)).
Proof.
  unfold next_base, key at 1.
  destruct (re_name_num b) as [[stem ds]|] eqn:E.
  - apply re_name_num_some in E as [-> [Hne [Hd Hnl]]].
    unfold incr_show. destruct (N.eqb_spec (atoi_sat ds) MAXINT) as [Hmax|Hlt].
    + unfold key. cbn [app]. rewrite re_name_num_minint.
      left. simpl. rewrite app_length. simpl. lia.
    + pose proof (atoi_le ds) as Hle.
      unfold key. cbn [app].
      rewrite re_name_num_build; [| apply show_N_nonempty | apply show_N_digits | exact Hnl].
      right. simpl. split; [reflexivity|]. rewrite atoi_show by lia. lia.
  - unfold s_us1. destruct (existsb (N.eqb NEWLINE) b) eqn:Hnl.
    + unfold key. rewrite re_name_num_newline; [| vm_compute; intuition discriminate | exact Hnl].
      left. simpl. rewrite app_length. simpl. lia.
    + unfold key. rewrite re_name_num_build; [| discriminate | reflexivity | exact Hnl].
      right. simpl. split; [reflexivity|]. vm_compute. reflexivity.
Qed.

Fixpoint iter_base (k : nat) (b : str) : str :=
  match k with O => b | S k' => iter_base k' (next_base b) end.

Lemma iter_base_S k b : iter_base (S k) b = next_base (iter_base k b).
Proof. revert b. induction k as [|k IH]; intros b; [reflexivity|]. simpl. rewrite <- IH. reflexivity. Qed.

Lemma iter_base_lt k : forall j b, (k < j)%nat -> lt_key (key (iter_base k b)) (key (iter_base j b)).
Proof.
  intros j b Hlt. induction j as [|j IH]; [lia|].
  rewrite iter_base_S.
  destruct (Nat.eq_dec k j) as [->|Hne].
  - apply next_base_increases.
  - eapply lt_key_trans; [apply IH; lia | apply next_base_increases].
Qed.

Lemma iter_base_distinct k j b : k <> j -> iter_base k b <> iter_base j b.
Proof.
  intros Hne Heq.
  destruct (Nat.lt_ge_cases k j) as [H|H].
  - pose proof (iter_base_lt k j b H) as L. rewrite Heq in L. exact (lt_key_irrefl _ L).
  - assert (H' : (j < k)%nat) by lia.
    pose proof (iter_base_lt j k b H') as L. rewrite Heq in L. exact (lt_key_irrefl _ L).
Qed.

(* ================================================================ suffix helpers *)

Lemma trim_suffix_app (x y : str) : trim_suffix (x ++ y) y = x.
Proof.
  unfold trim_suffix. rewrite rev_app_distr.
  assert (H : drop_prefix (rev y ++ rev x) (rev y) = Some (rev x)) by (apply drop_prefix_spec; reflexivity).
  rewrite H. apply rev_involutive.
Qed.

Lemma trim_suffix_nil (s : str) : trim_suffix s [] = s.
Proof. rewrite <- (app_nil_r s) at 1. apply trim_suffix_app. Qed.

Lemma has_suffix_app (x y : str) : has_suffix (x ++ y) y = true.
Proof. apply has_suffix_spec. exists x. reflexivity. Qed.

Lemma has_suffix_split (s p : str) : has_suffix s p = true -> s = trim_suffix s p ++ p.
Proof.
  intros H. apply has_suffix_spec in H as [t ->]. rewrite trim_suffix_app. reflexivity.
Qed.

Definition last_is_digit (s : str) : bool :=
  match rev s with c :: _ => is_digit c | [] => false end.

Lemma last_is_digit_app x y : y <> [] -> last_is_digit (x ++ y) = last_is_digit y.
Proof.
  intros Hne. unfold last_is_digit. rewrite rev_app_distr.
  destruct (rev y) eqn:E; [|reflexivity].
  exfalso. apply Hne. rewrite <- (rev_involutive y), E. reflexivity.
Qed.

Lemma all_digits_last s : s <> [] -> forallb is_digit s = true -> last_is_digit s = true.
Proof.
  intros Hne Hd. unfold last_is_digit. destruct (rev s) as [|c t] eqn:E.
  - exfalso. apply Hne. rewrite <- (rev_involutive s), E. reflexivity.
  - rewrite forallb_forall in Hd. apply Hd. apply in_rev. rewrite E. left. reflexivity.
Qed.

Lemma last_digit_not_test s : last_is_digit s = true -> has_suffix s s_test = false.
Proof.
  intros H. destruct (has_suffix s s_test) eqn:E; [|reflexivity].
  apply has_suffix_spec in E as [t ->].
  rewrite last_is_digit_app in H by discriminate. vm_compute in H. discriminate.
Qed.

(* ================================================================ from_last (filepath.Ext) *)

Lemma from_last_none c s : from_last c s = None <-> ~ In c s.
Proof.
  induction s as [|x s IH]; simpl; [tauto|].
  destruct (from_last c s) as [e|].
  - split; [discriminate|]. intros Hn. exfalso.
    destruct (in_dec N.eq_dec c s) as [H|H]; [apply Hn; right; exact H|]. apply IH in H. discriminate.
  - destruct (N.eqb_spec x c) as [->|Hne].
    + split; [discriminate | intros Hn; exfalso; apply Hn; left; reflexivity].
    + split; [|reflexivity]. intros _ [H|H]; [congruence|]. apply IH in H; [exact H | reflexivity].
Qed.

Lemma from_last_app c x e : ~ In c e -> from_last c (x ++ c :: e) = Some (c :: e).
Proof.
  intros Hn. induction x as [|y x IH]; simpl.
  - apply from_last_none in Hn. rewrite Hn, N.eqb_refl. reflexivity.
  - rewrite IH. reflexivity.
Qed.

Lemma from_last_some c s e :
  from_last c s = Some e -> exists pre e', s = pre ++ e /\ e = c :: e' /\ ~ In c e'.
Proof.
  revert e. induction s as [|x s IH]; simpl; intros e H; [discriminate|].
  destruct (from_last c s) as [e0|] eqn:E.
  - injection H as <-. destruct (IH e0 eq_refl) as [pre [e' [-> [-> Hn]]]].
    exists (x :: pre), e'. split; [reflexivity | split; [reflexivity | exact Hn]].
  - destruct (N.eqb_spec x c) as [->|Hne]; [|discriminate].
    injection H as <-. exists [], s. split; [reflexivity | split; [reflexivity|]]. apply from_last_none. exact E.
Qed.

(* ================================================================ decomposition of a base name *)

Definition base_triple (nb : str) : str * str * str :=
  let ext := path_ext nb in
  let b0 := trim_suffix nb ext in
  let is_t := has_suffix b0 s_test in
  (if is_t then trim_suffix b0 s_test else b0, if is_t then s_test else [], ext).

Lemma rename_candidate_unfold old :
  rename_candidate old =
  let '(b, sfx, ext) := base_triple (path_base old) in
  pjoin [dir old; next_base b ++ sfx ++ ext].
Proof. unfold rename_candidate, base_triple. destruct (has_suffix _ s_test); reflexivity. Qed.

(* what makes (b, sfx, ext) decompose b ++ sfx ++ ext into itself again *)
Definition ext_ok (ext : str) : Prop := ext = [] \/ exists e', ext = DOT :: e' /\ ~ In DOT e'.
Definition sfx_ok (sfx : str) : Prop := sfx = [] \/ sfx = s_test.
Definition stem_ok (b sfx ext : str) : Prop :=
  ~ In SLASH b /\ (ext = [] -> ~ In DOT b) /\ (sfx = [] -> has_suffix b s_test = false).

Lemma not_in_app {A} (x : A) l1 l2 : ~ In x (l1 ++ l2) <-> ~ In x l1 /\ ~ In x l2.
Proof. rewrite in_app_iff. tauto. Qed.

Lemma s_test_no_dot : ~ In DOT s_test. Proof. vm_compute. intuition discriminate. Qed.
Lemma s_test_no_slash : ~ In SLASH s_test. Proof. vm_compute. intuition discriminate. Qed.

Lemma base_triple_stable b sfx ext :
  ext_ok ext -> sfx_ok sfx -> ~ In SLASH ext -> stem_ok b sfx ext ->
  base_triple (b ++ sfx ++ ext) = (b, sfx, ext).
Proof.
  intros Hext Hsfx Hes [Hbs [Hbd Hbt]].
  assert (Hss : ~ In SLASH sfx) by (destruct Hsfx as [->| ->]; [intros [] | apply s_test_no_slash]).
  assert (Hnb : ~ In SLASH (b ++ sfx ++ ext)).
  { apply not_in_app; split; [exact Hbs|]. apply not_in_app; split; assumption. }
  unfold base_triple.
  assert (Hpe : path_ext (b ++ sfx ++ ext) = ext).
  { unfold path_ext. rewrite after_last_slash_no_slash by exact Hnb.
    destruct Hext as [->|[e' [-> He']]].
    - rewrite app_nil_r.
      assert (Hn : ~ In DOT (b ++ sfx)).
      { apply not_in_app; split; [apply Hbd; reflexivity|].
        destruct Hsfx as [->| ->]; [intros [] | apply s_test_no_dot]. }
      apply from_last_none in Hn. rewrite Hn. reflexivity.
    - rewrite app_assoc. rewrite from_last_app by exact He'. reflexivity. }
  rewrite Hpe. rewrite app_assoc, trim_suffix_app.
  destruct Hsfx as [->| ->].
  - rewrite app_nil_r. rewrite (Hbt eq_refl). reflexivity.
  - rewrite has_suffix_app, trim_suffix_app. reflexivity.
Qed.

(* every base name without a slash decomposes into such a triple *)
Lemma base_triple_facts nb b sfx ext :
  ~ In SLASH nb -> base_triple nb = (b, sfx, ext) ->
  nb = b ++ sfx ++ ext /\ ext_ok ext /\ sfx_ok sfx /\ ~ In SLASH ext /\ stem_ok b sfx ext.
Proof.
  intros Hs H. unfold base_triple in H.
  remember (path_ext nb) as e eqn:He.
  assert (Hsplit : nb = trim_suffix nb e ++ e /\ ext_ok e /\ (e = [] -> ~ In DOT nb)).
  { subst e. unfold path_ext. rewrite after_last_slash_no_slash by exact Hs.
    destruct (from_last DOT nb) as [e0|] eqn:E.
    - apply from_last_some in E as [pre [e' [Hnb [-> He']]]].
      split; [|split].
      + rewrite Hnb at 2. rewrite Hnb at 1. rewrite trim_suffix_app. reflexivity.
      + right. exists e'. split; [reflexivity | exact He'].
      + discriminate.
    - split; [|split].
      + rewrite trim_suffix_nil, app_nil_r. reflexivity.
      + left; reflexivity.
      + intros _. apply from_last_none. exact E. }
  destruct Hsplit as [Hnb [Hext Hnodot]].
  set (b0 := trim_suffix nb e) in *.
  assert (Hb0s : ~ In SLASH b0 /\ ~ In SLASH e).
  { rewrite Hnb in Hs. apply not_in_app in Hs. exact Hs. }
  destruct Hb0s as [Hb0s Hes].
  destruct (has_suffix b0 s_test) eqn:Ht; injection H as <- <- <-.
  - pose proof (has_suffix_split _ _ Ht) as Hb0.
    repeat split.
    + rewrite Hnb at 1. rewrite Hb0 at 1. rewrite <- app_assoc. reflexivity.
    + exact Hext.
    + right; reflexivity.
    + exact Hes.
    + rewrite Hb0 in Hb0s. apply not_in_app in Hb0s. tauto.
    + intros He0. specialize (Hnodot He0). rewrite Hnb, Hb0 in Hnodot.
      apply not_in_app in Hnodot as [Hnodot _]. apply not_in_app in Hnodot. tauto.
    + discriminate.
  - repeat split.
    + exact Hnb.
    + exact Hext.
    + left; reflexivity.
    + exact Hes.
    + exact Hb0s.
    + intros He0. specialize (Hnodot He0). rewrite Hnb in Hnodot. apply not_in_app in Hnodot. tauto.
    + intros _. exact Ht.
Qed.

(* ================================================================ what next_base adds *)

Lemma s_minint_chars x : In x s_minint -> x = 45 \/ is_digit x = true.
Proof.
  intros H. vm_compute in H.
  repeat (destruct H as [<-|H]; [first [left; reflexivity | right; reflexivity]|]). destruct H.
Qed.

Lemma next_base_chars b x :
  In x (next_base b) -> In x b \/ x = UNDERSCORE \/ x = 45 \/ is_digit x = true.
Proof.
  unfold next_base. destruct (re_name_num b) as [[stem ds]|] eqn:E.
  - apply re_name_num_some in E as [-> _].
    rewrite !in_app_iff. simpl. intros [H|[[<-|[]]|H]].
    + left; left; exact H.
    + right; left; reflexivity.
    + unfold incr_show in H. destruct (atoi_sat ds =? MAXINT).
      * apply s_minint_chars in H. tauto.
      * right; right; right. pose proof (show_N_digits (atoi_sat ds + 1)) as Hd.
        rewrite forallb_forall in Hd. apply Hd. exact H.
  - rewrite in_app_iff. intros [H|H]; [left; exact H|].
    vm_compute in H. destruct H as [<-|[<-|[]]]; [right; left; reflexivity | right; right; right; reflexivity].
Qed.

Lemma next_base_keeps_out b c :
  c <> UNDERSCORE -> c <> 45 -> is_digit c = false -> ~ In c b -> ~ In c (next_base b).
Proof.
  intros H1 H2 H3 Hn Hin. apply next_base_chars in Hin. destruct Hin as [H|[H|[H|H]]]; congruence.
Qed.

Lemma next_base_last_digit b : last_is_digit (next_base b) = true.
Proof.
  unfold next_base. destruct (re_name_num b) as [[stem ds]|].
  - rewrite app_assoc. unfold incr_show. destruct (atoi_sat ds =? MAXINT).
    + rewrite last_is_digit_app by discriminate. reflexivity.
    + rewrite last_is_digit_app by apply show_N_nonempty.
      apply all_digits_last; [apply show_N_nonempty | apply show_N_digits].
  - rewrite last_is_digit_app by discriminate. reflexivity.
Qed.

Lemma next_base_has_underscore b : In UNDERSCORE (next_base b).
Proof.
  unfold next_base. destruct (re_name_num b) as [[stem ds]|].
  - apply in_or_app. right. left. reflexivity.
  - apply in_or_app. right. left. reflexivity.
Qed.

Lemma stem_ok_next b sfx ext : stem_ok b sfx ext -> stem_ok (next_base b) sfx ext.
Proof.
  intros [Hs [Hd Ht]]. split; [|split].
  - apply next_base_keeps_out; try discriminate; [reflexivity | exact Hs].
  - intros He. apply next_base_keeps_out; try discriminate; [reflexivity | apply Hd; exact He].
  - intros _. apply last_digit_not_test, next_base_last_digit.
Qed.

Lemma regular_of_underscore s : In UNDERSCORE s -> ~ In SLASH s -> regular s.
Proof.
  intros Hu Hs. repeat split.
  - intros ->. destruct Hu.
  - exact Hs.
  - intros ->. vm_compute in Hu. intuition discriminate.
  - intros ->. vm_compute in Hu. intuition discriminate.
Qed.

Lemma regular_next b sfx ext :
  sfx_ok sfx -> ~ In SLASH ext -> stem_ok b sfx ext -> regular (next_base b ++ sfx ++ ext).
Proof.
  intros Hsfx Hes Hb. destruct (stem_ok_next _ _ _ Hb) as [Hs _].
  apply regular_of_underscore.
  - apply in_or_app. left. apply next_base_has_underscore.
  - apply not_in_app; split; [exact Hs|]. apply not_in_app; split; [|exact Hes].
    destruct Hsfx as [->| ->]; [intros [] | apply s_test_no_slash].
Qed.

(* ================================================================ candidates of a clean path *)

Lemma rename_candidate_cpath ds b sfx ext :
  Forall regular ds -> ext_ok ext -> sfx_ok sfx -> ~ In SLASH ext -> stem_ok b sfx ext ->
  regular (b ++ sfx ++ ext) ->
  rename_candidate (cpath (ds ++ [b ++ sfx ++ ext])) = cpath (ds ++ [next_base b ++ sfx ++ ext]).
Proof.
  intros Hds Hext Hsfx Hes Hb Hreg.
  rewrite rename_candidate_unfold.
  rewrite path_base_cpath_snoc by exact Hreg.
  rewrite base_triple_stable by assumption.
  rewrite dir_cpath_snoc by assumption.
  apply pjoin_cpath_comp; [exact Hds|]. apply regular_next; assumption.
Qed.

Lemma cand_iter_cpath k : forall ds b sfx ext,
  Forall regular ds -> ext_ok ext -> sfx_ok sfx -> ~ In SLASH ext -> stem_ok b sfx ext ->
  regular (b ++ sfx ++ ext) ->
  cand_iter k (cpath (ds ++ [b ++ sfx ++ ext])) = cpath (ds ++ [iter_base k b ++ sfx ++ ext])
  /\ regular (iter_base k b ++ sfx ++ ext).
Proof.
  induction k as [|k IH]; intros ds b sfx ext Hds Hext Hsfx Hes Hb Hreg.
  - split; [reflexivity | exact Hreg].
  - simpl. rewrite rename_candidate_cpath by assumption.
    apply IH; try assumption.
    + apply stem_ok_next. exact Hb.
    + apply regular_next; assumption.
Qed.

Lemma cpath_snoc_inj ds x y : regular x -> regular y -> cpath (ds ++ [x]) = cpath (ds ++ [y]) -> x = y.
Proof.
  intros Hx Hy H. apply (f_equal path_base) in H.
  rewrite !path_base_cpath_snoc in H by assumption. exact H.
Qed.

Lemma cand_iter_form to ds nb k :
  clean_file to ds nb ->
  exists nb', cand_iter k to = cpath (ds ++ [nb']) /\ regular nb'.
Proof.
  intros [-> [Hds Hreg]].
  destruct (base_triple nb) as [[b sfx] ext] eqn:E.
  destruct Hreg as [Hne [Hs Hdots]].
  destruct (base_triple_facts nb b sfx ext Hs E) as [-> [Hext [Hsfx [Hes Hb]]]].
  destruct (cand_iter_cpath k ds b sfx ext Hds Hext Hsfx Hes Hb) as [H1 H2].
  { repeat split; tauto. }
  eexists. split; [exact H1 | exact H2].
Qed.

Lemma cand_iter_distinct to ds nb i j :
  clean_file to ds nb -> i <> j -> cand_iter i to <> cand_iter j to.
Proof.
  intros [-> [Hds Hreg]] Hij.
  destruct (base_triple nb) as [[b sfx] ext] eqn:E.
  destruct Hreg as [Hne [Hs Hdots]].
  destruct (base_triple_facts nb b sfx ext Hs E) as [-> [Hext [Hsfx [Hes Hb]]]].
  assert (Hreg : regular (b ++ sfx ++ ext)) by (repeat split; tauto).
  destruct (cand_iter_cpath i ds b sfx ext Hds Hext Hsfx Hes Hb Hreg) as [Hi Hri].
  destruct (cand_iter_cpath j ds b sfx ext Hds Hext Hsfx Hes Hb Hreg) as [Hj Hrj].
  intros Heq0. pose proof (eq_trans (eq_sym Hi) (eq_trans Heq0 Hj)) as Heq.
  apply cpath_snoc_inj in Heq; [|assumption|assumption].
  apply app_inv_tail in Heq. exact (iter_base_distinct i j b Hij Heq).
Qed.

Lemma cand_iter_dir to ds nb k :
  clean_file to ds nb -> dir (cand_iter k to) = cpath ds.
Proof.
  intros H. destruct (cand_iter_form to ds nb k H) as [nb' [-> Hr]].
  destruct H as [_ [Hds _]]. apply dir_cpath_snoc; assumption.
Qed.

(* ================================================================ the loop of handleRename ends *)
Section Loop.
  Variable C : Type.
  Implicit Types (p : provider C) (r : report).
  Local Open Scope nat_scope.

  Lemma conflict_occupied p from to :
    pv_rename p from to = RenConflict -> In to (occupied p).
  Proof.
    unfold pv_rename, occupied. destruct (aget (pv_files p) from); [|discriminate].
    destruct (amem (pv_files p) to) eqn:Hm.
    - intros _. apply in_or_app. left. apply amem_in. exact Hm.
    - destruct (disk_occupied p to) eqn:Hd; [|discriminate].
      intros _. apply in_or_app. right. unfold disk_occupied in Hd.
      apply andb_true_iff in Hd as [Hd _]. apply str_in_spec. exact Hd.
  Qed.

  Lemma out_of_fuel_all_occupied fuel : forall starting p r root from to,
    handle_rename pv_rename fuel PRename starting p r root from to = SOutOfFuel ->
    forall k, k < fuel -> In (cand_iter k to) (occupied p).
  Proof.
    induction fuel as [|fuel IH]; intros starting p r root from to H k Hk; [lia|].
    simpl in H. destruct (pv_rename p from to) as [p1| |] eqn:E; try discriminate.
    destruct k as [|k]; [simpl; eapply conflict_occupied; eassumption|].
    simpl. eapply IH; [eassumption | lia].
  Qed.

  Lemma nodup_map_seq {A} (f : nat -> A) n :
    (forall i j, i < n -> j < n -> i <> j -> f i <> f j) -> NoDup (map f (seq 0 n)).
  Proof.
    intros Hinj.
    assert (G : forall s len, s + len <= n -> NoDup (map f (seq s len))).
    { intros s len. revert s. induction len as [|len IH]; intros s Hle; simpl; [constructor|].
      constructor; [|apply IH; lia].
      intros Hin. apply in_map_iff in Hin as [j [Hfj Hj]]. apply in_seq in Hj.
      apply (Hinj j s); [lia | lia | lia | exact Hfj]. }
    apply G. lia.
  Qed.

  Theorem handle_rename_terminates fuel starting p r root from to ds nb :
    clean_file to ds nb ->
    length (occupied p) < fuel ->
    handle_rename pv_rename fuel PRename starting p r root from to <> SOutOfFuel.
  Proof.
    intros Hcf Hfuel Hout.
    pose proof (out_of_fuel_all_occupied fuel starting p r root from to Hout) as Hocc.
    assert (Hnd : NoDup (map (fun k => cand_iter k to) (seq 0 fuel))).
    { apply nodup_map_seq. intros i j _ _ Hij. eapply cand_iter_distinct; eassumption. }
    assert (Hincl : incl (map (fun k => cand_iter k to) (seq 0 fuel)) (occupied p)).
    { intros x Hx. apply in_map_iff in Hx as [k [<- Hk]]. apply in_seq in Hk. apply Hocc. lia. }
    pose proof (NoDup_incl_length Hnd Hincl) as Hlen.
    rewrite map_length, seq_length in Hlen. lia.
  Qed.

  (* what a successful round leaves behind: the file sits under a name that was free *)
  Lemma handle_rename_ok fuel : forall starting p r root from to p' r',
    handle_rename pv_rename fuel PRename starting p r root from to = SOk p' r' ->
    exists k c,
      aget (pv_files p) from = Some c
      /\ ~ In (cand_iter k to) (akeys (pv_files p))
      /\ disk_occupied p (cand_iter k to) = false
      /\ p' = pv_delete (pv_put p (cand_iter k to) c) from
      /\ r' = add_moved r (cand_iter k to) from.
  Proof.
    induction fuel as [|fuel IH]; intros starting p r root from to p' r' H; [discriminate|].
    simpl in H. destruct (pv_rename p from to) as [p1| |] eqn:E; try discriminate.
    - injection H as <- <-. apply rename_ok_spec in E as [c [Hc [Hn [Hd ->]]]].
      exists 0, c. simpl. repeat split; assumption.
    - destruct (IH _ _ _ _ _ _ _ _ H) as [k [c Hk]]. exists (S k), c. exact Hk.
  Qed.
End Loop.
