(* F1/F2 (forward pass) and B1 (backtrack): the trace the forward pass records satisfies
   [trace_ok], and backtracking through ANY trace satisfying it yields a valid chain of
   snake end points from (0,0) to (M,N). *)
From Regal Require Export Proofs.DiffOps.
From Coq Require Import Lia.
Open Scope Z_scope.

Lemma even_ex x : Z.even x = true <-> exists m, x = 2 * m.
Proof. rewrite Z.even_spec. reflexivity. Qed.

Lemma odd_ex x : Z.odd x = true <-> exists m, x = 2 * m + 1.
Proof. rewrite Z.odd_spec. reflexivity. Qed.

Lemma even_odd_m1 k d : Z.even (k + d) = true -> Z.odd (k - 1 + d) = true.
Proof. intros H. replace (k - 1 + d) with (Z.pred (k + d)) by lia. rewrite Z.odd_pred. exact H. Qed.

Lemma even_odd_p1 k d : Z.even (k + d) = true -> Z.odd (k + 1 + d) = true.
Proof. intros H. replace (k + 1 + d) with (Z.succ (k + d)) by lia. rewrite Z.odd_succ. exact H. Qed.

Ltac parity :=
  repeat match goal with
         | H : Z.even _ = true |- _ => apply even_ex in H; destruct H as [? H]
         | H : Z.odd _ = true |- _ => apply odd_ex in H; destruct H as [? H]
         end.

Section Trace.
  Variable A : Type.
  Variable eqb : A -> A -> bool.
  Variables a b : list A.
  Variables geta getb : Z -> res A.
  Variable sfuel : nat.
  Hypothesis Hga : forall i, geta i = list_get a i.
  Hypothesis Hgb : forall i, getb i = list_get b i.

  Notation Mz := (Z.of_nat (length a)).
  Notation Nz := (Z.of_nat (length b)).
  Notation eq_at := (eq_at A eqb a b).
  Notation diag_ok := (diag_ok A eqb a b).
  Notation slides := (slides A eqb a b).
  Notation gstep := (gstep A eqb a b).
  Notation chain := (chain A eqb a b).
  Notation OFF := (off Mz Nz).

  (* V[k + offset] *)
  Definition rd (V : vmap) (k : Z) : Z := vraw V (k + OFF).

  Definition down_cond (V : vmap) (k d : Z) : bool :=
    (k =? - d) || (negb (k =? d) && (rd V (k - 1) <? rd V (k + 1))).

  (* the x the inner loop starts sliding from on diagonal k in round d, reading V *)
  Definition start_x (V : vmap) (k d : Z) : Z :=
    if down_cond V k d then rd V (k + 1) else rd V (k - 1) + 1.

  (* F2 for one diagonal: x is where sliding from the chosen start (inside the first quadrant) stops,
     and it stops because the next pair of lines differs or a border is reached *)
  Definition kspec (V : vmap) (d k x : Z) : Prop :=
    0 <= start_x V k d /\ 0 <= start_x V k d - k /\
    (slides (start_x V k d) (start_x V k d - k) x /\ slide_stops A eqb a b x (x - k)).

  Definition round_ok (d : Z) (V : vmap) (kmax : Z) : Prop :=
    forall k, - d <= k <= kmax -> Z.even (k + d) = true -> kspec V d k (rd V k).

  (* F1: entries of the other parity are not touched by round d *)
  Definition frame (d : Z) (V V0 : vmap) : Prop :=
    forall j, - d <= j <= d + 1 -> Z.odd (j + d) = true -> rd V j = rd V0 j.

  (* what round d needs from the V it starts with *)
  Definition pre (d : Z) (V0 : vmap) : Prop :=
    (d = 0 -> rd V0 1 = 0) /\
    (forall j, - (d - 1) <= j <= d - 1 -> Z.odd (j + d) = true -> 0 <= rd V0 j /\ j <= rd V0 j).

  Lemma vget_ok V i x : vget Mz Nz V i = Ok x -> x = vraw V i /\ in_range Mz Nz i = true.
  Proof. unfold vget. destruct (in_range Mz Nz i); [|discriminate]. intros [= <-]. auto. Qed.

  Lemma vset_ok V i x V' :
    vset Mz Nz V i x = Ok V' -> V' = PositiveMap.add (Z.to_pos (i + 1)) x V /\ in_range Mz Nz i = true.
  Proof. unfold vset. destruct (in_range Mz Nz i); [|discriminate]. intros [= <-]. auto. Qed.

  Lemma in_range_ge i : in_range Mz Nz i = true -> 0 <= i.
  Proof. unfold in_range. intros H. apply andb_true_iff in H. destruct H as [H _]. apply Z.leb_le in H. exact H. Qed.

  Lemma choose_down_ok V k d bo : choose_down Mz Nz V k d = Ok bo -> bo = down_cond V k d.
  Proof.
    unfold choose_down, down_cond. destruct (k =? - d); [intros [= <-]; reflexivity|].
    destruct (k =? d); [intros [= <-]; reflexivity|].
    intros H. bind_inv H l Hl. bind_inv H r Hr. injection H as <-.
    apply vget_ok in Hl, Hr. destruct Hl as [-> _], Hr as [-> _]. reflexivity.
  Qed.

  Lemma rd_add_same V k x : rd (PositiveMap.add (Z.to_pos (k + OFF + 1)) x V) k = x.
  Proof. unfold rd. apply vraw_add_same. Qed.

  Lemma rd_add_other V k j x :
    0 <= k + OFF -> 0 <= j + OFF -> j <> k -> rd (PositiveMap.add (Z.to_pos (k + OFF + 1)) x V) j = rd V j.
  Proof. intros. unfold rd. apply vraw_add_other; lia. Qed.

  Lemma down_cond_frame d V V0 k :
    frame d V V0 -> - d <= k <= d -> Z.even (k + d) = true -> down_cond V k d = down_cond V0 k d.
  Proof.
    intros Hf Hk He. unfold down_cond.
    destruct (Z.eqb_spec k (- d)) as [?|Hn1]; [reflexivity|].
    destruct (Z.eqb_spec k d) as [?|Hn2]; [reflexivity|]. simpl.
    rewrite (Hf (k - 1)), (Hf (k + 1)); try reflexivity; try lia; auto using even_odd_m1, even_odd_p1.
  Qed.

  Lemma start_x_frame d V V0 k :
    frame d V V0 -> - d <= k <= d -> Z.even (k + d) = true -> start_x V k d = start_x V0 k d.
  Proof.
    intros Hf Hk He. unfold start_x. rewrite (down_cond_frame d V V0 k Hf Hk He).
    destruct (down_cond V0 k d) eqn:Hd.
    - apply Hf; [lia|]. apply even_odd_p1; assumption.
    - rewrite (Hf (k - 1)); [reflexivity| |apply even_odd_m1; assumption].
      unfold down_cond in Hd. destruct (Z.eqb_spec k (- d)); [discriminate|]. lia.
  Qed.

  Lemma kspec_frame d V V0 k x :
    frame d V V0 -> - d <= k <= d -> Z.even (k + d) = true -> kspec V0 d k x -> kspec V d k x.
  Proof. intros Hf Hk He H. unfold kspec. rewrite (start_x_frame d V V0 k Hf Hk He). exact H. Qed.

  (* the start point of diagonal k lies in the first quadrant *)
  Lemma start_nonneg d V0 k :
    0 <= d -> pre d V0 -> - d <= k <= d -> Z.even (k + d) = true ->
    0 <= start_x V0 k d /\ 0 <= start_x V0 k d - k.
  Proof.
    intros Hd [Hp0 Hp] Hk He. unfold start_x, down_cond.
    assert (Ho1 := even_odd_m1 k d He). assert (Ho2 := even_odd_p1 k d He).
    assert (Hne : k = d - 1 -> False) by (intros ->; replace (d - 1 + d) with (2 * d - 1) in He by lia; rewrite Z.even_sub, Z.even_mul in He; discriminate).
    assert (Hne' : k = - d + 1 -> False) by (intros ->; replace (- d + 1 + d) with 1 in He by lia; discriminate).
    destruct (Z.eqb_spec k (- d)) as [E1|E1]; simpl.
    - destruct (Z.eq_dec d 0) as [->|Hd0].
      + replace k with 0 by lia. simpl. rewrite Hp0 by reflexivity. lia.
      + destruct (Hp (k + 1)); [lia|assumption|]. lia.
    - destruct (Z.eqb_spec k d) as [E2|E2]; simpl.
      + destruct (Hp (k - 1)); [lia|assumption|]. lia.
      + destruct (Hp (k - 1)); [lia|assumption|].
        destruct (Hp (k + 1)); [lia|assumption|].
        destruct (rd V0 (k - 1) <? rd V0 (k + 1)); lia.
  Qed.

  Definition found_at (V' : vmap) (kf : Z) : Prop := rd V' kf = Mz /\ Mz - kf = Nz.

  Lemma round_loop_inv : forall n k V V0 d rr,
    0 <= d -> d <= OFF -> k = d + 2 - 2 * Z.of_nat n -> - d <= k ->
    pre d V0 -> frame d V V0 ->
    (forall k', - d <= k' < k -> Z.even (k' + d) = true -> kspec V0 d k' (rd V k') /\ ~ found_at V k') ->
    round_loop A eqb Mz Nz geta getb sfuel n k d V = Ok rr ->
    match rr with
    | RFound V' => frame d V' V0 /\ exists kf, - d <= kf <= d /\ Z.even (kf + d) = true /\ found_at V' kf /\
                   forall k', - d <= k' <= kf -> Z.even (k' + d) = true -> kspec V0 d k' (rd V' k')
    | RNext V' => frame d V' V0 /\
                  forall k', - d <= k' <= d -> Z.even (k' + d) = true -> kspec V0 d k' (rd V' k') /\ ~ found_at V' k'
    end.
  Proof.
    induction n as [|n IH]; intros k V V0 d rr Hd Hoff Hk Hkd Hpre Hfr Hdone H.
    - simpl in H. injection H as <-. split; [assumption|]. intros k' Hk' He. apply Hdone; [lia|assumption].
    - simpl in H.
      assert (Hkle : k <= d) by lia.
      assert (Hke : Z.even (k + d) = true) by (apply even_ex; exists (d + 1 - Z.of_nat (S n)); lia).
      bind_inv H down Hdown. apply choose_down_ok in Hdown.
      rewrite (down_cond_frame d V V0 k Hfr (conj Hkd Hkle) Hke) in Hdown.
      bind_inv H x0 Hx0.
      assert (Ex0 : x0 = start_x V0 k d).
      { rewrite <- (start_x_frame d V V0 k Hfr (conj Hkd Hkle) Hke). unfold start_x.
        rewrite (down_cond_frame d V V0 k Hfr (conj Hkd Hkle) Hke). rewrite <- Hdown.
        destruct down.
        - apply vget_ok in Hx0. destruct Hx0 as [-> _]. reflexivity.
        - bind_inv Hx0 l Hl. injection Hx0 as <-. apply vget_ok in Hl. destruct Hl as [-> _]. reflexivity. }
      clear Hx0.
      bind_inv H x Hx. apply (slide_spec A eqb a b geta getb Hga Hgb) in Hx. destruct Hx as [Hsl Hst].
      replace (x0 - k + (x - x0)) with (x - k) in Hst by lia.
      bind_inv H V' HV'. apply vset_ok in HV'. destruct HV' as [-> Hir]. apply in_range_ge in Hir.
      destruct (start_nonneg d V0 k Hd Hpre (conj Hkd Hkle) Hke) as [Hn1 Hn2].
      rewrite <- Ex0 in Hn1, Hn2.
      assert (Hspec : kspec V0 d k x) by (unfold kspec; rewrite <- Ex0; auto).
      set (V' := PositiveMap.add (Z.to_pos (k + OFF + 1)) x V) in *.
      assert (Hfr' : frame d V' V0).
      { intros j Hj Ho. unfold V'. rewrite rd_add_other; [apply Hfr; assumption|lia|lia|].
        intros ->. assert (Hke' := Hke). parity. lia. }
      assert (Hdone0 : forall k', - d <= k' < k -> Z.even (k' + d) = true -> kspec V0 d k' (rd V' k') /\ ~ found_at V' k').
      { intros k' Hk' He'. unfold found_at, V'. rewrite rd_add_other; [|lia|lia|lia].
        apply Hdone; assumption. }
      assert (Hlt : forall k', - d <= k' < k + 2 -> Z.even (k' + d) = true -> k' <> k -> k' < k).
      { intros k' Hk' He' Hne. assert (Hke' := Hke). assert (He'' := He'). parity. lia. }
      assert (Hxk : rd V' k = x) by (unfold V'; apply rd_add_same).
      destruct ((x =? Mz) && (x - k =? Nz)) eqn:Hfound.
      + injection H as <-. split; [assumption|].
        apply andb_true_iff in Hfound. destruct Hfound as [F1 F2]. apply Z.eqb_eq in F1, F2.
        exists k. split; [lia|]. split; [assumption|]. split.
        * split; [|lia]. rewrite Hxk. assumption.
        * intros k' Hk' He'. destruct (Z.eq_dec k' k) as [->|Hne].
          -- rewrite Hxk. assumption.
          -- destruct (Hdone0 k') as [Hq _]; [split; [lia|apply Hlt; [lia|assumption|assumption]]|assumption|exact Hq].
      + apply (IH (k + 2) V' V0 d rr); try assumption; try lia.
        intros k' Hk' He'. destruct (Z.eq_dec k' k) as [->|Hne].
        * rewrite Hxk. split; [assumption|]. unfold found_at. rewrite Hxk. intros [F1 F2].
          apply andb_false_iff in Hfound. destruct Hfound as [F|F]; apply Z.eqb_neq in F; lia.
        * apply Hdone0; [|assumption]. split; [lia|]. apply Hlt; assumption.
  Qed.

  (* ---- one whole round ---- *)
  Lemma round_inv d V rr :
    0 <= d -> d <= OFF -> pre d V ->
    round A eqb Mz Nz geta getb sfuel d V = Ok rr ->
    match rr with
    | RFound V' => frame d V' V /\ exists kf, - d <= kf <= d /\ Z.even (kf + d) = true /\ found_at V' kf /\
                   round_ok d V' kf
    | RNext V' => frame d V' V /\ round_ok d V' d /\
                  (forall k, - d <= k <= d -> Z.even (k + d) = true -> ~ found_at V' k)
    end.
  Proof.
    intros Hd Hoff Hpre H. unfold round in H.
    apply (round_loop_inv _ _ V V d rr Hd Hoff) in H; try assumption; try lia; [|intros j _ _; reflexivity].
    destruct rr as [V'|V'].
      + destruct H as [Hfr [kf [Hkf [He [Hfound Hsp]]]]]. split; [assumption|].
        exists kf. split; [lia|]. split; [assumption|]. split; [assumption|].
        intros k Hk Hke. apply (kspec_frame d V' V); try assumption; try lia. apply Hsp; assumption.
      + destruct H as [Hfr Hsp]. split; [assumption|]. split.
        * intros k Hk Hke. apply (kspec_frame d V' V); try assumption. apply Hsp; assumption.
        * intros k Hk Hke. apply Hsp; assumption.
  Qed.

  Lemma round_ok_pre d V : 0 <= d -> round_ok d V d -> pre (d + 1) V.
  Proof.
    intros Hd H. split; [lia|].
    intros j Hj Ho. assert (He : Z.even (j + d) = true).
    { replace (j + (d + 1)) with (Z.succ (j + d)) in Ho by lia. rewrite Z.odd_succ in Ho. exact Ho. }
    destruct (H j ltac:(lia) He) as [H1 [H2 [[H3 _] _]]]. lia.
  Qed.

  (* ---- the recorded trace, most recent round first ---- *)
  Inductive trace_ok : list vmap -> Z -> Z -> Prop :=
  | tok0 V kmax : rd V 1 = 0 -> round_ok 0 V kmax -> trace_ok [V] 0 kmax
  | tokS V V' tr d kmax :
      1 <= d -> round_ok d V kmax ->
      (forall j, - d <= j <= d -> Z.odd (j + d) = true -> rd V j = rd V' j) ->
      trace_ok (V' :: tr) (d - 1) (d - 1) ->
      trace_ok (V :: V' :: tr) d kmax.

  Lemma trace_ok_head tr d kmax : trace_ok tr d kmax -> exists V tr', tr = V :: tr' /\ round_ok d V kmax /\ 0 <= d.
  Proof.
    intros H. inversion H; subst.
    - eexists _, _. split; [reflexivity|]. split; [assumption|lia].
    - eexists _, _. split; [reflexivity|]. split; [assumption|lia].
  Qed.

  Lemma trace_ok_length tr d kmax : trace_ok tr d kmax -> Z.of_nat (length tr) = d + 1.
  Proof.
    intros H. induction H as [V kmax H0 H1|V V' tr d kmax Hd Hr Hf Ht IH].
    - reflexivity.
    - change (length (V :: V' :: tr)) with (S (length (V' :: tr))). lia.
  Qed.

  Lemma ses_loop_inv : forall rounds d V tr res,
    0 <= d -> Z.of_nat rounds + d = OFF + 1 ->
    ((d = 0 /\ V = vempty /\ tr = []) \/ (1 <= d /\ exists tr', tr = V :: tr' /\ trace_ok tr (d - 1) (d - 1))) ->
    ses_loop A eqb Mz Nz geta getb sfuel rounds d V tr = Ok res ->
    exists D kf V', trace_ok res D kf /\ - D <= kf <= D /\ Z.even (kf + D) = true /\
                    hd_error res = Some V' /\ found_at V' kf /\ D <= OFF.
  Proof.
    induction rounds as [|r IH]; intros d V tr res Hd Hr Hinv H; simpl in H; [discriminate|].
    bind_inv H rr Hrr.
    assert (Hpre : pre d V).
    { destruct Hinv as [[-> [-> _]]|[Hd1 [tr' [-> Ht]]]].
      - split; [intros _; unfold rd; apply vraw_empty|]. intros j Hj. lia.
      - apply trace_ok_head in Ht. destruct Ht as [V1 [tr1 [E [Hro _]]]]. injection E as <- <-.
        replace d with (d - 1 + 1) by lia. apply round_ok_pre; [lia|assumption]. }
    apply round_inv in Hrr; try assumption; try lia.
    assert (Hnew : forall V' kmax, frame d V' V -> round_ok d V' kmax -> trace_ok (V' :: tr) d kmax).
    { intros V' kmax Hfr Hro. destruct Hinv as [[-> [-> ->]]|[Hd1 [tr' [-> Ht]]]].
      - apply tok0; [|assumption]. rewrite (Hfr 1); [unfold rd; apply vraw_empty|lia|reflexivity].
      - apply tokS; try assumption. intros j Hj Ho. apply Hfr; [lia|assumption]. }
    destruct rr as [V'|V'].
    - injection H as <-. destruct Hrr as [Hfr [kf [Hkf [He [Hfound Hro]]]]].
      exists d, kf, V'. split; [apply Hnew; assumption|]. split; [lia|]. split; [assumption|]. split; [reflexivity|]. split; [assumption|lia].
    - destruct Hrr as [Hfr [Hro _]]. apply (IH (d + 1) V' (V' :: tr) res); try lia; try assumption.
      right. split; [lia|]. exists tr. split; [reflexivity|].
      replace (d + 1 - 1) with d by lia. apply Hnew; assumption.
  Qed.

  Lemma ses_inv res :
    shortest_edit_sequence A eqb Mz Nz geta getb sfuel = Ok res ->
    exists D kf V', trace_ok res D kf /\ - D <= kf <= D /\ Z.even (kf + D) = true /\
                    hd_error res = Some V' /\ found_at V' kf /\ D <= OFF.
  Proof.
    unfold shortest_edit_sequence. intros H.
    apply ses_loop_inv in H; try assumption; try lia.
    - unfold off. lia.
    - left. auto.
  Qed.

  (* ---- B1: backtracking through a trace satisfying trace_ok ---- *)
  Lemma gstep_from_origin_x y : 0 <= y -> gstep (0, 0) (0, y).
  Proof.
    intros Hy. unfold gstep. repeat split; lia.
  Qed.

  Lemma gstep_from_origin_y x : 0 <= x -> gstep (0, 0) (x, 0).
  Proof.
    intros Hx. unfold gstep. repeat split; lia.
  Qed.

  Lemma gstep_origin_diag x : 0 <= x -> diag_ok 0 0 x -> gstep (0, 0) (x, x).
  Proof.
    intros Hx Hd. unfold gstep. replace (x - x - (0 - 0)) with 0 by lia.
    change (Z.max 0 0) with 0. change (Z.max (- 0) 0) with 0.
    split; [lia|]. split; [lia|]. split; [lia|].
    replace (0 + 0) with 0 by lia. replace (x - 0) with x by lia. exact Hd.
  Qed.

  Lemma kp_range V k d :
    1 <= d -> - d <= k <= d -> Z.even (k + d) = true ->
    - (d - 1) <= (if down_cond V k d then k + 1 else k - 1) <= d - 1 /\
    Z.odd ((if down_cond V k d then k + 1 else k - 1) + d) = true.
  Proof.
    intros Hd Hk He. unfold down_cond.
    assert (Ho1 := even_odd_m1 k d He). assert (Ho2 := even_odd_p1 k d He).
    assert (Hne : k <> d - 1) by (intros E3; rewrite E3 in He; replace (d - 1 + d) with (2 * d - 1) in He by lia; rewrite Z.even_sub, Z.even_mul in He; discriminate).
    assert (Hne' : k <> - d + 1) by (intros E3; rewrite E3 in He; replace (- d + 1 + d) with 1 in He by lia; discriminate).
    destruct (Z.eqb_spec k (- d)) as [E1|E1]; simpl.
    - split; [lia|assumption].
    - destruct (Z.eqb_spec k d) as [E2|E2]; simpl.
      + split; [lia|assumption].
      + destruct (rd V (k - 1) <? rd V (k + 1)); (split; [lia|assumption]).
  Qed.

  Lemma bt_chain : forall tr d kmax x y acc res V,
    trace_ok tr d kmax -> hd_error tr = Some V ->
    - d <= x - y <= kmax -> kmax <= d -> Z.even (x - y + d) = true -> x = rd V (x - y) ->
    chain (x, y) acc ->
    bt Mz Nz tr d x y acc = Ok res ->
    chain (0, 0) res /\ last res (0, 0) = last ((x, y) :: acc) (0, 0).
  Proof.
    induction tr as [|V0 tr IH]; intros d kmax x y acc res V Ht Hhd Hk Hkm He Hx Hc H.
    - inversion Ht.
    - simpl in Hhd. injection Hhd as ->.
      destruct (trace_ok_head _ _ _ Ht) as [V1 [tr1 [E [Hro Hd0]]]]. injection E as <- <-.
      destruct (Hro (x - y) Hk He) as [Hs1 [Hs2 [[Hs3 Hs4] _]]]. rewrite <- Hx in Hs3, Hs4.
      assert (Hxn : 0 <= x) by lia. assert (Hyn : 0 <= y) by lia.
      simpl in H.
      destruct ((0 <? x) && (0 <? y) && (0 <? d)) eqn:Hloop.
      + apply andb_true_iff in Hloop. destruct Hloop as [Hloop L3]. apply andb_true_iff in Hloop. destruct Hloop as [L1 L2].
        apply Z.ltb_lt in L1, L2, L3.
        inversion Ht as [|Va Vb trb da ka Hd1 Hroa Hfa Htb]; subst; [lia|].
        bind_inv H down Hdown. apply choose_down_ok in Hdown. subst down.
        bind_inv H x' Hx'. apply vget_ok in Hx'. destruct Hx' as [Ex' _].
        set (k := x - y) in *. set (kp := if down_cond V k d then k + 1 else k - 1) in *.
        assert (Hkp : - (d - 1) <= kp <= d - 1 /\ Z.odd (kp + d) = true /\ rd V kp = x').
        { assert (Hk2 : - d <= k <= d) by lia.
          destruct (kp_range V k d Hd1 Hk2 He) as [R1 R2].
          split; [exact R1|]. split; [exact R2|]. symmetry. exact Ex'. }
        destruct Hkp as [Hkp1 [Hkp2 Hkp3]].
        assert (Ex'' : x' = rd Vb kp) by (rewrite <- Hkp3; apply Hfa; [lia|assumption]).
        assert (Hep : Z.even (kp + (d - 1)) = true).
        { replace (kp + d) with (Z.succ (kp + (d - 1))) in Hkp2 by lia. rewrite Z.odd_succ in Hkp2. exact Hkp2. }
        destruct (trace_ok_head _ _ _ Htb) as [V2 [tr2 [E [Hrob _]]]]. injection E as <- <-.
        destruct (Hrob kp ltac:(lia) Hep) as [Hb1 [Hb2 [[Hb3 _] _]]]. rewrite <- Ex'' in Hb3.
        apply (IH (d - 1) (d - 1) x' (x' - kp) ((x, y) :: acc) res Vb) in H; try assumption; try reflexivity.
        * replace (x' - (x' - kp)) with kp by lia. lia.
        * replace (x' - (x' - kp)) with kp by lia. assumption.
        * replace (x' - (x' - kp)) with kp by lia. assumption.
        * simpl. split; [|assumption].
          (* the step from the predecessor to (x, y) is the one the forward pass took *)
          unfold gstep. replace (x - y - (x' - (x' - kp))) with (k - kp) by (unfold k; lia).
          unfold start_x in Hs1, Hs2, Hs3, Hs4. fold k in Hs1, Hs2, Hs3, Hs4.
          unfold kp in *. destruct (down_cond V k d).
          -- rewrite Hkp3 in *. replace (k - (k + 1)) with (-1) by lia.
             change (Z.max (-1) 0) with 0. change (Z.max (- -1) 0) with 1.
             split; [lia|]. split; [lia|]. split; [lia|].
             replace (x' + 0) with x' by lia. replace (x' - (k + 1) + 1) with (x' - k) by lia. assumption.
          -- rewrite Hkp3 in *. replace (k - (k - 1)) with 1 by lia.
             change (Z.max 1 0) with 1. change (Z.max (- 1) 0) with 0.
             split; [lia|]. split; [lia|]. split; [lia|].
             replace (x' - (k - 1) + Z.max (- (1)) 0) with (x' + 1 - k) by lia. assumption.
      + (* loop exit *)
        destruct ((x <? 0) || (y <? 0)) eqn:Hneg.
        { apply orb_true_iff in Hneg. destruct Hneg as [Hneg|Hneg]; apply Z.ltb_lt in Hneg; lia. }
        injection H as <-. split; [|reflexivity].
        simpl. split; [|assumption].
        apply andb_false_iff in Hloop. destruct Hloop as [Hloop|L3].
        * apply andb_false_iff in Hloop. destruct Hloop as [L1|L2].
          -- apply Z.ltb_ge in L1. replace x with 0 by lia. apply gstep_from_origin_x. assumption.
          -- apply Z.ltb_ge in L2. replace y with 0 by lia. apply gstep_from_origin_y. assumption.
        * apply Z.ltb_ge in L3. assert (d = 0) by lia. subst d.
          assert (Hk0 : x - y = 0) by lia.
          inversion Ht as [Va ka H1 Hr0|? ? ? ? ? Hbad]; subst; [|lia].
          unfold start_x, down_cond in Hs3, Hs4. rewrite Hk0 in Hs3, Hs4. simpl in Hs3, Hs4. rewrite H1 in Hs3, Hs4.
          replace y with x by lia. apply gstep_origin_diag; [lia|].
          replace (x - 0) with x in Hs4 by lia. exact Hs4.
  Qed.

  (* (b): the snakes handed to [operations] form a valid chain from (0,0) to (M,N) *)
  Theorem snakes_chain tr snakes :
    shortest_edit_sequence A eqb Mz Nz geta getb sfuel = Ok tr ->
    backtrack Mz Nz tr = Ok snakes ->
    chain (0, 0) snakes /\ last snakes (0, 0) = (Mz, Nz).
  Proof.
    intros Hs Hb. apply ses_inv in Hs. destruct Hs as [D [kf [V' [Ht [Hkf [He [Hhd [[Hf1 Hf2] HDoff]]]]]]]].
    unfold backtrack in Hb. rewrite (trace_ok_length _ _ _ Ht) in Hb.
    replace (D + 1 - 1) with D in Hb by lia.
    assert (Hk : Mz - Nz = kf) by lia.
    pose proof (bt_chain tr D kf Mz Nz [] snakes V' Ht Hhd) as L.
    rewrite Hk in L.
    assert (Hr : - D <= kf <= kf) by lia. assert (Hr2 : kf <= D) by lia.
    specialize (L Hr Hr2 He (eq_sym Hf1) I Hb). simpl in L. exact L.
  Qed.
End Trace.
