(* C01, seeded round 2: the lint run on a tree depends only on the SET of path arguments (their
   order and repetitions are irrelevant) -- from C02's discovery model and C01's InputFromPaths
   model --, and the witnesses against the two variants of Model/SchedVariants.v. *)
From Regal Require Import Model.SchedVariants Proofs.Discover Proofs.InputPaths.
From Coq Require Import List Bool.
Import ListNotations.

Section ArgSet.
  Variable skips : list str.
  Variable ext : str.

  Lemma walk_args_has_outside root args :
    (exists a, In a args /\ resolve root a = ROutside) -> walk_args skips ext root args = DOut.
  Proof.
    induction args as [|b args IH]; intros (a & Ha & Ra); [destruct Ha|].
    cbn. destruct Ha as [<-|Ha].
    - rewrite Ra. reflexivity.
    - rewrite (IH (ex_intro _ a (conj Ha Ra))). destruct (resolve root b); reflexivity.
  Qed.

  Lemma walk_args_has_missing root args :
    (forall a, In a args -> resolve root a <> ROutside) ->
    (exists a, In a args /\ resolve root a = RMissing) -> walk_args skips ext root args = DErr.
  Proof.
    induction args as [|b args IH]; intros Hno (a & Ha & Ra); [destruct Ha|].
    assert (Hno' : forall x, In x args -> resolve root x <> ROutside) by (intros x Hx; apply Hno; right; exact Hx).
    assert (Hrest : walk_args skips ext root args <> DOut).
    { intros E. clear IH Ha Ra Hno. induction args as [|c args IHa]; [discriminate|].
      cbn in E. destruct (resolve root c) eqn:Rc.
      - destruct (walk_args skips ext root args) eqn:W; try discriminate.
        apply IHa; [intros x Hx; apply Hno'; right; exact Hx | reflexivity].
      - destruct (walk_args skips ext root args) eqn:W; try discriminate.
        apply IHa; [intros x Hx; apply Hno'; right; exact Hx | reflexivity].
      - apply (Hno' c (or_introl eq_refl)). exact Rc. }
    cbn. destruct (resolve root b) eqn:Rb.
    - destruct Ha as [<-|Ha]; [rewrite Rb in Ra; discriminate|].
      rewrite (IH Hno' (ex_intro _ a (conj Ha Ra))). reflexivity.
    - destruct (walk_args skips ext root args); [reflexivity | reflexivity | contradiction Hrest; reflexivity].
    - exfalso. apply (Hno b (or_introl eq_refl)). exact Rb.
  Qed.

  Lemma walk_args_all_nodes root args :
    (forall a, In a args -> exists n, resolve root a = RNode n) ->
    exists fs, walk_args skips ext root args = DOk fs.
  Proof.
    induction args as [|b args IH]; intros Hall; [exists []; reflexivity|].
    destruct (Hall b (or_introl eq_refl)) as [n Rb].
    destruct (IH (fun a Ha => Hall a (or_intror Ha))) as [fs W].
    cbn. rewrite Rb, W. eexists; reflexivity.
  Qed.

  Lemma outside_dec root (args : list str) :
    (exists a, In a args /\ resolve root a = ROutside) \/ (forall a, In a args -> resolve root a <> ROutside).
  Proof.
    induction args as [|b args [(a & Ha & Ra)|IH]].
    - right. intros a [].
    - left. exists a. split; [right; exact Ha | exact Ra].
    - destruct (resolve root b) eqn:Rb.
      + right. intros a [<-|Ha]; [rewrite Rb; discriminate | apply IH; exact Ha].
      + right. intros a [<-|Ha]; [rewrite Rb; discriminate | apply IH; exact Ha].
      + left. exists b. split; [left; reflexivity | exact Rb].
  Qed.

  Lemma missing_dec root (args : list str) :
    (exists a, In a args /\ resolve root a = RMissing) \/ (forall a, In a args -> resolve root a <> RMissing).
  Proof.
    induction args as [|b args [(a & Ha & Ra)|IH]].
    - right. intros a [].
    - left. exists a. split; [right; exact Ha | exact Ra].
    - destruct (resolve root b) eqn:Rb.
      + right. intros a [<-|Ha]; [rewrite Rb; discriminate | apply IH; exact Ha].
      + left. exists b. split; [left; reflexivity | exact Rb].
      + right. intros a [<-|Ha]; [rewrite Rb; discriminate | apply IH; exact Ha].
  Qed.

  Variable excl : str -> str -> bool.
  Variable parses : str -> bool.
  Variable res : str -> bool -> result.
  Variable aggreport : amap -> dmap -> list viol.

  (* the whole run -- which files are found, FileNames, the report, or the error -- is a function of
     the SET of arguments *)
  Theorem lint_tree_argument_set root args1 args2 ignore :
    (forall a, In a args1 <-> In a args2) ->
    lint_tree skips ext excl parses res aggreport root args1 ignore
    = lint_tree skips ext excl parses res aggreport root args2 ignore.
  Proof.
    intros H. unfold lint_tree, discover.
    destruct (outside_dec root args1) as [(a & Ha & Ra)|Hno].
    - rewrite (walk_args_has_outside root args1 (ex_intro _ a (conj Ha Ra))).
      rewrite (walk_args_has_outside root args2 (ex_intro _ a (conj (proj1 (H a) Ha) Ra))). reflexivity.
    - assert (Hno2 : forall a, In a args2 -> resolve root a <> ROutside) by (intros a Ha; apply Hno, H; exact Ha).
      destruct (missing_dec root args1) as [(a & Ha & Ra)|Hnm].
      + rewrite (walk_args_has_missing root args1 Hno (ex_intro _ a (conj Ha Ra))).
        rewrite (walk_args_has_missing root args2 Hno2 (ex_intro _ a (conj (proj1 (H a) Ha) Ra))). reflexivity.
      + assert (Hn1 : forall a, In a args1 -> exists n, resolve root a = RNode n).
        { intros a Ha. destruct (resolve root a) eqn:R; [eauto | exfalso; exact (Hnm a Ha R) | exfalso; exact (Hno a Ha R)]. }
        assert (Hn2 : forall a, In a args2 -> exists n, resolve root a = RNode n) by (intros a Ha; apply Hn1, H; exact Ha).
        destruct (walk_args_all_nodes root args1 Hn1) as [fs1 W1].
        destruct (walk_args_all_nodes root args2 Hn2) as [fs2 W2].
        rewrite W1, W2.
        destruct (walk_args_ok skips ext root args1 fs1 W1) as [_ M1].
        destruct (walk_args_ok skips ext root args2 fs2 W2) as [_ M2].
        assert (E : input_from_paths (parse_fn parses) (filter_paths excl ignore fs1)
                    = input_from_paths (parse_fn parses) (filter_paths excl ignore fs2)).
        { apply input_paths_same_set. intros p. unfold filter_paths. rewrite !filter_In, M1, M2.
          split; intros [(a & n & Ha & Ra & Hr) Hx]; (split; [exists a, n; split; [apply H; exact Ha | split; assumption] | exact Hx]). }
        rewrite E. reflexivity.
  Qed.
End ArgSet.

(* ---- witnesses ---------------------------------------------------------------------------- *)
Definition s_authz : str := [97;117;116;104;122]%N.                              (* authz *)
Definition s_authz_extra : str := (s_authz ++ [45;101;120;116;114;97])%N.        (* authz-extra *)
Definition s_m_rego : str := [109;46;114;101;103;111]%N.                         (* m.rego *)
Definition s_e_rego : str := [101;46;114;101;103;111]%N.                         (* e.rego *)
Definition two_dirs : node :=
  Dir [(s_authz, Dir [(s_m_rego, File)]); (s_authz_extra, Dir [(s_e_rego, File)])].

(* the string-prefix skip: `lint authz authz-extra` finds one file, `lint authz-extra authz` both,
   where walkPaths as it is finds both in either order *)
Lemma walk_args_skip_order_dependent :
  exists root a b f fs1 fs2,
    walk_args_skip spec_skips spec_ext root [] [a; b] = DOk fs1
    /\ walk_args_skip spec_skips spec_ext root [] [b; a] = DOk fs2
    /\ In f fs2 /\ ~ In f fs1
    /\ (forall g, In g fs2 <-> exists fs, walk_args spec_skips spec_ext root [a; b] = DOk fs /\ In g fs).
Proof.
  exists two_dirs, s_authz, s_authz_extra, (s_authz_extra ++ [47] ++ s_e_rego)%N.
  eexists. eexists. split; [vm_compute; reflexivity|]. split; [vm_compute; reflexivity|].
  split; [left; reflexivity|]. split.
  - intros [E|[]]. discriminate E.
  - intros g. split.
    + intros Hg. eexists. split; [vm_compute; reflexivity|].
      destruct Hg as [<-|[<-|[]]]; [right; left; reflexivity | left; reflexivity].
    + intros (fs & W & Hg). vm_compute in W. injection W as <-.
      destruct Hg as [<-|[<-|[]]]; [right; left; reflexivity | left; reflexivity].
Qed.

(* the first non-empty notice set: two files, one of which comes back with a notice the other
   does not have (a capability-gated rule that ignores the other file); merged in one order the
   run skips one rule, in the other order none *)
Definition n_one : notice := {| n_key := [110]%N; n_sev := [119]%N |}.
Definition n_two : notice := {| n_key := [111]%N; n_sev := [119]%N |}.
Definition r_both : result := {| r_viol := []; r_notices := [n_one; n_two]; r_aggs := []; r_dirs := [] |}.
Definition r_one : result := {| r_viol := []; r_notices := [n_one]; r_aggs := []; r_dirs := [] |}.

Lemma merge_first_notices_order_dependent :
  exists r1 r2,
    f_skipped (finalize (fun _ _ => []) None [] 2%nat (fold_left merge_first_notices [r1; r2] empty_report)) = 2%nat
    /\ f_skipped (finalize (fun _ _ => []) None [] 2%nat (fold_left merge_first_notices [r2; r1] empty_report)) = 1%nat
    /\ f_skipped (lint_seq (fun _ _ => []) None [] [r1; r2]) = 2%nat
    /\ f_skipped (lint_seq (fun _ _ => []) None [] [r2; r1]) = 2%nat.
Proof. exists r_both, r_one. repeat split; vm_compute; reflexivity. Qed.
