(* C15 — regenerated obligations about internal/lsp/lint.go (cache writes after the linter call) and the rate limiter
   of the dispatcher, discharged by vm_compute against Gen/LspShape.v. *)
From Coq Require Import List NArith Bool Arith Lia.
From Regal Require Import Base.Str Base.StrLit Model.Lsp Model.LspLintShape Gen.LspShape.
Import ListNotations.
Local Open Scope nat_scope.

Lemma lint_writes_match_lemma :
  lint_found = true /\
  lint_cache_writes = lint_cache_writes_modelled /\
  forallb lint_write_ok lint_cache_writes = true /\
  file_diagnostics_write_protected lint_cache_writes = true.
Proof. vm_compute. repeat split. Qed.

(* the source's limiter, on the model's types *)
Definition source_limiter (aggonly overwrite : bool) (qlen : nat) : bool :=
  limiter_drop_gen aggonly overwrite (N.of_nat qlen).

Definition limiter_agrees (x : bool * bool * nat) : bool :=
  match x with (a, o, n) => Bool.eqb (source_limiter a o n) (limiter_model a o n) end.

Lemma limiter_table_lemma :
  limiter_found = true /\ limiter_translatable = true /\ limiter_capacity = 10%N /\
  forallb limiter_agrees (limiter_domain 10) = true.
Proof. vm_compute. repeat split. Qed.

Lemma limiter_pointwise a o n : n <= 10 -> source_limiter a o n = limiter_model a o n.
Proof.
  intros Hn. destruct limiter_table_lemma as (_ & _ & _ & H).
  rewrite forallb_forall in H.
  assert (Hin : In (a, o, n) (limiter_domain 10)).
  { unfold limiter_domain. apply in_flat_map. exists n. split.
    - apply in_seq. lia.
    - destruct a, o; simpl; auto. }
  specialize (H _ Hin). unfold limiter_agrees in H. apply Bool.eqb_prop in H. exact H.
Qed.

(* only aggregate-report-only jobs are ever dropped, and only when something is queued behind which they can hide *)
Lemma limiter_only_drops_aggonly_lemma a o n :
  n <= 10 -> source_limiter a o n = true -> a = true /\ n > 5.
Proof.
  intros Hn H. rewrite limiter_pointwise in H by exact Hn. unfold limiter_model in H.
  apply andb_true_iff in H. destruct H as [Ha Hl]. apply Nat.ltb_lt in Hl. split; [exact Ha|lia].
Qed.

(* the dispatcher of the model IS the dispatcher with the limiter read from the source, on every state whose run
   queue respects the capacity of the channel *)
Lemma dispatch_is_source_limiter_lemma s :
  length (qr s) <= 10 -> dispatch s = dispatch_with source_limiter s.
Proof.
  intros Hn. unfold dispatch, dispatch_with. destruct (qw s) as [|j q]; [reflexivity|].
  rewrite (limiter_pointwise _ _ _ Hn). reflexivity.
Qed.
