(* C12, rename mode with the real candidate function: Model/FixLoop.v [rename_loop] instantiated with
   renameCandidate as modelled for C13 (Model/Rename.v rename_candidate; its candidates for a clean
   absolute file name never repeat: Proofs/Candidate.v cand_iter_distinct).  The variant that derives
   every candidate from the target the fix asked for never ends once the first alternative is taken
   too, and the directory-package-mismatch variants of the seeds are refuted by witnesses. *)
From Regal Require Import Base.StrLit Model.Rename Proofs.Candidate.
From Regal Require Import Model.FixLoop Proofs.FixLoop Model.DpmAgree Proofs.DpmAgree.
From Coq Require Import Lia String.

Local Open Scope nat_scope.

(* FixLoop's and C13's candidate sequences are the same function *)
Lemma cand_iter_same k : forall to, FixLoop.cand_iter rename_candidate k to = Rename.cand_iter k to.
Proof. induction k as [|k IH]; intros to; [reflexivity|]. simpl. apply IH. Qed.

Theorem rename_mode_terminates files to ds nb fuel :
  clean_file to ds nb ->
  List.length files < fuel ->
  exists k, k <= List.length files
    /\ rename_loop rename_candidate fuel files to = Some (k, Rename.cand_iter k to)
    /\ fs_get files (Rename.cand_iter k to) = None
    /\ (forall j, j < k -> fs_get files (Rename.cand_iter j to) <> None)
    /\ dir (Rename.cand_iter k to) = cpath ds.
Proof.
  intros Hcf Hfuel.
  destruct (rename_loop_terminates rename_candidate files to fuel) as (k & Hk & Hr & Hfree & Hocc); [|exact Hfuel|].
  { intros i j Hij. rewrite !cand_iter_same. eapply cand_iter_distinct; eassumption. }
  exists k. rewrite cand_iter_same in Hr, Hfree.
  split; [exact Hk|]. split; [exact Hr|]. split; [exact Hfree|]. split.
  - intros j Hj. rewrite <- cand_iter_same. apply Hocc. exact Hj.
  - eapply cand_iter_dir. exact Hcf.
Qed.

(* ---- the variant of seed C12-3 ---- *)
Definition ex_target : str := lit "/ws/foo/p.rego".
Definition ex_files : fs :=
  [(lit "/ws/foo/p.rego", lit "package foo"); (lit "/ws/foo/p_1.rego", lit "package foo");
   (lit "/ws/a/p.rego", lit "package foo")].

Lemma from_target_stuck fuel :
  rename_loop_from_target rename_candidate fuel ex_files ex_target (rename_candidate ex_target) = None.
Proof.
  induction fuel as [|f IH]; [reflexivity|].
  cbn [rename_loop_from_target].
  replace (fs_get ex_files (rename_candidate ex_target)) with (Some (lit "package foo")) by (vm_compute; reflexivity).
  rewrite IH. reflexivity.
Qed.

Theorem rename_from_target_refuted :
  exists files to ds nb,
    clean_file to ds nb
    /\ (forall fuel, rename_loop_from_target rename_candidate fuel files to to = None)
    /\ rename_loop rename_candidate 4 files to = Some (2, lit "/ws/foo/p_2.rego").
Proof.
  exists ex_files, ex_target, [lit "ws"; lit "foo"], (lit "p.rego").
  split; [|split].
  - split; [reflexivity|]. split; repeat constructor; try discriminate; vm_compute; intuition discriminate.
  - intros [|f]; [reflexivity|]. cbn [rename_loop_from_target].
    replace (fs_get ex_files ex_target) with (Some (lit "package foo")) by (vm_compute; reflexivity).
    rewrite from_target_stuck. reflexivity.
  - vm_compute. reflexivity.
Qed.

(* with a single conflict the two agree: why the variant passes every test with one collision *)
Theorem rename_from_target_partial files to fuel :
  fs_get files (rename_candidate to) = None ->
  rename_loop_from_target rename_candidate (S (S fuel)) files to to = rename_loop rename_candidate (S (S fuel)) files to.
Proof.
  intros Hfree. cbn [rename_loop_from_target rename_loop]. rewrite Hfree. reflexivity.
Qed.

(* ---- directory-package-mismatch: the variant of seed C12-4 and the rule before 4b6422e ---- *)
Theorem dpm_trim_every_refuted :
  exists pkg d root,
    fix_dirs_every true pkg = Some d /\ rule_reports true pkg (root ++ d) = true
    /\ fix_answer_with trim_every true pkg root (root ++ d) = FixInPlace.
Proof.
  exists [lit "authz_test"; lit "helpers"], [lit "authz"; lit "helpers"], [[]; lit "ws"].
  repeat split; vm_compute; reflexivity.
Qed.

Theorem dpm_rule_pinned_refuted :
  exists pkg root dirs,
    fix_answer_of true pkg root dirs = FixInPlace /\ rule_reports_pinned true pkg dirs = true
    /\ forall dirs', rule_reports_pinned true pkg dirs' = false -> In [] dirs'.
Proof.
  exists [lit "p"; lit "_test"], [[]; lit "ws"], [[]; lit "ws"; lit "p"].
  split; [vm_compute; reflexivity|]. split; [vm_compute; reflexivity|].
  intros dirs' H. unfold rule_reports_pinned, rule_reports_with in H.
  change (rule_pkg_values_pinned true [lit "p"; lit "_test"]) with (Some [lit "p"; @nil N]) in H.
  apply Bool.negb_false_iff in H. apply strs_eqb_spec in H.
  assert (Hin : In (@nil N) (last_n 2 dirs')).
  { change 2 with (List.length [lit "p"; @nil N]). unfold str in *. rewrite H. right. left. reflexivity. }
  unfold last_n in Hin. rewrite <- (firstn_skipn (List.length dirs' - 2) dirs'). apply in_or_app. right. exact Hin.
Qed.
