(* Edit paths on the unbounded grid ([reach d x y]: (x,y) is reached from (0,0) by an initial run
   of equal lines followed by exactly d snakes), the facts Myers' argument needs about them, and
   T2: a path that overshoots (M,N) diagonally can be cut short. *)
From Regal Require Export Proofs.DiffOps.
From Coq Require Import Lia.
Open Scope Z_scope.

Section Reach.
  Variable A : Type.
  Variable eqb : A -> A -> bool.
  Variables a b : list A.

  Notation Mz := (Z.of_nat (length a)).
  Notation Nz := (Z.of_nat (length b)).
  Notation eq_at := (eq_at A eqb a b).
  Notation diag_ok := (diag_ok A eqb a b).
  Notation slides := (slides A eqb a b).
  Notation slide_stops := (slide_stops A eqb a b).

  Inductive reach : Z -> Z -> Z -> Prop :=
  | reach0 x : 0 <= x -> diag_ok 0 0 x -> reach 0 x x
  | reachR d x y d' x' y' :
      reach d x y -> d' = d + 1 -> slides (x + 1) y x' -> y' = y + (x' - (x + 1)) -> reach d' x' y'
  | reachD d x y d' x' y' :
      reach d x y -> d' = d + 1 -> slides x (y + 1) x' -> y' = y + 1 + (x' - x) -> reach d' x' y'.

  Lemma slides_refl x y : slides x y x.
  Proof. split; [lia|]. apply diag_ok_nil. lia. Qed.

  Lemma reach_facts d x y :
    reach d x y -> 0 <= d /\ - d <= x - y <= d /\ (exists m, x - y + d = 2 * m) /\ 0 <= x /\ 0 <= y.
  Proof.
    induction 1 as [x Hx Hd|d x y d' x' y' Hr IH -> [Hle Hd] ->|d x y d' x' y' Hr IH -> [Hle Hd] ->].
    - repeat split; try lia. exists 0. lia.
    - destruct IH as [H0 [H1 [[m Hm] [H2 H3]]]]. repeat split; try lia. exists (m + 1). lia.
    - destruct IH as [H0 [H1 [[m Hm] [H2 H3]]]]. repeat split; try lia. exists m. lia.
  Qed.

  Lemma reach_zero x y : reach 0 x y -> y = x /\ 0 <= x /\ diag_ok 0 0 x.
  Proof.
    intros H. inversion H as [x1 Hx1 Hd1 E1 E2 E3|d0 px py d' x' y' Hp Ed Hps Ey E1 E2 E3|d0 px py d' x' y' Hp Ed Hps Ey E1 E2 E3]; subst.
    - auto.
    - pose proof (reach_facts _ _ _ Hp) as [H0 _]. lia.
    - pose proof (reach_facts _ _ _ Hp) as [H0 _]. lia.
  Qed.

  Lemma reach_succ d x y :
    reach d x y -> 1 <= d ->
    (exists px py, reach (d - 1) px py /\ slides (px + 1) py x /\ y = py + (x - (px + 1))) \/
    (exists px py, reach (d - 1) px py /\ slides px (py + 1) x /\ y = py + 1 + (x - px)).
  Proof.
    intros H Hd. inversion H as [x1 Hx1 Hd1 E1 E2 E3|d0 px py d' x' y' Hp Ed Hps Ey E1 E2 E3|d0 px py d' x' y' Hp Ed Hps Ey E1 E2 E3].
    - lia.
    - left. exists px, py. replace (d - 1) with d0 by lia. auto.
    - right. exists px, py. replace (d - 1) with d0 by lia. auto.
  Qed.

  (* no equal lines at or beyond the borders *)
  Lemma slides_no_match s t x : slides s t x -> Mz <= s \/ Nz <= t -> x = s.
  Proof.
    intros [Hle Hd] Hout. destruct (Z.eq_dec x s) as [|Hne]; [assumption|].
    assert (H0 : eq_at (s + 0) (t + 0)) by (apply Hd; lia).
    apply eq_at_range in H0. lia.
  Qed.

  Lemma slides_inside s t x : slides s t x -> s <= Mz -> t <= Nz -> x <= Mz /\ t + (x - s) <= Nz.
  Proof.
    intros [Hle Hd] Hs Ht. destruct (Z.eq_dec x s) as [->|Hne]; [lia|].
    assert (H0 : eq_at (s + (x - s - 1)) (t + (x - s - 1))) by (apply Hd; lia).
    apply eq_at_range in H0. lia.
  Qed.

  (* sliding from a start that is at least as far gets at least as far *)
  Lemma slides_max s x0 k xs x :
    slides s (s - k) xs -> s <= x0 -> slides x0 (x0 - k) x -> slide_stops x (x - k) -> xs <= x.
  Proof.
    intros [Hle1 Hd1] Hs [Hle2 Hd2] Hst.
    destruct (Z.le_gt_cases xs x) as [|Hgt]; [assumption|]. exfalso.
    assert (H0 : eq_at (s + (x - s)) (s - k + (x - s))) by (apply Hd1; lia).
    replace (s + (x - s)) with x in H0 by lia. replace (s - k + (x - s)) with (x - k) in H0 by lia.
    apply Hst. pose proof (eq_at_range _ _ _ _ _ _ H0). split; [lia|]. split; [lia|]. exact H0.
  Qed.

  Lemma reach_right_n n : 0 <= n -> forall d x y, reach d x y -> reach (d + n) (x + n) y.
  Proof.
    intros Hn. pattern n. apply natlike_ind; [| |assumption]; clear n Hn.
    - intros d x y H. rewrite !Z.add_0_r. assumption.
    - intros n Hn IH d x y H. apply (reachR (d + n) (x + n) y); [apply IH; assumption|lia| |].
      + replace (x + Z.succ n) with (x + n + 1) by lia. apply slides_refl.
      + lia.
  Qed.

  Lemma reach_down_n n : 0 <= n -> forall d x y, reach d x y -> reach (d + n) x (y + n).
  Proof.
    intros Hn. pattern n. apply natlike_ind; [| |assumption]; clear n Hn.
    - intros d x y H. rewrite !Z.add_0_r. assumption.
    - intros n Hn IH d x y H. apply (reachD (d + n) x (y + n) _ x); [apply IH; assumption|lia| |].
      + apply slides_refl.
      + lia.
  Qed.

  (* deleting everything and then inserting everything is a path *)
  Lemma reach_MN : reach (Mz + Nz) Mz Nz.
  Proof.
    assert (H0 : reach 0 0 0) by (apply reach0; [lia|apply diag_ok_nil; lia]).
    apply (reach_right_n Mz ltac:(lia)) in H0. apply (reach_down_n Nz ltac:(lia)) in H0.
    replace (0 + Mz + Nz) with (Mz + Nz) in H0 by lia. replace (0 + Mz) with Mz in H0 by lia.
    replace (0 + Nz) with Nz in H0 by lia. exact H0.
  Qed.

  (* where a path is with respect to the rectangle [0,M] x [0,N]: inside, or it left through the
     right border at (M, y0) / through the bottom border at (x0, N) and has only made unit steps since *)
  Definition outside_right d x y : Prop :=
    Mz < x /\ exists d0 y0, reach d0 Mz y0 /\ y0 <= Nz /\ y0 <= y /\ d = d0 + (x - Mz) + (y - y0).
  Definition outside_bottom d x y : Prop :=
    Nz < y /\ exists d0 x0, reach d0 x0 Nz /\ x0 <= Mz /\ x0 <= x /\ d = d0 + (x - x0) + (y - Nz).

  Lemma reach_outside d x y :
    reach d x y -> (x <= Mz /\ y <= Nz) \/ outside_right d x y \/ outside_bottom d x y.
  Proof.
    induction 1 as [x Hx Hd|d x y d' x' y' Hr IH -> Hs ->|d x y d' x' y' Hr IH -> Hs ->].
    - left. assert (Hs : slides 0 0 x) by (split; [lia|replace (x - 0) with x by lia; assumption]).
      destruct (slides_inside 0 0 x Hs) as [H1 H2]; lia.
    - (* a step to the right *)
      destruct IH as [[Hx Hy]|[[Hx [d0 [y0 [H0 [Hy0 [Hy Hd]]]]]]|[Hy [d0 [x0 [H0 [Hx0 [Hx Hd]]]]]]]].
      + destruct (Z.eq_dec x Mz) as [->|Hne].
        * assert (x' = Mz + 1) by (apply (slides_no_match _ y); [assumption|lia]). subst x'.
          right. left. split; [lia|]. exists d, y. repeat split; try lia. assumption.
        * left. destruct (slides_inside _ _ _ Hs) as [H1 H2]; lia.
      + assert (x' = x + 1) by (apply (slides_no_match _ y); [assumption|lia]). subst x'.
        right. left. split; [lia|]. exists d0, y0. repeat split; try lia. assumption.
      + assert (x' = x + 1) by (apply (slides_no_match _ y); [assumption|lia]). subst x'.
        right. right. split; [lia|]. exists d0, x0. repeat split; try lia. assumption.
    - (* a step down *)
      destruct IH as [[Hx Hy]|[[Hx [d0 [y0 [H0 [Hy0 [Hy Hd]]]]]]|[Hy [d0 [x0 [H0 [Hx0 [Hx Hd]]]]]]]].
      + destruct (Z.eq_dec y Nz) as [->|Hne].
        * assert (x' = x) by (apply (slides_no_match _ (Nz + 1)); [assumption|lia]). subst x'.
          right. right. split; [lia|]. exists d, x. repeat split; try lia. assumption.
        * left. destruct (slides_inside _ _ _ Hs) as [H1 H2]; lia.
      + assert (x' = x) by (apply (slides_no_match _ (y + 1)); [assumption|lia]). subst x'.
        right. left. split; [lia|]. exists d0, y0. repeat split; try lia. assumption.
      + assert (x' = x) by (apply (slides_no_match _ (y + 1)); [assumption|lia]). subst x'.
        right. right. split; [lia|]. exists d0, x0. repeat split; try lia. assumption.
  Qed.

  (* T2: overshooting (M,N) along its diagonal costs at least two more snakes than reaching it *)
  Lemma reach_overshoot d j :
    1 <= j -> reach d (Mz + j) (Nz + j) -> exists d', 0 <= d' < d /\ reach d' Mz Nz.
  Proof.
    intros Hj H. destruct (reach_outside _ _ _ H) as [[Hx _]|[[_ [d0 [y0 [H0 [Hy0 [Hy Hd]]]]]]|[_ [d0 [x0 [H0 [Hx0 [Hx Hd]]]]]]]]; [lia| |].
    - exists (d0 + (Nz - y0)). pose proof (reach_facts _ _ _ H0) as [Hd0 _]. split; [lia|].
      apply (reach_down_n (Nz - y0) ltac:(lia)) in H0. replace (y0 + (Nz - y0)) with Nz in H0 by lia. exact H0.
    - exists (d0 + (Mz - x0)). pose proof (reach_facts _ _ _ H0) as [Hd0 _]. split; [lia|].
      apply (reach_right_n (Mz - x0) ltac:(lia)) in H0. replace (x0 + (Mz - x0)) with Mz in H0 by lia. exact H0.
  Qed.
End Reach.
