(* Lemmas and proofs about Model/Fixes.v (C11) and the text measures used by C12. *)
From Regal Require Import Model.Fixes.
From Coq Require Import Lia ZifyBool ZifyNat ZifyN.

Local Open Scope nat_scope.

(* ------------------------------------------------------------------ characters *)

Lemma rune_width_bounds s : s <> [] -> 1 <= rune_width s <= length s.
Proof.
  destruct s as [|b0 t]; [congruence|intros _].
  unfold rune_width.
  destruct (b0 <? 194)%N; [simpl; lia|].
  destruct (b0 <? 224)%N.
  { destruct t as [|b1 t]; [simpl; lia|]. destruct (is_cont b1); simpl; lia. }
  destruct (b0 <? 240)%N.
  { destruct t as [|b1 [|b2 t]]; try (simpl; lia).
    match goal with |- context [if ?c then 3 else 1] => destruct c end; simpl; lia. }
  destruct (b0 <? 245)%N.
  { destruct t as [|b1 [|b2 [|b3 t]]]; try (simpl; lia).
    match goal with |- context [if ?c then 4 else 1] => destruct c end; simpl; lia. }
  simpl; lia.
Qed.

Lemma concat_runes_fuel fuel : forall s, length s <= fuel -> concat (runes_fuel fuel s) = s.
Proof.
  induction fuel as [|f IH]; intros s Hlen.
  - destruct s; [reflexivity | simpl in Hlen; lia].
  - destruct s as [|b t]; [reflexivity|].
    cbn [runes_fuel].
    set (s := b :: t) in *.
    assert (Hs : s <> []) by (subst s; discriminate).
    pose proof (rune_width_bounds s Hs) as Hw.
    cbn [concat]. rewrite IH.
    + apply firstn_skipn.
    + rewrite skipn_length. lia.
Qed.

Lemma concat_runes s : concat (runes s) = s.
Proof. apply concat_runes_fuel. lia. Qed.

Lemma runes_fuel_nonempty fuel : forall s r, In r (runes_fuel fuel s) -> r <> [].
Proof.
  induction fuel as [|f IH]; intros s r Hin; [destruct Hin|].
  destruct s as [|b t]; [destruct Hin|].
  cbn [runes_fuel] in Hin. destruct Hin as [<-|Hin].
  - pose proof (rune_width_bounds (b :: t) ltac:(discriminate)) as Hw.
    destruct (rune_width (b :: t)) as [|w]; [lia|]. simpl. discriminate.
  - eapply IH; eassumption.
Qed.

Lemma runes_nonempty s r : In r (runes s) -> r <> [].
Proof. apply runes_fuel_nonempty. Qed.

(* ------------------------------------------------------------------ byteIndexOfColumn *)

Lemma boc_spec line col i :
  byte_index_of_column line col = Some i ->
  exists pre r post,
    runes line = pre ++ r :: post /\ Z.of_nat (length pre) = (col - 1)%Z /\
    i = length (concat pre) /\ line = concat pre ++ r ++ concat post /\ r <> [].
Proof.
  unfold byte_index_of_column.
  destruct ((col <? 1)%Z || (Z.of_nat (length (runes line)) <? col)%Z) eqn:Hg; [discriminate|].
  intros [= <-].
  apply orb_false_iff in Hg. destruct Hg as [Hc1 Hc2].
  set (k := Z.to_nat (col - 1)).
  assert (Hk : k < length (runes line)) by lia.
  destruct (nth_error (runes line) k) as [r|] eqn:Hn; [|apply nth_error_None in Hn; lia].
  apply nth_error_split in Hn. destruct Hn as (pre & post & Hrs & Hlen).
  exists pre, r, post. repeat split.
  - exact Hrs.
  - lia.
  - rewrite Hrs. rewrite <- Hlen. rewrite firstn_app, Nat.sub_diag, firstn_all. simpl.
    rewrite app_nil_r. reflexivity.
  - rewrite <- (concat_runes line) at 1. rewrite Hrs, concat_app. reflexivity.
  - apply (runes_nonempty line). rewrite Hrs. apply in_or_app. right. left. reflexivity.
Qed.

Lemma boc_lt line col i : byte_index_of_column line col = Some i -> i < length line.
Proof.
  intros H. apply boc_spec in H. destruct H as (pre & r & post & _ & _ & -> & Hl & Hr).
  rewrite Hl. rewrite !app_length. destruct r; [congruence|simpl; lia].
Qed.

(* ------------------------------------------------------------------ line table *)

Lemma join_cons_ne sep w ws : ws <> [] -> join sep (w :: ws) = w ++ sep ++ join sep ws.
Proof. destruct ws; [congruence | reflexivity]. Qed.

Lemma set_nth_length {A} (l : list A) n x : length (set_nth l n x) = length l.
Proof. revert n; induction l as [|h t IH]; intros [|n]; simpl; auto. Qed.

Lemma set_nth_ne {A} (l : list A) n x : l <> [] -> set_nth l n x <> [].
Proof. destruct l; [congruence|]. destruct n; simpl; discriminate. Qed.

Lemma count_byte_app c a b : count_byte c (a ++ b) = count_byte c a + count_byte c b.
Proof. unfold count_byte. rewrite filter_app, app_length. reflexivity. Qed.

Lemma count_byte_notin c a : ~ In c a -> count_byte c a = 0.
Proof.
  unfold count_byte. induction a as [|x a IH]; intros Hn; [reflexivity|].
  simpl. destruct (N.eqb_spec c x) as [->|Hne].
  - exfalso. apply Hn. left. reflexivity.
  - apply IH. intros Hin. apply Hn. right. exact Hin.
Qed.

(* the content around one line of the table: [a] and [b] do not depend on the line *)
Lemma join_set_nth (ls : list str) : forall n l,
  nth_error ls n = Some l ->
  exists a b,
    join [NL] ls = a ++ l ++ b /\
    (forall x, join [NL] (set_nth ls n x) = a ++ x ++ b) /\
    (a = [] \/ exists a', a = a' ++ [NL]) /\
    (b = [] \/ exists b', b = NL :: b') /\
    ((forall w, In w ls -> ~ In NL w) -> count_byte NL a = n).
Proof.
  induction ls as [|l0 ls IH]; intros n l Hn; [destruct n; discriminate|].
  destruct n as [|k].
  - injection Hn as <-. exists [].
    destruct ls as [|l1 ls'].
    + exists []. split; [simpl; rewrite app_nil_r; reflexivity|].
      split; [intros x; simpl; rewrite app_nil_r; reflexivity|].
      split; [left; reflexivity|]. split; [left; reflexivity|]. intros _. reflexivity.
    + exists (NL :: join [NL] (l1 :: ls')).
      split; [reflexivity|]. split; [intros x; reflexivity|].
      split; [left; reflexivity|]. split; [right; eexists; reflexivity|]. intros _. reflexivity.
  - simpl in Hn.
    assert (Hne : ls <> []) by (intros ->; destruct k; discriminate).
    destruct (IH k l Hn) as (a & b & Hj & Hset & Ha & Hb & Hc).
    exists (l0 ++ [NL] ++ a), b. repeat split.
    + rewrite join_cons_ne by exact Hne. rewrite Hj. rewrite <- !app_assoc. reflexivity.
    + intros x. cbn [set_nth]. rewrite join_cons_ne by (apply set_nth_ne; exact Hne).
      rewrite Hset. rewrite <- !app_assoc. reflexivity.
    + right. destruct Ha as [->|[a' ->]].
      * exists l0. rewrite app_nil_r. reflexivity.
      * exists (l0 ++ [NL] ++ a'). rewrite <- !app_assoc. reflexivity.
    + exact Hb.
    + intros Hno. rewrite !count_byte_app.
      rewrite (count_byte_notin NL l0) by (apply Hno; left; reflexivity).
      rewrite Hc by (intros w Hw; apply Hno; right; exact Hw).
      reflexivity.
Qed.

Lemma get_line_some ls row line :
  get_line ls row = Some line ->
  (1 <= row)%Z /\ nth_error ls (Z.to_nat (row - 1)) = Some line.
Proof.
  unfold get_line. destruct (row <? 1)%Z eqn:H; [discriminate|]. intros Hn. split; [lia|exact Hn].
Qed.

Lemma lines_of_no_nl content w : In w (lines_of content) -> ~ In NL w.
Proof. apply split_on_no_sep. Qed.

Lemma unlines_lines content : unlines (lines_of content) = content.
Proof. apply join_split. Qed.

(* one location: what the loop of the fixer passes *)
Lemma run_fix_single step content l :
  run_fix step content [l] =
  match step (lines_of content) l with
  | Some ls' => Changed (unlines ls')
  | None => Unchanged
  end.
Proof. unfold run_fix. simpl. destruct (step (lines_of content) l); reflexivity. Qed.

Lemma run_fix_nil step content : run_fix step content [] = Unchanged.
Proof. reflexivity. Qed.

(* ------------------------------------------------------------------ list helpers *)

Lemma nth_error_decomp {A} (l : list A) i c :
  nth_error l i = Some c -> l = firstn i l ++ c :: skipn (S i) l /\ length (firstn i l) = i.
Proof.
  revert i; induction l as [|h t IH]; intros [|i] H; try discriminate.
  - injection H as ->. split; reflexivity.
  - simpl in H. destruct (IH i H) as [E L]. split.
    + simpl. f_equal. exact E.
    + simpl. f_equal. exact L.
Qed.

Lemma nth_error_mid {A} (pre : list A) c post : nth_error (pre ++ c :: post) (length pre) = Some c.
Proof. rewrite nth_error_app2 by lia. rewrite Nat.sub_diag. reflexivity. Qed.

Lemma skipn_mid {A} (pre : list A) c post : skipn (S (length pre)) (pre ++ c :: post) = post.
Proof.
  induction pre as [|h t IH]; [reflexivity|]. simpl. exact IH.
Qed.

Lemma firstn_mid {A} (pre : list A) rest : firstn (length pre) (pre ++ rest) = pre.
Proof. rewrite firstn_app, Nat.sub_diag, firstn_all. simpl. apply app_nil_r. Qed.

Lemma skipn_pre {A} (pre : list A) rest : skipn (length pre) (pre ++ rest) = rest.
Proof. induction pre as [|h t IH]; [reflexivity|]. simpl. exact IH. Qed.

Lemma in_app_mid {A} (x : A) pre c post : In x pre \/ In x post -> In x (pre ++ c :: post).
Proof. intros [H|H]; apply in_or_app; [left|right; right]; exact H. Qed.

(* ------------------------------------------------------------------ use-assignment-operator *)

Definition last_or (p : N) (a : str) : N := match rev a with q :: _ => q | [] => p end.

Lemma last_or_cons p c a : last_or p (c :: a) = last_or c a.
Proof.
  unfold last_or. simpl. destruct (rev a) as [|q r] eqn:E; reflexivity.
Qed.

Lemma last_or_snoc p a q : last_or p (a ++ [q]) = q.
Proof. unfold last_or. rewrite rev_app_distr. reflexivity. Qed.

Lemma last_or_app_ne p a b : b <> [] -> last_or p (a ++ b) = last_or p b.
Proof.
  intros Hb. unfold last_or. rewrite rev_app_distr.
  destruct (rev b) as [|q r] eqn:E; [|reflexivity].
  apply (f_equal (@rev N)) in E. rewrite rev_involutive in E. simpl in E. congruence.
Qed.

Definition head_is (c : N) (s : str) : bool := match s with d :: _ => (d =? c)%N | [] => false end.

(* loneness of the '=' between [pre] and [post], spelled without indices *)
Lemma lone_eq_mid pre post :
  lone_eq (pre ++ EQ :: post) (length pre) =
  negb (match rev pre with q :: _ => bad_prev q | [] => false end) && negb (head_is EQ post).
Proof.
  unfold lone_eq. rewrite nth_error_mid. rewrite N.eqb_refl. cbn [andb].
  f_equal; [f_equal|].
  - destruct pre as [|h t] using rev_ind; [reflexivity|].
    rewrite app_length. simpl. rewrite Nat.add_1_r.
    rewrite rev_app_distr. simpl.
    rewrite <- app_assoc. simpl. rewrite nth_error_mid. reflexivity.
  - replace (S (length pre)) with (length (pre ++ [EQ])) by (rewrite app_length; simpl; lia).
    replace (pre ++ EQ :: post) with ((pre ++ [EQ]) ++ post) by (rewrite <- app_assoc; reflexivity).
    destruct post as [|d post]; simpl.
    + rewrite (proj2 (nth_error_None _ _)); [reflexivity|rewrite app_nil_r; lia].
    + rewrite nth_error_mid. reflexivity.
Qed.

Lemma uao_line_spec line col line' :
  uao_line line col = Some line' ->
  exists pre post,
    line = pre ++ EQ :: post /\ line' = pre ++ COLON :: EQ :: post /\
    byte_index_of_column line col = Some (length pre) /\
    lone_eq line (length pre) = true.
Proof.
  unfold uao_line.
  destruct (byte_index_of_column line col) as [idx|] eqn:Hb; [|discriminate].
  destruct (lone_eq line idx) eqn:Hl; [|discriminate].
  intros [= <-].
  assert (Hn : nth_error line idx = Some EQ).
  { unfold lone_eq in Hl. destruct (nth_error line idx) as [c0|]; [|discriminate].
    destruct (N.eqb_spec c0 EQ) as [E0|E0]; [rewrite E0; reflexivity|discriminate]. }
  destruct (nth_error_decomp line idx EQ Hn) as [E L].
  exists (firstn idx line), (skipn (S idx) line).
  rewrite L. repeat split; auto.
  f_equal. f_equal.
  rewrite E at 1. rewrite <- L at 1. rewrite skipn_pre. reflexivity.
Qed.

Theorem uao_effect content l c' :
  uao_fix content [l] = Changed c' ->
  exists a pre post b,
    content = a ++ pre ++ EQ :: post ++ b /\
    c' = a ++ pre ++ COLON :: EQ :: post ++ b /\
    (1 <= l_row l)%Z /\ count_byte NL a = Z.to_nat (l_row l - 1) /\
    (a = [] \/ exists a', a = a' ++ [NL]) /\ (b = [] \/ exists b', b = NL :: b') /\
    ~ In NL pre /\ ~ In NL post /\
    byte_index_of_column (pre ++ EQ :: post) (l_col l) = Some (length pre) /\
    lone_eq (pre ++ EQ :: post) (length pre) = true.
Proof.
  unfold uao_fix. rewrite run_fix_single. unfold uao_step.
  destruct (get_line (lines_of content) (l_row l)) as [line|] eqn:Hg; [|discriminate].
  destruct (uao_line line (l_col l)) as [line'|] eqn:Hu; [|discriminate].
  intros [= <-].
  apply get_line_some in Hg. destruct Hg as [Hrow Hn].
  destruct (uao_line_spec _ _ _ Hu) as (pre & post & -> & -> & Hb & Hl).
  destruct (join_set_nth _ _ _ Hn) as (a & b & Hj & Hset & Ha & Hbb & Hc).
  pose proof (nth_error_In _ _ Hn) as Hin. apply lines_of_no_nl in Hin.
  exists a, pre, post, b.
  unfold unlines, set_line. rewrite Hset.
  fold (unlines (lines_of content)) in Hj. rewrite unlines_lines in Hj.
  repeat split; auto.
  - rewrite Hj. rewrite <- !app_assoc. reflexivity.
  - rewrite <- !app_assoc. reflexivity.
  - apply Hc. apply lines_of_no_nl.
  - intros H. apply Hin. apply in_app_mid. left. exact H.
  - intros H. apply Hin. apply in_app_mid. right. exact H.
Qed.

(* nothing is returned exactly when the guard fails *)
Theorem uao_unchanged_iff content l :
  uao_fix content [l] = Unchanged <->
  (forall line idx, get_line (lines_of content) (l_row l) = Some line ->
                    byte_index_of_column line (l_col l) = Some idx -> lone_eq line idx = false).
Proof.
  unfold uao_fix. rewrite run_fix_single. unfold uao_step, uao_line.
  destruct (get_line (lines_of content) (l_row l)) as [line|] eqn:Hg.
  2:{ split; [intros _ ? ? H; discriminate|intros _; reflexivity]. }
  destruct (byte_index_of_column line (l_col l)) as [idx|] eqn:Hb.
  2:{ split; [|intros _; reflexivity]. intros _ ? ? [= <-] H. congruence. }
  destruct (lone_eq line idx) eqn:Hl.
  - split; [discriminate|]. intros H. specialize (H line idx eq_refl Hb). congruence.
  - split; [|intros _; reflexivity]. intros _ ? ? [= <-] H. congruence.
Qed.

(* ------------------------------------------------------------------ the common lifting *)

Definition line_step (fline : str -> Z -> option str) (ls : list str) (l : loc) : option (list str) :=
  match get_line ls (l_row l) with
  | Some line => match fline line (l_col l) with
                 | Some line' => Some (set_line ls (l_row l) line')
                 | None => None
                 end
  | None => None
  end.

Lemma uao_step_shape : uao_step = line_step uao_line. Proof. reflexivity. Qed.
Lemma nwc_step_shape : nwc_step = line_step nwc_line. Proof. reflexivity. Qed.
Lemma nrr_step_shape : nrr_step = line_step nrr_line. Proof. reflexivity. Qed.

(* a fix of one location rewrites exactly one line of the content, in place *)
Lemma line_fix_lift fline content l c' :
  run_fix (line_step fline) content [l] = Changed c' ->
  exists a line line' b,
    content = a ++ line ++ b /\ c' = a ++ line' ++ b /\
    fline line (l_col l) = Some line' /\
    (1 <= l_row l)%Z /\ count_byte NL a = Z.to_nat (l_row l - 1) /\
    (a = [] \/ exists a', a = a' ++ [NL]) /\ (b = [] \/ exists b', b = NL :: b') /\
    ~ In NL line.
Proof.
  rewrite run_fix_single. unfold line_step.
  destruct (get_line (lines_of content) (l_row l)) as [line|] eqn:Hg; [|discriminate].
  destruct (fline line (l_col l)) as [line'|] eqn:Hu; [|discriminate].
  intros [= <-].
  apply get_line_some in Hg. destruct Hg as [Hrow Hn].
  destruct (join_set_nth _ _ _ Hn) as (a & b & Hj & Hset & Ha & Hbb & Hc).
  pose proof (nth_error_In _ _ Hn) as Hin. apply lines_of_no_nl in Hin.
  exists a, line, line', b.
  unfold unlines, set_line. rewrite Hset.
  fold (unlines (lines_of content)) in Hj. rewrite unlines_lines in Hj.
  repeat split; auto.
  apply Hc. apply lines_of_no_nl.
Qed.

Lemma line_fix_unchanged_iff fline content l :
  run_fix (line_step fline) content [l] = Unchanged <->
  (forall line, get_line (lines_of content) (l_row l) = Some line -> fline line (l_col l) = None).
Proof.
  rewrite run_fix_single. unfold line_step.
  destruct (get_line (lines_of content) (l_row l)) as [line|] eqn:Hg.
  2:{ split; [intros _ ? H; discriminate|intros _; reflexivity]. }
  destruct (fline line (l_col l)) as [line'|] eqn:Hu.
  - split; [discriminate|]. intros H. specialize (H line eq_refl). congruence.
  - split; [|intros _; reflexivity]. intros _ ? [= <-]. exact Hu.
Qed.

(* ------------------------------------------------------------------ no-whitespace-comment *)

Lemma firstn_S_mid {A} (pre : list A) c post : firstn (S (length pre)) (pre ++ c :: post) = pre ++ [c].
Proof. induction pre as [|h t IH]; [reflexivity|]. simpl. f_equal. exact IH. Qed.

Lemma splice_after {A} (l pre post : list A) c x :
  l = pre ++ c :: post ->
  firstn (S (length pre)) l ++ x :: skipn (S (length pre)) l = pre ++ c :: x :: post.
Proof. intros ->. rewrite firstn_S_mid, skipn_mid, <- app_assoc. reflexivity. Qed.

Lemma nwc_line_spec line col line' :
  nwc_line line col = Some line' ->
  exists pre post,
    line = pre ++ HASH :: post /\ line' = pre ++ HASH :: SP :: post /\
    byte_index_of_column line col = Some (length pre).
Proof.
  unfold nwc_line.
  destruct (byte_index_of_column line col) as [idx|] eqn:Hb; [|discriminate].
  destruct (nth_error line idx) as [c0|] eqn:Hn; [|discriminate].
  destruct (N.eqb_spec c0 HASH) as [E0|E0]; [|discriminate]. subst c0.
  intros [= <-].
  destruct (nth_error_decomp line idx HASH Hn) as [E L].
  remember (firstn idx line) as pre eqn:Hpre.
  remember (skipn (S idx) line) as post eqn:Hpost.
  exists pre, post. subst idx.
  split; [exact E|]. split; [|reflexivity].
  exact (splice_after line pre post HASH SP E).
Qed.

Theorem nwc_effect content l c' :
  nwc_fix content [l] = Changed c' ->
  exists a pre post b,
    content = a ++ pre ++ HASH :: post ++ b /\
    c' = a ++ pre ++ HASH :: SP :: post ++ b /\
    (1 <= l_row l)%Z /\ count_byte NL a = Z.to_nat (l_row l - 1) /\
    (a = [] \/ exists a', a = a' ++ [NL]) /\ (b = [] \/ exists b', b = NL :: b') /\
    ~ In NL pre /\ ~ In NL post /\
    byte_index_of_column (pre ++ HASH :: post) (l_col l) = Some (length pre).
Proof.
  unfold nwc_fix. rewrite nwc_step_shape. intros H.
  destruct (line_fix_lift _ _ _ _ H) as (a & line & line' & b & Hc & Hc' & Hf & Hr & Hcnt & Ha & Hb & Hnl).
  destruct (nwc_line_spec _ _ _ Hf) as (pre & post & -> & -> & Hidx).
  exists a, pre, post, b. repeat split; auto.
  - rewrite Hc. rewrite <- !app_assoc. reflexivity.
  - rewrite Hc'. rewrite <- !app_assoc. reflexivity.
  - intros Hin. apply Hnl. apply in_app_mid. left. exact Hin.
  - intros Hin. apply Hnl. apply in_app_mid. right. exact Hin.
Qed.

Theorem nwc_unchanged_iff content l :
  nwc_fix content [l] = Unchanged <->
  (forall line idx, get_line (lines_of content) (l_row l) = Some line ->
                    byte_index_of_column line (l_col l) = Some idx -> nth_error line idx <> Some HASH).
Proof.
  unfold nwc_fix. rewrite nwc_step_shape, line_fix_unchanged_iff. unfold nwc_line.
  split.
  - intros H line idx Hg Hb Hn. specialize (H line Hg). rewrite Hb, Hn in H.
    rewrite N.eqb_refl in H. discriminate.
  - intros H line Hg. destruct (byte_index_of_column line (l_col l)) as [idx|] eqn:Hb; [|reflexivity].
    specialize (H line idx Hg Hb). destruct (nth_error line idx) as [c0|]; [|reflexivity].
    destruct (N.eqb_spec c0 HASH) as [->|]; [congruence|reflexivity].
Qed.

(* ------------------------------------------------------------------ non-raw-regex-pattern *)

Lemma str_ind2 (P : str -> Prop) :
  P [] -> (forall c, P [c]) -> (forall c d t, P t -> P (d :: t) -> P (c :: d :: t)) -> forall s, P s.
Proof.
  intros H0 H1 H2 s.
  enough (H : P s /\ forall c, P (c :: s)) by apply H.
  induction s as [|d t [IHa IHb]]; [split; [exact H0 | exact H1]|].
  split; [apply IHb|]. intros c. apply H2; [exact IHa | apply IHb].
Qed.

Lemma scan_body_cons c t :
  scan_body (c :: t) =
  if (c =? DQ)%N then Some O else if (c =? BT)%N then None
  else if (c =? BSL)%N then
    match t with
    | c2 :: t2 => if (c2 =? BSL)%N then option_map (fun n => S (S n)) (scan_body t2) else None
    | [] => None
    end
  else option_map S (scan_body t).
Proof. reflexivity. Qed.

Lemma unesc_pairs_cons c t :
  unesc_pairs (c :: t) =
  if (c =? DQ)%N then None else if (c =? BT)%N then None
  else if (c =? BSL)%N then
    match t with
    | c2 :: t2 => if (c2 =? BSL)%N then option_map (cons BSL) (unesc_pairs t2) else None
    | [] => None
    end
  else option_map (cons c) (unesc_pairs t).
Proof. reflexivity. Qed.

Lemma scan_body_spec s : forall n,
  scan_body s = Some n ->
  exists body post body',
    s = body ++ DQ :: post /\ length body = n /\ unesc_pairs body = Some body'.
Proof.
  induction s as [|c|c d t IHt IHdt] using str_ind2; intros n H.
  - discriminate.
  - simpl in H. destruct (N.eqb_spec c DQ) as [->|Hq].
    + injection H as <-. exists [], [], []. repeat split.
    + destruct (c =? BT)%N; [discriminate|]. destruct (c =? BSL)%N; discriminate.
  - rewrite scan_body_cons in H. destruct (N.eqb_spec c DQ) as [->|Hq].
    + injection H as <-. exists [], (d :: t), []. repeat split.
    + destruct (N.eqb_spec c BT) as [->|Hb]; [discriminate|].
      destruct (N.eqb_spec c BSL) as [->|Hs].
      * destruct (N.eqb_spec d BSL) as [->|Hd]; [|discriminate].
        destruct (scan_body t) as [m|] eqn:Hm; [|discriminate]. simpl in H. injection H as <-.
        destruct (IHt m eq_refl) as (body & post & body' & -> & <- & Hu).
        exists (BSL :: BSL :: body), post, (BSL :: body'). repeat split.
        rewrite unesc_pairs_cons. change (BSL =? DQ)%N with false. change (BSL =? BT)%N with false.
        rewrite !N.eqb_refl. rewrite Hu. reflexivity.
      * destruct (scan_body (d :: t)) as [m|] eqn:Hm; [|discriminate]. injection H as <-.
        destruct (IHdt m eq_refl) as (body & post & body' & E & <- & Hu).
        exists (c :: body), post, (c :: body'). rewrite E. repeat split.
        rewrite unesc_pairs_cons.
        destruct (N.eqb_spec c DQ); [contradiction|]. destruct (N.eqb_spec c BT); [contradiction|].
        destruct (N.eqb_spec c BSL); [contradiction|]. rewrite Hu. reflexivity.
Qed.

(* strings.ReplaceAll(body, `\\`, `\`) is the structural decoding on the bodies the fix accepts *)
Lemma replace_all_unesc f : forall s body',
  length s < f -> unesc_pairs s = Some body' -> replace_all_fuel f s [BSL; BSL] [BSL] = body'.
Proof.
  induction f as [|f IH]; intros s body' Hlen Hu; [lia|].
  destruct s as [|c t]; [injection Hu as <-; reflexivity|].
  rewrite unesc_pairs_cons in Hu.
  destruct (N.eqb_spec c DQ) as [|Hq]; [discriminate|].
  destruct (N.eqb_spec c BT) as [|Hb]; [discriminate|].
  destruct (N.eqb_spec c BSL) as [->|Hs].
  - destruct t as [|d t2]; [discriminate|].
    destruct (N.eqb_spec d BSL) as [->|Hd]; [|discriminate].
    destruct (unesc_pairs t2) as [r|] eqn:Hr; [|discriminate]. injection Hu as <-.
    cbn [replace_all_fuel drop_prefix]. rewrite N.eqb_refl. cbn [app].
    f_equal. apply IH; [simpl in Hlen; lia | exact Hr].
  - destruct (unesc_pairs t) as [r|] eqn:Hr; [|discriminate]. injection Hu as <-.
    cbn [replace_all_fuel drop_prefix].
    destruct (N.eqb_spec c BSL); [contradiction|].
    f_equal. apply IH; [simpl in Hlen; lia | exact Hr].
Qed.

Lemma replace_all_unesc' s body' :
  unesc_pairs s = Some body' -> replace_all s [BSL; BSL] [BSL] = body'.
Proof. intros H. unfold replace_all. apply replace_all_unesc; [lia | exact H]. Qed.

(* the accepted bodies denote, as interpreted strings, exactly their structural decoding,
   and the decoding contains neither a quote nor a backtick: the raw literal is well formed
   and denotes the same value *)
Lemma interp_value_cons c t :
  interp_value (c :: t) =
  if (c =? DQ)%N then None
  else if (c =? BSL)%N then
    match t with
    | e :: t2 =>
        let k x := option_map (cons x) (interp_value t2) in
        if (e =? BSL)%N then k BSL else if (e =? DQ)%N then k DQ else if (e =? 47)%N then k 47%N
        else if (e =? 98)%N then k 8%N else if (e =? 102)%N then k 12%N else if (e =? 110)%N then k NL
        else if (e =? 114)%N then k CR else if (e =? 116)%N then k TAB else None
    | [] => None
    end
  else option_map (cons c) (interp_value t).
Proof. reflexivity. Qed.

Lemma unesc_interp s : forall body', unesc_pairs s = Some body' -> interp_value s = Some body'.
Proof.
  induction s as [|c|c d t IHt IHdt] using str_ind2; intros body' Hu.
  - exact Hu.
  - cbn [unesc_pairs] in Hu. cbn [interp_value].
    destruct (N.eqb_spec c DQ); [discriminate|]. destruct (N.eqb_spec c BT); [discriminate|].
    destruct (N.eqb_spec c BSL); [discriminate|]. exact Hu.
  - rewrite unesc_pairs_cons in Hu. rewrite interp_value_cons.
    destruct (N.eqb_spec c DQ); [discriminate|]. destruct (N.eqb_spec c BT); [discriminate|].
    destruct (N.eqb_spec c BSL) as [->|Hs].
    + destruct (N.eqb_spec d BSL) as [->|]; [|discriminate].
      destruct (unesc_pairs t) as [r|] eqn:Hr; [|discriminate]. injection Hu as <-.
      rewrite (IHt r eq_refl). reflexivity.
    + destruct (unesc_pairs (d :: t)) as [r|] eqn:Hr; [|discriminate]. injection Hu as <-.
      rewrite (IHdt r eq_refl). reflexivity.
Qed.

Lemma unesc_clean s : forall body', unesc_pairs s = Some body' ->
  ~ In DQ body' /\ ~ In BT body' /\ (~ In NL s -> ~ In NL body').
Proof.
  induction s as [|c|c d t IHt IHdt] using str_ind2; intros body' Hu.
  - injection Hu as <-. repeat split; intros H; try (intros []); destruct H.
  - cbn [unesc_pairs] in Hu.
    destruct (N.eqb_spec c DQ) as [|Hq]; [discriminate|]. destruct (N.eqb_spec c BT) as [|Hb]; [discriminate|].
    destruct (N.eqb_spec c BSL); [discriminate|]. injection Hu as <-.
    repeat split; try (intros [H|[]]; congruence).
    intros Hn [H|[]]. apply Hn. left. exact H.
  - rewrite unesc_pairs_cons in Hu.
    destruct (N.eqb_spec c DQ) as [|Hq]; [discriminate|]. destruct (N.eqb_spec c BT) as [|Hb]; [discriminate|].
    destruct (N.eqb_spec c BSL) as [->|Hs].
    + destruct (N.eqb_spec d BSL) as [->|]; [|discriminate].
      destruct (unesc_pairs t) as [r|] eqn:Hr; [|discriminate]. injection Hu as <-.
      destruct (IHt r eq_refl) as (H1 & H2 & H3).
      repeat split.
      * intros [H|H]; [discriminate H | exact (H1 H)].
      * intros [H|H]; [discriminate H | exact (H2 H)].
      * intros Hn [H|H]; [discriminate H|]. apply H3; [|exact H]. intros Hin. apply Hn. right. right. exact Hin.
    + destruct (unesc_pairs (d :: t)) as [r|] eqn:Hr; [|discriminate]. injection Hu as <-.
      destruct (IHdt r eq_refl) as (H1 & H2 & H3).
      repeat split.
      * intros [H|H]; [congruence | exact (H1 H)].
      * intros [H|H]; [congruence | exact (H2 H)].
      * intros Hn [H|H]; [apply Hn; left; exact H|]. apply H3; [|exact H]. intros Hin. apply Hn. right. exact Hin.
Qed.

Lemma nrr_line_spec line col line' :
  nrr_line line col = Some line' ->
  exists pre body post body',
    line = pre ++ DQ :: body ++ DQ :: post /\ line' = pre ++ BT :: body' ++ BT :: post /\
    unesc_pairs body = Some body' /\
    byte_index_of_column line col = Some (length pre).
Proof.
  unfold nrr_line.
  destruct (byte_index_of_column line col) as [start|] eqn:Hb; [|discriminate].
  destruct (skipn start line) as [|c rest] eqn:Hs; [discriminate|].
  destruct (N.eqb_spec c DQ) as [->|]; [|discriminate].
  destruct (scan_body rest) as [n|] eqn:Hn; [|discriminate].
  intros [= <-].
  destruct (scan_body_spec _ _ Hn) as (body & post & body' & -> & <- & Hu).
  pose proof (boc_lt _ _ _ Hb) as Hlt.
  assert (E : line = firstn start line ++ DQ :: body ++ DQ :: post).
  { rewrite <- (firstn_skipn start line) at 1. rewrite Hs. reflexivity. }
  assert (L : length (firstn start line) = start) by (rewrite firstn_length; lia).
  exists (firstn start line), body, post, body'.
  rewrite L. repeat split; auto.
  pose proof (firstn_mid body (DQ :: post)) as F1.
  pose proof (skipn_mid body DQ post) as F2.
  change (skipn (S (length body)) (body ++ DQ :: post)) with
    (match body ++ DQ :: post with [] => [] | _ :: l0 => skipn (length body) l0 end) in F2.
  rewrite F1. rewrite (replace_all_unesc' _ _ Hu). f_equal. f_equal. f_equal. f_equal. exact F2.
Qed.

Theorem nrr_effect content l c' :
  nrr_fix content [l] = Changed c' ->
  exists a pre body post b body',
    content = a ++ pre ++ DQ :: body ++ DQ :: post ++ b /\
    c' = a ++ pre ++ BT :: body' ++ BT :: post ++ b /\
    unesc_pairs body = Some body' /\
    (1 <= l_row l)%Z /\ count_byte NL a = Z.to_nat (l_row l - 1) /\
    (a = [] \/ exists a', a = a' ++ [NL]) /\ (b = [] \/ exists b', b = NL :: b') /\
    ~ In NL pre /\ ~ In NL body /\ ~ In NL post /\
    byte_index_of_column (pre ++ DQ :: body ++ DQ :: post) (l_col l) = Some (length pre).
Proof.
  unfold nrr_fix. rewrite nrr_step_shape. intros H.
  destruct (line_fix_lift _ _ _ _ H) as (a & line & line' & b & Hc & Hc' & Hf & Hr & Hcnt & Ha & Hb & Hnl).
  destruct (nrr_line_spec _ _ _ Hf) as (pre & body & post & body' & -> & -> & Hu & Hidx).
  exists a, pre, body, post, b, body'. repeat split; auto.
  - rewrite Hc. repeat (rewrite <- app_assoc; simpl). reflexivity.
  - rewrite Hc'. repeat (rewrite <- app_assoc; simpl). reflexivity.
  - intros Hin. apply Hnl. apply in_app_mid. left. exact Hin.
  - intros Hin. apply Hnl. apply in_app_mid. right. apply in_app_mid. left. exact Hin.
  - intros Hin. apply Hnl. apply in_app_mid. right. apply in_app_mid. right. exact Hin.
Qed.

(* the raw string written by the fix denotes the value of the interpreted string it replaces *)
Theorem nrr_value_preserved content l c' :
  nrr_fix content [l] = Changed c' ->
  exists a body b body',
    content = a ++ DQ :: body ++ DQ :: b /\ c' = a ++ BT :: body' ++ BT :: b /\
    interp_value body = Some body' /\ ~ In BT body' /\ ~ In DQ body' /\ ~ In NL body'.
Proof.
  intros H. destruct (nrr_effect _ _ _ H) as (a & pre & body & post & b & body' & Hc & Hc' & Hu & _ & _ & _ & _ & _ & Hnb & _ & _).
  exists (a ++ pre), body, (post ++ b), body'.
  destruct (unesc_clean _ _ Hu) as (H1 & H2 & H3).
  repeat split; auto.
  - rewrite Hc. repeat (rewrite <- app_assoc; simpl). reflexivity.
  - rewrite Hc'. repeat (rewrite <- app_assoc; simpl). reflexivity.
  - apply unesc_interp. exact Hu.
Qed.

(* ------------------------------------------------------------------ the rule-side column *)

Lemma drop_while_split {A} (p : A -> bool) (l : list A) :
  exists t, l = t ++ drop_while p l /\ forallb p t = true.
Proof.
  induction l as [|x l IH]; [exists []; split; reflexivity|].
  simpl. destruct (p x) eqn:Hp.
  - destruct IH as (t & E & F). exists (x :: t). split; [simpl; f_equal; exact E|].
    simpl. rewrite Hp. exact F.
  - exists []. split; reflexivity.
Qed.

Lemma forallb_rev {A} (p : A -> bool) l : forallb p (rev l) = forallb p l.
Proof.
  induction l as [|x l IH]; [reflexivity|]. simpl. rewrite forallb_app, IH. simpl.
  rewrite andb_true_r. apply andb_comm.
Qed.

Lemma trim_right_blank_split rs :
  exists ws, rs = trim_right_blank rs ++ ws /\ forallb rune_blank ws = true.
Proof.
  unfold trim_right_blank.
  destruct (drop_while_split rune_blank (rev rs)) as (t & E & F).
  exists (rev t). split.
  - rewrite <- (rev_involutive rs) at 1. rewrite E at 1. rewrite rev_app_distr. reflexivity.
  - rewrite forallb_rev. exact F.
Qed.

Lemma concat_blank_runes ws : forallb rune_blank ws = true -> forallb is_blank (concat ws) = true.
Proof.
  induction ws as [|w ws IH]; [reflexivity|]. simpl. intros H.
  apply andb_true_iff in H. destruct H as [Hw Hws].
  rewrite forallb_app. rewrite (IH Hws), andb_true_r.
  destruct w as [|x [|y w]]; try discriminate. simpl in *. rewrite Hw. reflexivity.
Qed.

Lemma rune_is_eq c r : rune_is c r = true -> r = [c].
Proof.
  destruct r as [|x [|y r]]; try discriminate. simpl. intros H.
  apply N.eqb_eq in H. congruence.
Qed.

Lemma lex_from_app st a b : lex_from st (a ++ b) = lex_from (lex_from st a) b.
Proof. apply fold_left_app. Qed.

Lemma lex_blank_stable st ws :
  st <> LStrEsc -> forallb is_blank ws = true -> lex_from st ws = st.
Proof.
  intros Hst. induction ws as [|b ws IH]; [reflexivity|]. simpl. intros H.
  apply andb_true_iff in H. destruct H as [Hb Hws].
  assert (E : lex_step st b = st).
  { unfold is_blank in Hb. apply orb_true_iff in Hb.
    destruct Hb as [Hb|Hb]; apply N.eqb_eq in Hb; subst b; destruct st; try reflexivity; congruence. }
  rewrite E. apply IH. exact Hws.
Qed.

(* a '=' followed by blanks only, after which the lexer is in code, was itself read in code:
   it is not inside a string, a raw string or a comment *)
Lemma lex_code_before_eq st pre ws :
  forallb is_blank ws = true ->
  lex_from st (pre ++ EQ :: ws) = LCode -> lex_from st pre = LCode.
Proof.
  intros Hws. rewrite lex_from_app. simpl.
  destruct (lex_from st pre) eqn:E; [reflexivity| | | |];
    intros H; cbn in H; rewrite lex_blank_stable in H by (try discriminate; exact Hws); discriminate.
Qed.

Theorem uao_targets_operator line vcol col :
  operator_col line vcol = Some col ->
  exists pre ws rest,
    line = pre ++ EQ :: ws ++ rest /\
    forallb is_blank ws = true /\
    rest = concat (skipn (Z.to_nat (vcol - 1)) (runes line)) /\
    byte_index_of_column line col = Some (length pre) /\
    (forall st, lex_from st (pre ++ EQ :: ws) = LCode -> lex_from st pre = LCode).
Proof.
  unfold operator_col.
  destruct (vcol <? 1)%Z eqn:Hv; [discriminate|].
  set (k := Z.to_nat (vcol - 1)).
  set (F := firstn k (runes line)).
  destruct (trim_right_blank_split F) as (ws & EF & Hws).
  destruct (rev (trim_right_blank F)) as [|e r] eqn:Hrev; [discriminate|].
  destruct (rune_is EQ e) eqn:He; [|discriminate].
  match goal with |- context [negb ?c] => destruct c eqn:Hcolon end; [discriminate|].
  cbn [andb negb]. intros [= <-].
  apply rune_is_eq in He. subst e.
  assert (Eb : trim_right_blank F = rev r ++ [[EQ]]).
  { rewrite <- (rev_involutive (trim_right_blank F)). rewrite Hrev. reflexivity. }
  assert (Ers : runes line = rev r ++ [EQ] :: ws ++ skipn k (runes line)).
  { rewrite <- (firstn_skipn k (runes line)) at 1. fold F. rewrite EF, Eb.
    rewrite <- !app_assoc. reflexivity. }
  exists (concat (rev r)), (concat ws), (concat (skipn k (runes line))).
  split.
  { rewrite <- (concat_runes line) at 1. rewrite Ers at 1. rewrite concat_app. simpl.
    rewrite concat_app. reflexivity. }
  split; [apply concat_blank_runes; exact Hws|].
  split; [reflexivity|].
  split.
  - unfold byte_index_of_column. rewrite Eb, app_length, rev_length. simpl.
    rewrite Ers at 1. rewrite !app_length. simpl. rewrite rev_length.
    match goal with |- (if ?c then _ else _) = _ => replace c with false by lia end.
    f_equal. f_equal. f_equal.
    replace (Z.to_nat (Z.of_nat (length r + 1) - 1)) with (length (rev r)) by (rewrite rev_length; lia).
    rewrite Ers. apply firstn_mid.
  - intros st. apply lex_code_before_eq. apply concat_blank_runes. exact Hws.
Qed.

(* when the fix applies at the column the rule reports, it rewrites that very '=' *)
Corollary uao_fix_hits_operator line vcol col line' :
  operator_col line vcol = Some col -> uao_line line col = Some line' ->
  exists pre ws rest,
    line = pre ++ EQ :: ws ++ rest /\ line' = pre ++ COLON :: EQ :: ws ++ rest /\
    forallb is_blank ws = true /\ rest = concat (skipn (Z.to_nat (vcol - 1)) (runes line)).
Proof.
  intros Ho Hu.
  destruct (uao_targets_operator _ _ _ Ho) as (pre & ws & rest & E & Hws & Hrest & Hidx & _).
  destruct (uao_line_spec _ _ _ Hu) as (pre' & post' & E' & -> & Hidx' & _).
  rewrite Hidx in Hidx'. injection Hidx' as Hlen.
  assert (Hpre : pre' = pre).
  { apply (f_equal (firstn (length pre))) in E. rewrite firstn_mid in E.
    rewrite E' in E. rewrite Hlen in E. rewrite firstn_mid in E. exact E. }
  subst pre'. rewrite E in E'. apply app_inv_head in E'. injection E' as <-.
  exists pre, ws, rest. repeat split; auto.
Qed.

(* ------------------------------------------------------------------ locations of one lint pass *)

Lemma nth_error_set_nth_other {A} (l : list A) : forall n m x,
  n <> m -> nth_error (set_nth l n x) m = nth_error l m.
Proof.
  induction l as [|h t IH]; intros [|n] [|m] x Hne; simpl; try reflexivity; try congruence.
  apply IH. congruence.
Qed.

Lemma nth_error_set_nth_same {A} (l : list A) : forall n x y,
  nth_error l n = Some y -> nth_error (set_nth l n x) n = Some x.
Proof.
  induction l as [|h t IH]; intros [|n] x y H; simpl in *; try discriminate; [reflexivity|].
  eapply IH. exact H.
Qed.

Lemma set_nth_comm {A} (l : list A) : forall n m x y,
  n <> m -> set_nth (set_nth l n x) m y = set_nth (set_nth l m y) n x.
Proof.
  induction l as [|h t IH]; intros [|n] [|m] x y Hne; simpl; try reflexivity; try congruence.
  f_equal. apply IH. congruence.
Qed.

Lemma get_line_set_line_other ls r x r' :
  (1 <= r)%Z -> r <> r' -> get_line (set_line ls r x) r' = get_line ls r'.
Proof.
  intros Hr Hne. unfold get_line, set_line.
  destruct (r' <? 1)%Z eqn:H; [reflexivity|].
  apply nth_error_set_nth_other. lia.
Qed.

(* Fixes of one pass applied to different rows do not disturb each other: the second one still
   sees the line, and so the columns, that were linted; the order does not matter. *)
Theorem stale_columns_safe f1 f2 ls l1 l2 ls1 :
  l_row l1 <> l_row l2 ->
  line_step f1 ls l1 = Some ls1 ->
  get_line ls1 (l_row l2) = get_line ls (l_row l2) /\
  (forall ls2, line_step f2 ls1 l2 = Some ls2 ->
     exists ls2', line_step f2 ls l2 = Some ls2' /\ line_step f1 ls2' l1 = Some ls2).
Proof.
  intros Hne H1. unfold line_step in H1.
  destruct (get_line ls (l_row l1)) as [line1|] eqn:Hg1; [|discriminate].
  destruct (f1 line1 (l_col l1)) as [line1'|] eqn:Hf1; [|discriminate].
  injection H1 as <-.
  pose proof (get_line_some _ _ _ Hg1) as [Hr1 _].
  assert (Hsame : get_line (set_line ls (l_row l1) line1') (l_row l2) = get_line ls (l_row l2))
    by (apply get_line_set_line_other; assumption).
  split; [exact Hsame|].
  intros ls2 H2. unfold line_step in H2. rewrite Hsame in H2.
  destruct (get_line ls (l_row l2)) as [line2|] eqn:Hg2; [|discriminate].
  destruct (f2 line2 (l_col l2)) as [line2'|] eqn:Hf2; [|discriminate].
  injection H2 as <-.
  pose proof (get_line_some _ _ _ Hg2) as [Hr2 _].
  exists (set_line ls (l_row l2) line2'). split.
  - unfold line_step. rewrite Hg2, Hf2. reflexivity.
  - unfold line_step. rewrite get_line_set_line_other by (try assumption; congruence).
    rewrite Hg1, Hf1. f_equal. unfold set_line. apply set_nth_comm. lia.
Qed.

(* ------------------------------------------------------------------ progress measures (C12) *)

Lemma bad_prev_eq : bad_prev EQ = true. Proof. reflexivity. Qed.
Lemma bad_prev_colon : bad_prev COLON = true. Proof. reflexivity. Qed.
Lemma bad_prev_nl : bad_prev NL = false. Proof. reflexivity. Qed.

Lemma lone_cnt_cons p c t :
  lone_cnt p (c :: t) =
  (if (c =? EQ)%N && negb (bad_prev p) && negb (head_is EQ t) then 1 else 0) + lone_cnt c t.
Proof. destruct t; reflexivity. Qed.

(* inserting ':' before a lone '=' removes exactly one lone '=' *)
Lemma lone_cnt_insert_colon a : forall p rest,
  bad_prev (last_or p a) = false -> head_is EQ rest = false ->
  lone_cnt p (a ++ EQ :: rest) = S (lone_cnt p (a ++ COLON :: EQ :: rest)).
Proof.
  induction a as [|c a IH]; intros p rest Hp Hn.
  - cbn [app]. rewrite !lone_cnt_cons. unfold last_or in Hp. simpl in Hp.
    rewrite Hp, Hn. rewrite N.eqb_refl. change (COLON =? EQ)%N with false.
    rewrite bad_prev_colon. cbn. reflexivity.
  - cbn [app]. rewrite !lone_cnt_cons. rewrite last_or_cons in Hp.
    rewrite (IH c rest Hp Hn).
    destruct a as [|d a'].
    + (* c is the byte before '=': it is not '=' itself *)
      cbn [app head_is]. unfold last_or in Hp. simpl in Hp.
      assert (Hc : (c =? EQ)%N = false).
      { destruct (N.eqb_spec c EQ) as [->|]; [rewrite bad_prev_eq in Hp; discriminate|reflexivity]. }
      rewrite Hc. cbn. reflexivity.
    + cbn [app head_is]. lia.
Qed.

Lemma head_is_app c s t : head_is c (s ++ t) = match s with [] => head_is c t | _ => head_is c s end.
Proof. destruct s; reflexivity. Qed.

Theorem uao_progress content l c' :
  uao_fix content [l] = Changed c' -> lone_cnt NL content = S (lone_cnt NL c').
Proof.
  intros H.
  destruct (uao_effect _ _ _ H) as (a & pre & post & b & -> & -> & _ & _ & Ha & Hb & _ & _ & _ & Hl).
  rewrite lone_eq_mid in Hl. apply andb_true_iff in Hl. destruct Hl as [Hprev Hnext].
  apply negb_true_iff in Hprev. apply negb_true_iff in Hnext.
  replace (a ++ pre ++ EQ :: post ++ b) with ((a ++ pre) ++ EQ :: (post ++ b)) by (rewrite <- app_assoc; reflexivity).
  replace (a ++ pre ++ COLON :: EQ :: post ++ b) with ((a ++ pre) ++ COLON :: EQ :: (post ++ b)) by (rewrite <- app_assoc; reflexivity).
  apply lone_cnt_insert_colon.
  - destruct pre as [|q pre'] eqn:Epre.
    + rewrite app_nil_r. destruct Ha as [->|[a' ->]]; [reflexivity|]. rewrite last_or_snoc. reflexivity.
    + rewrite last_or_app_ne by discriminate. unfold last_or.
      destruct (rev (q :: pre')) as [|z zs] eqn:Er; [|exact Hprev].
      apply (f_equal (@rev N)) in Er. rewrite rev_involutive in Er. discriminate.
  - rewrite head_is_app. destruct post as [|d post']; [|exact Hnext].
    destruct Hb as [->|[b' ->]]; reflexivity.
Qed.

Lemma tight_cons c t :
  tight_hash_count (c :: t) =
  (if (c =? HASH)%N && match t with d :: _ => negb (is_blank d) | [] => false end then 1 else 0)
  + tight_hash_count t.
Proof. reflexivity. Qed.

Definition next_tight (s : str) : bool := match s with d :: _ => negb (is_blank d) | [] => false end.

(* inserting a blank after a '#' never adds a tight '#', and removes one when the '#' was tight *)
Lemma tight_insert_blank a : forall rest,
  tight_hash_count (a ++ HASH :: rest) =
  (if next_tight rest then 1 else 0) + tight_hash_count (a ++ HASH :: SP :: rest).
Proof.
  induction a as [|c a IH]; intros rest.
  - cbn [app]. rewrite !tight_cons. rewrite N.eqb_refl. change (SP =? HASH)%N with false.
    change (negb (is_blank SP)) with false. cbn [andb]. unfold next_tight. 
    destruct rest as [|d rest']; cbn; [reflexivity|]. destruct (negb (is_blank d)); reflexivity.
  - cbn [app]. rewrite !tight_cons. rewrite (IH rest).
    destruct a as [|d a']; cbn [app]; lia.
Qed.

Lemma get_line_lift fline content l c' :
  run_fix (line_step fline) content [l] = Changed c' ->
  exists a line line' b,
    content = a ++ line ++ b /\ c' = a ++ line' ++ b /\
    get_line (lines_of content) (l_row l) = Some line /\ fline line (l_col l) = Some line' /\
    (a = [] \/ exists a', a = a' ++ [NL]) /\ (b = [] \/ exists b', b = NL :: b').
Proof.
  rewrite run_fix_single. unfold line_step.
  destruct (get_line (lines_of content) (l_row l)) as [line|] eqn:Hg; [|discriminate].
  destruct (fline line (l_col l)) as [line'|] eqn:Hu; [|discriminate].
  intros [= <-].
  pose proof (get_line_some _ _ _ Hg) as [Hrow Hn].
  destruct (join_set_nth _ _ _ Hn) as (a & b & Hj & Hset & Ha & Hbb & Hc).
  exists a, line, line', b.
  unfold unlines, set_line. rewrite Hset.
  fold (unlines (lines_of content)) in Hj. rewrite unlines_lines in Hj.
  repeat split; auto.
Qed.

(* what the no-whitespace-comment rule reports: a '#' directly followed by a character that is
   not a blank (the text of the comment is not: hashes, then white space or nothing) *)
Definition nwc_reported (content : str) (l : loc) : Prop :=
  forall line idx, get_line (lines_of content) (l_row l) = Some line ->
                   byte_index_of_column line (l_col l) = Some idx ->
                   exists d, nth_error line (S idx) = Some d /\ is_blank d = false.

Theorem nwc_progress content l c' :
  nwc_fix content [l] = Changed c' ->
  tight_hash_count c' <= tight_hash_count content /\
  (nwc_reported content l -> tight_hash_count content = S (tight_hash_count c')).
Proof.
  unfold nwc_fix. rewrite nwc_step_shape. intros H.
  destruct (get_line_lift _ _ _ _ H) as (a & line & line' & b & -> & -> & Hg & Hf & _ & _).
  destruct (nwc_line_spec _ _ _ Hf) as (pre & post & -> & -> & Hidx).
  assert (E1 : a ++ (pre ++ HASH :: post) ++ b = (a ++ pre) ++ HASH :: (post ++ b))
    by (repeat (rewrite <- app_assoc; simpl); reflexivity).
  assert (E2 : a ++ (pre ++ HASH :: SP :: post) ++ b = (a ++ pre) ++ HASH :: SP :: (post ++ b))
    by (repeat (rewrite <- app_assoc; simpl); reflexivity).
  rewrite E1 in *. rewrite E2 in *. clear E1 E2.
  rewrite (tight_insert_blank (a ++ pre) (post ++ b)). split; [destruct (next_tight (post ++ b)); lia|].
  intros Hrep. destruct (Hrep _ _ Hg Hidx) as (d & Hd & Hbl).
  replace (S (length pre)) with (length (pre ++ [HASH])) in Hd by (rewrite app_length; simpl; lia).
  replace (pre ++ HASH :: post) with ((pre ++ [HASH]) ++ post) in Hd by (rewrite <- app_assoc; reflexivity).
  destruct post as [|d' post'].
  - rewrite (proj2 (nth_error_None _ _)) in Hd; [discriminate|rewrite app_nil_r; lia].
  - rewrite nth_error_mid in Hd. injection Hd as ->. cbn [app next_tight]. rewrite Hbl. reflexivity.
Qed.

Lemma count_byte_cons_ne c x s : c <> x -> count_byte c (x :: s) = count_byte c s.
Proof. intros H. unfold count_byte. simpl. destruct (N.eqb_spec c x); [contradiction|reflexivity]. Qed.

Lemma count_byte_cons_eq c s : count_byte c (c :: s) = S (count_byte c s).
Proof. unfold count_byte. simpl. rewrite N.eqb_refl. reflexivity. Qed.

Lemma unesc_no_dq s : forall body', unesc_pairs s = Some body' -> count_byte DQ s = 0.
Proof.
  induction s as [|c|c d t IHt IHdt] using str_ind2; intros body' Hu.
  - reflexivity.
  - rewrite unesc_pairs_cons in Hu.
    destruct (N.eqb_spec c DQ) as [|Hq]; [discriminate|].
    rewrite count_byte_cons_ne by congruence. reflexivity.
  - rewrite unesc_pairs_cons in Hu.
    destruct (N.eqb_spec c DQ) as [|Hq]; [discriminate|]. destruct (N.eqb_spec c BT) as [|Hb]; [discriminate|].
    rewrite count_byte_cons_ne by congruence.
    destruct (N.eqb_spec c BSL) as [->|Hs].
    + destruct (N.eqb_spec d BSL) as [->|]; [|discriminate].
      destruct (unesc_pairs t) as [r|] eqn:Hr; [|discriminate].
      rewrite count_byte_cons_ne by discriminate. apply (IHt r eq_refl).
    + destruct (unesc_pairs (d :: t)) as [r|] eqn:Hr; [|discriminate].
      apply (IHdt r eq_refl).
Qed.

Theorem nrr_progress content l c' :
  nrr_fix content [l] = Changed c' -> count_byte DQ content = S (S (count_byte DQ c')).
Proof.
  intros H.
  destruct (nrr_effect _ _ _ H) as (a & pre & body & post & b & body' & -> & -> & Hu & _).
  destruct (unesc_clean _ _ Hu) as (Hq & _ & _).
  rewrite !count_byte_app. rewrite !count_byte_cons_eq. rewrite (count_byte_cons_ne DQ BT) by discriminate.
  rewrite !count_byte_app. rewrite count_byte_cons_eq. rewrite (count_byte_cons_ne DQ BT) by discriminate.
  rewrite (unesc_no_dq _ _ Hu). rewrite (count_byte_notin DQ body' Hq). rewrite !count_byte_app. lia.
Qed.

(* ------------------------------------------------------------------ the pinned column source *)

Definition ascii_str (s : str) : Prop := Forall (fun b => (b < 128)%N) s.

Lemma rune_width_ascii b t : (b < 128)%N -> rune_width (b :: t) = 1.
Proof. intros H. unfold rune_width. destruct (N.ltb_spec b 194); [reflexivity|lia]. Qed.

Lemma runes_fuel_ascii f : forall s, length s <= f -> ascii_str s -> runes_fuel f s = map (fun b => [b]) s.
Proof.
  induction f as [|f IH]; intros s Hl Ha.
  - destruct s; [reflexivity|simpl in Hl; lia].
  - destruct s as [|b t]; [reflexivity|]. inversion Ha as [|? ? Hb Ht]; subst.
    cbn [runes_fuel]. rewrite (rune_width_ascii b t Hb). cbn [firstn skipn map].
    f_equal. apply IH; [simpl in Hl; lia|exact Ht].
Qed.

Lemma runes_ascii s : ascii_str s -> runes s = map (fun b => [b]) s.
Proof. intros H. apply runes_fuel_ascii; [lia|exact H]. Qed.

Lemma index_rune_single c pre rest :
  ~ In c pre -> index_rune c (map (fun b => [b]) (pre ++ c :: rest)) = Some (length pre).
Proof.
  induction pre as [|x pre IH]; intros Hn.
  - simpl. rewrite N.eqb_refl. reflexivity.
  - simpl. destruct (N.eqb_spec x c) as [->|Hne]; [exfalso; apply Hn; left; reflexivity|].
    rewrite IH; [reflexivity|]. intros Hin. apply Hn. right. exact Hin.
Qed.

(* one round of the pinned code: the rule reports the first '=' of the line, the fix (guard: any '=')
   inserts ':' there *)
Definition pinned_round (line : str) : option str := uao_line_pinned line (eq_col_pinned line).

Lemma pinned_round_first_eq pre rest :
  ascii_str (pre ++ EQ :: rest) -> ~ In EQ pre ->
  pinned_round (pre ++ EQ :: rest) = Some (pre ++ COLON :: EQ :: rest).
Proof.
  intros Ha Hn. unfold pinned_round, eq_col_pinned.
  rewrite (runes_ascii _ Ha). rewrite (index_rune_single EQ pre rest Hn).
  unfold uao_line_pinned.
  replace (Z.of_nat (length pre) + 1 - 1)%Z with (Z.of_nat (length pre)) by lia.
  rewrite app_length. simpl length.
  match goal with |- (if ?c then _ else _) = _ => replace c with false by lia end.
  rewrite Nat2Z.id. rewrite nth_error_mid. rewrite N.eqb_refl.
  rewrite firstn_mid, skipn_pre. reflexivity.
Qed.

Fixpoint iter_round (n : nat) (line : str) : option str :=
  match n with
  | O => Some line
  | S k => match iter_round k line with Some l => pinned_round l | None => None end
  end.

Definition P_head : str := [102; 40; 34; 97]%N.
Definition P_tail : str := [98; 34; 41; 32; 61; 32; 49]%N.

(* On the pinned code the fix of  f("a=b") = 1  never reaches the operator: every round inserts one more
   ':' inside the string literal, and the next round finds the same '=' again. *)
Theorem uao_pinned_never_terminates n :
  iter_round n (P_head ++ EQ :: P_tail) = Some (P_head ++ repeat COLON n ++ EQ :: P_tail) /\
  pinned_round (P_head ++ repeat COLON n ++ EQ :: P_tail) =
    Some (P_head ++ repeat COLON (S n) ++ EQ :: P_tail).
Proof.
  assert (Hround : forall k, pinned_round (P_head ++ repeat COLON k ++ EQ :: P_tail) =
                             Some (P_head ++ repeat COLON (S k) ++ EQ :: P_tail)).
  { intros k.
    replace (P_head ++ repeat COLON k ++ EQ :: P_tail) with ((P_head ++ repeat COLON k) ++ EQ :: P_tail)
      by (rewrite <- app_assoc; reflexivity).
    rewrite pinned_round_first_eq.
    - f_equal. rewrite <- app_assoc. f_equal.
      change (COLON :: EQ :: P_tail) with ([COLON] ++ EQ :: P_tail). rewrite app_assoc.
      rewrite <- repeat_cons. reflexivity.
    - unfold ascii_str. rewrite <- app_assoc. apply Forall_app. split.
      + repeat constructor.
      + apply Forall_app. split.
        * apply Forall_forall. intros x Hx. apply repeat_spec in Hx. subst x. reflexivity.
        * repeat constructor.
    - intros Hin. apply in_app_or in Hin. destruct Hin as [Hin|Hin].
      + simpl in Hin. repeat (destruct Hin as [Hin|Hin]; [discriminate Hin|]). exact Hin.
      + apply repeat_spec in Hin. discriminate Hin. }
  split; [|apply Hround].
  induction n as [|n IH]; [reflexivity|].
  cbn [iter_round]. rewrite IH. apply Hround.
Qed.

Theorem nrr_unchanged_iff content l :
  nrr_fix content [l] = Unchanged <->
  (forall line, get_line (lines_of content) (l_row l) = Some line -> nrr_line line (l_col l) = None).
Proof. unfold nrr_fix. rewrite nrr_step_shape. apply line_fix_unchanged_iff. Qed.

(* nrr_line declines exactly when the column is not on a double quote, or the literal starting there
   is not closed on the line, contains a backtick, or an escape other than the escaped backslash *)
Lemma nrr_line_none_iff line col :
  nrr_line line col = None <->
  (forall start rest, byte_index_of_column line col = Some start ->
                      skipn start line = DQ :: rest -> scan_body rest = None).
Proof.
  unfold nrr_line. split.
  - intros H start rest Hb Hs. rewrite Hb, Hs in H. rewrite N.eqb_refl in H.
    destruct (scan_body rest); [discriminate|reflexivity].
  - intros H. destruct (byte_index_of_column line col) as [start|]; [|reflexivity].
    destruct (skipn start line) as [|c rest] eqn:Hs; [reflexivity|].
    destruct (N.eqb_spec c DQ) as [->|]; [|reflexivity].
    rewrite (H start rest eq_refl Hs). reflexivity.
Qed.

(* ------------------------------------------------------------------ cross effects on the measures *)

Lemma lone_cnt_prev_irrel p q s : bad_prev p = bad_prev q -> lone_cnt p s = lone_cnt q s.
Proof. intros H. destruct s as [|c t]; [reflexivity|]. rewrite !lone_cnt_cons. rewrite H. reflexivity. Qed.

Lemma head_is_app_ne c a rest : a <> [] -> head_is c (a ++ rest) = head_is c a.
Proof. destruct a; [congruence | reflexivity]. Qed.

(* inserting a blank after '#' does not change the number of lone '=' *)
Lemma lone_cnt_insert_blank a : forall p rest,
  lone_cnt p (a ++ HASH :: rest) = lone_cnt p (a ++ HASH :: SP :: rest).
Proof.
  induction a as [|c a IH]; intros p rest.
  - cbn [app]. rewrite !lone_cnt_cons. change (HASH =? EQ)%N with false. change (SP =? EQ)%N with false.
    cbn [andb]. rewrite (lone_cnt_prev_irrel HASH SP rest eq_refl). reflexivity.
  - cbn [app]. rewrite !lone_cnt_cons. rewrite (IH c rest).
    destruct a as [|d a']; reflexivity.
Qed.

(* inserting ':' before '=' does not change the number of tight '#' *)
Lemma tight_insert_colon a : forall rest,
  tight_hash_count (a ++ EQ :: rest) = tight_hash_count (a ++ COLON :: EQ :: rest).
Proof.
  induction a as [|c a IH]; intros rest.
  - cbn [app]. rewrite !tight_cons. change (COLON =? HASH)%N with false. cbn [andb]. reflexivity.
  - cbn [app]. rewrite !tight_cons. rewrite (IH rest). destruct a as [|d a']; reflexivity.
Qed.

Lemma unesc_head body body' :
  unesc_pairs body = Some body' ->
  match body, body' with
  | [], [] => True
  | c :: _, c' :: _ => c = c'
  | _, _ => False
  end.
Proof.
  destruct body as [|c t]; [intros [= <-]; exact I|].
  rewrite unesc_pairs_cons.
  destruct (N.eqb_spec c DQ); [discriminate|]. destruct (N.eqb_spec c BT); [discriminate|].
  destruct (N.eqb_spec c BSL) as [->|].
  - destruct t as [|d t2]; [discriminate|]. destruct (N.eqb_spec d BSL); [|discriminate].
    destruct (unesc_pairs t2); [|discriminate]. intros [= <-]. reflexivity.
  - destruct (unesc_pairs t); [|discriminate]. intros [= <-]. reflexivity.
Qed.

(* the decoding of an accepted body leaves the number of lone '=' unchanged *)
Lemma lone_cnt_unesc body : forall body' r1 r2 p,
  unesc_pairs body = Some body' ->
  head_is EQ r1 = head_is EQ r2 -> (forall q, lone_cnt q r1 = lone_cnt q r2) ->
  lone_cnt p (body ++ r1) = lone_cnt p (body' ++ r2).
Proof.
  induction body as [|c|c d t IHt IHdt] using str_ind2; intros body' r1 r2 p Hu Hh Hr.
  - injection Hu as <-. apply Hr.
  - rewrite unesc_pairs_cons in Hu.
    destruct (N.eqb_spec c DQ); [discriminate|]. destruct (N.eqb_spec c BT); [discriminate|].
    destruct (N.eqb_spec c BSL); [discriminate|]. injection Hu as <-.
    cbn [app]. rewrite !lone_cnt_cons. rewrite Hh, Hr. reflexivity.
  - rewrite unesc_pairs_cons in Hu.
    destruct (N.eqb_spec c DQ); [discriminate|]. destruct (N.eqb_spec c BT); [discriminate|].
    destruct (N.eqb_spec c BSL) as [->|Hs].
    + destruct (N.eqb_spec d BSL) as [->|]; [|discriminate].
      destruct (unesc_pairs t) as [r|] eqn:Hr'; [|discriminate]. injection Hu as <-.
      cbn [app]. rewrite (lone_cnt_cons p BSL). rewrite (lone_cnt_cons BSL BSL). rewrite (lone_cnt_cons p BSL (r ++ r2)).
      change (BSL =? EQ)%N with false. cbn [andb Nat.add].
      apply IHt; [reflexivity|assumption|assumption].
    + destruct (unesc_pairs (d :: t)) as [r|] eqn:Hr'; [|discriminate]. injection Hu as <-.
      change ((c :: d :: t) ++ r1) with (c :: ((d :: t) ++ r1)).
      change ((c :: r) ++ r2) with (c :: (r ++ r2)).
      rewrite !lone_cnt_cons.
      rewrite (IHdt r r1 r2 c eq_refl Hh Hr).
      pose proof (unesc_head _ _ Hr') as Hhd. destruct r as [|d' r']; [contradiction|]. subst d'.
      reflexivity.
Qed.

Lemma lone_cnt_requote a : forall p body body' rest,
  unesc_pairs body = Some body' ->
  lone_cnt p (a ++ DQ :: body ++ DQ :: rest) = lone_cnt p (a ++ BT :: body' ++ BT :: rest).
Proof.
  induction a as [|c a IH]; intros p body body' rest Hu.
  - cbn [app]. rewrite !lone_cnt_cons. change (DQ =? EQ)%N with false. change (BT =? EQ)%N with false.
    cbn [andb Nat.add].
    rewrite (lone_cnt_prev_irrel DQ BT _ eq_refl).
    apply lone_cnt_unesc; [exact Hu|reflexivity|].
    intros q. rewrite !lone_cnt_cons. change (DQ =? EQ)%N with false. change (BT =? EQ)%N with false.
    cbn [andb Nat.add]. apply lone_cnt_prev_irrel. reflexivity.
  - cbn [app]. rewrite !lone_cnt_cons. rewrite (IH c body body' rest Hu).
    destruct a as [|d a']; reflexivity.
Qed.

Lemma tight_unesc body : forall body' r1 r2,
  unesc_pairs body = Some body' ->
  next_tight r1 = next_tight r2 -> tight_hash_count r1 = tight_hash_count r2 ->
  tight_hash_count (body ++ r1) = tight_hash_count (body' ++ r2).
Proof.
  induction body as [|c|c d t IHt IHdt] using str_ind2; intros body' r1 r2 Hu Hn Ht.
  - injection Hu as <-. exact Ht.
  - rewrite unesc_pairs_cons in Hu.
    destruct (N.eqb_spec c DQ); [discriminate|]. destruct (N.eqb_spec c BT); [discriminate|].
    destruct (N.eqb_spec c BSL); [discriminate|]. injection Hu as <-.
    cbn [app]. rewrite !tight_cons. fold (next_tight r1). fold (next_tight r2). rewrite Hn, Ht. reflexivity.
  - rewrite unesc_pairs_cons in Hu.
    destruct (N.eqb_spec c DQ); [discriminate|]. destruct (N.eqb_spec c BT); [discriminate|].
    destruct (N.eqb_spec c BSL) as [->|Hs].
    + destruct (N.eqb_spec d BSL) as [->|]; [|discriminate].
      destruct (unesc_pairs t) as [r|] eqn:Hr'; [|discriminate]. injection Hu as <-.
      cbn [app]. rewrite (tight_cons BSL). rewrite (tight_cons BSL (t ++ r1)). rewrite (tight_cons BSL (r ++ r2)).
      change (BSL =? HASH)%N with false. cbn [andb Nat.add].
      apply IHt; [reflexivity|assumption|assumption].
    + destruct (unesc_pairs (d :: t)) as [r|] eqn:Hr'; [|discriminate]. injection Hu as <-.
      change ((c :: d :: t) ++ r1) with (c :: ((d :: t) ++ r1)).
      change ((c :: r) ++ r2) with (c :: (r ++ r2)).
      rewrite !tight_cons.
      rewrite (IHdt r r1 r2 eq_refl Hn Ht).
      pose proof (unesc_head _ _ Hr') as Hhd. destruct r as [|d' r']; [contradiction|]. subst d'.
      reflexivity.
Qed.

Lemma tight_requote a : forall body body' rest,
  unesc_pairs body = Some body' ->
  tight_hash_count (a ++ DQ :: body ++ DQ :: rest) = tight_hash_count (a ++ BT :: body' ++ BT :: rest).
Proof.
  induction a as [|c a IH]; intros body body' rest Hu.
  - cbn [app]. rewrite !tight_cons. change (DQ =? HASH)%N with false. change (BT =? HASH)%N with false.
    cbn [andb Nat.add]. apply tight_unesc; [exact Hu|reflexivity|].
    rewrite !tight_cons. change (DQ =? HASH)%N with false. change (BT =? HASH)%N with false. reflexivity.
  - cbn [app]. rewrite !tight_cons. rewrite (IH body body' rest Hu).
    destruct a as [|d a']; [|reflexivity].
    cbn [app]. change (negb (is_blank DQ)) with true. change (negb (is_blank BT)) with true. reflexivity.
Qed.

(* the total measure of the text fixes *)
Definition text_measure (c : str) : nat := count_byte DQ c + lone_cnt NL c + tight_hash_count c.

Theorem uao_decreases_total content l c' :
  uao_fix content [l] = Changed c' -> text_measure c' < text_measure content.
Proof.
  intros H. pose proof (uao_progress _ _ _ H) as Hp.
  destruct (uao_effect _ _ _ H) as (a & pre & post & b & -> & -> & _).
  unfold text_measure. rewrite Hp.
  replace (a ++ pre ++ EQ :: post ++ b) with ((a ++ pre) ++ EQ :: (post ++ b)) by (rewrite <- app_assoc; reflexivity).
  replace (a ++ pre ++ COLON :: EQ :: post ++ b) with ((a ++ pre) ++ COLON :: EQ :: (post ++ b)) by (rewrite <- app_assoc; reflexivity).
  rewrite <- tight_insert_colon.
  rewrite !count_byte_app. rewrite (count_byte_cons_ne DQ COLON) by discriminate. lia.
Qed.

Theorem nrr_decreases_total content l c' :
  nrr_fix content [l] = Changed c' -> text_measure c' < text_measure content.
Proof.
  intros H. pose proof (nrr_progress _ _ _ H) as Hp.
  destruct (nrr_effect _ _ _ H) as (a & pre & body & post & b & body' & -> & -> & Hu & _).
  unfold text_measure. rewrite Hp.
  replace (a ++ pre ++ DQ :: body ++ DQ :: post ++ b) with ((a ++ pre) ++ DQ :: body ++ DQ :: (post ++ b))
    by (rewrite <- app_assoc; reflexivity).
  replace (a ++ pre ++ BT :: body' ++ BT :: post ++ b) with ((a ++ pre) ++ BT :: body' ++ BT :: (post ++ b))
    by (rewrite <- app_assoc; reflexivity).
  rewrite (lone_cnt_requote (a ++ pre) NL body body' (post ++ b) Hu).
  rewrite (tight_requote (a ++ pre) body body' (post ++ b) Hu). lia.
Qed.

Theorem nwc_total content l c' :
  nwc_fix content [l] = Changed c' ->
  text_measure c' <= text_measure content /\
  (nwc_reported content l -> text_measure c' < text_measure content).
Proof.
  intros H. destruct (nwc_progress _ _ _ H) as [Hle Hlt].
  destruct (nwc_effect _ _ _ H) as (a & pre & post & b & Ec & Ec' & _).
  assert (Hsame : count_byte DQ c' = count_byte DQ content /\ lone_cnt NL c' = lone_cnt NL content).
  { rewrite Ec, Ec'.
    replace (a ++ pre ++ HASH :: post ++ b) with ((a ++ pre) ++ HASH :: (post ++ b)) by (rewrite <- app_assoc; reflexivity).
    replace (a ++ pre ++ HASH :: SP :: post ++ b) with ((a ++ pre) ++ HASH :: SP :: (post ++ b)) by (rewrite <- app_assoc; reflexivity).
    split.
    - rewrite !count_byte_app. rewrite !(count_byte_cons_ne DQ HASH) by discriminate.
      rewrite (count_byte_cons_ne DQ SP) by discriminate. reflexivity.
    - symmetry. apply lone_cnt_insert_blank. }
  destruct Hsame as [Hd Hl]. unfold text_measure. rewrite Hd, Hl. split; [lia|].
  intros Hr. specialize (Hlt Hr). lia.
Qed.

(* ------------------------------------------------------------------ a fix changes one row only *)

Lemma split_on_notin c w : ~ In c w -> split_on c w = [w].
Proof.
  induction w as [|x w IH]; intros Hn; [reflexivity|].
  simpl. destruct (N.eqb_spec x c) as [->|Hne]; [exfalso; apply Hn; left; reflexivity|].
  rewrite IH; [reflexivity|]. intros Hin. apply Hn. right. exact Hin.
Qed.

Lemma split_on_app_sep c w s : ~ In c w -> split_on c (w ++ c :: s) = w :: split_on c s.
Proof.
  induction w as [|x w IH]; intros Hn.
  - simpl. rewrite N.eqb_refl. reflexivity.
  - simpl. destruct (N.eqb_spec x c) as [->|Hne]; [exfalso; apply Hn; left; reflexivity|].
    rewrite IH; [reflexivity|]. intros Hin. apply Hn. right. exact Hin.
Qed.

Lemma split_on_join ls :
  ls <> [] -> (forall w, In w ls -> ~ In NL w) -> split_on NL (join [NL] ls) = ls.
Proof.
  induction ls as [|w ls IH]; intros Hne Hno; [congruence|].
  destruct ls as [|w2 ls'].
  - simpl. apply split_on_notin. apply Hno. left. reflexivity.
  - rewrite join_cons_ne by discriminate. cbn [app].
    rewrite split_on_app_sep by (apply Hno; left; reflexivity).
    f_equal. apply IH; [discriminate|]. intros x Hx. apply Hno. right. exact Hx.
Qed.

Lemma in_set_nth {A} (l : list A) : forall n x y, In y (set_nth l n x) -> y = x \/ In y l.
Proof.
  induction l as [|h t IH]; intros [|n] x y H; simpl in *; try contradiction.
  - destruct H as [<-|H]; [left; reflexivity|right; right; exact H].
  - destruct H as [<-|H]; [right; left; reflexivity|].
    destruct (IH n x y H) as [->|Hin]; [left; reflexivity|right; right; exact Hin].
Qed.

(* after a no-whitespace-comment fix at row r, every other row of the line table is what it was *)
Lemma nwc_fix_other_rows content l c' :
  nwc_fix content [l] = Changed c' ->
  forall r, r <> l_row l -> get_line (lines_of c') r = get_line (lines_of content) r.
Proof.
  unfold nwc_fix. rewrite run_fix_single. unfold nwc_step.
  destruct (get_line (lines_of content) (l_row l)) as [line|] eqn:Hg; [|discriminate].
  destruct (nwc_line line (l_col l)) as [line'|] eqn:Hf; [|discriminate].
  intros [= <-] r Hr.
  pose proof (get_line_some _ _ _ Hg) as [Hrow Hn].
  destruct (nwc_line_spec _ _ _ Hf) as (pre & post & -> & -> & _).
  pose proof (nth_error_In _ _ Hn) as Hin. apply lines_of_no_nl in Hin.
  unfold unlines, lines_of at 1. rewrite split_on_join.
  - apply get_line_set_line_other; [exact Hrow|congruence].
  - unfold set_line. apply set_nth_ne. apply split_on_nonempty.
  - intros w Hw. unfold set_line in Hw. apply in_set_nth in Hw. destruct Hw as [->|Hw].
    + intros H. apply Hin. apply in_app_or in H. destruct H as [H|[H|[H|H]]].
      * apply in_app_mid. left. exact H.
      * discriminate H.
      * discriminate H.
      * apply in_app_mid. right. exact H.
    + apply lines_of_no_nl in Hw. exact Hw.
Qed.

Lemma nwc_reported_same_line c0 c l :
  get_line (lines_of c) (l_row l) = get_line (lines_of c0) (l_row l) ->
  nwc_reported c0 l -> nwc_reported c l.
Proof. unfold nwc_reported. intros E H line idx Hg. apply H. rewrite <- E. exact Hg. Qed.

(* ------------------------------------------------------------------ every text fix is row-local *)

Lemma line_fix_row_local fline :
  (forall line col line', fline line col = Some line' -> ~ In NL line -> ~ In NL line') ->
  forall content l c',
    run_fix (line_step fline) content [l] = Changed c' ->
    length (lines_of c') = length (lines_of content) /\
    forall r, r <> l_row l -> get_line (lines_of c') r = get_line (lines_of content) r.
Proof.
  intros Hnl content l c'. rewrite run_fix_single. unfold line_step.
  destruct (get_line (lines_of content) (l_row l)) as [line|] eqn:Hg; [|discriminate].
  destruct (fline line (l_col l)) as [line'|] eqn:Hf; [|discriminate].
  intros [= <-].
  pose proof (get_line_some _ _ _ Hg) as [Hrow Hn].
  pose proof (nth_error_In _ _ Hn) as Hin. apply lines_of_no_nl in Hin.
  assert (E : lines_of (unlines (set_line (lines_of content) (l_row l) line')) =
              set_line (lines_of content) (l_row l) line').
  { unfold unlines, lines_of at 1. apply split_on_join.
    - unfold set_line. apply set_nth_ne. apply split_on_nonempty.
    - intros w Hw. unfold set_line in Hw. apply in_set_nth in Hw. destruct Hw as [->|Hw].
      + eapply Hnl; eassumption.
      + apply lines_of_no_nl in Hw. exact Hw. }
  rewrite E. split.
  - unfold set_line. apply set_nth_length.
  - intros r Hr. apply get_line_set_line_other; [exact Hrow|congruence].
Qed.

Lemma uao_line_no_nl line col line' : uao_line line col = Some line' -> ~ In NL line -> ~ In NL line'.
Proof.
  intros H Hn. destruct (uao_line_spec _ _ _ H) as (pre & post & -> & -> & _).
  intros Hin. apply in_app_or in Hin. destruct Hin as [Hin|[Hin|[Hin|Hin]]]; try discriminate Hin.
  - apply Hn. apply in_app_mid. left. exact Hin.
  - apply Hn. apply in_app_mid. right. exact Hin.
Qed.

Lemma nwc_line_no_nl line col line' : nwc_line line col = Some line' -> ~ In NL line -> ~ In NL line'.
Proof.
  intros H Hn. destruct (nwc_line_spec _ _ _ H) as (pre & post & -> & -> & _).
  intros Hin. apply in_app_or in Hin. destruct Hin as [Hin|[Hin|[Hin|Hin]]]; try discriminate Hin.
  - apply Hn. apply in_app_mid. left. exact Hin.
  - apply Hn. apply in_app_mid. right. exact Hin.
Qed.

Lemma nrr_line_no_nl line col line' : nrr_line line col = Some line' -> ~ In NL line -> ~ In NL line'.
Proof.
  intros H Hn. destruct (nrr_line_spec _ _ _ H) as (pre & body & post & body' & -> & -> & Hu & _).
  destruct (unesc_clean _ _ Hu) as (_ & _ & Hb).
  intros Hin. apply in_app_or in Hin. destruct Hin as [Hin|[Hin|Hin]]; try discriminate Hin.
  - apply Hn. apply in_app_mid. left. exact Hin.
  - apply in_app_or in Hin. destruct Hin as [Hin|[Hin|Hin]]; try discriminate Hin.
    + revert Hin. apply Hb. intros Hi. apply Hn. apply in_app_mid. right. apply in_app_mid. left. exact Hi.
    + apply Hn. apply in_app_mid. right. apply in_app_mid. right. exact Hin.
Qed.

(* what the fixer relies on after a file was changed within an iteration: a location-based fix changes
   nothing but the row of its location (same number of rows, every other row untouched) *)
Theorem text_fix_changes_one_row content l c' :
  uao_fix content [l] = Changed c' \/ nwc_fix content [l] = Changed c' \/ nrr_fix content [l] = Changed c' ->
  length (lines_of c') = length (lines_of content) /\
  forall r, r <> l_row l -> get_line (lines_of c') r = get_line (lines_of content) r.
Proof.
  intros [H|[H|H]].
  - unfold uao_fix in H. rewrite uao_step_shape in H. exact (line_fix_row_local _ uao_line_no_nl _ _ _ H).
  - unfold nwc_fix in H. rewrite nwc_step_shape in H. exact (line_fix_row_local _ nwc_line_no_nl _ _ _ H).
  - unfold nrr_fix in H. rewrite nrr_step_shape in H. exact (line_fix_row_local _ nrr_line_no_nl _ _ _ H).
Qed.

(* ------------------------------------------------------------------ the Fmt fix and its state *)

Section FmtFixProofs.
  Variable parse_module : rver -> str -> str -> option rver.
  Variable format_ast : rver -> N -> rver -> str -> str -> option str.

  Notation ffix := (fmt_fix parse_module format_ast).
  Notation frun := (fmt_run parse_module format_ast).

  (* Fix writes nothing but the RegoVersion field of the options *)
  Lemma fmt_fix_other st c : fs_other (fst (ffix st c)) = fs_other st.
  Proof.
    unfold fmt_fix. destruct (fc_name c) as [|n0 nt]; [reflexivity|].
    destruct (parse_module (fc_version c) (n0 :: nt) (fc_contents c)) as [mv|]; reflexivity.
  Qed.

  (* what Fix returns for a file does not depend on the RegoVersion found in the options *)
  Lemma fmt_fix_state_independent st1 st2 c :
    fs_other st1 = fs_other st2 -> snd (ffix st1 c) = snd (ffix st2 c).
  Proof.
    intros Ho. unfold fmt_fix. destruct (fc_name c) as [|n0 nt]; [reflexivity|].
    destruct (parse_module (fc_version c) (n0 :: nt) (fc_contents c)) as [mv|]; [|reflexivity].
    cbn [snd fs_version fs_other]. rewrite Ho. reflexivity.
  Qed.

  (* the version left in the options is the version the file just handled was formatted for, or
     the old one when the file did not parse *)
  Lemma fmt_fix_state_after st c :
    fst (ffix st c) = st \/
    exists mv, parse_module (fc_version c) (fc_name c) (fc_contents c) = Some mv /\
               fst (ffix st c) = {| fs_version := fmt_target mv; fs_other := fs_other st |}.
  Proof.
    unfold fmt_fix. destruct (fc_name c) as [|n0 nt]; [left; reflexivity|].
    destruct (parse_module (fc_version c) (n0 :: nt) (fc_contents c)) as [mv|] eqn:Hp; [|left; reflexivity].
    right. exists mv. split; reflexivity.
  Qed.

  Theorem fmt_run_history_independent cs : forall st,
    frun st cs = map (fun c => snd (ffix st c)) cs.
  Proof.
    induction cs as [|c t IH]; intros st; [reflexivity|].
    cbn [fmt_run map]. f_equal. rewrite IH. apply map_ext. intros c'.
    apply fmt_fix_state_independent. apply fmt_fix_other.
  Qed.

  Theorem fmt_run_app st pre c post :
    frun st (pre ++ c :: post) = frun st pre ++ snd (ffix st c) :: frun st post.
  Proof.
    rewrite !fmt_run_history_independent. rewrite map_app. reflexivity.
  Qed.

  Theorem fmt_effect st c out :
    snd (ffix st c) = FmtChanged out ->
    exists mv, parse_module (fc_version c) (fc_name c) (fc_contents c) = Some mv /\
               format_ast (fmt_target mv) (fs_other st) (fc_version c) (fc_name c) (fc_contents c) = Some out /\
               out <> fc_contents c /\ fc_name c <> [].
  Proof.
    unfold fmt_fix. destruct (fc_name c) as [|n0 nt]; [discriminate|].
    destruct (parse_module (fc_version c) (n0 :: nt) (fc_contents c)) as [mv|] eqn:Hp; [|discriminate].
    cbn [snd fs_version fs_other].
    destruct (format_ast (fmt_target mv) (fs_other st) (fc_version c) (n0 :: nt) (fc_contents c)) as [o|] eqn:Hf;
      [|discriminate].
    destruct (str_eqb o (fc_contents c)) eqn:He; [discriminate|].
    intros H. injection H as <-. exists mv. repeat split; try assumption; try discriminate.
    intros Heq. apply str_eqb_eq in Heq. congruence.
  Qed.

  Theorem fmt_nothing_iff st c :
    snd (ffix st c) = FmtNone <->
    fc_name c <> [] /\
    exists mv, parse_module (fc_version c) (fc_name c) (fc_contents c) = Some mv /\
               format_ast (fmt_target mv) (fs_other st) (fc_version c) (fc_name c) (fc_contents c)
               = Some (fc_contents c).
  Proof.
    unfold fmt_fix. destruct (fc_name c) as [|n0 nt].
    { split; [discriminate|]. intros [H _]. congruence. }
    destruct (parse_module (fc_version c) (n0 :: nt) (fc_contents c)) as [mv|] eqn:Hp.
    2:{ split; [discriminate|]. intros (_ & mv & H & _). discriminate. }
    cbn [snd fs_version fs_other].
    destruct (format_ast (fmt_target mv) (fs_other st) (fc_version c) (n0 :: nt) (fc_contents c)) as [o|] eqn:Hf.
    2:{ split; [discriminate|]. intros (_ & mv' & H & H2). injection H as <-. congruence. }
    destruct (str_eqb o (fc_contents c)) eqn:He.
    - apply str_eqb_eq in He. subst o. split; [|reflexivity]. intros _. split; [discriminate|].
      exists mv. split; [reflexivity|assumption].
    - split; [discriminate|]. intros (_ & mv' & H & H2). injection H as <-.
      rewrite Hf in H2. injection H2 as ->. rewrite (proj2 (str_eqb_eq _ _) eq_refl) in He. discriminate.
  Qed.
End FmtFixProofs.

(* toy oracles for the regression witness: a module is v1 when its text starts with '1', v0
   otherwise; "formatting" prefixes the text with the rank of the version it was formatted for *)
Definition toy_parse (_ : rver) (_ contents : str) : option rver :=
  Some (match contents with 49%N :: _ => RvV1 | _ => RvV0 end).
Definition toy_format (v : rver) (_ : N) (_ : rver) (_ contents : str) : option str :=
  Some (N.of_nat (rver_rank v) :: contents).

Theorem fmt_keep_newest_depends_on_history :
  exists st c1 c0,
    fmt_run_keep_newest toy_parse toy_format st [c0] <> [] /\
    (exists o, fmt_run_keep_newest toy_parse toy_format st [c1; c0] = [snd (fmt_fix_keep_newest toy_parse toy_format st c1); o] /\
               o <> snd (fmt_fix_keep_newest toy_parse toy_format st c0)) /\
    fmt_run toy_parse toy_format st [c1; c0]
    = [snd (fmt_fix toy_parse toy_format st c1); snd (fmt_fix toy_parse toy_format st c0)].
Proof.
  exists {| fs_version := RvUndef; fs_other := 0 |},
         {| fc_name := [112%N]; fc_contents := [49%N]; fc_version := RvUndef |},
         {| fc_name := [113%N]; fc_contents := [48%N]; fc_version := RvUndef |}.
  split; [vm_compute; discriminate|]. split; [|vm_compute; reflexivity].
  eexists. split; [vm_compute; reflexivity|]. vm_compute. discriminate.
Qed.
