(* The base cache never answers with anything but the document's own value at the reference. *)
From Coq Require Import List Lia Bool.
From Regal Require Import Model.BaseCache.
Import ListNotations.

Lemma kget_kset_same {X} (m : list (key * X)) k v : kget (kset m k v) k = Some v.
Proof.
  induction m as [ | [k' v'] m IH]; cbn.
  - rewrite N.eqb_refl. reflexivity.
  - destruct (N.eqb k k') eqn:E; cbn; rewrite ?N.eqb_refl, ?E; auto.
Qed.

Lemma kget_kset_other {X} (m : list (key * X)) k q v : q <> k -> kget (kset m k v) q = kget m q.
Proof.
  intros Hne. induction m as [ | [k' v'] m IH]; cbn.
  - destruct (N.eqb_spec q k); [contradiction | reflexivity].
  - destruct (N.eqb_spec k k') as [<- | Hk]; cbn.
    + destruct (N.eqb_spec q k); [contradiction | reflexivity].
    + destruct (N.eqb q k'); [reflexivity | exact IH].
Qed.

Lemma vfind_app v p : forall q,
  vfind v (p ++ q) = match vfind v p with Some w => vfind w q | None => None end.
Proof.
  revert v. induction p as [ | k p IH]; intros v q; cbn; [reflexivity | ].
  destruct v as [n | fs]; [reflexivity | ]. destruct (kget fs k); [apply IH | reflexivity].
Qed.

(* every value in the trie is the document's value at the node's path *)
Definition coherent (doc : val) (t : trie) : Prop :=
  forall p v, value_at t p = Some v -> p <> [] -> vfind doc p = Some v.

(* the general form, for a subtree sitting at [prefix] *)
Definition coherent_at (doc : val) (prefix : list key) (t : trie) : Prop :=
  forall p v, value_at t p = Some v -> (prefix ++ p) <> [] -> vfind doc (prefix ++ p) = Some v.

Lemma value_at_put t ref v : forall p w,
  value_at (put t ref v) p = Some w -> (p = ref /\ w = v) \/ value_at t p = Some w.
Proof.
  revert t. induction ref as [ | k r IH]; intros t p w H.
  - cbn in H. destruct p as [ | k' p']; cbn in H; [left; split; congruence | discriminate].
  - destruct p as [ | k' p']; cbn in H.
    + right. exact H.
    + cbn [value_at]. destruct (N.eqb_spec k' k) as [-> | Hne].
      * rewrite kget_kset_same in H. apply IH in H. destruct H as [[-> ->] | H]; [left; split; reflexivity | ].
        right. destruct (kget (t_children t) k) as [c | ]; [exact H | ].
        destruct p'; cbn in H; discriminate.
      * rewrite kget_kset_other in H by exact Hne. right. exact H.
Qed.

Lemma coherent_put doc t ref v : coherent doc t -> vfind doc ref = Some v -> coherent doc (put t ref v).
Proof.
  intros Hc Hv p w Hp Hne. apply value_at_put in Hp. destruct Hp as [[-> ->] | Hp]; [exact Hv | ].
  apply Hc; assumption.
Qed.

Lemma get_sound_at doc ref : forall prefix t r,
  coherent_at doc prefix t -> get t ref = Some r -> vfind doc (prefix ++ ref) = Some r.
Proof.
  induction ref as [ | k rest IH]; intros prefix t r Hc Hg; cbn in Hg; [discriminate | ].
  destruct (kget (t_children t) k) as [c | ] eqn:Ek; [ | discriminate].
  destruct (t_value c) as [v | ] eqn:Ev.
  - assert (Hd : vfind doc (prefix ++ [k]) = Some v).
    { apply Hc; [cbn; rewrite Ek; exact Ev | ]. destruct prefix; discriminate. }
    change (k :: rest) with ([k] ++ rest). rewrite app_assoc, vfind_app, Hd. exact Hg.
  - change (k :: rest) with ([k] ++ rest). rewrite app_assoc. apply (IH (prefix ++ [k]) c); [ | exact Hg].
    intros p w Hp Hne. rewrite <- app_assoc. apply Hc; [cbn; rewrite Ek; exact Hp | ].
    destruct prefix; discriminate.
Qed.

Lemma get_sound doc t ref r : coherent doc t -> get t ref = Some r -> vfind doc ref = Some r.
Proof.
  intros Hc Hg. apply (get_sound_at doc ref [] t r); [ | exact Hg].
  intros p v Hp Hne. apply Hc; assumption.
Qed.

Lemma coherent_empty doc : coherent doc empty_trie.
Proof. intros [ | k p] v H Hne; cbn in H; [contradiction | discriminate]. Qed.

(* basecache_coherent: in any history of Puts of the document's own sub-documents and Gets, every
   Get answers either nothing or the document's value at the reference *)
Theorem basecache_coherent doc : forall ops t, coherent doc t ->
  Forall2 (fun o a => match o, a with
                      | OGet ref, Some r => vfind doc ref = Some r
                      | _, _ => True
                      end)
          (filter (fun o => match o with OGet _ => true | OPut _ => false end) ops)
          (replay doc t ops).
Proof.
  induction ops as [ | o ops IH]; intros t Hc; cbn; [constructor | ].
  destruct o as [pref | gref]; cbn.
  - destruct (vfind doc pref) as [v | ] eqn:Ev; apply IH; [apply coherent_put; assumption | exact Hc].
  - constructor; [ | apply IH; exact Hc].
    destruct (get t gref) as [r | ] eqn:Eg; [ | exact I]. eapply get_sound; eassumption.
Qed.

Example basecache_example :
  let doc := VObj [(1, VObj [(2, VLeaf 7); (3, VObj [(4, VLeaf 9)])])]%N in
  replay doc empty_trie [OGet [1;2]; OPut [1;3]; OGet [1;3;4]; OGet [1;2]; OPut [1]; OGet [1;2]; OGet [1;5]]%N =
  [None; Some (VLeaf 9); None; Some (VLeaf 7); None]%N.
Proof. vm_compute. reflexivity. Qed.
