(* C01/C02 — rules.InputFromPaths + NewInput: the file-name list handed to the linter is the
   sorted set of cleaned names, whatever the order of the arguments, their multiplicity, or the
   order in which the parser goroutines take the mutex. *)
From Coq Require Import List Permutation Lia Arith Bool.
From Regal Require Import Model.Sched Proofs.SchedLTS Proofs.Sched.
Import ListNotations.
Local Open Scope nat_scope.

(* ---------------------------------------------------------------- Go's string order *)
Lemma str_ltb_cons x a y b :
  str_ltb (x :: a) (y :: b) = true <-> (x < y)%N \/ (x = y /\ str_ltb a b = true).
Proof. cbn. rewrite orb_true_iff, andb_true_iff, N.ltb_lt, N.eqb_eq. reflexivity. Qed.

Lemma str_ltb_irrefl a : str_ltb a a = false.
Proof.
  induction a as [ | x a IH]; [reflexivity | ].
  destruct (str_ltb (x :: a) (x :: a)) eqn:E; [ | reflexivity].
  apply str_ltb_cons in E. destruct E as [E | [_ E]]; [lia | congruence].
Qed.

Lemma str_ltb_trans a : forall b c, str_ltb a b = true -> str_ltb b c = true -> str_ltb a c = true.
Proof.
  induction a as [ | x a IH]; intros [ | y b] [ | z c] H1 H2; try discriminate; try reflexivity.
  apply str_ltb_cons in H1, H2. apply str_ltb_cons.
  destruct H1 as [H1 | [-> H1]], H2 as [H2 | [-> H2]]; auto.
  - left. lia.
  - right. split; [reflexivity | ]. eapply IH; eassumption.
Qed.

Lemma str_ltb_tricho a : forall b, str_ltb a b = false -> str_ltb b a = false -> a = b.
Proof.
  induction a as [ | x a IH]; intros [ | y b] H1 H2; try discriminate; [reflexivity | ].
  cbn in H1, H2. apply orb_false_iff in H1, H2. destruct H1 as [L1 R1], H2 as [L2 R2].
  apply N.ltb_ge in L1, L2. assert (x = y) by lia. subst y.
  rewrite N.eqb_refl in R1, R2. cbn in R1, R2. f_equal. apply IH; assumption.
Qed.

Fixpoint ssorted (l : list str) : Prop :=
  match l with
  | [] => True
  | x :: l' => Forall (fun y => str_ltb x y = true) l' /\ ssorted l'
  end.

Lemma insert_sorted_In x l y : In y (insert_sorted x l) <-> y = x \/ In y l.
Proof.
  induction l as [ | z l IH]; cbn.
  - split; [intros [<- | []]; auto | intros [-> | []]; auto].
  - destruct (str_leb x z); cbn; [ | rewrite IH]; split; intros H; intuition congruence.
Qed.

Lemma insert_sorted_ssorted x l : ssorted l -> ~ In x l -> ssorted (insert_sorted x l).
Proof.
  induction l as [ | z l IH]; cbn; intros Hs Hn.
  - split; [constructor | exact I].
  - destruct Hs as [Hz Hs]. unfold str_leb. destruct (str_ltb z x) eqn:E; cbn [negb].
    + cbn. split.
      * apply Forall_forall. intros y Hy. apply insert_sorted_In in Hy. destruct Hy as [-> | Hy]; [exact E | ].
        rewrite Forall_forall in Hz. apply Hz. exact Hy.
      * apply IH; [exact Hs | ]. intros H. apply Hn. right. exact H.
    + assert (Hxz : str_ltb x z = true).
      { destruct (str_ltb x z) eqn:E2; [reflexivity | ].
        exfalso. apply Hn. left. symmetry. apply str_ltb_tricho; assumption. }
      cbn. repeat split; auto. constructor; [exact Hxz | ].
      rewrite Forall_forall in *. intros y Hy. eapply str_ltb_trans; [exact Hxz | apply Hz; exact Hy].
Qed.

Lemma sort_strs_In l y : In y (sort_strs l) <-> In y l.
Proof.
  induction l as [ | x l IH]; cbn; [tauto | ].
  rewrite insert_sorted_In, IH. intuition congruence.
Qed.

Lemma sort_strs_ssorted l : NoDup l -> ssorted (sort_strs l).
Proof.
  induction 1 as [ | x l Hn Hnd IH]; cbn; [exact I | ].
  apply insert_sorted_ssorted; [exact IH | ]. rewrite sort_strs_In. exact Hn.
Qed.

Lemma insert_sorted_length x m : length (insert_sorted x m) = S (length m).
Proof.
  induction m as [ | z m IH]; cbn; [reflexivity | ].
  destruct (str_leb x z); cbn; [reflexivity | rewrite IH; reflexivity].
Qed.

Lemma sort_strs_length l : length (sort_strs l) = length l.
Proof.
  induction l as [ | x l IH]; [reflexivity | ].
  change (sort_strs (x :: l)) with (insert_sorted x (sort_strs l)).
  rewrite insert_sorted_length, IH. reflexivity.
Qed.

Lemma ssorted_NoDup l : ssorted l -> NoDup l.
Proof.
  induction l as [ | x l IH]; cbn; intros Hs; [constructor | ].
  destruct Hs as [Hx Hs]. constructor; [ | apply IH; exact Hs].
  intros Hin. rewrite Forall_forall in Hx. specialize (Hx x Hin). rewrite str_ltb_irrefl in Hx. discriminate.
Qed.

(* a strictly sorted list is determined by its elements *)
Lemma ssorted_unique l1 : forall l2, ssorted l1 -> ssorted l2 ->
  (forall x, In x l1 <-> In x l2) -> l1 = l2.
Proof.
  induction l1 as [ | x l1 IH]; intros [ | y l2] H1 H2 Hin.
  - reflexivity.
  - exfalso. apply (Hin y). left. reflexivity.
  - exfalso. apply (Hin x). left. reflexivity.
  - destruct H1 as [Hx H1], H2 as [Hy H2]. rewrite Forall_forall in Hx, Hy.
    assert (Exy : x = y).
    { assert (A1 : In x (y :: l2)) by (apply Hin; left; reflexivity).
      assert (A2 : In y (x :: l1)) by (apply Hin; left; reflexivity).
      destruct A1 as [A1 | A1]; [congruence | ]. destruct A2 as [A2 | A2]; [congruence | ].
      pose proof (str_ltb_trans _ _ _ (Hx _ A2) (Hy _ A1)) as C. rewrite str_ltb_irrefl in C. discriminate. }
    subst y. f_equal. apply IH; auto. intros z. split; intros Hz.
    + assert (A : In z (x :: l2)) by (apply Hin; right; exact Hz).
      destruct A as [<- | A]; [ | exact A]. specialize (Hx _ Hz). rewrite str_ltb_irrefl in Hx. discriminate.
    + assert (A : In z (x :: l1)) by (apply Hin; right; exact Hz).
      destruct A as [<- | A]; [ | exact A]. specialize (Hy _ Hz). rewrite str_ltb_irrefl in Hy. discriminate.
Qed.

(* ---------------------------------------------------------------- the fold of imerge *)
Definition is_err (r : parsed) : bool := match r with PErr => true | POk _ _ => false end.

Lemma fold_imerge_errors rs : forall s,
  i_errors (fold_left imerge rs s) = i_errors s + length (filter is_err rs).
Proof.
  induction rs as [ | r rs IH]; intros s; cbn [fold_left filter length]; [lia | ].
  rewrite IH. destruct r; cbn; lia.
Qed.

Lemma fold_imerge_keys rs : forall s x,
  In x (map fst (i_files (fold_left imerge rs s))) <->
  In x (map fst (i_files s)) \/ exists c, In (POk x c) rs.
Proof.
  induction rs as [ | r rs IH]; intros s x; cbn [fold_left].
  - split; [auto | intros [H | [c []]]; exact H].
  - rewrite IH. destruct r as [n c | ]; cbn.
    + rewrite mset_keys. split.
      * intros [[-> | H] | [c' H]]; eauto.
      * intros [H | [c' [[= -> ->] | H]]]; eauto.
    + split.
      * intros [H | [c' H]]; eauto.
      * intros [H | [c' [[=] | H]]]; eauto.
Qed.

Lemma fold_imerge_NoDup rs : forall s,
  NoDup (map fst (i_files s)) -> NoDup (map fst (i_files (fold_left imerge rs s))).
Proof.
  induction rs as [ | r rs IH]; intros s Hnd; cbn [fold_left]; [exact Hnd | ].
  apply IH. destruct r; cbn; [apply mset_NoDup | ]; exact Hnd.
Qed.

(* what NewInput returns after any sequence of merges *)
Theorem new_input_spec (rs : list parsed) :
  match new_input (fold_left imerge rs empty_inputs) with
  | Some names => (forall r, In r rs -> r <> PErr) /\ ssorted names /\
                  (forall x, In x names <-> exists c, In (POk x c) rs)
  | None => In PErr rs
  end.
Proof.
  unfold new_input. rewrite fold_imerge_errors. cbn [i_errors empty_inputs plus].
  destruct (length (filter is_err rs)) eqn:E.
  - repeat split.
    + intros r Hr ->. assert (H : In PErr (filter is_err rs)) by (apply filter_In; auto).
      destruct (filter is_err rs); [destruct H | discriminate].
    + apply sort_strs_ssorted. apply fold_imerge_NoDup. constructor.
    + intros Hx. apply sort_strs_In, fold_imerge_keys in Hx. destruct Hx as [[] | Hx]; exact Hx.
    + intros Hx. apply sort_strs_In, fold_imerge_keys. right. exact Hx.
  - destruct (filter is_err rs) as [ | r l] eqn:F; [discriminate | ].
    assert (H : In r (filter is_err rs)) by (rewrite F; left; reflexivity).
    apply filter_In in H. destruct H as [H1 H2]. destruct r; [discriminate | exact H1].
Qed.

(* the result only depends on the SET of per-path results *)
Theorem new_input_same_set (rs1 rs2 : list parsed) :
  (forall r, In r rs1 <-> In r rs2) ->
  new_input (fold_left imerge rs1 empty_inputs) = new_input (fold_left imerge rs2 empty_inputs).
Proof.
  intros Hset. pose proof (new_input_spec rs1) as S1. pose proof (new_input_spec rs2) as S2.
  destruct (new_input (fold_left imerge rs1 empty_inputs)) as [n1 | ],
           (new_input (fold_left imerge rs2 empty_inputs)) as [n2 | ].
  - destruct S1 as (_ & So1 & M1), S2 as (_ & So2 & M2). f_equal.
    apply ssorted_unique; auto. intros x. rewrite M1, M2.
    split; intros [c H]; exists c; apply Hset; exact H.
  - destruct S1 as (E1 & _). exfalso. apply (E1 PErr); [apply Hset; exact S2 | reflexivity].
  - destruct S2 as (E2 & _). exfalso. apply (E2 PErr); [apply Hset; exact S1 | reflexivity].
  - reflexivity.
Qed.

Theorem input_paths_same_set (parse : str -> parsed) (l1 l2 : list str) :
  (forall p, In p l1 <-> In p l2) -> input_from_paths parse l1 = input_from_paths parse l2.
Proof.
  intros H. unfold input_from_paths. apply new_input_same_set. intros r. rewrite !in_map_iff.
  split; intros (p & E & Hp); exists p; (split; [exact E | apply H; exact Hp]).
Qed.

(* input_paths_perm: permutation- and duplicate-insensitive *)
Theorem input_paths_perm (parse : str -> parsed) (l1 l2 : list str) :
  Permutation l1 l2 -> input_from_paths parse l1 = input_from_paths parse l2.
Proof.
  intros Hp. apply input_paths_same_set. intros p. split; intros H.
  - eapply Permutation_in; eassumption.
  - eapply Permutation_in; [apply Permutation_sym | ]; eassumption.
Qed.

Theorem input_paths_dup (parse : str -> parsed) (l d : list str) :
  (forall p, In p d -> In p l) -> input_from_paths parse (l ++ d) = input_from_paths parse l.
Proof.
  intros H. apply input_paths_same_set. intros p. rewrite in_app_iff. split; [intros [A | A]; auto | auto].
Qed.

(* FileNames are exactly the distinct cleaned names of the paths that parse *)
Theorem input_paths_names (parse : str -> parsed) (l : list str) (names : list str) :
  input_from_paths parse l = Some names ->
  NoDup names /\ ssorted names /\ (forall p, In p l -> parse p <> PErr) /\
  (forall x, In x names <-> exists p c, In p l /\ parse p = POk x c).
Proof.
  unfold input_from_paths. intros E. pose proof (new_input_spec (map parse l)) as S. rewrite E in S.
  destruct S as (Hne & Hs & Hm). repeat split.
  - apply ssorted_NoDup. exact Hs.
  - exact Hs.
  - intros p Hp. apply Hne. apply in_map. exact Hp.
  - intros Hx. apply Hm in Hx. destruct Hx as [c Hc]. apply in_map_iff in Hc.
    destruct Hc as (p & E1 & Hp). eauto.
  - intros (p & c & Hp & E1). apply Hm. exists c. rewrite <- E1. apply in_map. exact Hp.
Qed.

Theorem input_paths_error (parse : str -> parsed) (l : list str) :
  input_from_paths parse l = None <-> exists p, In p l /\ parse p = PErr.
Proof.
  unfold input_from_paths. pose proof (new_input_spec (map parse l)) as S.
  destruct (new_input (fold_left imerge (map parse l) empty_inputs)) as [n | ].
  - split; [discriminate | ]. intros (p & Hp & E). destruct S as (Hne & _).
    exfalso. apply (Hne PErr); [rewrite <- E; apply in_map; exact Hp | reflexivity].
  - split; [ | reflexivity]. intros _. apply in_map_iff in S. destruct S as (p & E & Hp). eauto.
Qed.

(* ---------------------------------------------------------------- the parser goroutines *)
Lemma iput_iupd l r s : iput l (iupd l r s) s = iupd l r s.
Proof. destruct l, r, s; reflexivity. Qed.

Lemma irest_merge_writes (p : list (stmt iloc)) r : forall s,
  rest_merge iupd p r s = fold_left (fun s l => iupd l r s) (writes_until_unlock p) s.
Proof. induction p as [ | [ | | l | l | ] p IH]; intros s; cbn; auto. Qed.

Theorem input_lts_complete_is_fold (prog : list (stmt iloc)) (rs : list parsed) sched st :
  all_shared_writes_locked iloc_eqb prog = true ->
  cs_writes prog = [IErrors; IFiles] ->
  complete iupd iput prog (length rs) (fun i => nth i rs PErr) empty_inputs sched st ->
  exists pi, Permutation pi rs /\ sh st = fold_left imerge pi empty_inputs.
Proof.
  intros Hl Hm Hc.
  destruct (complete_is_fold _ _ _ iupd iput iput_iupd iloc_eqb (writes_of prog) prog
              (length rs) (fun i => nth i rs PErr) empty_inputs Hl sched st Hc) as [Hsh Hp].
  exists (map (fun i => nth i rs PErr) (acq st)). split.
  - eapply Permutation_trans; [apply Permutation_map; exact Hp | ].
    rewrite map_nth_seq. apply Permutation_refl.
  - rewrite Hsh. apply fold_left_ext. intros s r. unfold merge_of.
    rewrite irest_merge_writes. unfold cs_writes in Hm. rewrite Hm. reflexivity.
Qed.

(* any two complete executions over permuted argument lists hand the same FileNames (or both
   an error) to the linter *)
Theorem input_schedule_independent (prog : list (stmt iloc)) :
  all_shared_writes_locked iloc_eqb prog = true ->
  cs_writes prog = [IErrors; IFiles] ->
  forall (parse : str -> parsed) (paths1 paths2 : list str),
  (forall p, In p paths1 <-> In p paths2) ->
  forall sched1 sched2 st1 st2,
  complete iupd iput prog (length (map parse paths1)) (fun i => nth i (map parse paths1) PErr)
           empty_inputs sched1 st1 ->
  complete iupd iput prog (length (map parse paths2)) (fun i => nth i (map parse paths2) PErr)
           empty_inputs sched2 st2 ->
  new_input (sh st1) = new_input (sh st2) /\ new_input (sh st1) = input_from_paths parse paths1.
Proof.
  intros Hl Hm parse paths1 paths2 Hset sched1 sched2 st1 st2 H1 H2.
  destruct (input_lts_complete_is_fold prog _ sched1 st1 Hl Hm H1) as (p1 & P1 & E1).
  destruct (input_lts_complete_is_fold prog _ sched2 st2 Hl Hm H2) as (p2 & P2 & E2).
  rewrite E1, E2. split.
  - apply new_input_same_set. intros r. split; intros Hr.
    + eapply Permutation_in in Hr; [ | exact P1]. apply in_map_iff in Hr. destruct Hr as (p & E & Hp).
      eapply Permutation_in; [apply Permutation_sym; exact P2 | ]. apply in_map_iff. exists p.
      split; [exact E | apply Hset; exact Hp].
    + eapply Permutation_in in Hr; [ | exact P2]. apply in_map_iff in Hr. destruct Hr as (p & E & Hp).
      eapply Permutation_in; [apply Permutation_sym; exact P1 | ]. apply in_map_iff. exists p.
      split; [exact E | apply Hset; exact Hp].
  - unfold input_from_paths. apply new_input_same_set. intros r. split; intros Hr.
    + eapply Permutation_in; eassumption.
    + eapply Permutation_in; [apply Permutation_sym | ]; eassumption.
Qed.

Definition reference_input_prog : list (stmt iloc) :=
  [SLocal; SLock; SRead IErrors; SWrite IErrors; SLocal; SWrite IFiles; SUnlock; SLocal].

Example reference_input_prog_ok :
  all_shared_writes_locked iloc_eqb reference_input_prog = true /\
  cs_writes reference_input_prog = [IErrors; IFiles].
Proof. split; reflexivity. Qed.

Example input_example :
  let parse := fun p : str => match p with
                              | [98%N] => POk [98%N] [49%N]
                              | [46%N; 47%N; 98%N] => POk [98%N] [49%N]      (* ./b cleans to b *)
                              | [97%N] => POk [97%N] [50%N]
                              | _ => PErr
                              end in
  input_from_paths parse [[98%N]; [97%N]; [46%N; 47%N; 98%N]] = Some [[97%N]; [98%N]] /\
  input_from_paths parse [[97%N]; [99%N]] = None.
Proof. split; reflexivity. Qed.
