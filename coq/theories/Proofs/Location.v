(* C07 — proofs about Model/Location.v (location helpers, line table, LSP range). *)
From Regal Require Import Base.Str Model.Location.
From Coq Require Import ZArith Lia List Bool.
Import ListNotations.
Local Open Scope Z_scope.

(* ------------------------------------------------------------------ small facts *)

Lemma first_some_cons_some {A} (x : A) l : first_some (Some x :: l) = Some x.
Proof. reflexivity. Qed.

Lemma first_some_cons_none {A} (l : list (option A)) : first_some (None :: l) = first_some l.
Proof. reflexivity. Qed.

Lemma blank_length k : length (blank k) = k.
Proof. apply repeat_length. Qed.

Lemma nth_error_blank_app {A} (pre l : list A) n :
  nth_error (pre ++ l) (length pre + n) = nth_error l n.
Proof. induction pre as [|x pre IH]; simpl; auto. Qed.

Lemma zget_shift (lines : list str) (k : nat) (i : Z) :
  0 <= i -> zget (blank k ++ lines) (i + Z.of_nat k) = zget lines i.
Proof.
  intros Hi. unfold zget.
  destruct (i + Z.of_nat k <? 0) eqn:E1; [apply Z.ltb_lt in E1; lia|].
  destruct (i <? 0) eqn:E2; [apply Z.ltb_lt in E2; lia|].
  replace (Z.to_nat (i + Z.of_nat k)) with (length (blank k) + Z.to_nat i)%nat
    by (rewrite blank_length; lia).
  apply nth_error_blank_app.
Qed.

Lemma zget_in_range {A} (l : list A) (i : Z) :
  0 <= i < Z.of_nat (length l) -> exists x, zget l i = Some x.
Proof.
  intros [H0 H1]. unfold zget.
  destruct (i <? 0) eqn:E; [apply Z.ltb_lt in E; lia|].
  destruct (nth_error l (Z.to_nat i)) eqn:En; [eauto|].
  apply nth_error_None in En. lia.
Qed.

Lemma skipn_blank_app (lines : list str) (k n : nat) :
  skipn (n + k) (blank k ++ lines) = skipn n lines.
Proof.
  replace (n + k)%nat with (length (blank k) + n)%nat by (rewrite blank_length; lia).
  induction (blank k) as [|x pre IH]; simpl; auto.
Qed.

Lemma array_slice_shift (lines : list str) (k : nat) (a b : Z) :
  0 <= a ->
  array_slice (blank k ++ lines) (a + Z.of_nat k) (b + Z.of_nat k) = array_slice lines a b.
Proof.
  intros Ha. unfold array_slice.
  rewrite app_length, blank_length, Nat2Z.inj_add.
  set (n := Z.of_nat (length lines)). set (K := Z.of_nat k).
  assert (Hn : 0 <= n) by (unfold n; lia). assert (HK : 0 <= K) by (unfold K; lia).
  destruct (a <? 0) eqn:Ea; [apply Z.ltb_lt in Ea; lia|].
  destruct (a + K <? 0) eqn:EaK; [apply Z.ltb_lt in EaK; lia|].
  destruct (b <? 0) eqn:Eb.
  - apply Z.ltb_lt in Eb.
    replace (Z.to_nat (0 - Z.min a 0)) with 0%nat by lia. simpl firstn at 2.
    destruct (b + K <? 0) eqn:EbK.
    + replace (Z.to_nat (0 - Z.min (a + K) 0)) with 0%nat by lia. reflexivity.
    + apply Z.ltb_ge in EbK.
      replace (Z.to_nat (Z.min (b + K) (K + n) - Z.min (a + K) (Z.min (b + K) (K + n)))) with 0%nat by lia.
      reflexivity.
  - apply Z.ltb_ge in Eb.
    destruct (b + K <? 0) eqn:EbK; [apply Z.ltb_lt in EbK; lia|].
    replace (Z.min (b + K) (K + n)) with (Z.min b n + K) by lia.
    replace (Z.min (a + K) (Z.min b n + K)) with (Z.min a (Z.min b n) + K) by lia.
    replace (Z.min b n + K - (Z.min a (Z.min b n) + K)) with (Z.min b n - Z.min a (Z.min b n)) by lia.
    f_equal.
    replace (Z.to_nat (Z.min a (Z.min b n) + K)) with (Z.to_nat (Z.min a (Z.min b n)) + k)%nat by (unfold K; lia).
    apply skipn_blank_app.
Qed.

(* ------------------------------------------------------------------ shifting *)

Lemma location_to_text_shift lines (k : nat) r c er ec :
  1 <= r ->
  location_to_text (blank k ++ lines) (shift_quad (Z.of_nat k) (r, c, er, ec)) =
  location_to_text lines (r, c, er, ec).
Proof.
  intros Hr. unfold location_to_text, location_to_text_b1, location_to_text_b2, shift_quad.
  replace (r + Z.of_nat k =? er + Z.of_nat k) with (r =? er)
    by (destruct (r =? er) eqn:E; symmetry; [apply Z.eqb_eq in E; apply Z.eqb_eq; lia
                                             | apply Z.eqb_neq in E; apply Z.eqb_neq; lia]).
  replace (r + Z.of_nat k - 1) with ((r - 1) + Z.of_nat k) by lia.
  rewrite zget_shift by lia.
  rewrite array_slice_shift by lia.
  reflexivity.
Qed.

Lemma shift_obj_of_quad k q t : shift_obj k (obj_of_quad q t) = obj_of_quad (shift_quad k q) t.
Proof. destruct q as [[[r c] er] ec]. reflexivity. Qed.

Lemma to_location_object_q_shift lines (k : nat) r c er ec :
  1 <= r ->
  to_location_object_q (blank k ++ lines) (shift_quad (Z.of_nat k) (r, c, er, ec)) =
  option_map (shift_obj (Z.of_nat k)) (to_location_object_q lines (r, c, er, ec)).
Proof.
  intros Hr. unfold to_location_object_q.
  rewrite location_to_text_shift by assumption.
  destruct (location_to_text lines (r, c, er, ec)) as [t|]; simpl; [|reflexivity].
  reflexivity.
Qed.

Lemma with_text_shift lines (k : nat) f o :
  (forall r, lo_row o = Some r -> 1 <= r) ->
  with_text (blank k ++ lines) f (shift_obj (Z.of_nat k) o) =
  shift_obj (Z.of_nat k) (with_text lines f o).
Proof.
  intros Hpos. unfold with_text. destruct o as [row col text e file]; simpl in *.
  destruct row as [r|]; simpl; [|reflexivity].
  specialize (Hpos r eq_refl).
  replace (r + Z.of_nat k - 1) with ((r - 1) + Z.of_nat k) by lia.
  rewrite zget_shift by lia.
  destruct (zget lines (r - 1)); reflexivity.
Qed.

Lemma to_location_object_q_row lines q o :
  to_location_object_q lines q = Some o -> lo_row o = Some (fst (fst (fst q))).
Proof.
  unfold to_location_object_q. destruct (location_to_text lines q); [|discriminate].
  intros [= <-]. destruct q as [[[r c] er] ec]. reflexivity.
Qed.

Lemma locate_shift lines (k : nat) f l l' :
  shifted_val (Z.of_nat k) l l' ->
  locate (blank k ++ lines) f l' = option_map (shift_obj (Z.of_nat k)) (locate lines f l).
Proof.
  intros H. destruct H as [s s' Hs | o Ho | ]; unfold locate; simpl.
  - unfold shifted_str in Hs. destruct (parse_loc s) as [[[[r c] er] ec]|] eqn:Ep.
    + destruct Hs as [Hr Hs]. rewrite Hs.
      change (r + Z.of_nat k, c, er + Z.of_nat k, ec) with (shift_quad (Z.of_nat k) (r, c, er, ec)).
      rewrite to_location_object_q_shift by assumption.
      destruct (to_location_object_q lines (r, c, er, ec)) as [o|] eqn:Eo; simpl; [|reflexivity].
      f_equal. apply with_text_shift.
      intros r' Hr'. apply to_location_object_q_row in Eo. simpl in Eo. congruence.
    + rewrite Hs. reflexivity.
  - f_equal. apply with_text_shift. assumption.
  - reflexivity.
Qed.

Theorem location_shift lines (k : nat) f x x' :
  shifted_arg (Z.of_nat k) x x' ->
  location (blank k ++ lines) f x' = option_map (shift_obj (Z.of_nat k)) (location lines f x).
Proof.
  intros H. destruct H as [s s' Hs | l l' Hl | ls ls' Hls | ]; unfold location; simpl.
  - assert (H := locate_shift lines k f (LStr s) (LStr s') (SVStr _ _ _ Hs)).
    rewrite H. destruct (locate lines f (LStr s)); reflexivity.
  - rewrite (locate_shift lines k f l l' Hl). destruct (locate lines f l); reflexivity.
  - destruct Hls as [|l l' ls ls' Hl Hls]; simpl; [reflexivity|].
    rewrite (locate_shift lines k f l l' Hl). destruct (locate lines f l); reflexivity.
  - reflexivity.
Qed.

Lemma set_end_shift k o e :
  shift_obj k (set_end o e) = set_end (shift_obj k o) (fst e + k, snd e).
Proof. destruct o; reflexivity. Qed.

Theorem ranged_location_between_shift lines (k : nat) f x x' y y' :
  shifted_arg (Z.of_nat k) x x' -> shifted_arg (Z.of_nat k) y y' ->
  ranged_location_between (blank k ++ lines) f x' y' =
  option_map (shift_obj (Z.of_nat k)) (ranged_location_between lines f x y).
Proof.
  intros Hx Hy. unfold ranged_location_between.
  rewrite (location_shift lines k f x x' Hx), (location_shift lines k f y y' Hy).
  destruct (location lines f x) as [lx|]; simpl; [|reflexivity].
  destruct (location lines f y) as [ly|]; simpl; [|reflexivity].
  destruct ly as [row col text e file]; simpl. destruct e as [e|]; simpl; [|reflexivity].
  rewrite set_end_shift. reflexivity.
Qed.

Lemma last_opt_Forall2 {A B} (R : A -> B -> Prop) l l' :
  Forall2 R l l' ->
  match last_opt l, last_opt l' with
  | Some a, Some b => R a b
  | None, None => True
  | _, _ => False
  end.
Proof.
  induction 1 as [|a b l l' Hab Hl IH]; simpl; [exact I|].
  destruct Hl as [|a2 b2 l2 l2' H2 Hl2]; [exact Hab|]. exact IH.
Qed.

Theorem ranged_from_ref_shift lines (k : nat) f ref ref' :
  Forall2 (shifted_arg (Z.of_nat k)) ref ref' ->
  ranged_from_ref (blank k ++ lines) f ref' =
  option_map (shift_obj (Z.of_nat k)) (ranged_from_ref lines f ref).
Proof.
  intros H. pose proof (last_opt_Forall2 _ _ _ H) as Hl.
  unfold ranged_from_ref. destruct H as [|x x' r r' Hx Hr]; [reflexivity|].
  destruct (last_opt (x :: r)) as [y|], (last_opt (x' :: r')) as [y'|]; try contradiction; [|reflexivity].
  apply ranged_location_between_shift; assumption.
Qed.

(* ------------------------------------------------------------------ split / join *)

Lemma split_on_app_sep c a rest :
  ~ In c a -> split_on c (a ++ c :: rest) = a :: split_on c rest.
Proof.
  induction a as [|x a IH]; intros Hn; simpl.
  - rewrite N.eqb_refl. reflexivity.
  - destruct (N.eqb_spec x c) as [->|Hne]; [exfalso; apply Hn; left; reflexivity|].
    rewrite IH by (intros H; apply Hn; right; assumption). reflexivity.
Qed.

Lemma split_on_no_sep_id c a : ~ In c a -> split_on c a = [a].
Proof.
  induction a as [|x a IH]; intros Hn; simpl; [reflexivity|].
  destruct (N.eqb_spec x c) as [->|Hne]; [exfalso; apply Hn; left; reflexivity|].
  rewrite IH by (intros H; apply Hn; right; assumption). reflexivity.
Qed.

Lemma split_join c (ls : list str) :
  ls <> [] -> (forall l, In l ls -> ~ In c l) -> split_on c (join [c] ls) = ls.
Proof.
  induction ls as [|l ls IH]; intros Hne Hno; [contradiction|].
  destruct ls as [|l2 ls].
  - simpl. apply split_on_no_sep_id. apply Hno. left; reflexivity.
  - rewrite join_cons2. simpl app.
    rewrite split_on_app_sep by (apply Hno; left; reflexivity).
    f_equal. apply IH; [discriminate|]. intros l' Hl'. apply Hno. right; assumption.
Qed.

Lemma split4_parts s a b c d :
  split4 s = Some (a, b, c, d) -> ~ In COLON a /\ ~ In COLON b /\ ~ In COLON c /\ ~ In COLON d.
Proof.
  unfold split4. destruct (split_on COLON s) as [|a' [|b' [|c' [|d' [|? ?]]]]] eqn:E; try discriminate.
  intros [= <- <- <- <-].
  repeat split; apply (split_on_no_sep COLON s); rewrite E; simpl; auto.
Qed.

Lemma split4_loc_string a b c d :
  ~ In COLON a -> ~ In COLON b -> ~ In COLON c -> ~ In COLON d ->
  split4 (loc_string a b c d) = Some (a, b, c, d).
Proof.
  intros Ha Hb Hc Hd. unfold split4, loc_string. simpl app.
  rewrite !split_on_app_sep by assumption.
  rewrite split_on_no_sep_id by assumption. reflexivity.
Qed.

Lemma parse_loc_split4 s q :
  parse_loc s = Some q ->
  exists a b c d, split4 s = Some (a, b, c, d) /\
    read_Z a = Some (fst (fst (fst q))) /\ read_Z b = Some (snd (fst (fst q))) /\
    read_Z c = Some (snd (fst q)) /\ read_Z d = Some (snd q).
Proof.
  unfold parse_loc. destruct (split4 s) as [[[[a b] c] d]|]; [|discriminate].
  destruct (read_Z a) eqn:Ea; [|discriminate]. destruct (read_Z b) eqn:Eb; [|discriminate].
  destruct (read_Z c) eqn:Ec; [|discriminate]. destruct (read_Z d) eqn:Ed; [|discriminate].
  intros [= <-]. exists a, b, c, d. simpl. repeat split; assumption || reflexivity.
Qed.

(* infix_expr_location on two parseable strings is location of the combined quad *)
Lemma infix_combined lines f expr s1 s2 r1 c1 er1 ec1 r2 c2 er2 ec2 :
  nth_error expr 1 = Some (LStr s1) -> last_opt expr = Some (LStr s2) ->
  parse_loc s1 = Some (r1, c1, er1, ec1) -> parse_loc s2 = Some (r2, c2, er2, ec2) ->
  exists s, parse_loc s = Some (r1, c1, er2, ec2) /\
            infix_expr_location lines f expr = location lines f (AStr s).
Proof.
  intros H1 H2 P1 P2.
  destruct (parse_loc_split4 _ _ P1) as (a1 & b1 & x1 & y1 & S1 & Ra1 & Rb1 & _ & _).
  destruct (parse_loc_split4 _ _ P2) as (a2 & b2 & x2 & y2 & S2 & _ & _ & Rc2 & Rd2).
  simpl in Ra1, Rb1, Rc2, Rd2.
  destruct (split4_parts _ _ _ _ _ S1) as (Na1 & Nb1 & _ & _).
  destruct (split4_parts _ _ _ _ _ S2) as (_ & _ & Nx2 & Ny2).
  exists (loc_string a1 b1 x2 y2). split.
  - unfold parse_loc. rewrite split4_loc_string by assumption.
    rewrite Ra1, Rb1, Rc2, Rd2. reflexivity.
  - unfold infix_expr_location. rewrite H1, H2, S1, S2. reflexivity.
Qed.

Lemma nth_error_Forall2 {A B} (R : A -> B -> Prop) l l' n :
  Forall2 R l l' ->
  match nth_error l n, nth_error l' n with
  | Some a, Some b => R a b
  | None, None => True
  | _, _ => False
  end.
Proof.
  intros H. revert n. induction H as [|a b l l' Hab Hl IH]; intros [|n]; simpl; auto.
  apply IH.
Qed.

Lemma location_AStr_parse lines f s s' :
  parse_loc s = parse_loc s' -> location lines f (AStr s) = location lines f (AStr s').
Proof. intros H. unfold location, location_b3, locate; simpl. rewrite H. reflexivity. Qed.

Theorem infix_expr_location_shift lines (k : nat) f expr expr' :
  Forall2 (shifted_val (Z.of_nat k)) expr expr' ->
  (forall s, nth_error expr 1 = Some (LStr s) -> parse_loc s <> None) ->
  (forall s, last_opt expr = Some (LStr s) -> parse_loc s <> None) ->
  infix_expr_location (blank k ++ lines) f expr' =
  option_map (shift_obj (Z.of_nat k)) (infix_expr_location lines f expr).
Proof.
  intros HF Hp1 Hp2.
  pose proof (nth_error_Forall2 _ _ _ 1%nat HF) as Hn.
  pose proof (last_opt_Forall2 _ _ _ HF) as Hl.
  destruct (nth_error expr 1) as [v1|] eqn:E1, (nth_error expr' 1) as [v1'|] eqn:E1'; try contradiction.
  2:{ unfold infix_expr_location. rewrite E1, E1'. reflexivity. }
  destruct (last_opt expr) as [v2|] eqn:E2, (last_opt expr') as [v2'|] eqn:E2'; try contradiction.
  2:{ unfold infix_expr_location. rewrite E1, E1', E2, E2'. destruct v1, v1'; reflexivity. }
  destruct Hn as [s1 s1' Hs1 | o1 Ho1 | ].
  2:{ unfold infix_expr_location. rewrite E1, E1'. reflexivity. }
  2:{ unfold infix_expr_location. rewrite E1, E1'. reflexivity. }
  destruct Hl as [s2 s2' Hs2 | o2 Ho2 | ].
  2:{ unfold infix_expr_location. rewrite E1, E1', E2, E2'. reflexivity. }
  2:{ unfold infix_expr_location. rewrite E1, E1', E2, E2'. reflexivity. }
  unfold shifted_str in Hs1, Hs2.
  specialize (Hp1 s1 eq_refl). specialize (Hp2 s2 eq_refl).
  destruct (parse_loc s1) as [[[[r1 c1] er1] ec1]|] eqn:P1; [|congruence].
  destruct (parse_loc s2) as [[[[r2 c2] er2] ec2]|] eqn:P2; [|congruence].
  destruct Hs1 as [Hr1 P1']. destruct Hs2 as [Hr2 P2'].
  destruct (infix_combined lines f expr s1 s2 _ _ _ _ _ _ _ _ E1 E2 P1 P2) as (s & Ps & Hs).
  destruct (infix_combined (blank k ++ lines) f expr' s1' s2' _ _ _ _ _ _ _ _ E1' E2' P1' P2') as (s' & Ps' & Hs').
  rewrite Hs, Hs'. apply location_shift. constructor.
  unfold shifted_str. rewrite Ps. split; assumption.
Qed.

(* ------------------------------------------------------------------ inside the file *)

Lemma substring_defined s off len : 0 <= off -> exists t, substring s off len = Some t.
Proof.
  intros H. unfold substring. destruct (off <? 0) eqn:E; [apply Z.ltb_lt in E; lia|]. eauto.
Qed.

Lemma location_to_text_defined lines r c er ec :
  wf_quad lines (r, c, er, ec) -> exists t, location_to_text lines (r, c, er, ec) = Some t.
Proof.
  intros (Hr & Hc & _). unfold location_to_text, location_to_text_b1, location_to_text_b2.
  destruct (r =? er) eqn:E.
  - destruct (zget_in_range lines (r - 1)) as [line Hl]; [lia|]. rewrite Hl.
    destruct (substring_defined line (c - 1) (ec - c)) as [t Ht]; [lia|]. rewrite Ht. simpl. eauto.
  - simpl. eauto.
Qed.

Lemma locate_in_file lines f s r c er ec :
  parse_loc s = Some (r, c, er, ec) -> wf_quad lines (r, c, er, ec) ->
  exists L, locate lines f (LStr s) = Some L /\ inside lines f (r, c) (er, ec) L.
Proof.
  intros Hp Hwf. unfold locate. simpl. rewrite Hp.
  destruct (location_to_text_defined lines r c er ec Hwf) as [t Ht].
  unfold to_location_object_q. rewrite Ht. simpl.
  destruct Hwf as (Hr & Hc & Hle).
  destruct (zget_in_range lines (r - 1)) as [line Hl]; [lia|].
  unfold with_text. simpl. rewrite Hl.
  eexists. split; [reflexivity|]. unfold inside; simpl.
  repeat split; try assumption; try lia. exists line. auto.
Qed.

Lemma location_of_arg_string lines f x s :
  arg_string x = Some s -> location lines f x = locate lines f (LStr s).
Proof.
  unfold location. destruct x as [s0 | [s0|o|] | [|[s0|o|] ns] | ]; simpl; try discriminate;
    intros [= ->]; destruct (locate lines f (LStr s)); reflexivity.
Qed.

Theorem location_in_file lines f x s r c er ec :
  arg_string x = Some s -> parse_loc s = Some (r, c, er, ec) -> wf_quad lines (r, c, er, ec) ->
  exists L, location lines f x = Some L /\ inside lines f (r, c) (er, ec) L.
Proof.
  intros Hx Hp Hwf. rewrite (location_of_arg_string _ _ _ _ Hx). apply locate_in_file; assumption.
Qed.

Theorem ranged_location_between_in_file lines f x y sx sy r c er ec r2 c2 er2 ec2 :
  arg_string x = Some sx -> parse_loc sx = Some (r, c, er, ec) -> wf_quad lines (r, c, er, ec) ->
  arg_string y = Some sy -> parse_loc sy = Some (r2, c2, er2, ec2) -> wf_quad lines (r2, c2, er2, ec2) ->
  pos_le (r, c) (er2, ec2) ->
  exists L, ranged_location_between lines f x y = Some L /\ inside lines f (r, c) (er2, ec2) L.
Proof.
  intros Hx Hpx Hwx Hy Hpy Hwy Hle.
  destruct (location_in_file lines f x sx _ _ _ _ Hx Hpx Hwx) as (Lx & Elx & Ix).
  destruct (location_in_file lines f y sy _ _ _ _ Hy Hpy Hwy) as (Ly & Ely & Iy).
  unfold ranged_location_between. rewrite Elx, Ely.
  destruct Iy as (_ & _ & _ & _ & _ & Eend & _). rewrite Eend.
  eexists. split; [reflexivity|].
  destruct Ix as (Hf & Hrow & Hcol & Hr & Htext & _ & _).
  unfold inside, set_end; simpl.
  split; [assumption|]. split; [assumption|]. split; [assumption|]. split; [assumption|].
  split; [assumption|]. split; [reflexivity | assumption].
Qed.

Lemma last_opt_cons_some {A} (x : A) l : exists y, last_opt (x :: l) = Some y.
Proof.
  revert x. induction l as [|z l IH]; intros x; simpl; [eauto|]. apply IH.
Qed.

Theorem ranged_from_ref_in_file lines f ref x y sx sy r c er ec r2 c2 er2 ec2 :
  nth_error ref 0 = Some x -> last_opt ref = Some y ->
  arg_string x = Some sx -> parse_loc sx = Some (r, c, er, ec) -> wf_quad lines (r, c, er, ec) ->
  arg_string y = Some sy -> parse_loc sy = Some (r2, c2, er2, ec2) -> wf_quad lines (r2, c2, er2, ec2) ->
  pos_le (r, c) (er2, ec2) ->
  exists L, ranged_from_ref lines f ref = Some L /\ inside lines f (r, c) (er2, ec2) L.
Proof.
  intros H0 Hl. unfold ranged_from_ref. destruct ref as [|x0 ref]; [discriminate|].
  simpl in H0. injection H0 as ->. rewrite Hl.
  apply ranged_location_between_in_file.
Qed.

Theorem infix_expr_location_in_file lines f expr s1 s2 r1 c1 er1 ec1 r2 c2 er2 ec2 :
  nth_error expr 1 = Some (LStr s1) -> last_opt expr = Some (LStr s2) ->
  parse_loc s1 = Some (r1, c1, er1, ec1) -> parse_loc s2 = Some (r2, c2, er2, ec2) ->
  1 <= r1 <= Z.of_nat (length lines) -> 1 <= c1 -> pos_le (r1, c1) (er2, ec2) ->
  exists L, infix_expr_location lines f expr = Some L /\ inside lines f (r1, c1) (er2, ec2) L.
Proof.
  intros H1 H2 P1 P2 Hr Hc Hle.
  destruct (infix_combined lines f expr s1 s2 _ _ _ _ _ _ _ _ H1 H2 P1 P2) as (s & Ps & Hs).
  rewrite Hs. apply (location_in_file lines f (AStr s) s); [reflexivity | assumption |].
  unfold wf_quad. auto.
Qed.

(* ------------------------------------------------------------------ bodies never conflict *)

Lemma cut_col_bodies_exclusive i len line col ec :
  at_most_one [cut_col_b1 i len line col ec; cut_col_b2 i len line col ec; cut_col_b3 i len line col ec].
Proof.
  unfold at_most_one, cut_col_b1, cut_col_b2, cut_col_b3.
  intros a b x y Ha Hb.
  destruct (i =? 0) eqn:E0; destruct (len =? 1) eqn:E1; destruct (1 <? len) eqn:E2;
    destruct (i =? len) eqn:E3; destruct (0 <? i) eqn:E4;
    repeat match goal with
           | H : (_ =? _) = true |- _ => apply Z.eqb_eq in H
           | H : (_ =? _) = false |- _ => apply Z.eqb_neq in H
           | H : (_ <? _) = true |- _ => apply Z.ltb_lt in H
           | H : (_ <? _) = false |- _ => apply Z.ltb_ge in H
           end; try lia;
    simpl in Ha, Hb;
    destruct a as [|[|[|a]]]; destruct b as [|[|[|b]]]; simpl in Ha, Hb;
    try discriminate; try reflexivity; try (destruct a; discriminate); try (destruct b; discriminate).
Qed.

Lemma location_to_text_bodies_exclusive lines q :
  at_most_one [location_to_text_b1 lines q; location_to_text_b2 lines q].
Proof.
  unfold at_most_one, location_to_text_b1, location_to_text_b2. destruct q as [[[r c] er] ec].
  intros a b x y Ha Hb.
  destruct (r =? er); destruct a as [|[|a]]; destruct b as [|[|b]]; simpl in Ha, Hb;
    try discriminate; try reflexivity; try (destruct a; discriminate); try (destruct b; discriminate).
Qed.

Lemma location_bodies_exclusive lines f x :
  at_most_one [location_b1 lines f x; location_b2 lines f x; location_b3 lines f x].
Proof.
  unfold at_most_one, location_b1, location_b2, location_b3.
  intros a b u v Ha Hb.
  destruct x as [s | l | [|l ls] | ]; destruct a as [|[|[|a]]]; destruct b as [|[|[|b]]]; simpl in Ha, Hb;
    try discriminate; try reflexivity; try (destruct a; discriminate); try (destruct b; discriminate).
Qed.

(* ------------------------------------------------------------------ the line table *)

Lemma crlf_norm_cons2 x y t :
  crlf_norm (x :: y :: t) =
  if N.eqb x CR && N.eqb y LF then LF :: crlf_norm t else x :: crlf_norm (y :: t).
Proof. reflexivity. Qed.

Lemma crlf_norm_not_cr x t : x <> CR -> crlf_norm (x :: t) = x :: crlf_norm t.
Proof.
  intros Hx. destruct t as [|y t]; [reflexivity|]. rewrite crlf_norm_cons2.
  destruct (N.eqb_spec x CR) as [->|_]; [contradiction|]. reflexivity.
Qed.

Lemma crlf_norm_no_cr l : ~ In CR l -> crlf_norm l = l.
Proof.
  induction l as [|x l IH]; intros Hn; [reflexivity|].
  rewrite crlf_norm_not_cr by (intros ->; apply Hn; left; reflexivity).
  f_equal. apply IH. intros H; apply Hn; right; assumption.
Qed.

Lemma crlf_norm_app_crlf l rest :
  ~ In CR l -> crlf_norm (l ++ CR :: LF :: rest) = l ++ LF :: crlf_norm rest.
Proof.
  induction l as [|x l IH]; intros Hn.
  - simpl app. rewrite crlf_norm_cons2. reflexivity.
  - change ((x :: l) ++ CR :: LF :: rest) with (x :: (l ++ CR :: LF :: rest)).
    rewrite crlf_norm_not_cr by (intros ->; apply Hn; left; reflexivity).
    rewrite IH by (intros H; apply Hn; right; assumption). reflexivity.
Qed.

Lemma crlf_norm_app_lf l rest :
  ~ In CR l -> crlf_norm (l ++ LF :: rest) = l ++ LF :: crlf_norm rest.
Proof.
  induction l as [|x l IH]; intros Hn.
  - simpl app. apply crlf_norm_not_cr. discriminate.
  - change ((x :: l) ++ LF :: rest) with (x :: (l ++ LF :: rest)).
    rewrite crlf_norm_not_cr by (intros ->; apply Hn; left; reflexivity).
    rewrite IH by (intros H; apply Hn; right; assumption). reflexivity.
Qed.

Lemma crlf_norm_join_crlf (ls : list str) :
  (forall l, In l ls -> ~ In CR l) -> crlf_norm (join [CR; LF] ls) = join [LF] ls.
Proof.
  induction ls as [|l ls IH]; intros Hno; [reflexivity|].
  destruct ls as [|l2 ls].
  - simpl. apply crlf_norm_no_cr. apply Hno. left; reflexivity.
  - rewrite !join_cons2. cbn [app].
    rewrite crlf_norm_app_crlf by (apply Hno; left; reflexivity).
    rewrite IH by (intros l' Hl'; apply Hno; right; assumption). reflexivity.
Qed.

Lemma crlf_norm_join_lf (ls : list str) :
  (forall l, In l ls -> ~ In CR l) -> crlf_norm (join [LF] ls) = join [LF] ls.
Proof.
  induction ls as [|l ls IH]; intros Hno; [reflexivity|].
  destruct ls as [|l2 ls].
  - simpl. apply crlf_norm_no_cr. apply Hno. left; reflexivity.
  - rewrite !join_cons2. cbn [app].
    rewrite crlf_norm_app_lf by (apply Hno; left; reflexivity).
    rewrite IH by (intros l' Hl'; apply Hno; right; assumption). reflexivity.
Qed.

(* a file written with CRLF line ends has the same line table as its LF twin: the lines themselves *)
Theorem crlf_lines (ls : list str) :
  ls <> [] -> (forall l, In l ls -> ~ In CR l /\ ~ In LF l) ->
  file_lines (join [CR; LF] ls) = ls /\ file_lines (join [LF] ls) = ls.
Proof.
  intros Hne Hno. unfold file_lines.
  rewrite crlf_norm_join_crlf, crlf_norm_join_lf by (intros l Hl; apply Hno; assumption).
  split; apply split_join; try assumption; intros l Hl; apply Hno; assumption.
Qed.

Lemma crlf_norm_lf_cons s : crlf_norm (LF :: s) = LF :: crlf_norm s.
Proof. apply crlf_norm_not_cr. discriminate. Qed.

(* k blank lines on top of the content = k empty lines in front of the line table *)
Theorem blank_lines_prefix (k : nat) (content : str) :
  file_lines (repeat LF k ++ content) = blank k ++ file_lines content.
Proof.
  unfold file_lines. induction k as [|k IH]; [reflexivity|].
  simpl repeat. simpl app. rewrite crlf_norm_lf_cons. simpl split_on. rewrite IH. reflexivity.
Qed.

(* ------------------------------------------------------------------ LSP range *)

Lemma uint_pred_mono a b : a <= b -> (uint_pred a <= uint_pred b)%N.
Proof. intros H. unfold uint_pred. lia. Qed.

(* start <= end for every location whose end is not before its start — provided the start row is a row
   of a file (>= 1) whenever there is an explicit end; violations without position have row 0 and no end *)
Theorem lsp_range_wf (l : rloc) :
  (forall e, r_end l = Some e -> 1 <= r_row l /\ pos_le (r_row l, r_col l) e) ->
  npos_le (fst (lsp_range l)) (snd (lsp_range l)).
Proof.
  intros H. unfold lsp_range, npos_le. destruct (r_end l) as [[er ec]|] eqn:E; simpl.
  - destruct (H _ eq_refl) as [Hrow Hle]. unfold pos_le in Hle; simpl in Hle.
    unfold uint_pred. destruct Hle as [Hlt | [-> Hc]].
    + left. lia.
    + right. split; [reflexivity | lia].
  - right. split; [reflexivity | lia].
Qed.

(* without the row condition the clamping to line 0 can reverse the order *)
Lemma lsp_range_unclamped_refuted :
  exists l, (forall e, r_end l = Some e -> pos_le (r_row l, r_col l) e) /\
            ~ npos_le (fst (lsp_range l)) (snd (lsp_range l)).
Proof.
  exists {| r_row := 0; r_col := 5; r_end := Some (1, 1); r_text := None |}. split.
  - intros e [= <-]. left. simpl. lia.
  - unfold npos_le. vm_compute. intros [H | [_ H]]; [discriminate H | apply H; reflexivity].
Qed.

(* inside a file the conversion is exact: zero-based line / character *)
Lemma lsp_range_exact r c er ec t :
  1 <= r -> 1 <= c -> 1 <= er -> 1 <= ec ->
  lsp_range {| r_row := r; r_col := c; r_end := Some (er, ec); r_text := t |} =
  ((Z.to_N (r - 1), Z.to_N (c - 1)), (Z.to_N (er - 1), Z.to_N (ec - 1))).
Proof.
  intros. unfold lsp_range, uint_pred; simpl. rewrite !Z.max_l by lia. reflexivity.
Qed.

(* ------------------------------------------------------------------ the fuel of [runes] always suffices *)

Lemma rune_width_pos b : (1 <= rune_width b)%nat.
Proof. unfold rune_width. destruct (b <? 192)%N, (b <? 224)%N, (b <? 240)%N; lia. Qed.

Lemma runes_fuel_concat (fuel : nat) (s : str) :
  (length s <= fuel)%nat -> concat (runes_fuel fuel s) = s.
Proof.
  revert s. induction fuel as [|f IH]; intros s Hlen.
  - destruct s; [reflexivity | simpl in Hlen; lia].
  - destruct s as [|b s']; [reflexivity|].
    cbn [runes_fuel concat].
    rewrite IH.
    + apply firstn_skipn.
    + rewrite skipn_length. pose proof (rune_width_pos b). simpl length in *. lia.
Qed.

(* no byte is lost: [runes] never runs out of fuel *)
Lemma runes_concat (s : str) : concat (runes s) = s.
Proof. apply runes_fuel_concat. unfold runes. lia. Qed.

(* substring with offset 0 and "to the end" is the identity — e.g. _cut_col's whole-line cases *)
Lemma substring_whole (s : str) : substring s 0 (-1) = Some s.
Proof. unfold substring. simpl. f_equal. apply runes_concat. Qed.
