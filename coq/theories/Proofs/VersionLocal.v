(* C20 — locality of the Rego-version lookup: only the configured directories that are ancestors of the
   file's directory can influence the version chosen for it.  Built on [lookup_selects_deepest]. *)
From Coq Require Import List Lia.
From Regal Require Import Base.PathModel Model.Version Proofs.PathLemmas Proofs.Version.
Import ListNotations.
Local Open Scope nat_scope.

(* among the entries of a finite map either none is an ancestor of [ds] or a deepest ancestor exists *)
Lemma deepest_exists (m : list (list str * version)) (ds : list str) :
  (forall ks v, In (ks, v) m -> comps_prefix ks ds = false) \/
  (exists ks v, In (ks, v) m /\ comps_prefix ks ds = true /\
     forall ks' v', In (ks', v') m -> comps_prefix ks' ds = true -> length ks' <= length ks).
Proof.
  induction m as [|[k0 v0] m IH].
  - left. intros ks v [].
  - destruct (comps_prefix k0 ds) eqn:Hk0.
    + right. destruct IH as [Hnone | (ks & v & Hin & Hpre & Hmax)].
      * exists k0, v0. split; [left; reflexivity|]. split; [exact Hk0|].
        intros ks' v' [E | Hin'] Hpre'.
        -- inversion E; subst. lia.
        -- rewrite (Hnone _ _ Hin') in Hpre'. discriminate.
      * destruct (Nat.le_gt_cases (length ks) (length k0)) as [Hle | Hgt].
        -- exists k0, v0. split; [left; reflexivity|]. split; [exact Hk0|].
           intros ks' v' [E | Hin'] Hpre'.
           ++ inversion E; subst. lia.
           ++ specialize (Hmax _ _ Hin' Hpre'). lia.
        -- exists ks, v. split; [right; exact Hin|]. split; [exact Hpre|].
           intros ks' v' [E | Hin'] Hpre'.
           ++ inversion E; subst. lia.
           ++ exact (Hmax _ _ Hin' Hpre').
    + destruct IH as [Hnone | (ks & v & Hin & Hpre & Hmax)].
      * left. intros ks v [E | Hin].
        -- inversion E; subst. exact Hk0.
        -- exact (Hnone _ _ Hin).
      * right. exists ks, v. split; [right; exact Hin|]. split; [exact Hpre|].
        intros ks' v' [E | Hin'] Hpre'.
        -- inversion E; subst. rewrite Hk0 in Hpre'. discriminate.
        -- exact (Hmax _ _ Hin' Hpre').
Qed.

(* Two versions maps that agree on the ancestors of the file's directory choose the same version for the
   file, whatever else they contain (siblings, deeper directories, unrelated roots) and in whatever order. *)
Theorem lookup_local (m m' : list (list str * version)) ds base default :
  Forall (fun kv => good_comps (fst kv)) m -> NoDup (map fst m) ->
  Forall (fun kv => good_comps (fst kv)) m' -> NoDup (map fst m') ->
  good_comps ds -> ~ In SLASH base ->
  (forall ks v, comps_prefix ks ds = true -> (In (ks, v) m <-> In (ks, v) m')) ->
  version_from_map (keys_of m) (file_of ds base) default =
  version_from_map (keys_of m') (file_of ds base) default.
Proof.
  intros Hm Hnd Hm' Hnd' Hd Hb Hagree.
  destruct (lookup_selects_deepest m ds base default Hm Hnd Hd Hb) as [A1 A2].
  destruct (lookup_selects_deepest m' ds base default Hm' Hnd' Hd Hb) as [B1 B2].
  cbn zeta in A1, A2, B1, B2.
  destruct (deepest_exists m ds) as [Hnone | (ks & v & Hin & Hpre & Hmax)].
  - rewrite (A2 Hnone). symmetry. apply B2.
    intros ks v Hin'. destruct (comps_prefix ks ds) eqn:Hp; [|reflexivity].
    apply (Hagree _ _ Hp) in Hin'. rewrite (Hnone _ _ Hin') in Hp. discriminate.
  - rewrite (A1 ks v Hin Hpre Hmax). symmetry. apply (B1 ks v).
    + apply (Hagree _ _ Hpre). exact Hin.
    + exact Hpre.
    + intros ks' v' Hin' Hpre'. apply (Hmax ks' v'); [|exact Hpre'].
      apply (Hagree _ _ Hpre'). exact Hin'.
Qed.

(* in particular: configuring one more directory that is not an ancestor of the file changes nothing *)
Corollary unrelated_key_irrelevant (m : list (list str * version)) k0 v0 ds base default :
  Forall (fun kv => good_comps (fst kv)) m -> good_comps k0 -> NoDup (k0 :: map fst m) ->
  good_comps ds -> ~ In SLASH base -> comps_prefix k0 ds = false ->
  version_from_map (keys_of ((k0, v0) :: m)) (file_of ds base) default =
  version_from_map (keys_of m) (file_of ds base) default.
Proof.
  intros Hm Hk0 Hnd Hd Hb Hk.
  apply lookup_local; try assumption.
  - constructor; assumption.
  - inversion Hnd; assumption.
  - intros ks v Hp. split.
    + intros [E | Hin]; [|exact Hin]. inversion E; subst. rewrite Hk in Hp. discriminate.
    + intros Hin. right. exact Hin.
Qed.
