(* Obligations on the shapes regenerated from the working tree (Gen/LinterShape.v): the per-file
   goroutine of lintWithRegoRules and the parser goroutine of InputFromPaths keep every access
   to their shared variables inside one critical section, and what they write there is what
   Model/Sched.v calls merge / imerge.  Discharged by computation on every run. *)
From Regal Require Import Model.Sched Model.BaseCache Gen.LinterShape.

Definition lint_prog : list (stmt lloc) := lint_prog_of lint_worker_mutex lint_worker_shape.
Definition input_prog : list (stmt iloc) := input_prog_of input_worker_mutex input_worker_shape.

Lemma lint_shape_ok :
  lint_worker_found = true /\
  all_shared_writes_locked lloc_eqb lint_prog = true /\
  modelled_writes lint_prog = [LViol; LNotice; LAggs; LDirs].
Proof. vm_compute. repeat split. Qed.

Lemma input_shape_ok :
  input_worker_found = true /\
  all_shared_writes_locked iloc_eqb input_prog = true /\
  cs_writes input_prog = [IErrors; IFiles].
Proof. vm_compute. repeat split. Qed.

Definition cache_get_prog : list (stmt cloc) := cache_prog_of cache_get_mutex cache_get_shape.
Definition cache_put_prog : list (stmt cloc) := cache_prog_of cache_put_mutex cache_put_shape.

Lemma cache_shapes_ok :
  cache_get_found = true /\ cache_method_locked cache_get_prog = true /\
  cache_put_found = true /\ cache_method_locked cache_put_prog = true.
Proof. vm_compute. repeat split. Qed.
