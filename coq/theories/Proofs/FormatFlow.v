(* Proofs about Model/FormatFlow.v: every server-level flow that sends edits sends edits that turn
   the text the client holds into the text the server intends.  Corollaries of
   compute_edits_sound / compute_edits_total: the only thing to show is that `before` is the
   cache content in every branch. *)
From Regal Require Import Model.FormatFlow Proofs.DiffSound Proofs.DiffTotal.
Open Scope Z_scope.

Lemma edits_for_inv before after stored es intended st :
  edits_for before after stored = FEdits es intended st ->
  compute_edits before after = Ok es /\ intended = after /\ st = stored.
Proof.
  unfold edits_for. destruct (compute_edits before after) as [es'| |] eqn:E; intros H; try discriminate.
  inversion H. auto.
Qed.

Lemma edits_for_reproduces before after stored es intended st :
  edits_for before after stored = FEdits es intended st ->
  reproduces es before intended /\ st = stored.
Proof.
  intros H. apply edits_for_inv in H. destruct H as [Hc [-> ->]].
  split; [|reflexivity]. exact (compute_edits_sound_proof before after es Hc).
Qed.

Lemma edits_for_not_broken before after stored : edits_for before after stored <> FBroken.
Proof.
  unfold edits_for. destruct (compute_edits_total_proof before after) as [es ->]. discriminate.
Qed.

Lemma is_empty_nil s : is_empty s = true -> s = [].
Proof. destruct s; [reflexivity | discriminate]. Qed.

Lemma template_guard_some c d t r : template_guard c d t = Some r -> t = Some r.
Proof.
  unfold template_guard. destruct c; simpl; [|discriminate].
  destruct d as [[|x d']|]; auto; discriminate.
Qed.

Lemma formatting_reproduces_intended_proof k in_root ignored disk template formatter cache es intended stored :
  formatting_flow k in_root ignored disk template formatter cache = FEdits es intended stored ->
  reproduces es (content cache) intended /\
  (stored = None \/ stored = Some intended) /\
  (stored = Some intended -> content cache = [] /\ template = Some intended) /\
  (stored = None -> formatter (content cache) = ONew intended).
Proof.
  unfold formatting_flow. intros H.
  destruct (is_empty (content cache)) eqn:He.
  - destruct in_root; [discriminate|].
    destruct (template_guard (negb ignored && is_some cache) disk template) as [t|] eqn:Ht; [|discriminate].
    pose proof (edits_for_inv _ _ _ _ _ _ H) as [_ [-> _]].
    apply edits_for_reproduces in H. destruct H as [Hr ->].
    split; [exact Hr|]. split; [right; reflexivity|]. split.
    + intros _. split; [apply is_empty_nil; exact He | exact (template_guard_some _ _ _ _ Ht)].
    + discriminate.
  - destruct k.
    + destruct (formatter (content cache)) as [n| |] eqn:Hf; try discriminate.
      pose proof (edits_for_inv _ _ _ _ _ _ H) as [_ [-> _]].
      apply edits_for_reproduces in H. destruct H as [Hr ->].
      split; [exact Hr|]. split; [left; reflexivity|]. split; [discriminate | reflexivity].
    + destruct (formatter (content cache)) as [n| |] eqn:Hf; try discriminate.
      pose proof (edits_for_inv _ _ _ _ _ _ H) as [_ [-> _]].
      apply edits_for_reproduces in H. destruct H as [Hr ->].
      split; [exact Hr|]. split; [left; reflexivity|]. split; [discriminate | reflexivity].
    + discriminate.
Qed.

Lemma fix_reproduces_intended_proof fixf cache es intended stored :
  fix_flow fixf cache = FEdits es intended stored ->
  exists c, cache = Some c /\ reproduces es c intended /\ stored = None /\ fixf c = ONew intended.
Proof.
  unfold fix_flow. destruct cache as [c|]; [|discriminate].
  destruct (fixf c) as [n| |] eqn:Hf; try discriminate. intros H.
  pose proof (edits_for_inv _ _ _ _ _ _ H) as [_ [-> _]].
  apply edits_for_reproduces in H. destruct H as [Hr ->].
  exists c. auto.
Qed.

Lemma template_worker_reproduces_intended_proof in_root disk template cache es intended stored :
  template_worker_flow in_root disk template cache = FEdits es intended stored ->
  reproduces es (content cache) intended /\ stored = Some intended /\ template = Some intended /\ cache = Some [].
Proof.
  unfold template_worker_flow. destruct in_root; [discriminate|].
  destruct cache as [c|]; [|discriminate].
  destruct (is_empty c) eqn:He; [|discriminate].
  destruct (template_guard true disk template) as [t|] eqn:Ht; [|discriminate]. intros H.
  pose proof (edits_for_inv _ _ _ _ _ _ H) as [_ [-> _]].
  apply edits_for_reproduces in H. destruct H as [Hr ->].
  apply is_empty_nil in He. subst c. simpl.
  split; [exact Hr|]. split; [reflexivity|]. split; [exact (template_guard_some _ _ _ _ Ht) | reflexivity].
Qed.

Lemma formatting_flow_not_broken k in_root ignored disk template formatter cache :
  formatting_flow k in_root ignored disk template formatter cache <> FBroken.
Proof.
  unfold formatting_flow.
  destruct (is_empty (content cache)).
  - destruct in_root; [discriminate|].
    destruct (template_guard _ disk template); [apply edits_for_not_broken | discriminate].
  - destruct k; try discriminate;
      destruct (formatter (content cache)); try discriminate; apply edits_for_not_broken.
Qed.

Lemma fix_flow_not_broken fixf cache : fix_flow fixf cache <> FBroken.
Proof.
  unfold fix_flow. destruct cache as [c|]; [|discriminate].
  destruct (fixf c); try discriminate. apply edits_for_not_broken.
Qed.

Lemma template_worker_flow_not_broken in_root disk template cache :
  template_worker_flow in_root disk template cache <> FBroken.
Proof.
  unfold template_worker_flow. destruct in_root; [discriminate|].
  destruct cache as [c|]; [|discriminate]. destruct (is_empty c); [|discriminate].
  destruct (template_guard true disk template); [apply edits_for_not_broken | discriminate].
Qed.

(* when does the formatting flow template?  exactly for an EMPTY document (not a blank one) *)
Lemma formatting_templates_only_empty k in_root ignored disk template formatter cache es intended t :
  formatting_flow k in_root ignored disk template formatter cache = FEdits es intended (Some t) ->
  content cache = [].
Proof.
  intros H. destruct (formatting_reproduces_intended_proof _ _ _ _ _ _ _ _ _ _ H) as [_ [Hs [Ht _]]].
  destruct Hs as [Hs|Hs]; [discriminate|]. destruct (Ht Hs) as [Hc _]. exact Hc.
Qed.

(* ---- sequences of calls (history independence of the model; seed round 3) ---- *)

Lemma compute_edits_functional_proof : forall before after r1 r2,
  compute_edits before after = r1 -> compute_edits before after = r2 -> r1 = r2.
Proof. intros; congruence. Qed.

Lemma compute_edits_seq_nth : forall pre post before after,
  nth_error (compute_edits_seq (pre ++ (before, after) :: post)) (List.length pre) =
  Some (compute_edits before after).
Proof.
  intros pre post before after. unfold compute_edits_seq. rewrite map_app.
  rewrite nth_error_app2; rewrite map_length; [|apply Nat.le_refl].
  rewrite Nat.sub_diag. reflexivity.
Qed.

Lemma compute_edits_history_independent_proof : forall pre1 post1 pre2 post2 before after,
  nth_error (compute_edits_seq (pre1 ++ (before, after) :: post1)) (List.length pre1) =
  nth_error (compute_edits_seq (pre2 ++ (before, after) :: post2)) (List.length pre2).
Proof. intros. rewrite !compute_edits_seq_nth. reflexivity. Qed.

Lemma compute_edits_seq_correct_proof : forall calls,
  Forall2 (fun p r => exists es, r = Ok es /\ lsp_apply es (fst p) = Some (snd p) /\
                                 edits_ordered es = true /\ forallb (edit_in_doc (fst p)) es = true)
          calls (compute_edits_seq calls).
Proof.
  induction calls as [|[b a] calls IH]; cbn; constructor; [|exact IH].
  destruct (compute_edits_total_proof b a) as [es H]. exists es. split; [exact H|].
  exact (compute_edits_sound_proof b a es H).
Qed.
