(* C08 — the docs-table obligations, decided by evaluation over the regenerated table, and their readable forms. *)
From Regal Require Import Base.Str Gen.GenDocs Model.DocsTable.
From Coq Require Import List NArith Bool Arith.
Import ListNotations.
Local Open Scope nat_scope.

Lemma rules_have_pages_ok : rules_have_pages = true.
Proof. vm_compute. reflexivity. Qed.

Lemma pages_have_rules_ok : pages_have_rules = true.
Proof. vm_compute. reflexivity. Qed.

Lemma rows_ok_ok : rows_ok = true.
Proof. vm_compute. reflexivity. Qed.

Lemma provided_matches_rules_ok : provided_matches_rules = true.
Proof. vm_compute. reflexivity. Qed.

Lemma aggregates_documented_ok : aggregates_documented = true.
Proof. vm_compute. reflexivity. Qed.

Lemma no_stale_exceptions_ok : no_stale_exceptions = true.
Proof. vm_compute. reflexivity. Qed.

Lemma pages_distinct_ok : pages_distinct = true.
Proof. vm_compute. reflexivity. Qed.

(* ---- reflection ---- *)

Lemma key_eqb_eq a b : key_eqb a b = true <-> a = b.
Proof.
  destruct a as [a1 a2], b as [b1 b2]. unfold key_eqb. cbn [fst snd].
  rewrite andb_true_iff, !str_eqb_eq. split; [intros [-> ->]; reflexivity | intros [= -> ->]; split; reflexivity].
Qed.

Lemma key_in_spec k l : key_in k l = true <-> In k l.
Proof.
  induction l as [|x l IH]; cbn [key_in In]; [split; [discriminate | tauto]|].
  rewrite orb_true_iff, IH, key_eqb_eq. split; intros [H|H]; auto.
Qed.

Lemma every_rule_documented_lemma :
  forall c r, In (c, r) rule_dirs ->
  exists row, In row docs_rows /\ d_cat row = c /\ d_name row = r /\ d_kind row <> KRedirect.
Proof.
  intros c r Hin. pose proof rules_have_pages_ok as H. unfold rules_have_pages in H.
  rewrite forallb_forall in H. specialize (H _ Hin). apply existsb_exists in H as [row [Hrow Hb]].
  apply andb_true_iff in Hb as [Hk Hr]. apply key_eqb_eq in Hk. unfold row_key in Hk. injection Hk as Hc Hn.
  exists row. repeat split; try assumption.
  intros E. unfold is_redirect in Hr. rewrite E in Hr. discriminate Hr.
Qed.

Lemma every_page_has_rule_lemma :
  forall row, In row docs_rows ->
  (d_kind row <> KRedirect -> In (d_cat row, d_name row) rule_dirs) /\
  (d_kind row = KRedirect -> In (d_redirect row) rule_dirs).
Proof.
  intros row Hin. pose proof pages_have_rules_ok as H. unfold pages_have_rules in H.
  rewrite forallb_forall in H. specialize (H _ Hin). unfold is_redirect in H. split; intros Hk.
  - destruct (d_kind row); try contradiction; apply key_in_spec in H; exact H.
  - rewrite Hk in H. apply key_in_spec in H. exact H.
Qed.

Lemma examples_wellformed_or_excepted_lemma :
  forall row, In row docs_rows -> d_kind row <> KRedirect ->
  (d_kind row = KPair /\ d_reason row = RNone /\ d_navoid row = 1 /\ d_nprefer row = 1
     /\ 0 < d_avoid_lines row /\ 0 < d_prefer_lines row)
  \/ (d_reason row <> RNone /\ d_fixture row = true).
Proof.
  intros row Hin Hk. pose proof rows_ok_ok as H. unfold rows_ok in H.
  rewrite forallb_forall in H. specialize (H _ Hin). unfold row_ok, is_redirect, no_reason, is_pair in H.
  destruct (d_kind row) eqn:Ek; try contradiction;
    destruct (d_reason row) eqn:Er; try (right; split; [discriminate | exact H]);
    try discriminate H.
  left. repeat (apply andb_true_iff in H as [H ?]).
  repeat split; try reflexivity;
    try (apply Nat.eqb_eq; assumption); try (apply Nat.ltb_lt; assumption).
Qed.

Lemma provided_config_matches_rules_lemma :
  forall k, In k rule_dirs <-> In k provided_rules.
Proof.
  pose proof provided_matches_rules_ok as H. unfold provided_matches_rules in H.
  apply andb_true_iff in H as [H1 H2]. rewrite forallb_forall in H1, H2.
  intros k; split; intros Hin; apply key_in_spec; auto.
Qed.

Lemma aggregate_rules_documented_lemma :
  forall c r, In (c, r) aggregate_rules ->
  exists row, In row docs_rows /\ d_cat row = c /\ d_name row = r /\ d_typeline row = true
              /\ d_reason row = RMultiFile /\ d_fixture row = true.
Proof.
  intros c r Hin. pose proof aggregates_documented_ok as H. unfold aggregates_documented in H.
  rewrite forallb_forall in H. specialize (H _ Hin). apply existsb_exists in H as [row [Hrow Hb]].
  apply andb_true_iff in Hb as [Hb Hfx]. apply andb_true_iff in Hb as [Hb Hmf]. apply andb_true_iff in Hb as [Hb Htl].
  apply key_eqb_eq in Hb. unfold row_key in Hb. injection Hb as Hc Hn.
  exists row. repeat split; try assumption.
  unfold is_multifile in *. destruct (d_reason row); try discriminate; reflexivity.
Qed.

Lemma no_stale_exceptions_lemma : stale_exceptions = [].
Proof. pose proof no_stale_exceptions_ok as H. unfold no_stale_exceptions in H. destruct stale_exceptions; [reflexivity | discriminate]. Qed.

Lemma keys_distinct_nodup l : keys_distinct l = true -> NoDup l.
Proof.
  induction l as [|x l IH]; intros H; [constructor|].
  cbn [keys_distinct] in H. apply andb_true_iff in H as [Hx Hl]. constructor; [|apply IH; exact Hl].
  intros Hin. apply key_in_spec in Hin. rewrite Hin in Hx. discriminate Hx.
Qed.

Lemma pages_distinct_lemma : NoDup (map (fun r => (d_cat r, d_name r)) docs_rows).
Proof. apply keys_distinct_nodup. exact pages_distinct_ok. Qed.
