(* O1: fed ANY chain of snake end points (each reachable from its predecessor by deletes or
   inserts followed by a diagonal of equal lines) that ends in (M, N), the loop of
   [operations] emits operations whose line-level application turns a into b. *)
From Regal Require Export Proofs.DiffBase.
From Coq Require Import Lia.
Open Scope Z_scope.

(* ---- list slicing with Z indices ---- *)
Definition zskip {T} (l : list T) (i : Z) : list T := skipn (Z.to_nat i) l.

Lemma skipn_add {T} (n m : nat) (l : list T) : skipn n (skipn m l) = skipn (n + m) l.
Proof.
  revert l. induction m as [|m IH]; intros l; simpl.
  - rewrite Nat.add_0_r. reflexivity.
  - rewrite Nat.add_succ_r. destruct l as [|x l]; simpl; [apply skipn_nil | apply IH].
Qed.

Lemma slice_same {T} (l : list T) i : slice l i i = [].
Proof. unfold slice. rewrite Z.sub_diag. reflexivity. Qed.

Lemma slice_app {T} (l : list T) i j k :
  0 <= i <= j -> j <= k -> slice l i j ++ slice l j k = slice l i k.
Proof.
  intros Hij Hjk. unfold slice.
  replace (Z.to_nat j) with (Z.to_nat (j - i) + Z.to_nat i)%nat by lia.
  rewrite <- skipn_add.
  replace (Z.to_nat (k - i)) with (Z.to_nat (j - i) + Z.to_nat (k - j))%nat by lia.
  set (r := skipn (Z.to_nat i) l). clearbody r.
  revert r. generalize (Z.to_nat (j - i)) as n. generalize (Z.to_nat (k - j)) as m.
  intros m n. induction n as [|n IH]; intros r; simpl; [reflexivity|].
  destruct r as [|x r]; simpl.
  - rewrite firstn_nil. reflexivity.
  - f_equal. apply IH.
Qed.

Lemma slice_skip {T} (l : list T) i j :
  0 <= i <= j -> j <= Z.of_nat (length l) -> slice l i j ++ zskip l j = zskip l i.
Proof.
  intros Hij Hj. unfold slice, zskip.
  replace (Z.to_nat j) with (Z.to_nat (j - i) + Z.to_nat i)%nat by lia.
  rewrite <- skipn_add. apply firstn_skipn.
Qed.

Lemma zskip_all {T} (l : list T) i : Z.of_nat (length l) <= i -> zskip l i = [].
Proof. intros H. unfold zskip. apply skipn_all2. lia. Qed.

Lemma slice_length {T} (l : list T) i j :
  0 <= i <= j -> j <= Z.of_nat (length l) -> Z.of_nat (length (slice l i j)) = j - i.
Proof.
  intros Hij Hj. unfold slice. rewrite firstn_length, skipn_length. lia.
Qed.

Section Ops.
  Variable A : Type.
  Variable eqb : A -> A -> bool.
  Variables a b : list A.
  Hypothesis eqb_eq : forall u v, eqb u v = true -> u = v.

  Notation Mz := (Z.of_nat (length a)).
  Notation Nz := (Z.of_nat (length b)).
  Notation eq_at := (eq_at A eqb a b).
  Notation diag_ok := (diag_ok A eqb a b).

  (* from p: deletes (or inserts) up to q's diagonal, then a diagonal of equal lines up to q *)
  Definition gstep (p q : Z * Z) : Prop :=
    let '(px, py) := p in
    let '(qx, qy) := q in
    let dk := (qx - qy) - (px - py) in
    0 <= px /\ 0 <= py /\ px + Z.max dk 0 <= qx /\
    diag_ok (px + Z.max dk 0) (py + Z.max (- dk) 0) (qx - (px + Z.max dk 0)).

  Fixpoint chain (p : Z * Z) (l : list (Z * Z)) : Prop :=
    match l with
    | [] => True
    | q :: l' => gstep p q /\ chain q l'
    end.

  Lemma gstep_mono p q : gstep p q -> fst p <= fst q /\ snd p <= snd q /\ 0 <= fst p /\ 0 <= snd p.
  Proof. destruct p as [px py], q as [qx qy]. simpl. lia. Qed.

  Lemma last_cons_default {T} (l : list T) (x d d' : T) : last (x :: l) d = last (x :: l) d'.
  Proof. revert x. induction l as [|y l IH]; intros x; [reflexivity|]. simpl in *. apply IH. Qed.

  Lemma chain_last_ge : forall l p, chain p l -> fst p <= fst (last l p) /\ snd p <= snd (last l p).
  Proof.
    induction l as [|q l IH]; intros p Hc; simpl; [lia|].
    destruct Hc as [Hs Hc]. apply gstep_mono in Hs. specialize (IH q Hc).
    destruct l as [|q' l'].
    - simpl in *. lia.
    - rewrite (last_cons_default l' q' p q). lia.
  Qed.

  (* ---- equal diagonals give equal slices ---- *)
  Lemma diag_slices : forall n x y,
    0 <= x -> 0 <= y -> 0 <= n -> diag_ok x y n -> slice a x (x + n) = slice b y (y + n).
  Proof.
    intros n x y Hx Hy Hn. revert x y Hx Hy.
    pattern n. apply natlike_ind; [| |assumption]; clear n Hn.
    - intros. rewrite !Z.add_0_r, !slice_same. reflexivity.
    - intros n Hn IH x y Hx Hy Hd.
      assert (H0 : eq_at x y) by (specialize (Hd 0); rewrite !Z.add_0_r in Hd; apply Hd; lia).
      assert (Hr : diag_ok (x + 1) (y + 1) n).
      { intros i Hi. replace (x + 1 + i) with (x + (i + 1)) by lia. replace (y + 1 + i) with (y + (i + 1)) by lia. apply Hd. lia. }
      specialize (IH (x + 1) (y + 1) ltac:(lia) ltac:(lia) Hr).
      destruct H0 as [_ [_ [u [v [Hu [Hv Huv]]]]]]. apply eqb_eq in Huv. subst v.
      rewrite <- (slice_app a x (x + 1) (x + Z.succ n)) by lia.
      rewrite <- (slice_app b y (y + 1) (y + Z.succ n)) by lia.
      replace (x + Z.succ n) with (x + 1 + n) by lia. replace (y + Z.succ n) with (y + 1 + n) by lia.
      rewrite IH. f_equal.
      unfold slice. replace (Z.to_nat (x + 1 - x)) with 1%nat by lia. replace (Z.to_nat (y + 1 - y)) with 1%nat by lia.
      clear - Hu Hv.
      assert (Hs : forall (l : list A) k w, nth_error l k = Some w -> firstn 1 (skipn k l) = [w]).
      { induction l as [|z l IH]; intros [|k] w H; simpl in *; try discriminate.
        - injection H as ->. reflexivity.
        - apply IH. assumption. }
      rewrite (Hs _ _ _ Hu), (Hs _ _ _ Hv). reflexivity.
  Qed.

  (* ---- line-level meaning of an operation list, applied from line [pos] of a on ---- *)
  Fixpoint apply_ops (ops : list op) (pos : Z) : list A :=
    match ops with
    | [] => zskip a pos
    | Del i1 i2 :: r => slice a pos i1 ++ apply_ops r i2
    | Ins i1 i2 j1 j2 :: r => slice a pos i1 ++ slice b j1 j2 ++ apply_ops r i2
    end.

  (* operations are ordered, disjoint, inside a (and their b ranges inside b) *)
  Fixpoint ops_wf (ops : list op) (pos : Z) : Prop :=
    match ops with
    | [] => 0 <= pos <= Mz
    | Del i1 i2 :: r => 0 <= pos <= i1 /\ i1 < i2 /\ i2 <= Mz /\ ops_wf r i2
    | Ins i1 i2 j1 j2 :: r => 0 <= pos <= i1 /\ i2 = i1 /\ i1 <= Mz /\ 0 <= j1 < j2 /\ j2 <= Nz /\ ops_wf r i2
    end.

  Lemma ops_wf_pos ops pos : ops_wf ops pos -> 0 <= pos <= Mz.
  Proof. destruct ops as [|[i1 i2|i1 i2 j1 j2] r]; simpl; lia. Qed.

  Lemma ops_wf_weaken ops pos pos' : 0 <= pos' <= pos -> ops_wf ops pos -> ops_wf ops pos'.
  Proof. destruct ops as [|[i1 i2|i1 i2 j1 j2] r]; simpl; intros; repeat split; try lia; tauto. Qed.

  Lemma apply_ops_shift ops pos pos' :
    0 <= pos' <= pos -> ops_wf ops pos -> apply_ops ops pos' = slice a pos' pos ++ apply_ops ops pos.
  Proof.
    intros Hp Hw. destruct ops as [|[i1 i2|i1 i2 j1 j2] r]; simpl in *.
    - symmetry. apply slice_skip; lia.
    - rewrite <- (slice_app a pos' pos i1) by lia. rewrite <- app_assoc. reflexivity.
    - rewrite <- (slice_app a pos' pos i1) by lia. rewrite <- app_assoc. reflexivity.
  Qed.

  (* ---- the loop ---- *)
  Lemma ops_loop_sound : forall snakes x y cnt ops,
    0 <= x -> 0 <= y ->
    chain (x, y) snakes ->
    last snakes (x, y) = (Mz, Nz) ->
    ops_loop Mz Nz snakes x y cnt = Ok ops ->
    ops_wf ops x /\ apply_ops ops x = zskip b y.
  Proof.
    induction snakes as [|[s0 s1] rest IH]; intros x y cnt ops Hx Hy Hc Hl H.
    - simpl in *. injection H as <-. injection Hl as -> ->. simpl.
      split; [lia|]. rewrite !zskip_all by lia. reflexivity.
    - simpl in Hc. destruct Hc as [Hs Hc].
      assert (Hle := chain_last_ge rest (s0, s1) Hc).
      assert (Hlast : last rest (s0, s1) = (Mz, Nz)).
      { destruct rest as [|q rest']; [exact Hl|]. rewrite <- Hl.
        change (last ((s0, s1) :: q :: rest') (x, y)) with (last (q :: rest') (x, y)).
        apply last_cons_default. }
      rewrite Hlast in Hle. simpl in Hle.
      unfold gstep in Hs. simpl in H. remember (s0 - s1 - (x - y)) as t eqn:Et.
      destruct Hs as [_ [_ [Hx' Hd]]].
      (* three cases on the sign of t *)
      destruct (Z.ltb_spec 0 t) as [Ht|Ht].
      + (* deletes *)
        replace (Z.max t 0) with t in Hx', Hd by lia. replace (Z.max (- t) 0) with 0 in Hd by lia. rewrite Z.add_0_r in Hd.
        rewrite del_loop_spec in H by lia. rewrite Z2Nat.id in H by lia.
        replace (x + t - y - (s0 - s1)) with 0 in H by lia. simpl in H.
        destruct (Mz + Nz <? cnt + 1 + 0) eqn:Hcap; [discriminate|].
        assert (Hxy2 : (if x + t <? s0 then s0 else x + t) = s0 /\ (if x + t <? s0 then y + (s0 - (x + t)) else y) = s1).
        { destruct (Z.ltb_spec (x + t) s0); lia. }
        destruct Hxy2 as [E1 E2]. rewrite E1, E2 in H. clear E1 E2.
        assert (Hseg : slice a (x + t) s0 = slice b y s1).
        { replace s0 with (x + t + (s0 - (x + t))) at 1 by lia. replace s1 with (y + (s0 - (x + t))) by lia.
          apply diag_slices; try lia. assumption. }
        destruct ((Mz <=? s0) && (Nz <=? s1)) eqn:Hend.
        * apply andb_true_iff in Hend. destruct Hend as [He1 He2]. apply Z.leb_le in He1, He2.
          injection H as <-. simpl. assert (s0 = Mz) by lia. assert (s1 = Nz) by lia. subst s0 s1.
          split; [lia|]. rewrite slice_same. simpl.
          rewrite <- (slice_skip a (x + t) Mz) by lia. rewrite <- (slice_skip b y Nz) by lia.
          rewrite Hseg. rewrite !zskip_all by lia. reflexivity.
        * bind_inv H r Hr. injection H as <-.
          apply IH in Hr; try lia; try assumption. destruct Hr as [Hw Ha].
          simpl. split.
          -- repeat split; try lia. apply ops_wf_weaken with (pos := s0); [lia|assumption].
          -- rewrite slice_same. simpl. rewrite (apply_ops_shift r s0 (x + t)) by (try lia; assumption).
             rewrite Ha, Hseg. apply slice_skip; lia.
      + destruct (Z.ltb_spec t 0) as [Ht'|Ht'].
        * (* inserts *)
          replace (Z.max t 0) with 0 in Hx', Hd by lia. replace (Z.max (- t) 0) with (- t) in Hd by lia. rewrite Z.add_0_r in Hx', Hd.
          replace (x - y - (s0 - s1)) with (- t) in H by lia.
          destruct (Z.ltb_spec 0 (- t)) as [_|?]; [|lia]. simpl in H.
          destruct (Nz <? y + - t) eqn:Hb; [discriminate|]. apply Z.ltb_ge in Hb.
          destruct (Mz + Nz <? cnt + 0 + 1) eqn:Hcap; [discriminate|].
          assert (Hxy2 : (if x <? s0 then s0 else x) = s0 /\ (if x <? s0 then y + - t + (s0 - x) else y + - t) = s1).
          { destruct (Z.ltb_spec x s0); lia. }
          destruct Hxy2 as [E1 E2]. rewrite E1, E2 in H. clear E1 E2.
          assert (Hseg : slice a x s0 = slice b (y + - t) s1).
          { replace s0 with (x + (s0 - x)) at 1 by lia. replace s1 with (y + - t + (s0 - x)) by lia.
            apply diag_slices; try lia. assumption. }
          destruct ((Mz <=? s0) && (Nz <=? s1)) eqn:Hend.
          -- apply andb_true_iff in Hend. destruct Hend as [He1 He2]. apply Z.leb_le in He1, He2.
             injection H as <-. simpl. assert (s0 = Mz) by lia. assert (s1 = Nz) by lia. subst s0 s1.
             split; [repeat split; lia|]. rewrite slice_same. simpl.
             rewrite <- (slice_skip a x Mz) by lia. rewrite Hseg. rewrite zskip_all by lia. rewrite app_nil_r.
             rewrite slice_app by lia. rewrite <- (slice_skip b y Nz) by lia. rewrite (zskip_all b Nz) by lia.
             rewrite app_nil_r. reflexivity.
          -- bind_inv H r Hr. injection H as <-.
             apply IH in Hr; try lia; try assumption. destruct Hr as [Hw Ha].
             simpl. split.
             ++ repeat split; try lia. apply ops_wf_weaken with (pos := s0); [lia|assumption].
             ++ rewrite slice_same. simpl. rewrite (apply_ops_shift r s0 x) by (try lia; assumption).
                rewrite Ha, Hseg. rewrite app_assoc. rewrite slice_app by lia. apply slice_skip; lia.
        * (* neither *)
          assert (Ht0 : t = 0) by lia. replace (Z.max t 0) with 0 in Hx', Hd by lia. replace (Z.max (- t) 0) with 0 in Hd by lia.
          rewrite !Z.add_0_r in Hx', Hd.
          replace (x - y - (s0 - s1)) with 0 in H by lia. simpl in H.
          destruct (Mz + Nz <? cnt + 0 + 0) eqn:Hcap; [discriminate|].
          assert (Hxy2 : (if x <? s0 then s0 else x) = s0 /\ (if x <? s0 then y + (s0 - x) else y) = s1).
          { destruct (Z.ltb_spec x s0); lia. }
          destruct Hxy2 as [E1 E2]. rewrite E1, E2 in H. clear E1 E2.
          assert (Hseg : slice a x s0 = slice b y s1).
          { replace s0 with (x + (s0 - x)) at 1 by lia. replace s1 with (y + (s0 - x)) by lia.
            apply diag_slices; try lia. replace (y + 0) with y in Hd by lia. assumption. }
          destruct ((Mz <=? s0) && (Nz <=? s1)) eqn:Hend.
          -- apply andb_true_iff in Hend. destruct Hend as [He1 He2]. apply Z.leb_le in He1, He2.
             injection H as <-. simpl. assert (s0 = Mz) by lia. assert (s1 = Nz) by lia. subst s0 s1.
             split; [lia|].
             rewrite <- (slice_skip a x Mz) by lia. rewrite <- (slice_skip b y Nz) by lia.
             rewrite Hseg. rewrite !zskip_all by lia. reflexivity.
          -- bind_inv H r Hr. injection H as <-. simpl.
             apply IH in Hr; try lia; try assumption. destruct Hr as [Hw Ha].
             split.
             ++ apply ops_wf_weaken with (pos := s0); [lia|assumption].
             ++ rewrite (apply_ops_shift r s0 x) by (try lia; assumption).
                rewrite Ha, Hseg. apply slice_skip; lia.
  Qed.
End Ops.
