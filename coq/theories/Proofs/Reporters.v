(* Proofs about Model/Reporters.v: what each output format carries of the report. *)
From Regal Require Import Model.ReportData Model.Reporters.
From Coq Require Import Lia Permutation String.
Local Open Scope N_scope.

(* ------------------------------------------------------------------ decimal rendering *)

Lemma read_N_acc_app x y a :
  read_N_acc (x ++ y) a = match read_N_acc x a with Some v => read_N_acc y v | None => None end.
Proof.
  revert a; induction x as [|c x IH]; intros a; cbn; [reflexivity|].
  destruct (is_digit c); [apply IH | reflexivity].
Qed.

Definition all_digits (ds : str) : Prop := Forall (fun c => is_digit c = true) ds.

Lemma show_N_fuel_spec : forall f n acc,
  n < 2 ^ N.of_nat (S f) ->
  exists ds, show_N_fuel (S f) n acc = ds ++ acc /\ all_digits ds /\ ds <> [] /\
             forall a, read_N_acc ds a = Some (a * 10 ^ N.of_nat (List.length ds) + n).
Proof.
  assert (Hsmall : forall f n acc, n < 10 ->
    exists ds, show_N_fuel (S f) n acc = ds ++ acc /\ all_digits ds /\ ds <> [] /\
               forall a, read_N_acc ds a = Some (a * 10 ^ N.of_nat (List.length ds) + n)).
  { intros f n acc Hlt. cbn [show_N_fuel]. cbv zeta.
    assert (Hd : is_digit (48 + n mod 10) = true).
    { unfold is_digit. pose proof (N.mod_upper_bound n 10 ltac:(lia)) as Hm.
      apply andb_true_intro. split; apply N.leb_le; [apply N.le_add_r | lia]. }
    apply N.ltb_lt in Hlt. rewrite Hlt. apply N.ltb_lt in Hlt.
    exists [48 + n mod 10]. repeat split.
    - constructor; [assumption | constructor].
    - discriminate.
    - intros a. cbn [read_N_acc List.length]. rewrite Hd. f_equal.
      rewrite N.mod_small by assumption. change (N.of_nat 1) with 1. rewrite N.pow_1_r. lia. }
  induction f as [|f IH]; intros n acc Hn.
  - apply Hsmall. cbn in Hn. lia.
  - destruct (N.ltb_spec n 10) as [Hlt|Hge]; [apply Hsmall; assumption|].
    remember (S f) as f1 eqn:Ef1. cbn [show_N_fuel]. cbv zeta.
    assert (Hd : is_digit (48 + n mod 10) = true).
    { unfold is_digit. pose proof (N.mod_upper_bound n 10 ltac:(lia)) as Hm.
      apply andb_true_intro. split; apply N.leb_le; [apply N.le_add_r | lia]. }
    assert (Hlt : (n <? 10) = false) by (apply N.ltb_ge; assumption). rewrite Hlt.
    assert (Hq : n / 10 < 2 ^ N.of_nat f1).
    { apply N.div_lt_upper_bound; [lia|].
      rewrite Nat2N.inj_succ, N.pow_succ_r' in Hn. lia. }
    subst f1.
    destruct (IH (n / 10) ((48 + n mod 10) :: acc) Hq) as [ds [E [Hds [Hne Hv]]]].
    exists (ds ++ [48 + n mod 10]). repeat split.
    + rewrite E, <- app_assoc. reflexivity.
    + apply Forall_app. split; [assumption | constructor; [assumption | constructor]].
    + destruct ds; discriminate.
    + intros a. rewrite read_N_acc_app, Hv. cbn [read_N_acc]. rewrite Hd. f_equal.
      rewrite app_length. cbn [List.length]. rewrite Nat.add_1_r, Nat2N.inj_succ, N.pow_succ_r'.
      pose proof (N.div_mod n 10 ltac:(lia)) as Hdm.
      rewrite (N.mul_assoc a 10), (N.mul_comm a 10), <- N.mul_assoc.
      set (q := a * 10 ^ N.of_nat (List.length ds)).
      generalize dependent (n mod 10). generalize dependent (n / 10). intros. lia.
Qed.

Lemma show_N_spec n :
  all_digits (show_N n) /\ show_N n <> [] /\ read_N (show_N n) = Some n.
Proof.
  unfold show_N.
  assert (Hn : n < 2 ^ N.of_nat (S (N.to_nat (N.log2 n)))).
  { rewrite Nat2N.inj_succ, N2Nat.id.
    destruct (N.eq_dec n 0) as [->|Hnz]; [cbn; lia|].
    apply N.log2_spec. lia. }
  destruct (show_N_fuel_spec (N.to_nat (N.log2 n)) n [] Hn) as [ds [E [Hds [Hne Hv]]]].
  rewrite List.app_nil_r in E. rewrite E. split; [assumption | split; [assumption|]].
  unfold read_N. destruct ds; [contradiction|]. rewrite Hv. f_equal; lia.
Qed.

Lemma digits_no_colon ds : all_digits ds -> ~ In COLON ds.
Proof.
  intros H Hin. unfold all_digits in H. rewrite Forall_forall in H. specialize (H _ Hin).
  discriminate.
Qed.

(* ------------------------------------------------------------------ splitting "file:row:col" *)

Lemma split_on_none c s : ~ In c s -> split_on c s = [s].
Proof.
  induction s as [|x s IH]; intros H; cbn; [reflexivity|].
  destruct (N.eqb_spec x c) as [->|Hne]; [exfalso; apply H; left; reflexivity|].
  rewrite IH; [reflexivity | intros Hin; apply H; right; assumption].
Qed.

Lemma split_on_app c a b : ~ In c a -> split_on c (a ++ c :: b) = a :: split_on c b.
Proof.
  induction a as [|x a IH]; intros H; cbn.
  - rewrite N.eqb_refl. reflexivity.
  - destruct (N.eqb_spec x c) as [->|Hne]; [exfalso; apply H; left; reflexivity|].
    rewrite IH; [reflexivity | intros Hin; apply H; right; assumption].
Qed.

Lemma parse_loc_loc_string l :
  ~ In COLON (l_file l) -> parse_loc (loc_string l) = (l_file l, l_row l, l_col l).
Proof.
  intros Hf. unfold loc_string.
  destruct (N.eqb_spec (l_row l) 0) as [Hr|Hr]; destruct (N.eqb_spec (l_col l) 0) as [Hc|Hc]; cbn [andb].
  1: { unfold parse_loc. rewrite split_on_none by assumption. cbn. rewrite Hr, Hc. reflexivity. }
  all: unfold parse_loc;
    destruct (show_N_spec (l_row l)) as [Hdr [_ Hrr]];
    destruct (show_N_spec (l_col l)) as [Hdc [_ Hrc]];
    cbn [app];
    rewrite split_on_app by assumption;
    rewrite split_on_app by (apply digits_no_colon; assumption);
    rewrite split_on_none by (apply digits_no_colon; assumption);
    cbn [rev app]; rewrite Hrr, Hrc; cbn [rev app join]; reflexivity.
Qed.

(* ------------------------------------------------------------------ pretty / festive *)



Lemma map_ext_in' {A B} (f g : A -> B) l : (forall x, In x l -> f x = g x) -> map f l = map g l.
Proof. apply map_ext_in. Qed.

Lemma pretty_entry_key_nocolor cut v :
  ~ In COLON (l_file (v_loc v)) ->
  pretty_entry_key (pretty_entry_gen cut true v) = key_of v.
Proof.
  intros H. unfold pretty_entry_key, pretty_entry_gen, key_of_loc, key_of. cbn.
  rewrite parse_loc_loc_string by assumption. reflexivity.
Qed.

Lemma pretty_entry_key_colour cut v :
  ~ In COLON (l_file (v_loc v)) -> v_level v = L_ERROR \/ v_level v = L_WARNING ->
  pretty_entry_key (pretty_entry_gen cut false v) = key_of v.
Proof.
  intros H Hl. unfold pretty_entry_key, pretty_entry_gen, key_of_loc, key_of. cbn.
  rewrite parse_loc_loc_string by assumption.
  destruct Hl as [-> | ->]; reflexivity.
Qed.

Theorem pretty_entries_proof : forall cut nocolor r,
  files_without_colon r ->
  (nocolor = false -> levels_error_or_warning r) ->
  pretty_keys (pretty_gen cut nocolor r) = report_keys r.
Proof.
  intros cut nocolor r Hf Hl. unfold pretty_keys, pretty_gen, report_keys. cbn [pd_entries].
  rewrite map_map. apply map_ext_in. intros v Hv.
  destruct nocolor.
  - apply pretty_entry_key_nocolor. apply Hf; assumption.
  - apply pretty_entry_key_colour; [apply Hf; assumption | apply (Hl eq_refl); assumption].
Qed.

(* with colours the level is only red or yellow: a level other than the two cannot be told from "error" *)
Lemma pretty_colour_level_refuted :
  exists r, files_without_colon r /\ pretty_keys (pretty false r) <> report_keys r.
Proof.
  exists {| r_aggregates := None; r_metrics := None; r_aggprofile := None; r_ignore := None;
            r_violations := [{| v_title := [116]; v_desc := []; v_cat := []; v_level := [105];
                                v_related := []; v_loc := {| l_end := None; l_text := None; l_file := [97];
                                l_col := 1; l_row := 1; l_offset := 0 |}; v_isagg := false |}];
            r_notices := []; r_profile := None;
            r_summary := {| s_scanned := 1; s_failed := 1; s_skipped := 0; s_numviol := 1 |} |}.
  split.
  - intros v [<-|[]]. cbn. intros [H|[]]. discriminate.
  - vm_compute. discriminate.
Qed.

(* ------------------------------------------------------------------ compact *)

Lemma pos_only_key_of v : pos_only (key_of v) = (l_file (v_loc v), l_row (v_loc v), l_col (v_loc v), [], []).
Proof. reflexivity. Qed.

Theorem compact_positions_proof : forall r,
  files_without_colon r ->
  compact_keys (compact r) = map pos_only (report_keys r).
Proof.
  intros r Hf. unfold compact, report_keys.
  destruct (r_violations r) as [|v vs] eqn:E; [reflexivity|].
  unfold compact_keys. rewrite !map_map. apply map_ext_in. intros x Hx.
  cbn [fst]. unfold key_of_loc. rewrite parse_loc_loc_string; [reflexivity|].
  apply Hf. rewrite E. assumption.
Qed.



(* the compact table has no rule and no level column: two reports that differ in both print the same *)
Lemma compact_rule_level_refuted :
  exists r1 r2, compact r1 = compact r2 /\ report_keys r1 <> report_keys r2.
Proof.
  exists (mk_report [mk_violation [116] L_ERROR [97] 1 1]),
         (mk_report [mk_violation [117] L_WARNING [97] 1 1]).
  split; [reflexivity | vm_compute; discriminate].
Qed.

(* ------------------------------------------------------------------ github *)

Lemma combine_map {A B C} (f : A -> B) (g : A -> C) l :
  combine (map f l) (map g l) = map (fun x => (f x, g x)) l.
Proof. induction l as [|x l IH]; cbn; [reflexivity | rewrite IH; reflexivity]. Qed.

Theorem github_entries_proof : forall cut nocolor r,
  github_keys (github_gen cut nocolor r) = report_keys r.
Proof.
  intros cut nocolor r. unfold github_keys, github_gen, pretty_gen, report_keys.
  cbn [gd_pretty gd_annotations pd_entries].
  rewrite combine_map, map_map. apply map_ext. intros v. reflexivity.
Qed.

Theorem github_table_proof : forall cut nocolor r,
  files_without_colon r -> (nocolor = false -> levels_error_or_warning r) ->
  pretty_keys (gd_pretty (github_gen cut nocolor r)) = report_keys r.
Proof. intros cut nocolor r. apply pretty_entries_proof. Qed.

(* ------------------------------------------------------------------ sarif *)


Lemma sarif_violation_results vs : forall d,
  sd_results (fold_left sarif_violation_step vs d) =
  sd_results d ++ sd_results (fold_left sarif_violation_step vs
                                {| sd_rules := sd_rules d; sd_artifacts := sd_artifacts d; sd_results := [] |}).
Proof.
  induction vs as [|v vs IH]; intros d; cbn [fold_left].
  - cbn. rewrite List.app_nil_r. reflexivity.
  - rewrite IH. symmetry. rewrite IH. cbn [sarif_violation_step sd_results sd_rules sd_artifacts app].
    rewrite <- app_assoc. reflexivity.
Qed.

Lemma sarif_violation_keys vs : forall d,
  (forall v, In v vs -> (l_row (v_loc v) = 0 /\ l_col (v_loc v) = 0) \/ (0 < l_row (v_loc v) /\ 0 < l_col (v_loc v))) ->
  flat_map sarif_result_key (sd_results (fold_left sarif_violation_step vs d)) =
  flat_map sarif_result_key (sd_results d) ++ map key_of vs.
Proof.
  induction vs as [|v vs IH]; intros d Hwf; cbn [fold_left map].
  - rewrite List.app_nil_r. reflexivity.
  - rewrite IH by (intros x Hx; apply Hwf; right; assumption).
    cbn [sarif_violation_step sd_results]. rewrite flat_map_app, <- app_assoc. f_equal.
    cbn [flat_map sarif_result_key sr_kind sr_loc sr_rule sr_level app].
    unfold sarif_region_of, key_of.
    destruct (Hwf v (or_introl eq_refl)) as [[Hr Hc] | [Hr Hc]].
    + rewrite Hr, Hc. reflexivity.
    + apply N.ltb_lt in Hr. apply N.ltb_lt in Hc. rewrite Hr, Hc. reflexivity.
Qed.

Lemma sarif_notice_keys ns : forall d,
  flat_map sarif_result_key (sd_results (fold_left sarif_notice_step ns d)) =
  flat_map sarif_result_key (sd_results d).
Proof.
  induction ns as [|n ns IH]; intros d; cbn [fold_left]; [reflexivity|].
  rewrite IH. unfold sarif_notice_step.
  destruct (str_eqb (n_sev n) S_NONE); [reflexivity|].
  cbn [sd_results]. rewrite flat_map_app. cbn. rewrite List.app_nil_r. reflexivity.
Qed.

Theorem sarif_entries_proof : forall r,
  positions_well_formed r -> sarif_keys (sarif r) = report_keys r.
Proof.
  intros r Hwf. unfold sarif_keys, sarif. rewrite sarif_notice_keys, sarif_violation_keys by assumption.
  reflexivity.
Qed.

(* a position with a row but column 0 loses its row: the region is only attached when both are positive *)
Lemma sarif_position_refuted :
  exists r, sarif_keys (sarif r) <> report_keys r.
Proof.
  exists (mk_report [mk_violation [116] L_ERROR [97] 5 0]). vm_compute. discriminate.
Qed.

(* ---- cross-references inside the sarif document (seed round 3) ---- *)

Definition sarif_ref_inv (d : sarif_doc) : Prop :=
  forall x, In x (sd_results d) ->
    (exists i ru, sr_index x = Some (N.of_nat i) /\ nth_error (sd_rules d) i = Some ru /\ sru_id ru = sr_rule x) /\
    sarif_artifact_ref_ok (sd_artifacts d) x = true.

Lemma upsert_keeps_ids id upd (Hupd : forall x, sru_id (upd x) = sru_id x) : forall rules i ru,
  nth_error rules i = Some ru ->
  exists ru', nth_error (upsert_rule id upd rules) i = Some ru' /\ sru_id ru' = sru_id ru.
Proof.
  induction rules as [|y rules IH]; intros i ru Hn.
  - destruct i; discriminate.
  - cbn [upsert_rule]. destruct (str_eqb (sru_id y) id) eqn:Hy.
    + destruct i as [|i]; cbn in *.
      * inversion Hn; subst. eexists; split; [reflexivity | apply Hupd].
      * eexists; split; [exact Hn | reflexivity].
    + destruct i as [|i]; cbn in *.
      * eexists; split; [exact Hn | reflexivity].
      * apply IH; assumption.
Qed.

Lemma rule_index_upsert id upd (Hupd : forall x, sru_id (upd x) = sru_id x) : forall rules k,
  exists i ru, rule_index id (upsert_rule id upd rules) k = Some (k + N.of_nat i) /\
               nth_error (upsert_rule id upd rules) i = Some ru /\ sru_id ru = id.
Proof.
  induction rules as [|y rules IH]; intros k.
  - exists 0%nat. eexists. cbn [upsert_rule rule_index nth_error]. rewrite Hupd. cbn [sru_id].
    rewrite str_eqb_refl. repeat split; [f_equal; lia | apply Hupd].
  - cbn [upsert_rule]. destruct (str_eqb (sru_id y) id) eqn:Hy.
    + exists 0%nat, (upd y). cbn [rule_index nth_error]. rewrite Hupd, Hy.
      repeat split; [f_equal; lia | apply str_eqb_eq; exact Hy].
    + destruct (IH (k + 1)) as (i & ru & Hr & Hn & Hid).
      exists (S i), ru. cbn [rule_index nth_error]. rewrite Hy. repeat split; try assumption.
      rewrite Hr. f_equal. lia.
Qed.

Lemma add_distinct_keeps u arts a : str_in a arts = true -> str_in a (add_distinct u arts) = true.
Proof.
  unfold add_distinct. destruct (str_in u arts); [tauto|].
  intros H. apply str_in_spec. apply in_or_app. left. apply str_in_spec. exact H.
Qed.

Lemma add_distinct_has u arts : str_in u (add_distinct u arts) = true.
Proof.
  unfold add_distinct. destruct (str_in u arts) eqn:H; [exact H|].
  apply str_in_spec. apply in_or_app. right. left. reflexivity.
Qed.

Lemma sarif_violation_step_inv d v : sarif_ref_inv d -> sarif_ref_inv (sarif_violation_step d v).
Proof.
  intros Hinv x Hx. unfold sarif_violation_step in *. cbn [sd_results sd_rules sd_artifacts] in *.
  set (upd := fun x0 : sarif_rule => {| sru_id := sru_id x0; sru_desc := v_desc v;
                                         sru_help := Some (doc_url v); sru_cat := v_cat v |}) in *.
  assert (Hupd : forall x0, sru_id (upd x0) = sru_id x0) by reflexivity.
  apply in_app_or in Hx. destruct Hx as [Hx | [Hx | []]].
  - destruct (Hinv x Hx) as ((i & ru & Hi & Hn & Hid) & Ha). split.
    + destruct (upsert_keeps_ids (v_title v) upd Hupd _ _ _ Hn) as (ru' & Hn' & Hid').
      exists i, ru'. repeat split; [exact Hi | exact Hn' | congruence].
    + unfold sarif_artifact_ref_ok in *. destruct (sr_loc x) as [[uri g]|]; [|reflexivity].
      apply add_distinct_keeps. exact Ha.
  - subst x. cbn [sr_index sr_rule sr_loc]. split.
    + destruct (rule_index_upsert (v_title v) upd Hupd (sd_rules d) 0) as (i & ru & Hr & Hn & Hid).
      exists i, ru. repeat split; [rewrite Hr; f_equal; lia | exact Hn | exact Hid].
    + unfold sarif_artifact_ref_ok. cbn [sr_loc]. apply add_distinct_has.
Qed.

Lemma sarif_notice_step_inv d n : sarif_ref_inv d -> sarif_ref_inv (sarif_notice_step d n).
Proof.
  intros Hinv. unfold sarif_notice_step. destruct (str_eqb (n_sev n) S_NONE); [exact Hinv|].
  intros x Hx. cbn [sd_results sd_rules sd_artifacts] in *.
  set (upd := fun x0 : sarif_rule => {| sru_id := sru_id x0; sru_desc := n_desc n;
                                         sru_help := sru_help x0; sru_cat := n_cat n |}) in *.
  assert (Hupd : forall x0, sru_id (upd x0) = sru_id x0) by reflexivity.
  apply in_app_or in Hx. destruct Hx as [Hx | [Hx | []]].
  - destruct (Hinv x Hx) as ((i & ru & Hi & Hn & Hid) & Ha). split; [|exact Ha].
    destruct (upsert_keeps_ids (n_title n) upd Hupd _ _ _ Hn) as (ru' & Hn' & Hid').
    exists i, ru'. repeat split; [exact Hi | exact Hn' | congruence].
  - subst x. cbn [sr_index sr_rule sr_loc]. split; [|reflexivity].
    destruct (rule_index_upsert (n_title n) upd Hupd (sd_rules d) 0) as (i & ru & Hr & Hn & Hid).
    exists i, ru. repeat split; [rewrite Hr; f_equal; lia | exact Hn | exact Hid].
Qed.

Lemma sarif_ref_inv_fold {A} (step : sarif_doc -> A -> sarif_doc)
  (Hstep : forall d a, sarif_ref_inv d -> sarif_ref_inv (step d a)) :
  forall l d, sarif_ref_inv d -> sarif_ref_inv (fold_left step l d).
Proof. induction l as [|a l IH]; intros d Hd; cbn; [exact Hd | apply IH, Hstep, Hd]. Qed.

Lemma sarif_ref_inv_sarif r : sarif_ref_inv (sarif r).
Proof.
  unfold sarif. apply sarif_ref_inv_fold; [exact sarif_notice_step_inv|].
  apply sarif_ref_inv_fold; [exact sarif_violation_step_inv|].
  intros x [].
Qed.

(* every result of the sarif document points, through ruleIndex, at the rule whose id is its ruleId *)
Theorem sarif_rule_index_proof : forall r x, In x (sd_results (sarif r)) ->
  exists i ru, sr_index x = Some (N.of_nat i) /\ nth_error (sd_rules (sarif r)) i = Some ru /\
               sru_id ru = sr_rule x.
Proof. intros r x Hx. exact (proj1 (sarif_ref_inv_sarif r x Hx)). Qed.

Theorem sarif_refs_consistent_proof : forall r, sarif_refs_consistent (sarif r) = true.
Proof.
  intros r. unfold sarif_refs_consistent. apply forallb_forall. intros x Hx.
  destruct (sarif_ref_inv_sarif r x Hx) as ((i & ru & Hi & Hn & Hid) & Ha).
  rewrite Ha, Bool.andb_true_r. unfold sarif_rule_ref_ok. rewrite Hi, Nat2N.id, Hn.
  apply str_eqb_eq. exact Hid.
Qed.

(* regression for the class of seed C10-5: the rules re-ordered after the results were created: every
   ruleId is still right (a reader of ruleId alone sees nothing), the cross-reference is broken *)
Lemma sarif_reordered_rules_refuted_proof :
  exists r, positions_well_formed r /\
            sarif_keys (sarif_rules_reordered (sarif r)) = report_keys r /\
            sarif_refs_consistent (sarif_rules_reordered (sarif r)) = false.
Proof.
  exists (mk_report [mk_violation [117] L_ERROR [97] 1 1; mk_violation [116] L_WARNING [97] 2 1]).
  split; [|split; vm_compute; reflexivity].
  intros v [Hv | [Hv | []]]; subst v; right; cbn; split; reflexivity.
Qed.

Lemma junit_counts_consistent_example :
  junit_counts_consistent (junit (mk_report [mk_violation [116] L_ERROR [97] 1 1; mk_violation [117] L_WARNING [98] 2 1])) = true.
Proof. vm_compute. reflexivity. Qed.

Lemma sarif_violation_notice_titles vs : forall d,
  flat_map (fun x => match sr_kind x with Some _ => [sr_rule x] | None => [] end)
           (sd_results (fold_left sarif_violation_step vs d)) =
  flat_map (fun x => match sr_kind x with Some _ => [sr_rule x] | None => [] end) (sd_results d).
Proof.
  induction vs as [|v vs IH]; intros d; cbn [fold_left]; [reflexivity|].
  rewrite IH. cbn [sarif_violation_step sd_results]. rewrite flat_map_app. cbn. rewrite List.app_nil_r. reflexivity.
Qed.

Lemma sarif_notice_titles_fold ns : forall d,
  flat_map (fun x => match sr_kind x with Some _ => [sr_rule x] | None => [] end)
           (sd_results (fold_left sarif_notice_step ns d)) =
  flat_map (fun x => match sr_kind x with Some _ => [sr_rule x] | None => [] end) (sd_results d) ++
  flat_map (fun n => if str_eqb (n_sev n) S_NONE then [] else [n_title n]) ns.
Proof.
  induction ns as [|n ns IH]; intros d; cbn [fold_left flat_map].
  - rewrite List.app_nil_r. reflexivity.
  - rewrite IH. unfold sarif_notice_step.
    destruct (str_eqb (n_sev n) S_NONE); [reflexivity|].
    cbn [sd_results]. rewrite flat_map_app, <- app_assoc. reflexivity.
Qed.

(* every notice with a severity is reported as an informational result, once, in order *)
Theorem sarif_notices_proof : forall r, sarif_notice_titles (sarif r) = reported_notice_titles r.
Proof.
  intros r. unfold sarif_notice_titles, reported_notice_titles, sarif.
  rewrite sarif_notice_titles_fold, sarif_violation_notice_titles. reflexivity.
Qed.

(* ------------------------------------------------------------------ junit *)

Lemma insert_sorted_perm x l : Permutation (insert_sorted x l) (x :: l).
Proof.
  induction l as [|y l IH]; cbn; [reflexivity|].
  destruct (str_leb x y); [reflexivity|].
  rewrite IH. apply perm_swap.
Qed.

Lemma sort_strs_perm l : Permutation (sort_strs l) l.
Proof.
  induction l as [|x l IH]; cbn; [reflexivity|].
  rewrite insert_sorted_perm. constructor. assumption.
Qed.

Lemma first_seen_spec l : forall seen,
  NoDup (first_seen seen l) /\
  forall x, In x (first_seen seen l) <-> In x l /\ ~ In x seen.
Proof.
  induction l as [|y l IH]; intros seen; cbn [first_seen].
  - split; [constructor | intros x; cbn; tauto].
  - destruct (str_in y seen) eqn:E.
    + apply str_in_spec in E. destruct (IH seen) as [Hnd Hin]. split; [assumption|].
      intros x. rewrite Hin. cbn. split.
      * intros [H1 H2]. tauto.
      * intros [[<-|H1] H2]; [contradiction | tauto].
    + assert (Hny : ~ In y seen) by (intros H; apply str_in_spec in H; congruence).
      destruct (IH (y :: seen)) as [Hnd Hin]. split.
      * constructor; [|assumption]. rewrite Hin. cbn. tauto.
      * intros x. cbn. rewrite Hin. cbn. split.
        -- intros [<-|[H1 H2]]; [tauto|]. split; [tauto|]. intros H3. apply H2. right. assumption.
        -- intros [[<-|H1] H2]; [left; reflexivity|].
           destruct (str_eqb_spec y x) as [->|Hne]; [left; reflexivity|].
           right. split; [assumption|]. intros [H3|H3]; [congruence | contradiction].
Qed.

Lemma junit_files_nodup l : NoDup (junit_files l).
Proof.
  unfold junit_files. eapply Permutation_NoDup; [symmetry; apply sort_strs_perm|].
  apply (first_seen_spec l []).
Qed.

Lemma junit_files_in l x : In x l -> In x (junit_files l).
Proof.
  intros H. unfold junit_files. eapply Permutation_in; [symmetry; apply sort_strs_perm|].
  apply (first_seen_spec l []). split; [assumption | intros []].
Qed.

Lemma filter_disjoint_perm {A} (p q : A -> bool) l :
  (forall x, In x l -> p x = true -> q x = true -> False) ->
  Permutation (filter p l ++ filter q l) (filter (fun x => p x || q x) l).
Proof.
  induction l as [|x l IH]; intros Hd; cbn [filter]; [reflexivity|].
  assert (IH' := IH (fun y Hy => Hd y (or_intror Hy))).
  destruct (p x) eqn:Ep; destruct (q x) eqn:Eq; cbn [orb].
  - exfalso. apply (Hd x (or_introl eq_refl)); assumption.
  - cbn [app]. constructor. assumption.
  - rewrite <- Permutation_middle. constructor. assumption.
  - assumption.
Qed.


Lemma group_by_file_perm vs : forall fs,
  NoDup fs ->
  Permutation (flat_map (fun f => filter (fun v => str_eqb (file_of v) f) vs) fs)
              (filter (fun v => str_in (file_of v) fs) vs).
Proof.
  induction fs as [|f fs IH]; intros Hnd; cbn [flat_map str_in].
  - induction vs as [|v vs IHv]; cbn; [reflexivity | assumption].
  - inversion Hnd as [|? ? Hnotin Hnd']; subst.
    rewrite (IH Hnd'). apply filter_disjoint_perm.
    intros v _ H1 H2. apply str_eqb_eq in H1. apply str_in_spec in H2. rewrite H1 in H2. contradiction.
Qed.

Lemma filter_all {A} (p : A -> bool) l : (forall x, In x l -> p x = true) -> filter p l = l.
Proof.
  induction l as [|x l IH]; intros H; cbn; [reflexivity|].
  rewrite (H x (or_introl eq_refl)), IH; [reflexivity | intros y Hy; apply H; right; assumption].
Qed.

(* the suites of the JUnit document, concatenated, hold every violation of the report exactly once *)
Lemma junit_grouping_perm vs :
  Permutation (flat_map (fun f => filter (fun v => str_eqb (file_of v) f) vs) (junit_files (map file_of vs))) vs.
Proof.
  rewrite group_by_file_perm by apply junit_files_nodup.
  rewrite filter_all; [reflexivity|].
  intros v Hv. apply str_in_spec. apply junit_files_in. apply in_map. assumption.
Qed.


Lemma junit_keys_flat safe files r :
  junit_keys (junit_gen safe files r) =
  map (fun v => junit_case_key (junit_case_gen safe v))
      (flat_map (fun f => filter (fun v => str_eqb (file_of v) f) (r_violations r))
                (files (map file_of (r_violations r)))).
Proof.
  unfold junit_keys, junit_gen, file_of. cbn [jd_suites].
  generalize (files (map (fun v => l_file (v_loc v)) (r_violations r))) as fs.
  induction fs as [|f fs IH]; cbn [map flat_map]; [reflexivity|].
  rewrite map_app, IH. f_equal. unfold junit_suite_gen. cbn [js_cases]. rewrite map_map. reflexivity.
Qed.

Theorem junit_entries_proof : forall r,
  files_without_colon r -> xml_clean_keys r ->
  Permutation (junit_keys (junit r)) (report_keys r).
Proof.
  intros r Hf Hx. unfold junit. rewrite junit_keys_flat. unfold report_keys.
  transitivity (map key_of (flat_map (fun f => filter (fun v => str_eqb (file_of v) f) (r_violations r))
                                     (junit_files (map file_of (r_violations r))))).
  - apply Permutation_refl'. apply map_ext_in. intros v Hv.
    assert (Hin : In v (r_violations r)).
    { eapply Permutation_in; [apply junit_grouping_perm | exact Hv]. }
    destruct (Hx v Hin) as [H1 [H2 H3]].
    unfold junit_case_key, junit_case_gen, key_of_loc, key_of. cbn [jc_class jc_rule jc_type].
    rewrite H1, H2, H3, parse_loc_loc_string by (apply Hf; assumption). reflexivity.
  - apply Permutation_map. apply junit_grouping_perm.
Qed.

Lemma sum_N_fold l : forall a, fold_left N.add l a = a + fold_left N.add l 0.
Proof.
  induction l as [|x l IH]; intros a; cbn [fold_left]; [lia|].
  rewrite IH, (IH (0 + x)). lia.
Qed.

Lemma sum_N_lengths {A} (g : str -> list A) fs :
  sum_N (map (fun f => N.of_nat (List.length (g f))) fs) = N.of_nat (List.length (flat_map g fs)).
Proof.
  unfold sum_N. induction fs as [|f fs IH]; cbn [map fold_left flat_map]; [reflexivity|].
  rewrite sum_N_fold, IH, app_length. lia.
Qed.

(* the tests/failures attributes of <testsuites> equal the number of violations *)
Theorem junit_counts_proof : forall r,
  jd_tests (junit r) = N.of_nat (List.length (r_violations r)) /\
  jd_failures (junit r) = N.of_nat (List.length (r_violations r)) /\
  NoDup (junit_files (map file_of (r_violations r))).
Proof.
  intros r. unfold junit, junit_gen. cbn [jd_tests jd_failures]. rewrite !map_map.
  unfold junit_suite_gen. cbn [js_tests js_failures].
  pose proof (sum_N_lengths (fun f => filter (fun v => str_eqb (l_file (v_loc v)) f) (r_violations r))
                            (junit_files (map (fun v => l_file (v_loc v)) (r_violations r)))) as Hs.
  cbn beta in Hs. rewrite Hs.
  pose proof (Permutation_length (junit_grouping_perm (r_violations r))) as Hl. unfold file_of in Hl. rewrite Hl.
  repeat split. apply junit_files_nodup.
Qed.

(* pinned commit: two violations in one file are presented as two suites of two test cases *)
Lemma junit_pinned_refuted_proof :
  exists r, files_without_colon r /\ xml_clean_keys r /\
            ~ Permutation (junit_keys (junit_pinned r)) (report_keys r) /\
            List.length (junit_keys (junit_pinned r)) = 4%nat /\ List.length (report_keys r) = 2%nat.
Proof.
  exists (mk_report [mk_violation [116] L_ERROR [97] 1 1; mk_violation [117] L_WARNING [97] 2 1]).
  split; [|split; [|split; [|split]]].
  - intros v [<-|[<-|[]]]; cbn; intros [H|[]]; discriminate.
  - intros v [<-|[<-|[]]]; vm_compute; repeat split.
  - intros H. apply Permutation_length in H. vm_compute in H. discriminate.
  - vm_compute. reflexivity.
  - vm_compute. reflexivity.
Qed.

(* a sufficient, compositional condition for [xml_safe] to be the identity *)

Lemma xml_safe_plain s : xml_plain s -> xml_safe s = s.
Proof.
  induction s as [|a s IH]; intros H; [reflexivity|].
  inversion H as [|? ? [Ha Hne] Hs]; subst.
  cbn [xml_safe].
  assert (E1 : (a <? 32) && negb ((a =? 9) || (a =? 10) || (a =? 13)) = false).
  { destruct (a <? 32) eqn:E; [|reflexivity]. cbn [andb].
    apply N.ltb_lt in E. assert (E' : (32 <=? a) = false) by (apply N.leb_gt; assumption).
    rewrite E' in Ha. cbn [orb] in Ha. rewrite Ha. reflexivity. }
  rewrite E1.
  assert (E2 : (a =? 239) = false) by (apply N.eqb_neq; assumption).
  destruct s as [|b [|c s3]]; try (rewrite IH by assumption; reflexivity).
  rewrite E2. cbn [andb]. rewrite IH by assumption. reflexivity.
Qed.

(* ------------------------------------------------------------------ json round trip *)

Lemma dec_position_enc p : dec_position (enc_position p) = Some p.
Proof. destruct p. reflexivity. Qed.

Lemma location_lookups l :
  let fs := location_fields l in
  jlookup (K "end") fs = option_map enc_position (l_end l) /\
  jlookup (K "text") fs = option_map JStr (l_text l) /\
  jlookup (K "file") fs = Some (JStr (l_file l)) /\
  jlookup (K "col") fs = Some (JNum (l_col l)) /\
  jlookup (K "row") fs = Some (JNum (l_row l)) /\
  jlookup (K "offset") fs = if l_offset l =? 0 then None else Some (JNum (l_offset l)).
Proof.
  destruct l as [e t f c r o]. unfold location_fields. cbn [l_end l_text l_file l_col l_row l_offset].
  destruct e, t, (o =? 0); repeat split; reflexivity.
Qed.

Lemma dec_location_enc l : dec_location (enc_location l) = Some l.
Proof.
  unfold dec_location, enc_location.
  destruct (location_lookups l) as [H1 [H2 [H3 [H4 [H5 H6]]]]]. cbv zeta in *.
  rewrite H1, H2, H3, H4, H5, H6.
  destruct l as [e t f c r o]. cbn [l_end l_text l_file l_col l_row l_offset].
  destruct e as [p|]; cbn [option_map]; [rewrite dec_position_enc|];
    destruct t; cbn [option_map dec_str dec_num];
    destruct (N.eqb_spec o 0) as [->|Hne]; reflexivity.
Qed.

Lemma dec_list_map {A B} (f : jval -> option B) (g : A -> jval) (h : A -> B) l :
  (forall x, f (g x) = Some (h x)) -> dec_list f (map g l) = Some (map h l).
Proof.
  intros H. induction l as [|x l IH]; cbn; [reflexivity|]. rewrite H, IH. reflexivity.
Qed.

Lemma dec_related_enc x : dec_related (enc_related x) = Some x.
Proof. destruct x. reflexivity. Qed.

Lemma violation_lookups v :
  let fs := violation_fields v in
  jlookup (K "title") fs = Some (JStr (v_title v)) /\
  jlookup (K "description") fs = Some (JStr (v_desc v)) /\
  jlookup (K "category") fs = Some (JStr (v_cat v)) /\
  jlookup (K "level") fs = Some (JStr (v_level v)) /\
  jlookup (K "related_resources") fs =
    (match v_related v with [] => None | rs => Some (JArr (map enc_related rs)) end) /\
  jlookup (K "location") fs = Some (enc_location (v_loc v)).
Proof.
  destruct v as [t d c l rs loc agg]. unfold violation_fields.
  cbn [v_title v_desc v_cat v_level v_related v_loc].
  destruct rs; repeat split; reflexivity.
Qed.

Lemma dec_violation_enc v : dec_violation (enc_violation v) = Some (erase_violation v).
Proof.
  unfold dec_violation, enc_violation.
  destruct (violation_lookups v) as [H1 [H2 [H3 [H4 [H5 H6]]]]]. cbv zeta in *.
  rewrite H1, H2, H3, H4, H5, H6, dec_location_enc. cbn [dec_str].
  unfold erase_violation.
  destruct (v_related v) as [|x rs] eqn:E; cbn [dec_array]; [reflexivity|].
  rewrite (dec_list_map dec_related enc_related (fun x => x)) by apply dec_related_enc.
  rewrite map_id. reflexivity.
Qed.

Lemma dec_notice_enc n : dec_notice (enc_notice n) = Some n.
Proof. destruct n. reflexivity. Qed.

Lemma dec_summary_enc s : dec_summary (Some (enc_summary s)) = Some s.
Proof. destruct s. reflexivity. Qed.

Lemma report_lookups r :
  let fs := report_fields r in
  jlookup (K "aggregates") fs = r_aggregates r /\
  jlookup (K "metrics") fs = r_metrics r /\
  jlookup (K "ignore_directives") fs = r_ignore r /\
  jlookup (K "violations") fs = Some (JArr (map enc_violation (r_violations r))) /\
  jlookup (K "notices") fs = (match r_notices r with [] => None | ns => Some (JArr (map enc_notice ns)) end) /\
  jlookup (K "profile") fs = r_profile r /\
  jlookup (K "summary") fs = Some (enc_summary (r_summary r)).
Proof.
  destruct r as [ag me ap ig vs ns pr su]. unfold report_fields.
  cbn [r_aggregates r_metrics r_ignore r_violations r_notices r_profile r_summary].
  destruct ag, me, ig, ns, pr; repeat split; reflexivity.
Qed.

Theorem json_roundtrip_proof : forall r, dec_report (enc_report r) = Some (erase_report r).
Proof.
  intros r. unfold dec_report, enc_report.
  destruct (report_lookups r) as [H1 [H2 [H3 [H4 [H5 [H6 H7]]]]]]. cbv zeta in *.
  rewrite H1, H2, H3, H4, H5, H6, H7, dec_summary_enc. cbn [dec_array].
  rewrite (dec_list_map dec_violation enc_violation erase_violation) by apply dec_violation_enc.
  unfold erase_report.
  destruct (r_notices r) as [|n ns] eqn:E; [reflexivity|]. unfold dec_array.
  rewrite (dec_list_map dec_notice enc_notice (fun x => x)) by apply dec_notice_enc.
  rewrite map_id. reflexivity.
Qed.

(* the round trip loses exactly the fields tagged json:"-" *)
Lemma erase_report_keys r : report_keys (erase_report r) = report_keys r.
Proof.
  unfold report_keys, erase_report. cbn [r_violations]. rewrite map_map. apply map_ext. intros v. reflexivity.
Qed.

Theorem json_entries_proof : forall r,
  exists r', dec_report (enc_report r) = Some r' /\ report_keys r' = report_keys r.
Proof.
  intros r. exists (erase_report r). split; [apply json_roundtrip_proof | apply erase_report_keys].
Qed.

(* ------------------------------------------------------------------ the Text row stays valid UTF-8 *)

Lemma is_cont_bounds c : is_cont c = true <-> 128 <= c /\ c < 192.
Proof. unfold is_cont. rewrite andb_true_iff, N.leb_le, N.ltb_lt. tauto. Qed.

Ltac bool_hyps :=
  repeat match goal with
         | H : _ && _ = true |- _ => apply andb_true_iff in H; destruct H
         | H : _ || _ = true |- _ => apply orb_true_iff in H; destruct H
         | H : (_ <=? _) = true |- _ => apply N.leb_le in H
         | H : (_ <? _) = true |- _ => apply N.ltb_lt in H
         | H : (_ =? _) = true |- _ => apply N.eqb_eq in H
         | H : cont _ = true |- _ => unfold cont in H; apply is_cont_bounds in H
         | H : is_cont _ = true |- _ => apply is_cont_bounds in H
         end.

Lemma is2_cont a b : is2 a b = true -> is_cont b = true.
Proof. unfold is2. intros H. bool_hyps. apply is_cont_bounds. lia. Qed.
Lemma is3_cont2 a b c : is3 a b c = true -> is_cont b = true.
Proof. unfold is3. intros H. bool_hyps; apply is_cont_bounds; lia. Qed.
Lemma is3_cont3 a b c : is3 a b c = true -> is_cont c = true.
Proof. unfold is3. intros H. bool_hyps; apply is_cont_bounds; lia. Qed.
Lemma is4_cont2 a b c d : is4 a b c d = true -> is_cont b = true.
Proof. unfold is4. intros H. bool_hyps; apply is_cont_bounds; lia. Qed.
Lemma is4_cont3 a b c d : is4 a b c d = true -> is_cont c = true.
Proof. unfold is4. intros H. bool_hyps; apply is_cont_bounds; lia. Qed.
Lemma is4_cont4 a b c d : is4 a b c d = true -> is_cont d = true.
Proof. unfold is4. intros H. bool_hyps; apply is_cont_bounds; lia. Qed.

(* [b] does not begin in the middle of a rune *)
Definition starts_rune (b : str) : Prop :=
  match b with [] => True | c :: _ => is_cont c = false end.

Lemma valid_unfold a s1 :
  utf8_valid (a :: s1) =
  if a <? 128 then utf8_valid s1 else
  match s1 with
  | [] => false
  | b :: s2 =>
    if is2 a b then utf8_valid s2 else
    match s2 with
    | [] => false
    | c :: s3 =>
      if is3 a b c then utf8_valid s3 else
      match s3 with
      | [] => false
      | d :: s4 => if is4 a b c d then utf8_valid s4 else false
      end
    end
  end.
Proof. reflexivity. Qed.

(* a prefix that ends on a rune boundary of a valid string is valid *)
Lemma valid_prefix_len : forall n a b,
  (List.length a <= n)%nat -> starts_rune b -> utf8_valid (a ++ b) = true -> utf8_valid a = true.
Proof.
  induction n as [|n IH]; intros a b Hlen Hb Hv.
  - destruct a; [reflexivity | cbn in Hlen; lia].
  - destruct a as [|x a1]; [reflexivity|].
    cbn [app] in Hv. rewrite valid_unfold in Hv. rewrite valid_unfold.
    cbn [List.length] in Hlen.
    destruct (x <? 128); [apply (IH a1 b); [lia | assumption | assumption]|].
    destruct a1 as [|y a2].
    { (* the rune of x would have to continue into b *)
      cbn [app] in Hv. exfalso.
      destruct b as [|c b2]; [discriminate|]. cbn in Hb.
      destruct (is2 x c) eqn:E2; [apply is2_cont in E2; congruence|].
      destruct b2 as [|d b3]; [discriminate|].
      destruct (is3 x c d) eqn:E3; [apply is3_cont2 in E3; congruence|].
      destruct b3 as [|e b4]; [discriminate|].
      destruct (is4 x c d e) eqn:E4; [apply is4_cont2 in E4; congruence | discriminate]. }
    cbn [app] in Hv. cbn [List.length] in Hlen.
    destruct (is2 x y) eqn:E2; [apply (IH a2 b); [lia | assumption | assumption]|].
    destruct a2 as [|z a3].
    { cbn [app] in Hv. exfalso.
      destruct b as [|c b2]; [discriminate|]. cbn in Hb.
      destruct (is3 x y c) eqn:E3; [apply is3_cont3 in E3; congruence|].
      destruct b2 as [|d b3]; [discriminate|].
      destruct (is4 x y c d) eqn:E4; [apply is4_cont3 in E4; congruence | discriminate]. }
    cbn [app] in Hv. cbn [List.length] in Hlen.
    destruct (is3 x y z) eqn:E3; [apply (IH a3 b); [lia | assumption | assumption]|].
    destruct a3 as [|w a4].
    { cbn [app] in Hv. exfalso.
      destruct b as [|c b2]; [discriminate|]. cbn in Hb.
      destruct (is4 x y z c) eqn:E4; [apply is4_cont4 in E4; congruence | discriminate]. }
    cbn [app] in Hv. cbn [List.length] in Hlen.
    destruct (is4 x y z w) eqn:E4; [apply (IH a4 b); [lia | assumption | assumption] | discriminate].
Qed.

Lemma valid_prefix a b : starts_rune b -> utf8_valid (a ++ b) = true -> utf8_valid a = true.
Proof. apply (valid_prefix_len (List.length a)). lia. Qed.

Lemma valid_app_len : forall n a b,
  (List.length a <= n)%nat -> utf8_valid a = true -> utf8_valid b = true -> utf8_valid (a ++ b) = true.
Proof.
  induction n as [|n IH]; intros a b Hlen Ha Hb.
  - destruct a; [assumption | cbn in Hlen; lia].
  - destruct a as [|x a1]; [assumption|].
    cbn [app]. rewrite valid_unfold. rewrite valid_unfold in Ha. cbn [List.length] in Hlen.
    destruct (x <? 128); [apply IH; [lia | assumption | assumption]|].
    destruct a1 as [|y a2]; [discriminate|]. cbn [app]. cbn [List.length] in Hlen.
    destruct (is2 x y); [apply IH; [lia | assumption | assumption]|].
    destruct a2 as [|z a3]; [discriminate|]. cbn [app]. cbn [List.length] in Hlen.
    destruct (is3 x y z); [apply IH; [lia | assumption | assumption]|].
    destruct a3 as [|w a4]; [discriminate|]. cbn [app]. cbn [List.length] in Hlen.
    destruct (is4 x y z w); [apply IH; [lia | assumption | assumption] | discriminate].
Qed.

Lemma valid_app a b : utf8_valid a = true -> utf8_valid b = true -> utf8_valid (a ++ b) = true.
Proof. apply (valid_app_len (List.length a)). lia. Qed.

(* rp is a reversed prefix: dropping the partial rune leaves a prefix that ends on a boundary *)
Lemma drop_partial_rune_spec rp :
  drop_partial_rune rp = [] \/
  exists cs l, rp = cs ++ l :: drop_partial_rune rp /\ is_cont l = false.
Proof.
  induction rp as [|c rp IH]; [left; reflexivity|].
  cbn [drop_partial_rune]. destruct (is_cont c) eqn:E.
  - destruct IH as [IH | [cs [l [E1 E2]]]]; [left; assumption|].
    right. exists (c :: cs), l. split; [cbn; rewrite <- E1; reflexivity | assumption].
  - right. exists [], c. split; [reflexivity | assumption].
Qed.

Lemma cut_at_rune_valid t k : utf8_valid t = true -> utf8_valid (cut_at_rune t k) = true.
Proof.
  intros Hv. unfold cut_at_rune.
  pose proof (firstn_skipn k t) as Hsplit.
  destruct (skipn k t) as [|c rest] eqn:Es.
  - rewrite List.app_nil_r in Hsplit. rewrite Hsplit. assumption.
  - destruct (is_cont c) eqn:Ec.
    + destruct (drop_partial_rune_spec (rev (firstn k t))) as [E | [cs [l [E1 E2]]]].
      * rewrite E. reflexivity.
      * set (d := drop_partial_rune (rev (firstn k t))) in *.
        assert (Hpre : firstn k t = rev d ++ l :: rev cs).
        { rewrite <- (rev_involutive (firstn k t)), E1, rev_app_distr. cbn [rev]. rewrite <- app_assoc. reflexivity. }
        rewrite Hpre, <- app_assoc in Hsplit. cbn [app] in Hsplit.
        apply (valid_prefix (rev d) (l :: rev cs ++ c :: rest)); [exact E2 | rewrite Hsplit; assumption].
    + apply (valid_prefix (firstn k t) (c :: rest)); [exact Ec | rewrite Hsplit; assumption].
Qed.

Lemma ws2_is2 a b : ws2 a b = true -> is2 a b = true /\ (a <? 128) = false.
Proof.
  unfold ws2. intros H. bool_hyps; subst; split; reflexivity.
Qed.

Lemma ws3_is3 a b c : ws3 a b c = true -> is3 a b c = true /\ is2 a b = false /\ (a <? 128) = false.
Proof.
  unfold ws3. intros H. bool_hyps; subst; try (repeat split; reflexivity).
  all: repeat split; try reflexivity.
  all: unfold is3, is2, cont, is_cont.
  all: repeat match goal with |- context [?x <=? ?y] => 
         first [ replace (x <=? y) with true by (symmetry; apply N.leb_le; lia)
               | replace (x <=? y) with false by (symmetry; apply N.leb_gt; lia) ] end.
  all: repeat match goal with |- context [?x <? ?y] => 
         first [ replace (x <? y) with true by (symmetry; apply N.ltb_lt; lia)
               | replace (x <? y) with false by (symmetry; apply N.ltb_ge; lia) ] end.
  all: reflexivity.
Qed.

Lemma ascii_space_small a : is_ascii_space a = true -> (a <? 128) = true /\ is_cont a = false.
Proof.
  unfold is_ascii_space. intros H. bool_hyps; subst; split; reflexivity.
Qed.

Lemma trim_left_valid_len : forall n s,
  (List.length s <= n)%nat -> utf8_valid s = true -> utf8_valid (trim_gen ws2 ws3 s) = true.
Proof.
  induction n as [|n IH]; intros s Hlen Hv.
  - destruct s; [reflexivity | cbn in Hlen; lia].
  - destruct s as [|a s1]; [reflexivity|]. cbn [trim_gen]. cbn [List.length] in Hlen.
    destruct (is_ascii_space a) eqn:Ea.
    + apply ascii_space_small in Ea. destruct Ea as [Ea _].
      rewrite valid_unfold, Ea in Hv. apply IH; [lia | assumption].
    + destruct s1 as [|b s2]; [assumption|]. cbn [List.length] in Hlen.
      destruct (ws2 a b) eqn:E2.
      * apply ws2_is2 in E2. destruct E2 as [E2 El].
        rewrite valid_unfold, El, E2 in Hv. apply IH; [lia | assumption].
      * destruct s2 as [|c s3]; [assumption|]. cbn [List.length] in Hlen.
        destruct (ws3 a b c) eqn:E3; [|assumption].
        apply ws3_is3 in E3. destruct E3 as [E3 [E2' El]].
        rewrite valid_unfold, El, E2', E3 in Hv. apply IH; [lia | assumption].
Qed.

Lemma starts_rune_app x y : starts_rune x -> (x = [] -> starts_rune y) -> starts_rune (x ++ y).
Proof. destruct x as [|c x]; cbn; intros H1 H2; [apply H2; reflexivity | assumption]. Qed.

Lemma trim_rev_spec : forall n s,
  (List.length s <= n)%nat ->
  exists w, s = w ++ trim_gen (fun a b => ws2 b a) (fun a b c => ws3 c b a) s /\ starts_rune (rev w).
Proof.
  induction n as [|n IH]; intros s Hlen.
  - destruct s; [exists []; split; [reflexivity | exact I] | cbn in Hlen; lia].
  - destruct s as [|a s1]; [exists []; split; [reflexivity | exact I]|].
    cbn [trim_gen]. cbn [List.length] in Hlen.
    destruct (is_ascii_space a) eqn:Ea.
    + destruct (IH s1 ltac:(lia)) as [w [E Hw]]. exists (a :: w). split.
      * cbn [app]. rewrite <- E. reflexivity.
      * cbn [rev]. apply starts_rune_app; [assumption|]. intros _. cbn.
        apply ascii_space_small in Ea. tauto.
    + destruct s1 as [|b s2]; [exists []; split; [reflexivity | exact I]|]. cbn [List.length] in Hlen.
      destruct (ws2 b a) eqn:E2.
      * destruct (IH s2 ltac:(lia)) as [w [E Hw]]. exists (a :: b :: w). split.
        -- cbn [app]. rewrite <- E. reflexivity.
        -- cbn [rev]. rewrite <- app_assoc. apply starts_rune_app; [assumption|]. intros _. cbn.
           unfold ws2 in E2. bool_hyps; subst; reflexivity.
      * destruct s2 as [|c s3]; [exists []; split; [reflexivity | exact I]|]. cbn [List.length] in Hlen.
        destruct (ws3 c b a) eqn:E3; [|exists []; split; [reflexivity | exact I]].
        destruct (IH s3 ltac:(lia)) as [w [E Hw]]. exists (a :: b :: c :: w). split.
        -- cbn [app]. rewrite <- E. reflexivity.
        -- cbn [rev]. rewrite <- !app_assoc. apply starts_rune_app; [assumption|]. intros _. cbn.
           unfold ws3 in E3. bool_hyps; subst; reflexivity.
Qed.

Lemma trim_space_valid s : utf8_valid s = true -> utf8_valid (trim_space s) = true.
Proof.
  intros Hv. unfold trim_space, trim_right, trim_left.
  assert (Hl : utf8_valid (trim_gen ws2 ws3 s) = true) by (apply (trim_left_valid_len (List.length s)); [lia | assumption]).
  set (u := trim_gen ws2 ws3 s) in *.
  destruct (trim_rev_spec (List.length (rev u)) (rev u) ltac:(lia)) as [w [E Hw]].
  set (tr := trim_gen (fun a b => ws2 b a) (fun a b c => ws3 c b a) (rev u)) in *.
  apply (valid_prefix (rev tr) (rev w)); [assumption|].
  rewrite <- rev_app_distr, <- E, rev_involutive. assumption.
Qed.

Theorem pretty_text_valid_proof : forall t, utf8_valid t = true -> utf8_valid (pretty_text t) = true.
Proof.
  intros t Hv. unfold pretty_text. destruct (Nat.ltb TEXT_CUT (List.length t)).
  - apply valid_app; [apply cut_at_rune_valid; assumption | reflexivity].
  - apply trim_space_valid. assumption.
Qed.

(* the cut only ever removes bytes: what is shown before "..." is a prefix of the first 117 bytes *)
Lemma cut_at_rune_prefix t k : exists rest, firstn k t = cut_at_rune t k ++ rest.
Proof.
  unfold cut_at_rune. destruct (skipn k t) as [|c r]; [exists []; rewrite List.app_nil_r; reflexivity|].
  destruct (is_cont c); [|exists []; rewrite List.app_nil_r; reflexivity].
  destruct (drop_partial_rune_spec (rev (firstn k t))) as [E | [cs [l [E1 E2]]]].
  - rewrite E. exists (firstn k t). reflexivity.
  - set (d := drop_partial_rune (rev (firstn k t))) in *.
    exists (l :: rev cs). rewrite <- (rev_involutive (firstn k t)), E1, rev_app_distr.
    cbn [rev]. rewrite <- app_assoc. reflexivity.
Qed.

Definition long_e_acute : str := flat_map (fun _ => [195; 169]) (seq 0 59) ++ [97; 98].

(* pinned commit: 59 two-byte characters followed by "ab" are cut after byte 117, inside the 59th *)
Lemma pretty_text_pinned_refuted_proof :
  exists t, utf8_valid t = true /\ utf8_valid (pretty_text_pinned t) = false /\
            utf8_valid (pretty_text t) = true.
Proof. exists long_e_acute. vm_compute. repeat split. Qed.

(* Location.String is not injective once file names may contain colons *)
Lemma loc_string_ambiguous_proof :
  exists l1 l2, (l_file l1, l_row l1, l_col l1) <> (l_file l2, l_row l2, l_col l2) /\ loc_string l1 = loc_string l2.
Proof.
  exists {| l_end := None; l_text := None; l_file := [97; 58; 49; 58; 50]; l_col := 0; l_row := 0; l_offset := 0 |},
         {| l_end := None; l_text := None; l_file := [97]; l_col := 2; l_row := 1; l_offset := 0 |}.
  split; [discriminate | reflexivity].
Qed.

(* ------------------------------------------------------------------ how much the cut can lose *)

(* number of continuation bytes at the front of a (reversed) string *)
Fixpoint lead_conts (rp : str) : nat :=
  match rp with
  | c :: rp' => if is_cont c then S (lead_conts rp') else O
  | [] => O
  end.

Lemma drop_partial_rune_length rp :
  (List.length rp <= List.length (drop_partial_rune rp) + S (lead_conts rp))%nat.
Proof.
  induction rp as [|c rp IH]; cbn; [lia|].
  destruct (is_cont c); cbn; lia.
Qed.

Lemma lead_conts_app_stop l z m : is_cont z = false -> lead_conts (l ++ z :: m) = lead_conts l.
Proof.
  intros Hz. induction l as [|c l IH]; cbn; [rewrite Hz; reflexivity|].
  destruct (is_cont c); [rewrite IH; reflexivity | reflexivity].
Qed.

Definition tc (a : str) : nat := lead_conts (rev a).

Lemma tc_skip p z a : is_cont z = false -> tc (p ++ z :: a) = tc (z :: a).
Proof.
  intros Hz. unfold tc. rewrite rev_app_distr. cbn [rev]. rewrite <- app_assoc. cbn [app].
  rewrite !lead_conts_app_stop by assumption. reflexivity.
Qed.

Lemma tc_cons_noncont z a : is_cont z = false -> tc (z :: a) = tc a.
Proof. intros Hz. unfold tc. cbn [rev]. apply lead_conts_app_stop. assumption. Qed.

Lemma is2_lead a b : is2 a b = true -> is_cont a = false.
Proof. unfold is2. intros H. bool_hyps. unfold is_cont. apply andb_false_intro2. apply N.ltb_ge. lia. Qed.
Lemma is3_lead a b c : is3 a b c = true -> is_cont a = false.
Proof. unfold is3. intros H. bool_hyps; unfold is_cont; apply andb_false_intro2; apply N.ltb_ge; lia. Qed.
Lemma is4_lead a b c d : is4 a b c d = true -> is_cont a = false.
Proof. unfold is4. intros H. bool_hyps; unfold is_cont; apply andb_false_intro2; apply N.ltb_ge; lia. Qed.
Lemma ascii_noncont a : (a <? 128) = true -> is_cont a = false.
Proof. intros H. apply N.ltb_lt in H. unfold is_cont. apply andb_false_intro1. apply N.leb_gt. lia. Qed.

Lemma valid_head c s : utf8_valid (c :: s) = true -> is_cont c = false.
Proof.
  rewrite valid_unfold. destruct (c <? 128) eqn:E; [intros _; apply ascii_noncont; assumption|].
  destruct s as [|b s2]; [discriminate|].
  destruct (is2 c b) eqn:E2; [intros _; eapply is2_lead; eassumption|].
  destruct s2 as [|d s3]; [discriminate|].
  destruct (is3 c b d) eqn:E3; [intros _; eapply is3_lead; eassumption|].
  destruct s3 as [|e s4]; [discriminate|].
  destruct (is4 c b d e) eqn:E4; [intros _; eapply is4_lead; eassumption | discriminate].
Qed.

(* tc of a rune prefix followed by the rest of [a]: the rest either is empty or starts a new rune *)
Lemma tc_after p rest b :
  utf8_valid (rest ++ b) = true -> rest <> [] -> tc (p ++ rest) = tc rest.
Proof.
  intros Hv Hne. destruct rest as [|z rest']; [contradiction|].
  cbn [app] in Hv. apply valid_head in Hv. rewrite tc_skip by assumption. reflexivity.
Qed.

Lemma tc_le_length a : (tc a <= List.length a)%nat.
Proof.
  unfold tc. rewrite <- rev_length. generalize (rev a) as l.
  induction l as [|c l IH]; cbn; [lia|]. destruct (is_cont c); lia.
Qed.

Definition claim (a b : str) : Prop :=
  (tc a <= 3)%nat /\
  (forall c b', b = c :: b' -> is_cont c = true -> (tc a <= 2)%nat /\ a <> []).

Lemma claim_by_length a b :
  (List.length a <= 2)%nat -> a <> [] -> claim a b.
Proof.
  intros Hl Hne. pose proof (tc_le_length a). split; [lia|]. intros c b' _ _. split; [lia | assumption].
Qed.

Lemma valid_trailing_conts : forall n a b,
  (List.length a <= n)%nat -> utf8_valid (a ++ b) = true -> claim a b.
Proof.
  induction n as [|n IH]; intros a b Hlen Hv.
  - destruct a; [|cbn in Hlen; lia]. split; [cbn; lia|].
    intros c b' -> Hc. cbn [app] in Hv. apply valid_head in Hv. congruence.
  - destruct a as [|x a1].
    { split; [cbn; lia|]. intros c b' -> Hc. cbn [app] in Hv. apply valid_head in Hv. congruence. }
    assert (Hx : is_cont x = false) by (apply (valid_head x (a1 ++ b)); exact Hv).
    cbn [app] in Hv. rewrite valid_unfold in Hv. cbn [List.length] in Hlen.
    (* the remainder [rest] of a after the first rune, when the rune lies inside a *)
    assert (Hrest : forall p rest, x :: a1 = p ++ rest -> (List.length rest <= n)%nat ->
                                   utf8_valid (rest ++ b) = true -> p <> [] -> (List.length p <= 4)%nat ->
                                   (forall z p', p = z :: p' -> is_cont z = false) ->
                                   (List.length p <= 3)%nat \/ rest <> [] \/ (forall c b', b = c :: b' -> is_cont c = false) ->
                                   claim (x :: a1) b).
    { intros p rest E Hl Hvr Hp Hp4 Hpz Hextra. rewrite E. unfold claim.
      destruct rest as [|z rest'].
      - rewrite List.app_nil_r.
        destruct p as [|z0 p']; [contradiction|]. specialize (Hpz z0 p' eq_refl).
        rewrite tc_cons_noncont by assumption.
        pose proof (tc_le_length p') as Hle. cbn [List.length] in Hp4.
        split; [lia|]. intros c b' -> Hc. cbn [app] in Hvr. apply valid_head in Hvr. congruence.
      - rewrite (tc_after p (z :: rest') b Hvr) by discriminate.
        destruct (IH (z :: rest') b Hl Hvr) as [H1 H2]. split; [assumption|].
        intros c b' Eb Hc. destruct (H2 c b' Eb Hc) as [H3 _]. split; [assumption|].
        destruct p; discriminate. }
    destruct (x <? 128).
    { apply (Hrest [x] a1 eq_refl ltac:(cbn [List.length] in *; lia) Hv ltac:(discriminate) ltac:(cbn; lia));
        [intros z p' [= -> _]; assumption | left; cbn; lia]. }
    destruct a1 as [|y a2].
    { apply claim_by_length; [cbn; lia | discriminate]. }
    cbn [app] in Hv. cbn [List.length] in Hlen.
    destruct (is2 x y).
    { apply (Hrest [x; y] a2 eq_refl ltac:(cbn [List.length] in *; lia) Hv ltac:(discriminate) ltac:(cbn; lia));
        [intros z p' [= -> _]; assumption | left; cbn; lia]. }
    destruct a2 as [|z a3].
    { apply claim_by_length; [cbn; lia | discriminate]. }
    cbn [app] in Hv. cbn [List.length] in Hlen.
    destruct (is3 x y z).
    { apply (Hrest [x; y; z] a3 eq_refl ltac:(cbn [List.length] in *; lia) Hv ltac:(discriminate) ltac:(cbn; lia));
        [intros z0 p' [= -> _]; assumption | left; cbn; lia]. }
    destruct a3 as [|w a4].
    { (* a = [x;y;z], the rune has a fourth byte in b *)
      pose proof (tc_le_length [y; z]) as Hle. unfold claim.
      split; [rewrite tc_cons_noncont by assumption; cbn [List.length] in Hle; lia|].
      intros c b' Eb Hc. split; [rewrite tc_cons_noncont by assumption; cbn [List.length] in Hle; lia | discriminate]. }
    cbn [app] in Hv. cbn [List.length] in Hlen.
    destruct (is4 x y z w); [|discriminate].
    destruct a4 as [|v a5].
    + (* a is exactly one four-byte rune: b starts a new rune or is empty *)
      unfold claim. rewrite tc_cons_noncont by assumption. pose proof (tc_le_length [y; z; w]) as Hle. cbn [List.length] in Hle.
      split; [lia|]. intros c b' -> Hc. cbn [app] in Hv. apply valid_head in Hv. congruence.
    + apply (Hrest [x; y; z; w] (v :: a5) eq_refl ltac:(cbn [List.length] in *; lia) Hv ltac:(discriminate) ltac:(cbn; lia));
        [intros z0 p' [= -> _]; assumption | right; left; discriminate].
Qed.

Theorem cut_at_rune_bounds t k :
  utf8_valid t = true -> (k < List.length t)%nat ->
  (k <= List.length (cut_at_rune t k) + 3)%nat /\ (List.length (cut_at_rune t k) <= k)%nat.
Proof.
  intros Hv Hk. unfold cut_at_rune.
  pose proof (firstn_skipn k t) as Hsplit.
  assert (Hfl : List.length (firstn k t) = k) by (apply firstn_length_le; lia).
  destruct (skipn k t) as [|c rest] eqn:Es.
  - lia.
  - destruct (is_cont c) eqn:Ec; [|lia].
    rewrite rev_length.
    pose proof (drop_partial_rune_length (rev (firstn k t))) as Hd. rewrite rev_length, Hfl in Hd.
    assert (Hcl : claim (firstn k t) (c :: rest)).
    { apply (valid_trailing_conts k); [lia | rewrite Hsplit; assumption]. }
    destruct Hcl as [_ H2]. destruct (H2 c rest eq_refl Ec) as [H3 _]. unfold tc in H3.
    split; [lia|].
    destruct (drop_partial_rune_spec (rev (firstn k t))) as [E | [cs [l [E1 E2]]]].
    + rewrite E. cbn. lia.
    + assert (Hl' : List.length (rev (firstn k t)) = k) by (rewrite rev_length; assumption).
      rewrite E1, app_length in Hl'. cbn [List.length] in Hl'. lia.
Qed.

(* ------------------------------------------------------------------ github workflow commands, byte level *)

Lemma gh_escape_cons p c s : gh_escape p (c :: s) = esc_byte p c ++ gh_escape p s.
Proof. reflexivity. Qed.

Lemma unescape_plain p c e : (c =? 37) = false -> gh_unescape p (c :: e) = c :: gh_unescape p e.
Proof.
  intros H. cbn [gh_unescape]. destruct e as [|a [|b r]]; try reflexivity. rewrite H. reflexivity.
Qed.

Theorem gh_unescape_escape p s : gh_unescape p (gh_escape p s) = s.
Proof.
  induction s as [|c s IH]; [reflexivity|].
  rewrite gh_escape_cons. unfold esc_byte.
  destruct p; cbn [andb].
  - destruct (N.eqb_spec c 37) as [->|H37]; [cbn [app gh_unescape]; cbn; rewrite IH; reflexivity|].
    destruct (N.eqb_spec c 13) as [->|H13]; [cbn [app gh_unescape]; cbn; rewrite IH; reflexivity|].
    destruct (N.eqb_spec c 10) as [->|H10]; [cbn [app gh_unescape]; cbn; rewrite IH; reflexivity|].
    destruct (N.eqb_spec c 58) as [->|H58]; [cbn [app gh_unescape]; cbn; rewrite IH; reflexivity|].
    destruct (N.eqb_spec c 44) as [->|H44]; [cbn [app gh_unescape]; cbn; rewrite IH; reflexivity|].
    cbn [app]. rewrite unescape_plain, IH; [reflexivity | apply N.eqb_neq; assumption].
  - destruct (N.eqb_spec c 37) as [->|H37]; [cbn [app gh_unescape]; cbn; rewrite IH; reflexivity|].
    destruct (N.eqb_spec c 13) as [->|H13]; [cbn [app gh_unescape]; cbn; rewrite IH; reflexivity|].
    destruct (N.eqb_spec c 10) as [->|H10]; [cbn [app gh_unescape]; cbn; rewrite IH; reflexivity|].
    cbn [app]. rewrite unescape_plain, IH; [reflexivity | apply N.eqb_neq; assumption].
Qed.

Lemma esc_byte_property_clean c x : In x (esc_byte true c) -> x <> 44 /\ x <> 58.
Proof.
  unfold esc_byte.
  destruct (N.eqb_spec c 37); [cbn; intuition (subst; discriminate)|].
  destruct (N.eqb_spec c 13); [cbn; intuition (subst; discriminate)|].
  destruct (N.eqb_spec c 10); [cbn; intuition (subst; discriminate)|].
  cbn [andb].
  destruct (N.eqb_spec c 58); [cbn; intuition (subst; discriminate)|].
  destruct (N.eqb_spec c 44); [cbn; intuition (subst; discriminate)|].
  cbn. intros [<-|[]]. split; assumption.
Qed.

Lemma gh_escape_property_clean s x : In x (gh_escape true s) -> x <> 44 /\ x <> 58.
Proof.
  unfold gh_escape. rewrite in_flat_map. intros [c [_ H]]. eapply esc_byte_property_clean; eassumption.
Qed.

Lemma gh_escape_nonempty p s : s <> [] -> gh_escape p s <> [].
Proof.
  destruct s as [|c s]; [contradiction|]. intros _. rewrite gh_escape_cons. unfold esc_byte.
  repeat match goal with |- context [if ?b then _ else _] => destruct b end; discriminate.
Qed.

Lemma index_of_sep a b : ~ In 58 a -> index_of (a ++ 58 :: 58 :: b) [58; 58] = Some (List.length a).
Proof.
  induction a as [|x a IH]; intros H.
  - cbn. reflexivity.
  - cbn [app index_of has_prefix List.length].
    assert (Hx : (x =? 58) = false) by (apply N.eqb_neq; intros ->; apply H; left; reflexivity).
    rewrite Hx. cbn [andb]. rewrite IH; [reflexivity | intros Hin; apply H; right; assumption].
Qed.

Lemma index_byte_sep c a b : ~ In c a -> index_byte c (a ++ c :: b) = Some (List.length a).
Proof.
  induction a as [|x a IH]; intros H; cbn [app index_byte List.length].
  - rewrite N.eqb_refl. reflexivity.
  - assert (Hx : (x =? c) = false) by (apply N.eqb_neq; intros ->; apply H; left; reflexivity).
    rewrite Hx, IH; [reflexivity | intros Hin; apply H; right; assumption].
Qed.

Lemma firstn_exact {A} (a b : list A) : firstn (List.length a) (a ++ b) = a.
Proof.
  rewrite <- (Nat.add_0_r (List.length a)), firstn_app_2. cbn. apply List.app_nil_r.
Qed.

Lemma skipn_exact {A} (a b : list A) k : skipn (List.length a + k) (a ++ b) = skipn k b.
Proof.
  induction a as [|x a IH]; [reflexivity | cbn; apply IH].
Qed.

Lemma not_in_app {A} (x : A) a b : ~ In x a -> ~ In x b -> ~ In x (a ++ b).
Proof. intros Ha Hb Hin. apply in_app_or in Hin. tauto. Qed.

Lemma digits_no (c : N) ds : all_digits ds -> (c < 48 \/ 57 < c) -> ~ In c ds.
Proof.
  intros H Hc Hin. unfold all_digits in H. rewrite Forall_forall in H. specialize (H _ Hin).
  unfold is_digit in H. apply andb_true_iff in H. destruct H as [H1 H2].
  apply N.leb_le in H1. apply N.leb_le in H2. lia.
Qed.

Theorem gh_parse_render a : gh_wf a -> gh_parse_command (gh_command_line a) = Some a.
Proof.
  intros [Hsp [Hcol Hfile]].
  destruct a as [level file row col msg]. cbn [ga_level ga_file ga_row ga_col ga_msg] in *.
  destruct (show_N_spec row) as [Hdr [Hner Hrr]]. destruct (show_N_spec col) as [Hdc [Hnec Hrc]].
  assert (Hef : forall x, In x (gh_escape true file) -> x <> 44 /\ x <> 58) by (intros x; apply gh_escape_property_clean).
  assert (Hefne : gh_escape true file <> []) by (apply gh_escape_nonempty; assumption).
  assert (Hue : gh_unescape true (gh_escape true file) = file) by apply gh_unescape_escape.
  assert (Hud : gh_unescape false (gh_escape false msg) = msg) by apply gh_unescape_escape.
  unfold gh_command_line. cbn [ga_level ga_file ga_row ga_col ga_msg].
  remember (gh_escape true file) as ef eqn:Eef0. remember (show_N row) as dr eqn:Edr0.
  remember (show_N col) as dc eqn:Edc0. remember (gh_escape false msg) as ed eqn:Eed0.
  clear Eef0 Edr0 Edc0 Eed0.
  set (tail := GH_FILE_EQ ++ ef ++ 44 :: GH_LINE_EQ ++ dr ++ 44 :: GH_COL_EQ ++ dc).
  set (info := level ++ 32 :: tail).
  assert (Hline : [58; 58] ++ level ++ 32 :: GH_FILE_EQ ++ ef ++ 44 :: GH_LINE_EQ ++ dr ++ 44 :: GH_COL_EQ ++ dc ++ 58 :: 58 :: ed
                  = [58; 58] ++ info ++ 58 :: 58 :: ed).
  { unfold info, tail. repeat (progress (rewrite <- ?app_assoc; cbn [app])). reflexivity. }
  assert (Hnc_tail : ~ In 58 tail).
  { unfold tail. apply not_in_app; [cbn; intuition discriminate|].
    apply not_in_app; [intros H; apply Hef in H; tauto|].
    intros [H|H]; [discriminate|]. revert H.
    apply not_in_app; [cbn; intuition discriminate|].
    apply not_in_app; [apply digits_no; [assumption | lia]|].
    intros [H|H]; [discriminate|]. revert H.
    apply not_in_app; [cbn; intuition discriminate | apply digits_no; [assumption | lia]]. }
  assert (Hnc : ~ In 58 info).
  { unfold info. apply not_in_app; [assumption|]. intros [H|H]; [discriminate | contradiction]. }
  unfold gh_parse_command. rewrite Hline.
  assert (Hdp : drop_prefix ([58; 58] ++ info ++ 58 :: 58 :: ed) [58; 58] = Some (info ++ 58 :: 58 :: ed))
    by (apply drop_prefix_spec; reflexivity).
  rewrite Hdp, index_of_sep by assumption. cbv zeta.
  rewrite firstn_exact.
  assert (Hdata : skipn (List.length info + 2) (info ++ 58 :: 58 :: ed) = ed) by (rewrite skipn_exact; reflexivity).
  rewrite Hdata.
  assert (Hsp' : index_byte 32 info = Some (List.length level)) by (unfold info; apply index_byte_sep; assumption).
  rewrite Hsp'.
  assert (Hname : firstn (List.length level) info = level) by (unfold info; apply firstn_exact).
  assert (Hprops : skipn (S (List.length level)) info = tail).
  { unfold info. replace (S (List.length level)) with (List.length level + 1)%nat by lia.
    rewrite skipn_exact. reflexivity. }
  rewrite Hname, Hprops.
  (* the three properties *)
  assert (Hsplit : split_on 44 tail = [GH_FILE_EQ ++ ef; GH_LINE_EQ ++ dr; GH_COL_EQ ++ dc]).
  { unfold tail.
    rewrite (app_assoc GH_FILE_EQ ef).
    rewrite split_on_app.
    2:{ apply not_in_app; [cbn; intuition discriminate | intros H; apply Hef in H; tauto]. }
    rewrite (app_assoc GH_LINE_EQ dr).
    rewrite split_on_app.
    2:{ apply not_in_app; [cbn; intuition discriminate | apply digits_no; [assumption | lia]]. }
    rewrite split_on_none.
    2:{ apply not_in_app; [cbn; intuition discriminate | apply digits_no; [assumption | lia]]. }
    reflexivity. }
  rewrite Hsplit.
  assert (Eef : str_eqb ef [] = false) by (destruct ef; [contradiction | reflexivity]).
  assert (Edr : str_eqb dr [] = false) by (destruct dr; [contradiction | reflexivity]).
  assert (Edc : str_eqb dc [] = false) by (destruct dc; [contradiction | reflexivity]).
  cbn [prop_lookup]. cbn. rewrite Eef, Edr, Edc. cbn.
  rewrite Hrr, Hrc, Hue, Hud. reflexivity.
Qed.

(* pinned commit: a comma in the file name ends the file property early *)
Lemma gh_parse_render_pinned_refuted :
  exists a, gh_wf a /\ gh_parse_command (gh_command_line_pinned a) <> Some a /\
            gh_parse_command (gh_command_line a) = Some a.
Proof.
  exists {| ga_level := L_ERROR; ga_file := [97; 44; 98]; ga_row := 1; ga_col := 2; ga_msg := [109] |}.
  split; [|split].
  - repeat split; cbn; intuition discriminate.
  - vm_compute. discriminate.
  - vm_compute. reflexivity.
Qed.

Lemma github_lines_parse cut nocolor r :
  (forall v, In v (r_violations r) -> gh_wf (gh_annotation_of v)) ->
  map gh_parse_command (gd_lines (github_gen cut nocolor r)) = map Some (gd_annotations (github_gen cut nocolor r)).
Proof.
  intros H. unfold github_gen. cbn [gd_lines gd_annotations]. rewrite !map_map.
  apply map_ext_in. intros v Hv. apply gh_parse_render. apply H. assumption.
Qed.
