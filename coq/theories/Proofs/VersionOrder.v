(* C01, seeded round 3: RegoVersionFromVersionsMap selects the same version whatever the order in which
   the Go map is ranged over, PROVIDED no two matching keys of equal raw length carry different versions
   ([ties_agree]); witnesses that the proviso is needed, and against the normalised-length variant. *)
From Regal Require Import Model.VersionOrder.
From Coq Require Import List Permutation Arith Lia Bool.
Import ListNotations.
Local Open Scope nat_scope.

Section Lookup.
  Variable d : str.
  Let step := lookup_step matching_dir d.

  (* what the fold has computed: either nothing matched (accumulator untouched, and only possible from (0, _)
     onwards if no key matches), or the version of a matching entry of maximal raw length *)
  Definition maxlen (m : vmap) : nat :=
    fold_right (fun kv a => if key_matches d (fst kv) then Nat.max (length (fst kv)) a else a) 0 m.

  Definition any_match (m : vmap) : bool := existsb (fun kv => key_matches d (fst kv)) m.

  Lemma step_unfold acc k v :
    step acc (k, v) =
    if key_matches d k then (if Nat.leb (fst acc) (length k) then (length k, v) else acc) else acc.
  Proof. destruct acc as [l s]. reflexivity. Qed.

  Lemma maxlen_cons k v m :
    maxlen ((k, v) :: m) = if key_matches d k then Nat.max (length k) (maxlen m) else maxlen m.
  Proof. reflexivity. Qed.

  Lemma maxlen_bound m n :
    (forall k v, In (k, v) m -> key_matches d k = true -> length k < n) -> 0 < n -> maxlen m < n.
  Proof.
    induction m as [|[k v] m IH]; intros H Hn; [exact Hn|].
    rewrite maxlen_cons.
    assert (maxlen m < n) by (apply IH; [intros; eapply H; [right; eassumption|assumption]|exact Hn]).
    destruct (key_matches d k) eqn:E; [|assumption].
    assert (length k < n) by (apply (H k v); [left; reflexivity|exact E]). lia.
  Qed.

  Lemma fold_spec : forall m acc,
    fst (fold_left step m acc) = Nat.max (fst acc) (maxlen m) /\
    ((snd (fold_left step m acc) = snd acc /\ (forall k v, In (k, v) m -> key_matches d k = true -> length k < fst acc)) \/
     (exists k v, In (k, v) m /\ key_matches d k = true /\ length k = fst (fold_left step m acc) /\ snd (fold_left step m acc) = v)).
  Proof.
    induction m as [|[k v] m IH]; intros acc.
    - cbn [fold_left]. split; [cbn; lia|]. left. split; [reflexivity|]. intros k v [].
    - cbn [fold_left]. rewrite maxlen_cons. specialize (IH (step acc (k, v))). destruct IH as [Hl Hs].
      rewrite step_unfold in Hl, Hs |- *.
      destruct (key_matches d k) eqn:Mk.
      + destruct (Nat.leb (fst acc) (length k)) eqn:Le.
        * apply Nat.leb_le in Le. cbn [fst snd] in Hl, Hs. split; [lia|].
          right. destruct Hs as [[Hsel Hlt]|(k' & v' & Hin & Hm & Hlen & Hv)].
          -- exists k, v. split; [left; reflexivity|]. split; [exact Mk|]. split; [|exact Hsel].
             rewrite Hl. destruct (Nat.eq_dec (length k) 0) as [Z|NZ].
             ++ assert (maxlen m = 0).
                { clear - Hlt Z. induction m as [|[k' v'] m IHm]; [reflexivity|]. rewrite maxlen_cons.
                  destruct (key_matches d k') eqn:E.
                  - exfalso. assert (length k' < length k) by (apply (Hlt k' v'); [left; reflexivity|exact E]). lia.
                  - apply IHm. intros; eapply Hlt; [right; eassumption|assumption]. }
                lia.
             ++ assert (maxlen m < length k) by (apply maxlen_bound; [exact Hlt|lia]). lia.
          -- exists k', v'. split; [right; exact Hin|]. repeat split; assumption.
        * apply Nat.leb_gt in Le. split; [lia|].
          destruct Hs as [[Hsel Hlt]|(k' & v' & Hin & Hm & Hlen & Hv)].
          -- left. split; [exact Hsel|]. intros k' v' [E|Hin] Hm; [inversion E; subst; exact Le|eapply Hlt; eassumption].
          -- right. exists k', v'. split; [right; exact Hin|]. repeat split; assumption.
      + split; [exact Hl|]. destruct Hs as [[Hsel Hlt]|(k' & v' & Hin & Hm & Hlen & Hv)].
        * left. split; [exact Hsel|]. intros k' v' [E|Hin] Hm; [inversion E; subst; congruence|eapply Hlt; eassumption].
        * right. exists k', v'. split; [right; exact Hin|]. repeat split; assumption.
  Qed.

  Lemma maxlen_perm m m' : Permutation m m' -> maxlen m = maxlen m'.
  Proof.
    induction 1 as [|[k v] l l' _ IH|[k1 v1] [k2 v2] l|l l' l'' _ IH1 _ IH2].
    - reflexivity.
    - rewrite !maxlen_cons, IH. reflexivity.
    - rewrite !maxlen_cons. destruct (key_matches d k1), (key_matches d k2); lia.
    - congruence.
  Qed.

  Lemma lookup_perm m m' default :
    Permutation m m' -> ties_agree d m ->
    snd (fold_left step m (O, default)) = snd (fold_left step m' (O, default)).
  Proof.
    intros P T.
    destruct (fold_spec m (O, default)) as [L1 S1], (fold_spec m' (O, default)) as [L2 S2].
    cbn [fst snd] in *. rewrite (maxlen_perm _ _ P) in L1.
    destruct S1 as [[E1 N1]|(k1 & v1 & I1 & M1 & Len1 & V1)], S2 as [[E2 N2]|(k2 & v2 & I2 & M2 & Len2 & V2)].
    - congruence.
    - exfalso. apply Permutation_sym in P. pose proof (Permutation_in _ P I2) as I. specialize (N1 _ _ I M2). lia.
    - exfalso. pose proof (Permutation_in _ P I1) as I. specialize (N2 _ _ I M1). lia.
    - rewrite V1, V2. apply Permutation_sym in P. pose proof (Permutation_in _ P I2) as I2'.
      eapply T; eauto. lia.
  Qed.
End Lookup.

Theorem version_lookup_order_independent m m' filename default :
  Permutation m m' -> ties_agree (dir filename) m ->
  version_from_map m filename default = version_from_map m' filename default.
Proof.
  intros P T. unfold version_from_map, version_from_map_gen.
  destruct m as [|x m]; destruct m' as [|y m'].
  - reflexivity.
  - apply Permutation_nil in P. discriminate.
  - apply Permutation_sym, Permutation_nil in P. discriminate.
  - apply lookup_perm; assumption.
Qed.

Definition s_legacy : str := [108;101;103;97;99;121]%N.
Definition f_legacy_p : str := ([47] ++ s_legacy ++ [47;112;46;114;101;103;111])%N.

(* class of seeded change C01-6 *)
Lemma version_normalised_length_refuted :
  exists m m' f, Permutation m m' /\ NoDup (map fst m) /\ ties_agree (dir f) m /\
    version_from_map_norm m f VUndef <> version_from_map_norm m' f VUndef /\
    version_from_map m f VUndef = version_from_map m' f VUndef.
Proof.
  exists [(s_legacy, V1); ((s_legacy ++ [47])%N, V0)], [((s_legacy ++ [47])%N, V0); (s_legacy, V1)], f_legacy_p.
  split; [apply perm_swap|]. split.
  { constructor; [intros [E|[]]; discriminate|]. constructor; [intros []|constructor]. }
  split.
  { intros k1 v1 k2 v2 [E1|[E1|[]]] [E2|[E2|[]]] _ _ L; inversion E1; inversion E2; subst; try reflexivity; discriminate. }
  split; [vm_compute; discriminate|vm_compute; reflexivity].
Qed.

(* the hypothesis [ties_agree] cannot be dropped: the code as it is *)
Lemma version_equal_length_tie_refuted :
  exists m m' f, Permutation m m' /\ NoDup (map fst m) /\
    version_from_map m f VUndef <> version_from_map m' f VUndef.
Proof.
  exists [((s_legacy ++ [47])%N, V0); (([47] ++ s_legacy)%N, V1)], [(([47] ++ s_legacy)%N, V1); ((s_legacy ++ [47])%N, V0)], f_legacy_p.
  split; [apply perm_swap|]. split.
  { constructor; [intros [E|[]]; discriminate|]. constructor; [intros []|constructor]. }
  vm_compute. discriminate.
Qed.

Example ties_agree_nonvacuous :
  ties_agree (dir f_legacy_p) [(s_legacy, V1); ((s_legacy ++ [47])%N, V0)] /\
  version_from_map [(s_legacy, V1); ((s_legacy ++ [47])%N, V0)] f_legacy_p VUndef = V0.
Proof.
  split; [|vm_compute; reflexivity].
  intros k1 v1 k2 v2 [E1|[E1|[]]] [E2|[E2|[]]] _ _ L; inversion E1; inversion E2; subst; try reflexivity; discriminate.
Qed.
