(* The git gate: what letting a run through implies, and the witnesses against the pinned gate. *)
From Regal Require Import Model.Commit Proofs.Provider Proofs.CleanPath Proofs.Commit.
From Coq Require Import Lia.

(* ---------------------------------------------------------------- the gate itself *)

Lemma filter_nil_forall {A} (f : A -> bool) l : filter f l = [] -> forall x, In x l -> f x = false.
Proof.
  induction l as [|y l IH]; simpl; intros H x Hx; [destruct Hx|].
  destruct (f y) eqn:E; [discriminate|]. destruct Hx as [<-|Hx]; [exact E | apply IH; assumption].
Qed.

Lemma git_guard_proceed cwd rr status modified deleted :
  git_guard cwd rr status modified deleted = GProceed ->
  exists root, rr = RepoAt root /\
    forall f k, In f (modified ++ deleted) -> In k status -> f <> pjoin [fp_abs cwd root; k].
Proof.
  unfold git_guard. destruct rr as [| |root]; try discriminate.
  destruct (guard_conflicts cwd root status modified deleted) as [|x l] eqn:E; [|discriminate].
  intros _. exists root. split; [reflexivity|].
  intros f k Hf Hk Heq. unfold guard_conflicts in E.
  pose proof (filter_nil_forall _ _ E f Hf) as Hn. apply str_in_false in Hn.
  apply Hn. unfold changed_abs. apply in_map_iff. exists k. split; [symmetry; exact Heq | exact Hk].
Qed.

(* ---------------------------------------------------------------- position of the gate in the command *)
Section Command.
  Variable C : Type.

  Lemma guard_sound_lemma (fl : flags) cwd gv roots (fs : fsys C) lr dl ml out fs' :
    fl_force fl = false -> fl_dry_run fl = false ->
    finish_command fl cwd gv roots fs lr dl ml = (out, fs') ->
    (out = OutDone \/ out = OutCommitFailed ->
       exists p r root,
         lr = LDone p r /\ has_conflicts r = false /\ gv_repo gv = RepoAt root /\
         forall f k, In f (pv_modified p ++ pv_deleted p) -> In k (gv_status gv) ->
                     f <> pjoin [fp_abs cwd root; k])
    /\ (out <> OutDone -> out <> OutCommitFailed -> fs' = fs).
  Proof.
    intros Hforce Hdry H. split.
    - intros Hout. unfold finish_command in H.
      destruct lr as [p r| |]; [|injection H as <- _; destruct Hout; discriminate
                                |injection H as <- _; destruct Hout; discriminate].
      destruct (has_conflicts r) eqn:Hc; [injection H as <- _; destruct Hout; discriminate|].
      rewrite Hforce, Hdry in H. simpl in H.
      destruct (git_guard cwd (gv_repo gv) (gv_status gv) (pv_modified p) (pv_deleted p)) eqn:G;
        [|injection H as <- _; destruct Hout; discriminate].
      apply git_guard_proceed in G as [root [Hr Hall]].
      exists p, r, root. repeat split; assumption.
    - intros H1 H2.
      pose proof (no_commit_no_change C fl cwd gv roots fs lr dl ml) as N. rewrite H in N.
      destruct N as [N|[N|N]]; [contradiction | contradiction | exact N].
  Qed.

  (* component-wise reading: no touched file is one that a status key names *)
  Lemma guard_sound_components (fl : flags) cwd gv roots (fs : fsys C) p r dl ml out fs' root rs :
    fl_force fl = false -> fl_dry_run fl = false ->
    finish_command fl cwd gv roots fs (LDone p r) dl ml = (out, fs') ->
    out = OutDone \/ out = OutCommitFailed ->
    gv_repo gv = RepoAt root -> fp_abs cwd root = cpath rs -> Forall regular rs ->
    ~ touches_dirty rs (gv_status gv) (pv_modified p ++ pv_deleted p).
  Proof.
    intros Hforce Hdry H Hout Hrepo Habs Hrs [f [k [ks [Hf [Hk [[Hkeq [Hks Hne]] Hden]]]]]].
    destruct (guard_sound_lemma fl cwd gv roots fs (LDone p r) dl ml out fs' Hforce Hdry H) as [G _].
    destruct (G Hout) as [p' [r' [root' [Hlr [_ [Hrepo' Hall]]]]]].
    injection Hlr as <- <-. rewrite Hrepo in Hrepo'. injection Hrepo' as <-.
    apply (Hall f k Hf Hk). rewrite Habs, Hkeq, Hden.
    symmetry. apply pjoin_cpath_rpath; assumption.
  Qed.
End Command.

(* the absolute work tree root is always a clean path when the working directory is absolute *)
Lemma fp_abs_cpath cwd p :
  is_rooted cwd = true -> exists rs, Forall regular rs /\ fp_abs cwd p = cpath rs.
Proof.
  intros Hc. unfold fp_abs. destruct (is_rooted p) eqn:Hp.
  - apply clean_rooted_cpath. exact Hp.
  - unfold pjoin. simpl.
    destruct cwd as [|c cwd']; [discriminate|]. simpl.
    destruct (negb (str_eqb p [])); apply clean_rooted_cpath; simpl in *; exact Hc.
Qed.

(* ---------------------------------------------------------------- all arguments in one repository *)

(* whatever FindGitRepo answers (other than an error), every argument's own walk answered *)
Lemma find_git_repo_rest_uniform cwd fuel stat c : forall dirs x,
  find_git_repo_rest cwd fuel stat c dirs = x -> x <> RepoErr ->
  c = x /\ forall d, In d dirs -> find_repo_path_abs cwd fuel stat d = x.
Proof.
  induction dirs as [|d ds IH]; intros x H Hx; simpl in H.
  - split; [exact H | intros d []].
  - destruct (find_repo_path_abs cwd fuel stat d) as [| |y] eqn:E; destruct c as [| |z];
      try (exfalso; apply Hx; symmetry; exact H).
    + destruct (IH x H Hx) as [Hc Hall]. split; [exact Hc|].
      intros d' [<-|Hd']; [rewrite E; exact Hc | apply Hall; exact Hd'].
    + destruct (str_eqb_spec y z) as [->|]; [|exfalso; apply Hx; symmetry; exact H].
      destruct (IH x H Hx) as [Hc Hall]. split; [exact Hc|].
      intros d' [<-|Hd']; [rewrite E; exact Hc | apply Hall; exact Hd'].
Qed.

Lemma find_git_repo_uniform_gen cwd fuel stat dirs x :
  find_git_repo cwd fuel stat dirs = x -> x <> RepoErr ->
  forall d, In d dirs -> find_repo_path_abs cwd fuel stat d = x.
Proof.
  destruct dirs as [|d0 ds]; simpl; [intros <- Hx; exfalso; apply Hx; reflexivity|].
  destruct (find_repo_path_abs cwd fuel stat d0) as [| |y] eqn:E; intros H Hx;
    [exfalso; apply Hx; symmetry; exact H | |];
    apply find_git_repo_rest_uniform in H as [Hc Hall]; try exact Hx;
    (intros d [<-|Hd]; [rewrite E; exact Hc | apply Hall; exact Hd]).
Qed.

Lemma find_git_repo_uniform cwd fuel stat dirs r :
  find_git_repo cwd fuel stat dirs = RepoAt r ->
  forall d, In d dirs -> find_repo_path_abs cwd fuel stat d = RepoAt r.
Proof. intros H. apply find_git_repo_uniform_gen; [exact H | discriminate]. Qed.

(* ---------------------------------------------------------------- what the walk finds, component-wise *)

Lemma regular_dotgit : regular s_dotgit.
Proof. repeat split; try discriminate. intros [H|[H|[H|[H|[]]]]]; discriminate. Qed.

Lemma cpath_inj a b : Forall regular a -> Forall regular b -> cpath a = cpath b -> a = b.
Proof.
  intros Ha Hb H. rewrite <- (comps_of_cpath a Ha), <- (comps_of_cpath b Hb), H. reflexivity.
Qed.

Lemma cpath_snoc_neq ds x :
  Forall regular ds -> regular x -> str_eqb (cpath ds) (cpath (ds ++ [x])) = false.
Proof.
  intros Hds Hx. destruct (str_eqb_spec (cpath ds) (cpath (ds ++ [x]))) as [E|]; [|reflexivity].
  apply cpath_inj in E; [| exact Hds | apply Forall_app; split; [exact Hds | constructor; [exact Hx | constructor]]].
  apply (f_equal (@length str)) in E. rewrite app_length in E. simpl in E. lia.
Qed.

Lemma dir_cpath_nil : dir (cpath []) = cpath [].
Proof. reflexivity. Qed.

Lemma snoc_split_cases {A} (rest : list A) x m m' :
  rest ++ [x] = m ++ m' -> (m' = [] /\ m = rest ++ [x]) \/ (exists m'', m' = m'' ++ [x] /\ rest = m ++ m'').
Proof.
  intros H. destruct m' as [|y m'0] using rev_ind.
  - left. rewrite app_nil_r in H. split; [reflexivity | symmetry; exact H].
  - right. clear IHm'0. rewrite app_assoc in H. apply app_inj_tail in H as [H1 H2]. subst y.
    exists m'0. split; [reflexivity | exact H1].
Qed.

(* findRepoPath on a clean absolute path answers with the CLOSEST enclosing directory that holds
   a .git directory: a component-wise ancestor (or the directory itself) *)
Lemma find_repo_path_cpath_at stat : forall fuel ds r,
  Forall regular ds ->
  find_repo_path fuel stat (cpath ds) = RepoAt r ->
  exists rs, r = cpath rs /\ Forall regular rs /\ in_work_tree stat rs ds.
Proof.
  induction fuel as [|fuel IH]; intros ds r Hds H; [discriminate|].
  cbn [find_repo_path] in H.
  rewrite (pjoin_cpath_comp ds s_dotgit Hds regular_dotgit) in H.
  destruct (stat (cpath (ds ++ [s_dotgit]))) eqn:Est; try discriminate.
  - injection H as <-. exists ds. split; [reflexivity|]. split; [exact Hds|].
    exists []. split; [symmetry; apply app_nil_r|]. split; [exact Est|].
    intros m m' Hm Hne. destruct m; [contradiction | discriminate].
  - destruct ds as [|x ds0 _] using rev_ind.
    + rewrite dir_cpath_nil in H. rewrite str_eqb_refl in H. discriminate.
    + apply Forall_app in Hds as [Hds0 Hx]. inversion Hx as [|? ? Hx' _]; subst.
      rewrite (dir_cpath_snoc ds0 x Hds0 Hx') in H.
      rewrite (cpath_snoc_neq ds0 x Hds0 Hx') in H.
      destruct (IH ds0 r Hds0 H) as [rs [Hr [Hrs [rest [Hsplit [Hgit Hclose]]]]]].
      exists rs. split; [exact Hr|]. split; [exact Hrs|].
      exists (rest ++ [x]). split; [rewrite Hsplit, app_assoc; reflexivity|]. split; [exact Hgit|].
      intros m m' Hm Hne. apply snoc_split_cases in Hm as [[_ ->]|[m'' [_ Hrest]]].
      * rewrite app_assoc, <- Hsplit. exact Est.
      * apply (Hclose m m'' Hrest Hne).
Qed.

(* ... and answers "none" only if no directory from the root down holds a .git entry *)
Lemma find_repo_path_cpath_none stat : forall fuel ds,
  Forall regular ds ->
  find_repo_path fuel stat (cpath ds) = RepoNone -> in_no_work_tree stat ds.
Proof.
  induction fuel as [|fuel IH]; intros ds Hds H; [discriminate|].
  cbn [find_repo_path] in H.
  rewrite (pjoin_cpath_comp ds s_dotgit Hds regular_dotgit) in H.
  destruct (stat (cpath (ds ++ [s_dotgit]))) eqn:Est; try discriminate.
  destruct ds as [|x ds0 _] using rev_ind.
  - intros m m' Hm. symmetry in Hm. apply app_eq_nil in Hm as [-> _]. exact Est.
  - apply Forall_app in Hds as [Hds0 Hx]. inversion Hx as [|? ? Hx' _]; subst.
    rewrite (dir_cpath_snoc ds0 x Hds0 Hx') in H.
    rewrite (cpath_snoc_neq ds0 x Hds0 Hx') in H.
    pose proof (IH ds0 Hds0 H) as Hnone.
    intros m m' Hm. apply snoc_split_cases in Hm as [[_ ->]|[m'' [_ Hrest]]].
    + exact Est.
    + apply (Hnone m m'' Hrest).
Qed.

(* FindGitRepo on the ARGUMENT list: a repository is reported only if every argument lies in it,
   component-wise, and it is the closest work tree around every one of them *)
Lemma same_repository cwd fuel stat dirs r :
  is_rooted cwd = true ->
  find_git_repo cwd fuel stat dirs = RepoAt r ->
  exists rs, r = cpath rs /\ Forall regular rs /\
    forall d, In d dirs ->
      exists ds, fp_abs cwd d = cpath ds /\ Forall regular ds /\ in_work_tree stat rs ds.
Proof.
  intros Hcwd H. pose proof (find_git_repo_uniform cwd fuel stat dirs r H) as Hall.
  assert (Hone : forall d, In d dirs ->
            exists ds rs, fp_abs cwd d = cpath ds /\ Forall regular ds /\ r = cpath rs /\ Forall regular rs
                          /\ in_work_tree stat rs ds).
  { intros d Hd. destruct (fp_abs_cpath cwd d Hcwd) as [ds [Hds Habs]].
    pose proof (Hall d Hd) as Hw. unfold find_repo_path_abs in Hw. rewrite Habs in Hw.
    destruct (find_repo_path_cpath_at stat fuel ds r Hds Hw) as [rs [Hr [Hrs Hin]]].
    exists ds, rs. repeat split; assumption. }
  destruct dirs as [|d0 ds0]; [discriminate|].
  destruct (Hone d0 (or_introl eq_refl)) as [_ [rs0 [_ [_ [Hr0 [Hrs0 _]]]]]].
  exists rs0. split; [exact Hr0|]. split; [exact Hrs0|].
  intros d Hd. destruct (Hone d Hd) as [ds [rs [Habs [Hds [Hr [Hrs Hin]]]]]].
  exists ds. split; [exact Habs|]. split; [exact Hds|].
  assert (rs = rs0) as -> by (apply cpath_inj; [exact Hrs | exact Hrs0 | rewrite <- Hr, <- Hr0; reflexivity]).
  exact Hin.
Qed.

(* "no repository" is answered only if every argument lies in no work tree at all *)
Lemma no_repository cwd fuel stat dirs :
  is_rooted cwd = true ->
  find_git_repo cwd fuel stat dirs = RepoNone ->
  forall d, In d dirs ->
    exists ds, fp_abs cwd d = cpath ds /\ Forall regular ds /\ in_no_work_tree stat ds.
Proof.
  intros Hcwd H d Hd.
  pose proof (find_git_repo_uniform_gen cwd fuel stat dirs RepoNone H ltac:(discriminate) d Hd) as Hw.
  destruct (fp_abs_cpath cwd d Hcwd) as [ds [Hds Habs]].
  unfold find_repo_path_abs in Hw. rewrite Habs in Hw.
  exists ds. split; [exact Habs|]. split; [exact Hds|].
  exact (find_repo_path_cpath_none stat fuel ds Hds Hw).
Qed.

(* ---- three ways of asking that do NOT give this ---- *)
Definition only_git_at (g : str) (p : str) : stat_result := if str_eqb p g then StDir else StNotExist.
Definition p_w_pol : str := [47;119;47;112;111;108].                                 (* /w/pol *)
Definition p_w_pol_git : str := p_w_pol ++ [47;46;103;105;116].                      (* /w/pol/.git *)
Definition p_w_pol_draft : str := p_w_pol ++ [45;100;114;97;102;116].                (* /w/pol-draft *)

(* (1) "inside" decided by a string prefix: /w/pol-draft starts with /w/pol (seeded change C14-4) *)
Lemma same_repository_string_prefix_refuted :
  exists cwd stat dirs d r,
    In d dirs
    /\ find_git_repo_strprefix cwd 8 stat dirs = RepoAt r
    /\ find_repo_path_abs cwd 8 stat d = RepoNone
    /\ find_git_repo cwd 8 stat dirs = RepoErr.
Proof.
  exists [47], (only_git_at p_w_pol_git), [p_w_pol; p_w_pol_draft], p_w_pol_draft, p_w_pol.
  split; [right; left; reflexivity|]. repeat split; vm_compute; reflexivity.
Qed.

(* (2) asking about a list that does not hold every argument (the project roots instead of the
   arguments: config.GetPotentialRoots answers with the bundle roots alone as soon as one
   argument has one; seeded change C14-3) *)
Lemma same_repository_other_list_refuted :
  exists cwd stat args roots d r,
    In d args /\ (forall x, In x roots -> In x args)
    /\ find_git_repo cwd 8 stat roots = RepoAt r
    /\ find_repo_path_abs cwd 8 stat d = RepoNone
    /\ find_git_repo cwd 8 stat args = RepoErr.
Proof.
  exists [47], (only_git_at p_w_pol_git), [p_w_pol; p_w_pol_draft], [p_w_pol], p_w_pol_draft, p_w_pol.
  split; [right; left; reflexivity|]. split; [intros x [<-|[]]; left; reflexivity|].
  repeat split; vm_compute; reflexivity.
Qed.

(* (3) the walk on the spelling (repaired in /repo): from /w/pol, "../pol-draft" is followed by ".."
   and ".", where the repository of the working directory is found *)
Lemma find_git_repo_lexical_refuted :
  exists cwd stat d,
    find_git_repo_lexical 8 (fun p => stat (fp_abs cwd p)) [d] = RepoAt [DOT]
    /\ find_git_repo cwd 8 stat [d] = RepoNone.
Proof.
  exists p_w_pol, (only_git_at p_w_pol_git), ([46;46;47] ++ [112;111;108;45;100;114;97;102;116]).
  split; vm_compute; reflexivity.
Qed.

(* ---------------------------------------------------------------- the pinned gate *)
Definition w_root : str := [47;82].                                   (* /R *)
Definition w_file : str := [47;82;47;112;47;120;46;114;101;103;111].  (* /R/p/x.rego *)
Definition w_key : str := [112;47;120;46;114;101;103;111].            (* p/x.rego *)

(* (1) a modified file with a non-clean status passes: absolute vs relative spelling *)
Lemma guard_pinned_refuted_paths :
  exists root status modified deleted,
    git_guard_pinned (RepoAt root) status modified deleted = GProceed
    /\ touches_dirty [[82]] status (modified ++ deleted)
    /\ git_guard [47] (RepoAt root) status modified deleted = GRefuse.
Proof.
  exists w_root, [w_key], [w_file], []. split; [reflexivity|]. split; [|reflexivity].
  exists w_file, w_key, [[112]; [120;46;114;101;103;111]].
  split; [left; reflexivity|]. split; [left; reflexivity|]. split; [|reflexivity].
  split; [reflexivity|]. split; [|discriminate].
  repeat constructor; try discriminate; vm_compute; intuition discriminate.
Qed.

(* (2) even when the keys are spelled like the provider's paths the source of a move is not
   looked at: the repaired gate refuses, the pinned one (given absolute keys) lets it through *)
Lemma guard_pinned_refuted_deleted :
  exists root status modified deleted,
    git_guard [47] (RepoAt root) status modified deleted = GRefuse
    /\ git_guard_pinned (RepoAt root) (changed_abs [47] root status) modified deleted = GProceed.
Proof. exists w_root, [w_key], [], [w_file]. split; reflexivity. Qed.

(* (3) an argument outside of every repository rides along with one inside *)
Definition two_stat (p : str) : stat_result :=
  if str_eqb p [47;97;47;46;103;105;116] then StDir else StNotExist.   (* only /a/.git exists *)

Lemma find_git_repo_pinned_refuted :
  exists stat dirs d,
    In d dirs /\ find_repo_path 8 stat d = RepoNone
    /\ find_git_repo_pinned 8 stat dirs = RepoAt [47;97]
    /\ find_git_repo [47] 8 stat dirs = RepoErr.
Proof.
  exists two_stat, [[47;98]; [47;97]], [47;98].
  split; [left; reflexivity|]. repeat split; vm_compute; reflexivity.
Qed.

(* ---------------------------------------------------------------- symbolic links *)

(* the gate compares spellings: it protects the files git reports as far as the spellings it compares
   (the touched paths and the joined status keys) are faithful *)
Lemma guard_sound_resolved resolve cwd root status modified deleted :
  git_guard cwd (RepoAt root) status modified deleted = GProceed ->
  faithful resolve ((modified ++ deleted) ++ changed_abs cwd root status) ->
  ~ touches_dirty_resolved resolve (fp_abs cwd root) status (modified ++ deleted).
Proof.
  intros Hg Hf [f [k [Hin [Hk Hr]]]].
  destruct (git_guard_proceed _ _ _ _ _ Hg) as [root' [Heq Hne]]. injection Heq as <-.
  apply (Hne f k Hin Hk). apply Hf; [apply in_or_app; left; exact Hin | | exact Hr].
  apply in_or_app. right. unfold changed_abs. apply in_map_iff. exists k. split; [reflexivity | exact Hk].
Qed.

(* /L -> /T: the repository /T reached through the link /L *)
Definition l_resolve (p : str) : str :=
  match p with
  | 47 :: 76 :: rest => 47 :: 84 :: rest      (* /L... -> /T... *)
  | _ => p
  end.
Definition l_root : str := [47;76].                         (* /L *)
Definition l_file : str := [47;76;47;120].                  (* /L/x *)
Definition l_key : str := [120].                            (* x *)

(* resolving ONE side of the comparison lets a dirty file through that the spelled comparison stops *)
Lemma guard_root_resolved_refuted :
  exists resolve cwd root status modified deleted,
    git_guard_root_resolved resolve cwd (RepoAt root) status modified deleted = GProceed
    /\ touches_dirty_resolved resolve (fp_abs cwd root) status (modified ++ deleted)
    /\ git_guard cwd (RepoAt root) status modified deleted = GRefuse.
Proof.
  exists l_resolve, [47], l_root, [l_key], [l_file], []. split; [reflexivity|]. split; [|reflexivity].
  exists l_file, l_key. split; [left; reflexivity|]. split; [left; reflexivity|]. reflexivity.
Qed.

(* /R/l -> /R/a, a link INSIDE the work tree /R: git names the file a/t, the command l/t.  The
   spellings are not faithful and the gate of the tree as it is lets the dirty file through (open
   finding, see notes/C14.md) *)
Definition i_resolve (p : str) : str :=
  match p with
  | 47 :: 82 :: 47 :: 108 :: rest => 47 :: 82 :: 47 :: 97 :: rest     (* /R/l... -> /R/a... *)
  | _ => p
  end.

Lemma guard_unfaithful_refuted :
  exists resolve cwd root status modified deleted,
    git_guard cwd (RepoAt root) status modified deleted = GProceed
    /\ touches_dirty_resolved resolve (fp_abs cwd root) status (modified ++ deleted).
Proof.
  exists i_resolve, [47], [47;82], [[97;47;116]], [[47;82;47;108;47;116]], []. split; [reflexivity|].
  exists [47;82;47;108;47;116], [97;47;116]. split; [left; reflexivity|]. split; [left; reflexivity|]. reflexivity.
Qed.
