(* The git gate: what letting a run through implies, and the witnesses against the pinned gate. *)
From Regal Require Import Model.Commit Proofs.Provider Proofs.CleanPath Proofs.Commit.
From Coq Require Import Lia.

(* ---------------------------------------------------------------- the gate itself *)

Lemma filter_nil_forall {A} (f : A -> bool) l : filter f l = [] -> forall x, In x l -> f x = false.
Proof.
  induction l as [|y l IH]; simpl; intros H x Hx; [destruct Hx|].
  destruct (f y) eqn:E; [discriminate|]. destruct Hx as [<-|Hx]; [exact E | apply IH; assumption].
Qed.

Lemma git_guard_proceed cwd rr status modified deleted :
  git_guard cwd rr status modified deleted = GProceed ->
  exists root, rr = RepoAt root /\
    forall f k, In f (modified ++ deleted) -> In k status -> f <> pjoin [fp_abs cwd root; k].
Proof.
  unfold git_guard. destruct rr as [| |root]; try discriminate.
  destruct (guard_conflicts cwd root status modified deleted) as [|x l] eqn:E; [|discriminate].
  intros _. exists root. split; [reflexivity|].
  intros f k Hf Hk Heq. unfold guard_conflicts in E.
  pose proof (filter_nil_forall _ _ E f Hf) as Hn. apply str_in_false in Hn.
  apply Hn. unfold changed_abs. apply in_map_iff. exists k. split; [symmetry; exact Heq | exact Hk].
Qed.

(* ---------------------------------------------------------------- position of the gate in the command *)
Section Command.
  Variable C : Type.

  Lemma guard_sound_lemma (fl : flags) cwd gv roots (fs : fsys C) lr dl ml out fs' :
    fl_force fl = false -> fl_dry_run fl = false ->
    finish_command fl cwd gv roots fs lr dl ml = (out, fs') ->
    (out = OutDone \/ out = OutCommitFailed ->
       exists p r root,
         lr = LDone p r /\ has_conflicts r = false /\ gv_repo gv = RepoAt root /\
         forall f k, In f (pv_modified p ++ pv_deleted p) -> In k (gv_status gv) ->
                     f <> pjoin [fp_abs cwd root; k])
    /\ (out <> OutDone -> out <> OutCommitFailed -> fs' = fs).
  Proof.
    intros Hforce Hdry H. split.
    - intros Hout. unfold finish_command in H.
      destruct lr as [p r| |]; [|injection H as <- _; destruct Hout; discriminate
                                |injection H as <- _; destruct Hout; discriminate].
      destruct (has_conflicts r) eqn:Hc; [injection H as <- _; destruct Hout; discriminate|].
      rewrite Hforce, Hdry in H. simpl in H.
      destruct (git_guard cwd (gv_repo gv) (gv_status gv) (pv_modified p) (pv_deleted p)) eqn:G;
        [|injection H as <- _; destruct Hout; discriminate].
      apply git_guard_proceed in G as [root [Hr Hall]].
      exists p, r, root. repeat split; assumption.
    - intros H1 H2.
      pose proof (no_commit_no_change C fl cwd gv roots fs lr dl ml) as N. rewrite H in N.
      destruct N as [N|[N|N]]; [contradiction | contradiction | exact N].
  Qed.

  (* component-wise reading: no touched file is one that a status key names *)
  Lemma guard_sound_components (fl : flags) cwd gv roots (fs : fsys C) p r dl ml out fs' root rs :
    fl_force fl = false -> fl_dry_run fl = false ->
    finish_command fl cwd gv roots fs (LDone p r) dl ml = (out, fs') ->
    out = OutDone \/ out = OutCommitFailed ->
    gv_repo gv = RepoAt root -> fp_abs cwd root = cpath rs -> Forall regular rs ->
    ~ touches_dirty rs (gv_status gv) (pv_modified p ++ pv_deleted p).
  Proof.
    intros Hforce Hdry H Hout Hrepo Habs Hrs [f [k [ks [Hf [Hk [[Hkeq [Hks Hne]] Hden]]]]]].
    destruct (guard_sound_lemma fl cwd gv roots fs (LDone p r) dl ml out fs' Hforce Hdry H) as [G _].
    destruct (G Hout) as [p' [r' [root' [Hlr [_ [Hrepo' Hall]]]]]].
    injection Hlr as <- <-. rewrite Hrepo in Hrepo'. injection Hrepo' as <-.
    apply (Hall f k Hf Hk). rewrite Habs, Hkeq, Hden.
    symmetry. apply pjoin_cpath_rpath; assumption.
  Qed.
End Command.

(* the absolute work tree root is always a clean path when the working directory is absolute *)
Lemma fp_abs_cpath cwd p :
  is_rooted cwd = true -> exists rs, Forall regular rs /\ fp_abs cwd p = cpath rs.
Proof.
  intros Hc. unfold fp_abs. destruct (is_rooted p) eqn:Hp.
  - apply clean_rooted_cpath. exact Hp.
  - unfold pjoin. simpl.
    destruct cwd as [|c cwd']; [discriminate|]. simpl.
    destruct (negb (str_eqb p [])); apply clean_rooted_cpath; simpl in *; exact Hc.
Qed.

(* ---------------------------------------------------------------- all arguments in one repository *)

Lemma find_git_repo_rest_uniform fuel stat c : forall dirs r,
  find_git_repo_rest fuel stat c dirs = RepoAt r ->
  c = RepoAt r /\ forall d, In d dirs -> find_repo_path fuel stat d = RepoAt r.
Proof.
  induction dirs as [|d ds IH]; intros r H; simpl in H.
  - split; [exact H | intros d []].
  - destruct (find_repo_path fuel stat d) as [| |x] eqn:E; destruct c as [| |y]; try discriminate.
    + destruct (IH r H) as [Hc _]. discriminate.
    + destruct (str_eqb_spec x y) as [->|]; [|discriminate].
      destruct (IH r H) as [Hc Hall]. split; [exact Hc|].
      injection Hc as ->. intros d' [<-|Hd']; [exact E | apply Hall; exact Hd'].
Qed.

Lemma find_git_repo_uniform fuel stat dirs r :
  find_git_repo fuel stat dirs = RepoAt r ->
  forall d, In d dirs -> find_repo_path fuel stat d = RepoAt r.
Proof.
  destruct dirs as [|d0 ds]; simpl; [discriminate|].
  destruct (find_repo_path fuel stat d0) as [| |x] eqn:E; [discriminate| |]; intros H.
  - apply find_git_repo_rest_uniform in H as [Hc _]. discriminate.
  - apply find_git_repo_rest_uniform in H as [Hc Hall]. injection Hc as ->.
    intros d [<-|Hd]; [exact E | apply Hall; exact Hd].
Qed.

(* ---------------------------------------------------------------- the pinned gate *)
Definition w_root : str := [47;82].                                   (* /R *)
Definition w_file : str := [47;82;47;112;47;120;46;114;101;103;111].  (* /R/p/x.rego *)
Definition w_key : str := [112;47;120;46;114;101;103;111].            (* p/x.rego *)

(* (1) a modified file with a non-clean status passes: absolute vs relative spelling *)
Lemma guard_pinned_refuted_paths :
  exists root status modified deleted,
    git_guard_pinned (RepoAt root) status modified deleted = GProceed
    /\ touches_dirty [[82]] status (modified ++ deleted)
    /\ git_guard [47] (RepoAt root) status modified deleted = GRefuse.
Proof.
  exists w_root, [w_key], [w_file], []. split; [reflexivity|]. split; [|reflexivity].
  exists w_file, w_key, [[112]; [120;46;114;101;103;111]].
  split; [left; reflexivity|]. split; [left; reflexivity|]. split; [|reflexivity].
  split; [reflexivity|]. split; [|discriminate].
  repeat constructor; try discriminate; vm_compute; intuition discriminate.
Qed.

(* (2) even when the keys are spelled like the provider's paths the source of a move is not
   looked at: the repaired gate refuses, the pinned one (given absolute keys) lets it through *)
Lemma guard_pinned_refuted_deleted :
  exists root status modified deleted,
    git_guard [47] (RepoAt root) status modified deleted = GRefuse
    /\ git_guard_pinned (RepoAt root) (changed_abs [47] root status) modified deleted = GProceed.
Proof. exists w_root, [w_key], [], [w_file]. split; reflexivity. Qed.

(* (3) an argument outside of every repository rides along with one inside *)
Definition two_stat (p : str) : stat_result :=
  if str_eqb p [47;97;47;46;103;105;116] then StDir else StNotExist.   (* only /a/.git exists *)

Lemma find_git_repo_pinned_refuted :
  exists stat dirs d,
    In d dirs /\ find_repo_path 8 stat d = RepoNone
    /\ find_git_repo_pinned 8 stat dirs = RepoAt [47;97]
    /\ find_git_repo 8 stat dirs = RepoErr.
Proof.
  exists two_stat, [[47;98]; [47;97]], [47;98].
  split; [left; reflexivity|]. repeat split; vm_compute; reflexivity.
Qed.

(* ---------------------------------------------------------------- symbolic links *)

(* the gate compares spellings: it protects the files git reports as far as the spellings it compares
   (the touched paths and the joined status keys) are faithful *)
Lemma guard_sound_resolved resolve cwd root status modified deleted :
  git_guard cwd (RepoAt root) status modified deleted = GProceed ->
  faithful resolve ((modified ++ deleted) ++ changed_abs cwd root status) ->
  ~ touches_dirty_resolved resolve (fp_abs cwd root) status (modified ++ deleted).
Proof.
  intros Hg Hf [f [k [Hin [Hk Hr]]]].
  destruct (git_guard_proceed _ _ _ _ _ Hg) as [root' [Heq Hne]]. injection Heq as <-.
  apply (Hne f k Hin Hk). apply Hf; [apply in_or_app; left; exact Hin | | exact Hr].
  apply in_or_app. right. unfold changed_abs. apply in_map_iff. exists k. split; [reflexivity | exact Hk].
Qed.

(* /L -> /T: the repository /T reached through the link /L *)
Definition l_resolve (p : str) : str :=
  match p with
  | 47 :: 76 :: rest => 47 :: 84 :: rest      (* /L... -> /T... *)
  | _ => p
  end.
Definition l_root : str := [47;76].                         (* /L *)
Definition l_file : str := [47;76;47;120].                  (* /L/x *)
Definition l_key : str := [120].                            (* x *)

(* resolving ONE side of the comparison lets a dirty file through that the spelled comparison stops *)
Lemma guard_root_resolved_refuted :
  exists resolve cwd root status modified deleted,
    git_guard_root_resolved resolve cwd (RepoAt root) status modified deleted = GProceed
    /\ touches_dirty_resolved resolve (fp_abs cwd root) status (modified ++ deleted)
    /\ git_guard cwd (RepoAt root) status modified deleted = GRefuse.
Proof.
  exists l_resolve, [47], l_root, [l_key], [l_file], []. split; [reflexivity|]. split; [|reflexivity].
  exists l_file, l_key. split; [left; reflexivity|]. split; [left; reflexivity|]. reflexivity.
Qed.

(* /R/l -> /R/a, a link INSIDE the work tree /R: git names the file a/t, the command l/t.  The
   spellings are not faithful and the gate of the tree as it is lets the dirty file through (open
   finding, see notes/C14.md) *)
Definition i_resolve (p : str) : str :=
  match p with
  | 47 :: 82 :: 47 :: 108 :: rest => 47 :: 82 :: 47 :: 97 :: rest     (* /R/l... -> /R/a... *)
  | _ => p
  end.

Lemma guard_unfaithful_refuted :
  exists resolve cwd root status modified deleted,
    git_guard cwd (RepoAt root) status modified deleted = GProceed
    /\ touches_dirty_resolved resolve (fp_abs cwd root) status (modified ++ deleted).
Proof.
  exists i_resolve, [47], [47;82], [[97;47;116]], [[47;82;47;108;47;116]], []. split; [reflexivity|].
  exists [47;82;47;108;47;116], [97;47;116]. split; [left; reflexivity|]. split; [left; reflexivity|]. reflexivity.
Qed.
