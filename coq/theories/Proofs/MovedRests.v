(* A file that directory-package-mismatch has moved satisfies the rule at its new place (also
   under any name the rename loop gives it there), so it is never moved twice: the sources of
   moves are files that were loaded from disk. *)
From Regal Require Import Model.Rename Proofs.Provider Proofs.CleanPath.
From Coq Require Import Lia.
Local Open Scope nat_scope.

Lemma list_str_eqb_refl l : list_str_eqb l l = true.
Proof. induction l as [|x l IH]; simpl; [reflexivity | rewrite str_eqb_refl; exact IH]. Qed.

Lemma lastn_app {A} (l m : list A) : lastn (length m) (l ++ m) = m.
Proof.
  unfold lastn. rewrite app_length. replace (length l + length m - length m) with (length l) by lia.
  rewrite skipn_app, skipn_all, Nat.sub_diag. reflexivity.
Qed.

Lemma split_cpath cs : cs <> [] -> Forall regular cs -> split_on SLASH (cpath cs) = [] :: cs.
Proof.
  intros Hne Hall. unfold cpath.
  change (SLASH :: join [SLASH] cs) with ([] ++ SLASH :: join [SLASH] cs).
  rewrite split_on_app_sep. simpl. f_equal.
  apply split_on_join; [exact Hne | apply regular_no_slash; exact Hall].
Qed.

(* the rule does not fire on <root>/<package path>/<any base name> *)
Lemma dpm_rests rs parts b :
  Forall regular rs -> Forall regular parts -> regular b ->
  dpm_violates (cpath (rs ++ parts ++ [b])) parts = false.
Proof.
  intros Hrs Hparts Hb. unfold dpm_violates.
  rewrite split_cpath.
  - replace ([] :: rs ++ parts ++ [b]) with ((([] : str) :: rs ++ parts) ++ [b])
      by (simpl; rewrite <- app_assoc; reflexivity).
    rewrite removelast_last.
    change (([] : str) :: rs ++ parts) with ((([] : str) :: rs) ++ parts).
    rewrite lastn_app, list_str_eqb_refl. reflexivity.
  - destruct rs; [destruct parts|]; discriminate.
  - apply Forall_app. split; [exact Hrs|]. apply Forall_app. split; [exact Hparts | constructor; [exact Hb | constructor]].
Qed.

(* path.Clean of a clean relative path *)
Lemma clean_rpath cs : cs <> [] -> Forall regular cs -> clean (rpath cs) = rpath cs.
Proof.
  intros Hne Hall. rewrite clean_via_comps.
  assert (Hnr : is_rooted (rpath cs) = false).
  { destruct cs as [|p ps]; [contradiction|].
    inversion Hall as [|? ? [Hp [Hs _]] _]; subst. destruct p as [|c p']; [contradiction|].
    assert (Hc : c <> SLASH) by (intros ->; apply Hs; left; reflexivity).
    unfold rpath. destruct ps; simpl; apply N.eqb_neq; exact Hc. }
  rewrite Hnr, comps_of_rpath by exact Hall. cbv zeta.
  rewrite clean_comps_regular by exact Hall. simpl rev. cbn [app].
  destruct cs; [contradiction | reflexivity].
Qed.

(* filepath.Join(parts...) of regular parts *)
Lemma pjoin_regular parts : parts <> [] -> Forall regular parts -> pjoin parts = rpath parts.
Proof.
  intros Hne Hall. unfold pjoin. rewrite filter_regular by exact Hall.
  destruct parts as [|p ps]; [contradiction|].
  apply (clean_rpath (p :: ps)); assumption.
Qed.

(* the target DirectoryPackageMismatch.Fix computes, component-wise *)
Lemma pjoin2_cpath rcs b :
  Forall regular rcs -> regular b -> pjoin [cpath rcs; []; b] = cpath (rcs ++ [b]).
Proof.
  intros Hrcs Hb. unfold pjoin. cbn [filter]. rewrite cpath_nonempty, (regular_nonempty _ Hb).
  change (str_eqb [] []) with true. cbn [negb].
  cbn [join].
  apply clean_cpath_like; [reflexivity | |].
  - change ([SLASH] ++ b) with (SLASH :: b).
    rewrite comps_of_app_sep, comps_of_cpath by exact Hrcs.
    change b with (rpath [b]) at 1.
    rewrite comps_of_rpath by (constructor; [exact Hb | constructor]). reflexivity.
  - apply Forall_app. split; [exact Hrcs | constructor; [exact Hb | constructor]].
Qed.

Lemma pjoin3_cpath rcs parts b :
  Forall regular rcs -> Forall regular parts -> parts <> [] -> regular b ->
  pjoin [cpath rcs; rpath parts; b] = cpath (rcs ++ parts ++ [b]).
Proof.
  intros Hrcs Hparts Hne Hb. unfold pjoin. cbn [filter].
  rewrite cpath_nonempty, (rpath_nonempty parts Hparts Hne), (regular_nonempty _ Hb). cbn [negb].
  cbn [join].
  apply clean_cpath_like; [reflexivity | |].
  - change ([SLASH] ++ rpath parts ++ [SLASH] ++ b) with (SLASH :: (rpath parts ++ SLASH :: b)).
    rewrite comps_of_app_sep, comps_of_cpath by exact Hrcs.
    rewrite comps_of_app_sep, comps_of_rpath by exact Hparts.
    change b with (rpath [b]) at 1.
    rewrite comps_of_rpath by (constructor; [exact Hb | constructor]). reflexivity.
  - apply Forall_app. split; [exact Hrcs|]. apply Forall_app. split; [exact Hparts | constructor; [exact Hb | constructor]].
Qed.

Lemma dpm_target_cpath basedir file parts rcs :
  dpm_root basedir file = cpath rcs -> Forall regular rcs ->
  Forall regular parts -> regular (path_base file) ->
  dpm_target basedir file parts = cpath (rcs ++ parts ++ [path_base file]).
Proof.
  intros Hroot Hrcs Hparts Hb. unfold dpm_target. rewrite Hroot.
  destruct parts as [|p ps].
  - (* package "data" alone: filepath.Join skips the empty element *)
    change (pjoin []) with (@nil N). apply pjoin2_cpath; assumption.
  - rewrite (pjoin_regular (p :: ps)) by (try discriminate; exact Hparts).
    apply pjoin3_cpath; try assumption. discriminate.
Qed.

(* after the move the rule is satisfied; the same holds for every name in that directory, in
   particular for the candidates of the rename loop *)
Theorem moved_file_rests basedir file parts :
  is_rooted (if is_nil basedir then dir file else basedir) = true ->
  Forall regular parts -> regular (path_base file) ->
  exists ds,
    dpm_target basedir file parts = cpath (ds ++ [path_base file])
    /\ Forall regular ds
    /\ forall nb, regular nb -> dpm_violates (cpath (ds ++ [nb])) parts = false.
Proof.
  intros Hr Hparts Hb.
  destruct (clean_rooted_cpath _ Hr) as [rcs [Hrcs Hroot]].
  exists (rcs ++ parts). split; [|split].
  - rewrite (dpm_target_cpath basedir file parts rcs Hroot Hrcs Hparts Hb).
    rewrite <- app_assoc. reflexivity.
  - apply Forall_app. split; assumption.
  - intros nb Hnb. rewrite <- app_assoc. apply dpm_rests; assumption.
Qed.
