(* C15 / C17 — proofs about the model of the language server's cache (Model/LspCache.v). *)
From Coq Require Import List NArith Bool String Permutation.
From Regal Require Import Base.StrLit Model.Lsp Model.LspCache Gen.LspShape Proofs.Lsp.
Import ListNotations.
Open Scope N_scope.

(* ------------------------------------------------------------------ association lists *)
Lemma a_get_set_same m k v : a_get (a_set m k v) k = Some v.
Proof.
  induction m as [|[k' v'] m IH]; simpl.
  - rewrite N.eqb_refl. reflexivity.
  - destruct (N.eqb k k') eqn:E; simpl; [rewrite N.eqb_refl; reflexivity|rewrite E; exact IH].
Qed.

Lemma a_get_set_other m k v k' : k' <> k -> a_get (a_set m k v) k' = a_get m k'.
Proof.
  intros Hne. induction m as [|[k0 v0] m IH]; simpl.
  - destruct (N.eqb k' k) eqn:E; [apply N.eqb_eq in E; contradiction|reflexivity].
  - destruct (N.eqb k k0) eqn:E; simpl.
    + apply N.eqb_eq in E. subst k0.
      destruct (N.eqb k' k) eqn:E2; [apply N.eqb_eq in E2; contradiction|reflexivity].
    + destruct (N.eqb k' k0); [reflexivity|exact IH].
Qed.

Lemma field_eqb_refl f : field_eqb f f = true.
Proof. unfold field_eqb. apply N.eqb_refl. Qed.

Lemma field_eqb_eq f g : field_eqb f g = true -> f = g.
Proof. destruct f, g; simpl; intros H; try reflexivity; discriminate. Qed.

(* ------------------------------------------------------------------ atomic partial updates of one entry *)
Section Updates.
  Variables (s : cstate) (u : uri) (R1 R2 : list rule) (n1 n2 : list diag).

  Definition upd1 := OSetDiagsForRules u R1 n1.
  Definition upd2 := OSetDiagsForRules u R2 n2.

  Lemma diags_after_two (Ra Rb : list rule) (na nb : list diag) :
    diags_of (state_after [OSetDiagsForRules u Ra na; OSetDiagsForRules u Rb nb] s) u
    = merge_rules Rb (merge_rules Ra (diags_of s u) na) nb.
  Proof.
    unfold state_after, run_ops, run_op, prog_of, run_prog, exec_step, diags_of. simpl.
    unfold fupd at 1. rewrite field_eqb_refl. rewrite a_get_set_same.
    unfold fupd at 1. rewrite field_eqb_refl. rewrite a_get_set_same. simpl.
    destruct (a_get (s FDiags) u) as [[n|l|l]|]; reflexivity.
  Qed.

  Lemma other_after_two (Ra Rb : list rule) (na nb : list diag) f v :
    f <> FDiags \/ v <> u ->
    a_get (state_after [OSetDiagsForRules u Ra na; OSetDiagsForRules u Rb nb] s f) v = a_get (s f) v.
  Proof.
    intros H. unfold state_after, run_ops, run_op, prog_of, run_prog, exec_step. simpl.
    unfold fupd. destruct (field_eqb f FDiags) eqn:E.
    - apply field_eqb_eq in E. subst f. destruct H as [H|H]; [contradiction|].
      rewrite a_get_set_other by exact H. rewrite field_eqb_refl. rewrite a_get_set_other by exact H. reflexivity.
    - reflexivity.
  Qed.

  Hypothesis Hdisj : forall r, mem r R1 = true -> mem r R2 = false.
  Hypothesis H1 : forall d, In d n1 -> mem (code d) R1 = true.
  Hypothesis H2 : forall d, In d n2 -> mem (code d) R2 = true.

  (* the two orders give the same diagnostics up to order, touch nothing else, and lose neither update *)
  Lemma disjoint_updates_commute_lemma :
    Permutation (diags_of (state_after [upd1; upd2] s) u) (diags_of (state_after [upd2; upd1] s) u) /\
    (forall f v, f <> FDiags \/ v <> u ->
                 a_get (state_after [upd1; upd2] s f) v = a_get (state_after [upd2; upd1] s f) v) /\
    (forall d, In d n1 \/ In d n2 -> In d (diags_of (state_after [upd1; upd2] s) u)).
  Proof.
    unfold upd1, upd2. repeat split.
    - rewrite !diags_after_two. apply set_for_rules_merge_lemma; assumption.
    - intros f v H. rewrite !other_after_two by exact H. reflexivity.
    - intros d Hd. rewrite diags_after_two. unfold merge_rules. apply in_or_app. destruct Hd as [Hd|Hd].
      + left. apply filter_In. split.
        * apply in_or_app. right. exact Hd.
        * rewrite (Hdisj _ (H1 d Hd)). reflexivity.
      + right. exact Hd.
  Qed.
End Updates.

(* ------------------------------------------------------------------ the split variant loses an update *)
Definition w_state : cstate := state_after [OSet FDiags 1 (VDiags [(1, 5); (2, 6); (3, 7)])] cempty.
Definition lacks (d : diag) (s : cstate) : bool := negb (existsb (diag_eqb d) (diags_of s 1)).

Lemma split_update_lemma :
  (* Get, compute, Set in two goroutines: a final state without the update of the first one is reachable
     (schedule: both Get, then both Set) ... *)
  reachable 4 (lacks (1, 8)) [[(split_for_rules 1 [1] [(1, 8)], RUnit)]; [(split_for_rules 1 [2] [(2, 9)], RUnit)]] w_state = true /\
  (* ... and so is one without the update of the second *)
  reachable 4 (lacks (2, 9)) [[(split_for_rules 1 [1] [(1, 8)], RUnit)]; [(split_for_rules 1 [2] [(2, 9)], RUnit)]] w_state = true /\
  (* with the atomic operation no interleaving loses either *)
  reachable 4 (fun s => lacks (1, 8) s || lacks (2, 9) s)
            [thread_of [(OSetDiagsForRules 1 [1] [(1, 8)], RUnit)]; thread_of [(OSetDiagsForRules 1 [2] [(2, 9)], RUnit)]] w_state = false.
Proof. vm_compute. repeat split. Qed.

(* ------------------------------------------------------------------ tie to the source *)
Definition render_inplace (e : string * (string * string * bool)) : str * (str * str * bool) :=
  (lit (fst e), (lit (fst (fst (snd e))), lit (snd (fst (snd e))), snd (snd e))).
Definition render_rmw (e : string * string * string) : str * str * str :=
  (lit (fst (fst e)), lit (snd (fst e)), lit (snd e)).

Lemma cache_shape_match_lemma :
  cache_found = true /\
  cache_fields = map (fun f => lit (field_name f)) all_fields /\
  cache_funcs = map lit cache_funcs_modelled /\
  cache_sites = map render_site cache_sites_modelled /\
  cache_calls = map (fun c => (lit (fst c), lit (snd c))) cache_calls_modelled /\
  cache_inplace = map render_inplace cache_inplace_modelled /\
  lsp_cache_rmw = map render_rmw lsp_cache_rmw_modelled /\
  no_get_then_set cache_sites_modelled = true /\
  inplace_only_fresh cache_inplace_modelled = true /\
  samples_ok (tl cache_funcs_modelled) sample_ops = true.
Proof. vm_compute. repeat split. Qed.

Lemma cache_values_shape_lemma :
  cache_found = true /\
  cache_funcs = map lit cache_funcs_modelled /\
  cache_sites = map render_site cache_sites_modelled /\
  cache_inplace = map render_inplace cache_inplace_modelled /\
  no_get_then_set cache_sites_modelled = true /\
  inplace_only_fresh cache_inplace_modelled = true.
Proof.
  destruct cache_shape_match_lemma as (H1 & _ & H3 & H4 & _ & H6 & _ & H8 & H9 & _).
  exact (conj H1 (conj H3 (conj H4 (conj H6 (conj H8 H9))))).
Qed.
