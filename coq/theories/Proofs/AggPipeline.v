(* Proofs about Model/AggPipeline.v (C09): two-phase = one-shot. *)
From Regal Require Import Base.Str Model.Directive Model.AggPipeline Proofs.Directive.
From Coq Require Import Lia Permutation.

(* ---------- generic list facts ---------- *)

Lemma flat_map_pointwise_perm {A B} (f g : A -> list B) l :
  (forall x, In x l -> Permutation (f x) (g x)) -> Permutation (flat_map f l) (flat_map g l).
Proof.
  induction l as [|x l IH]; intros H; [constructor|]. cbn.
  apply Permutation_app; [apply H; left; reflexivity | apply IH; intros y Hy; apply H; right; exact Hy].
Qed.

Lemma existsb_perm {A} (p : A -> bool) l l' : Permutation l l' -> existsb p l = existsb p l'.
Proof.
  induction 1 as [| x l l' _ IH | x y l | l l' l'' _ IH1 _ IH2]; cbn.
  - reflexivity.
  - rewrite IH. reflexivity.
  - destruct (p x), (p y); reflexivity.
  - congruence.
Qed.

Lemma flat_map_concat {A B} (f : A -> list B) (ls : list (list A)) :
  concat (map (flat_map f) ls) = flat_map f (concat ls).
Proof.
  induction ls as [|l ls IH]; [reflexivity|]. cbn. rewrite IH, flat_map_app. reflexivity.
Qed.

Section PipelineProofs.
  Variable File : Type.
  Variable Agg : Type.
  Variable fname : File -> str.
  Variable fcomments : File -> list comment.
  Variable brules : list str.
  Variable ckeys : list str.
  Variable B_aggregate : str -> File -> list Agg.
  Variable C_aggregate : str -> File -> option (list Agg).
  Variable B_report : str -> list Agg -> list violation.
  Variable C_report : str -> list Agg -> list violation.

  (* H_aggperm: every aggregate_report is invariant under permutation of the entries it is handed *)
  Hypothesis H_bperm : forall r a b, Permutation a b -> Permutation (B_report r a) (B_report r b).
  Hypothesis H_cperm : forall k a b, Permutation a b -> Permutation (C_report k a) (C_report k b).

  Notation file_aggs := (file_aggs File Agg brules ckeys B_aggregate C_aggregate).
  Notation collect := (collect File Agg brules ckeys B_aggregate C_aggregate).
  Notation agg_report_raw := (agg_report_raw Agg brules ckeys B_report C_report).
  Notation agg_report := (agg_report Agg brules ckeys B_report C_report).
  Notation lint_aggregate_violations := (lint_aggregate_violations Agg brules ckeys B_report C_report).
  Notation one_shot := (one_shot File Agg fname fcomments brules ckeys B_aggregate C_aggregate B_report C_report).
  Notation two_phase := (two_phase File Agg fname fcomments brules ckeys B_aggregate C_aggregate B_report C_report).
  Notation results_of := (results_of File fname fcomments).
  Notation exported_dirs := (exported_dirs File fname fcomments).

  Lemma am_get_perm k (m m' : aggmap Agg) : Permutation m m' -> Permutation (am_get k m) (am_get k m').
  Proof. intros H. unfold am_get. apply Permutation_flat_map. exact H. Qed.

  Lemma am_mem_perm k (m m' : aggmap Agg) : Permutation m m' -> am_mem k m = am_mem k m'.
  Proof. intros H. unfold am_mem. apply existsb_perm. exact H. Qed.

  Lemma agg_report_raw_equiv (m m' : aggmap Agg) :
    (forall k, Permutation (am_get k m) (am_get k m')) -> (forall k, am_mem k m = am_mem k m') ->
    Permutation (agg_report_raw m) (agg_report_raw m').
  Proof.
    intros Hget Hmem. unfold AggPipeline.agg_report_raw. apply Permutation_app.
    - apply flat_map_pointwise_perm. intros r _. apply H_bperm, Hget.
    - apply flat_map_pointwise_perm. intros k _. rewrite (Hmem k).
      destruct (am_mem k m'); [apply H_cperm, Hget | constructor].
  Qed.

  Lemma agg_report_equiv (m m' : aggmap Agg) (g g' : gomap) :
    (forall k, Permutation (am_get k m) (am_get k m')) -> (forall k, am_mem k m = am_mem k m') ->
    (forall v, agg_ignored g v = agg_ignored g' v) ->
    Permutation (agg_report m g) (agg_report m' g').
  Proof.
    intros Hget Hmem Hdir. unfold AggPipeline.agg_report, agg_report_filter.
    rewrite (filter_ext (fun v => negb (agg_ignored g v)) (fun v => negb (agg_ignored g' v)))
      by (intros v; rewrite Hdir; reflexivity).
    apply Permutation_filter'. apply agg_report_raw_equiv; assumption.
  Qed.

  Lemma collect_true part : collect true part = flat_map file_aggs part.
  Proof. unfold AggPipeline.collect. rewrite orb_true_r. reflexivity. Qed.

  Lemma collect_multi part : (2 <= length part)%nat -> collect false part = flat_map file_aggs part.
  Proof.
    intros H. unfold AggPipeline.collect.
    destruct (Nat.ltb_spec 1 (length part)); [reflexivity | lia].
  Qed.

  (* without the collect query a single file exports nothing *)
  Lemma collect_single_without_query f : collect false [f] = [].
  Proof. reflexivity. Qed.

  Lemma merged_is_collect_of_all parts :
    merge_aggs Agg (map (collect true) parts) = flat_map file_aggs (concat parts).
  Proof.
    unfold merge_aggs. rewrite (map_ext (collect true) (flat_map file_aggs)) by apply collect_true.
    apply flat_map_concat.
  Qed.

  Definition named (f : File) : str * list comment := (fname f, fcomments f).

  Lemma results_of_file_results fs : results_of fs = file_results (map named fs).
  Proof. unfold AggPipeline.results_of, file_results. rewrite map_map. reflexivity. Qed.

  (* the directives seen by the aggregate report: two-phase (exported, merged, handed on) = one-shot *)
  Lemma two_phase_dirs parts files v :
    NoDup (map fname files) -> Permutation (concat parts) files ->
    agg_ignored (carry_overridden [] (merge_exported (map exported_dirs parts))) v =
    agg_ignored (carry (results_of files)) v.
  Proof.
    intros Hnd Hp.
    assert (He : map exported_dirs parts = map (fun p => carry (file_results p)) (map (map named) parts)).
    { rewrite map_map. apply map_ext. intros p. unfold AggPipeline.exported_dirs.
      rewrite results_of_file_results. reflexivity. }
    rewrite He, results_of_file_results.
    apply two_phase_directives_lemma.
    - rewrite map_map. exact Hnd.
    - rewrite <- concat_map. apply Permutation_map. exact Hp.
  Qed.

  Lemma lint_agg_provided (m : aggmap Agg) g : lint_aggregate_violations [] 0 (Some m) g = agg_report m g.
  Proof. unfold AggPipeline.lint_aggregate_violations. destruct m; reflexivity. Qed.

  Lemma lint_agg_multi (own : aggmap Agg) n g :
    (2 <= n)%nat -> lint_aggregate_violations own n None g = agg_report own g.
  Proof.
    intros H. unfold AggPipeline.lint_aggregate_violations.
    destruct (Nat.ltb_spec 1 n) as [_|]; [|lia]. rewrite !orb_true_r. reflexivity.
  Qed.

  (* For every split of the files into runs, every order of the runs inside the merge and every completion
     order inside a run: the aggregate violations of the two-phase pipeline are those of one Lint call over all
     files, as multisets -- for workspaces of at least two files with distinct names. *)
  Theorem two_phase_eq_one_shot_thm (parts : list (list File)) (files : list File) :
    (2 <= length files)%nat -> NoDup (map fname files) -> Permutation (concat parts) files ->
    Permutation (two_phase parts) (one_shot files).
  Proof.
    intros Hlen Hnd Hp.
    unfold AggPipeline.two_phase, AggPipeline.one_shot.
    rewrite lint_agg_provided, (lint_agg_multi _ _ _ Hlen).
    rewrite merged_is_collect_of_all, (collect_multi files Hlen).
    assert (Hm : Permutation (flat_map file_aggs (concat parts)) (flat_map file_aggs files))
      by (apply Permutation_flat_map; exact Hp).
    apply agg_report_equiv.
    - intros k. apply am_get_perm. exact Hm.
    - intros k. apply am_mem_perm. exact Hm.
    - intros v. apply two_phase_dirs; assumption.
  Qed.

  (* reporting from any aggregates that agree key-wise (as multisets) with a fresh collect over the files gives the
     fresh result: the form used for caches that regroup the entries *)
  Lemma report_from_equivalent (m : aggmap Agg) (files : list File) (g : gomap) :
    (forall k, Permutation (am_get k m) (am_get k (flat_map file_aggs files))) ->
    (forall k, In k ckeys -> am_mem k m = am_mem k (flat_map file_aggs files)) ->
    Permutation (lint_aggregate_violations [] 0 (Some m) g)
                (lint_aggregate_violations [] 0 (Some (flat_map file_aggs files)) g).
  Proof.
    intros Hget Hmem. rewrite !lint_agg_provided.
    unfold AggPipeline.agg_report, agg_report_filter. apply Permutation_filter'.
    unfold AggPipeline.agg_report_raw. apply Permutation_app.
    - apply flat_map_pointwise_perm. intros r _. apply H_bperm, Hget.
    - apply flat_map_pointwise_perm. intros k Hk. rewrite (Hmem k Hk).
      destruct (am_mem k (flat_map file_aggs files)); [apply H_cperm, Hget | constructor].
  Qed.
End PipelineProofs.

(* ---------- counterexamples (concrete instances of the oracles) ---------- *)

Definition ex_v (t : N) (f : str) (r : N) : violation :=
  {| v_cat := [99]; v_title := [t]; v_file := f; v_row := Some r; v_col := 1 |}.

(* two files "a", "b"; one bundled rule "r" aggregating one entry per file and reporting a violation of title
   "x" at a.4 whenever it sees both entries; file "a" carries `# regal ignore:x` on row 3 *)
Definition ex_fname (f : N) : str := [f].
Definition ex_fcomments (f : N) : list comment :=
  if f =? 97 then [{| c_row := 3; c_text := 32 :: MARKER ++ [120] |}] else [].
Definition ex_bagg (_ : str) (f : N) : list N := [f].
Definition ex_cagg (_ : str) (_ : N) : option (list N) := None.
Definition ex_brep (_ : str) (aggs : list N) : list violation :=
  if Nat.leb 2 (length aggs) then [ex_v 120 [97] 4] else [].
Definition ex_crep (_ : str) (_ : list N) : list violation := [].

Lemma two_phase_without_directives_refuted_lemma :
  exists (parts : list (list N)) (files : list N),
    (2 <= length files)%nat /\ NoDup (map ex_fname files) /\ Permutation (concat parts) files /\
    one_shot N N ex_fname ex_fcomments [[114]] [] ex_bagg ex_cagg ex_brep ex_crep files = [] /\
    two_phase N N ex_fname ex_fcomments [[114]] [] ex_bagg ex_cagg ex_brep ex_crep parts = [] /\
    two_phase_no_directives N N [[114]] [] ex_bagg ex_cagg ex_brep ex_crep parts = [ex_v 120 [97] 4].
Proof.
  exists [[97]; [98]], [97; 98].
  split; [cbn; lia|]. split; [repeat constructor; cbn; intuition discriminate|].
  split; [apply Permutation_refl|]. repeat split; vm_compute; reflexivity.
Qed.

(* a rule reporting on the absence of data (like no-defined-entrypoint), nothing aggregated by anybody:
   before /repo 42020a4 the aggregate-only run was refused, now it reports like the one-shot run *)
Definition ex_nbagg (_ : str) (_ : N) : list N := [].
Definition ex_nbrep (_ : str) (aggs : list N) : list violation :=
  match aggs with [] => [{| v_cat := [99]; v_title := [110]; v_file := []; v_row := None; v_col := 0 |}] | _ => [] end.

Lemma pinned_empty_aggregates_refuted_lemma :
  let files := [97; 98] in let parts := [[97]; [98]] in
  one_shot N N ex_fname ex_fcomments [[114]] [] ex_nbagg ex_cagg ex_nbrep ex_crep files =
  two_phase N N ex_fname ex_fcomments [[114]] [] ex_nbagg ex_cagg ex_nbrep ex_crep parts /\
  one_shot N N ex_fname ex_fcomments [[114]] [] ex_nbagg ex_cagg ex_nbrep ex_crep files <> [] /\
  two_phase_pinned N N [[114]] [] ex_nbagg ex_cagg ex_nbrep ex_crep parts = None /\
  one_shot_pinned N N ex_fname ex_fcomments [[114]] [] ex_nbagg ex_cagg ex_nbrep ex_crep files = [].
Proof. cbn zeta. repeat split; try (vm_compute; reflexivity). vm_compute. discriminate. Qed.

(* one file only: Lint does not run the aggregate report for a single file, the two-phase pipeline does *)
Lemma single_file_differs_lemma :
  one_shot N N ex_fname ex_fcomments [[114]] [] ex_nbagg ex_cagg ex_nbrep ex_crep [97] = [] /\
  two_phase N N ex_fname ex_fcomments [[114]] [] ex_nbagg ex_cagg ex_nbrep ex_crep [[97]] <> [].
Proof. split; [vm_compute; reflexivity | vm_compute; discriminate]. Qed.
