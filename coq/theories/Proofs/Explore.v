(* The enumerator used by the correspondence check (Check/C13Check.v [explore]) contains the result
   of the model's lint/fix loop for EVERY schedule: comparing the observed tree with the set
   [explore] returns is comparing it with all behaviours the model allows. *)
From Regal Require Import Check.C13Check.

Lemma explore_complete : forall rounds pol starting roots t (p : provider str) r sched,
  In (fix_loop pv_rename (lint_pkg_of t) (lint_fix_of t) roots find_closest_matching_root
               rounds FUEL pol starting sched p r)
     (explore rounds pol starting roots t p r).
Proof.
  induction rounds as [|n IH]; intros pol starting roots t p r sched; cbn [explore fix_loop].
  - left. reflexivity.
  - destruct (run_fixes pv_rename FUEL pol starting p r (pending_content (lint_fix_of t) p)) as [p1 r1| |];
      [|left; reflexivity|left; reflexivity].
    destruct (pending_moves (lint_pkg_of t) roots find_closest_matching_root p1) as [|m0 ms] eqn:Em;
      [left; reflexivity|].
    cbv iota.
    remember (m0 :: ms) as moves eqn:Hmoves.
    remember (match sched with k :: _ => k | [] => O end) as k eqn:Hk.
    destruct (nth_error moves (Nat.modulo k (length moves))) as [m|] eqn:En.
    + apply in_flat_map. exists m. split; [eapply nth_error_In; exact En|].
      destruct (apply_fix pv_rename FUEL pol starting p1 r1 m) as [p2 r2| |];
        [apply IH | left; reflexivity | left; reflexivity].
    + exfalso. apply nth_error_None in En.
      assert (H : (Nat.modulo k (length moves) < length moves)%nat)
        by (apply Nat.mod_upper_bound; rewrite Hmoves; simpl; discriminate).
      apply (Nat.lt_irrefl _ (Nat.lt_le_trans _ _ _ H En)).
Qed.
