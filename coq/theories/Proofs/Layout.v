(* C08 — proofs about the layout layer (Model/Layout.v). No Rego semantics here: what is proved is that the
   re-embeddings move / keep / append rows of the line table exactly as computed by [ops_index], that regal's own
   CRLF normalisation makes the line table independent of the line-end style, and which operations commute. *)
From Regal Require Import Base.Str Model.Layout.
From Coq Require Import List NArith Bool Arith Lia Permutation.
Import ListNotations.
Local Open Scope nat_scope.

(* ------------------------------------------------------------------ split / join *)

Lemma split_on_no c l : ~ In c l -> split_on c l = [l].
Proof.
  induction l as [|x l IH]; intros Hn; [reflexivity|].
  cbn [split_on]. destruct (N.eqb_spec x c) as [->|Hne].
  - exfalso; apply Hn; left; reflexivity.
  - rewrite IH; [reflexivity|]. intros H; apply Hn; right; exact H.
Qed.

Lemma split_on_app c l rest : ~ In c l -> split_on c (l ++ c :: rest) = l :: split_on c rest.
Proof.
  induction l as [|x l IH]; intros Hn.
  - cbn [app split_on]. rewrite N.eqb_refl. reflexivity.
  - cbn [app split_on]. destruct (N.eqb_spec x c) as [->|Hne].
    + exfalso; apply Hn; left; reflexivity.
    + rewrite IH; [reflexivity|]. intros H; apply Hn; right; exact H.
Qed.

Lemma clean_line_no l c : clean_line l = true -> c = LF \/ c = CR -> ~ In c l.
Proof.
  unfold clean_line. intros Hc Hcc Hin.
  rewrite forallb_forall in Hc. specialize (Hc c Hin). unfold clean_byte in Hc.
  apply andb_true_iff in Hc as [H1 H2].
  destruct Hcc as [-> | ->].
  - rewrite N.eqb_refl in H1; discriminate.
  - rewrite N.eqb_refl in H2; discriminate.
Qed.

(* ------------------------------------------------------------------ CRLF normalisation *)

Lemma normalize_clean l : clean_line l = true -> normalize_crlf l = l.
Proof.
  induction l as [|x l IH]; intros Hc; [reflexivity|].
  cbn [clean_line forallb] in Hc. apply andb_true_iff in Hc as [Hx Hl].
  cbn [normalize_crlf]. destruct l as [|y l']; [reflexivity|].
  unfold clean_byte in Hx. apply andb_true_iff in Hx as [_ Hx2].
  apply negb_true_iff in Hx2. rewrite Hx2. cbn [andb].
  f_equal. apply IH. exact Hl.
Qed.

Lemma normalize_app_lf l rest :
  clean_line l = true -> normalize_crlf (l ++ LF :: rest) = l ++ LF :: normalize_crlf rest.
Proof.
  induction l as [|x l IH]; intros Hc.
  - cbn [app]. cbn [normalize_crlf]. destruct rest as [|y r]; [reflexivity|].
    change (N.eqb LF CR) with false. cbn [andb]. reflexivity.
  - cbn [clean_line forallb] in Hc. apply andb_true_iff in Hc as [Hx Hl].
    unfold clean_byte in Hx. apply andb_true_iff in Hx as [_ Hx2]. apply negb_true_iff in Hx2.
    cbn [app]. cbn [normalize_crlf].
    destruct (l ++ LF :: rest) as [|y r] eqn:E.
    + destruct l; discriminate E.
    + rewrite Hx2. cbn [andb]. f_equal. apply IH. exact Hl.
Qed.

Lemma normalize_app_crlf l rest :
  clean_line l = true -> normalize_crlf (l ++ CR :: LF :: rest) = l ++ LF :: normalize_crlf rest.
Proof.
  induction l as [|x l IH]; intros Hc.
  - cbn [app]. cbn [normalize_crlf]. rewrite !N.eqb_refl. reflexivity.
  - cbn [clean_line forallb] in Hc. apply andb_true_iff in Hc as [Hx Hl].
    unfold clean_byte in Hx. apply andb_true_iff in Hx as [_ Hx2]. apply negb_true_iff in Hx2.
    cbn [app]. cbn [normalize_crlf].
    destruct (l ++ CR :: LF :: rest) as [|y r] eqn:E.
    + destruct l; discriminate E.
    + rewrite Hx2. cbn [andb]. f_equal. apply IH. exact Hl.
Qed.

Lemma render_cons2 st w w' ws : render st (w :: w' :: ws) = w ++ eol st ++ render st (w' :: ws).
Proof. reflexivity. Qed.

(* regal's line table does not depend on the line-end style: it is the document *)
Lemma regal_lines_render st d :
  d <> [] -> clean_doc d = true -> regal_lines (render st d) = d.
Proof.
  unfold regal_lines.
  induction d as [|w d IH]; intros Hne Hc; [contradiction|].
  cbn [clean_doc forallb] in Hc. apply andb_true_iff in Hc as [Hw Hd].
  destruct d as [|w' ws].
  - cbn [render join]. rewrite normalize_clean by exact Hw.
    apply split_on_no. apply clean_line_no; [exact Hw | left; reflexivity].
  - rewrite render_cons2.
    assert (Hn : normalize_crlf (w ++ eol st ++ render st (w' :: ws))
                 = w ++ LF :: normalize_crlf (render st (w' :: ws))).
    { destruct st; cbn [eol app].
      - apply normalize_app_lf; exact Hw.
      - apply normalize_app_crlf; exact Hw. }
    rewrite Hn. rewrite split_on_app.
    + f_equal. apply IH; [discriminate | exact Hd].
    + apply clean_line_no; [exact Hw | left; reflexivity].
Qed.

(* the raw (LF-split) line table of a CRLF text carries a CR on every line but the last *)
Lemma raw_lines_render_crlf d :
  d <> [] -> clean_doc d = true -> raw_lines (render EolCRLF d) = add_cr_but_last d.
Proof.
  unfold raw_lines.
  induction d as [|w d IH]; intros Hne Hc; [contradiction|].
  cbn [clean_doc forallb] in Hc. apply andb_true_iff in Hc as [Hw Hd].
  destruct d as [|w' ws].
  - cbn [render join add_cr_but_last]. apply split_on_no.
    apply clean_line_no; [exact Hw | left; reflexivity].
  - rewrite render_cons2. cbn [eol app].
    change (w ++ CR :: LF :: render EolCRLF (w' :: ws)) with (w ++ [CR] ++ LF :: render EolCRLF (w' :: ws)).
    rewrite app_assoc. rewrite split_on_app.
    + cbn [add_cr_but_last]. f_equal. apply IH; [discriminate | exact Hd].
    + intros Hin. apply in_app_or in Hin as [Hin|Hin].
      * revert Hin. apply clean_line_no; [exact Hw | left; reflexivity].
      * destruct Hin as [E|[]]. discriminate E.
Qed.

Lemma raw_lines_render_lf d :
  d <> [] -> clean_doc d = true -> raw_lines (render EolLF d) = d.
Proof.
  unfold raw_lines.
  induction d as [|w d IH]; intros Hne Hc; [contradiction|].
  cbn [clean_doc forallb] in Hc. apply andb_true_iff in Hc as [Hw Hd].
  destruct d as [|w' ws].
  - cbn [render join]. apply split_on_no. apply clean_line_no; [exact Hw | left; reflexivity].
  - rewrite render_cons2. cbn [eol app]. rewrite split_on_app.
    + f_equal. apply IH; [discriminate | exact Hd].
    + apply clean_line_no; [exact Hw | left; reflexivity].
Qed.

Lemma strip_cr_add l : strip_cr (l ++ [CR]) = l.
Proof.
  unfold strip_cr. rewrite rev_app_distr. cbn [rev app]. rewrite N.eqb_refl. apply rev_involutive.
Qed.

Lemma strip_cr_clean l : clean_line l = true -> strip_cr l = l.
Proof.
  intros Hc. unfold strip_cr. destruct (rev l) as [|c r] eqn:E; [reflexivity|].
  destruct (N.eqb_spec c CR) as [->|Hne]; [|reflexivity].
  exfalso. apply (clean_line_no l CR Hc); [right; reflexivity|].
  apply in_rev. rewrite E. left; reflexivity.
Qed.

Lemma strip_add_cr_but_last d : clean_doc d = true -> map strip_cr (add_cr_but_last d) = d.
Proof.
  induction d as [|w d IH]; intros Hc; [reflexivity|].
  cbn [clean_doc forallb] in Hc. apply andb_true_iff in Hc as [Hw Hd].
  destruct d as [|w' ws].
  - cbn [add_cr_but_last map]. rewrite strip_cr_clean by exact Hw. reflexivity.
  - change (add_cr_but_last (w :: w' :: ws)) with ((w ++ [CR]) :: add_cr_but_last (w' :: ws)).
    cbn [map]. rewrite strip_cr_add. f_equal. apply IH. exact Hd.
Qed.

Lemma map_strip_clean d : clean_doc d = true -> map strip_cr d = d.
Proof.
  induction d as [|w d IH]; intros Hc; [reflexivity|].
  cbn [clean_doc forallb] in Hc. apply andb_true_iff in Hc as [Hw Hd].
  cbn [map]. rewrite strip_cr_clean by exact Hw. f_equal. apply IH. exact Hd.
Qed.

(* whatever the style, the raw line table is the document modulo one trailing CR per line *)
Lemma raw_lines_modulo_cr st d :
  d <> [] -> clean_doc d = true -> map strip_cr (raw_lines (render st d)) = d.
Proof.
  intros Hne Hc. destruct st.
  - rewrite raw_lines_render_lf by assumption. apply map_strip_clean. exact Hc.
  - rewrite raw_lines_render_crlf by assumption. apply strip_add_cr_but_last. exact Hc.
Qed.

(* ------------------------------------------------------------------ blank-line insertion *)

Lemma repeat_blank_nth (k i : nat) (d : doc) :
  nth_error (repeat [] k ++ d) (i + k) = nth_error d i.
Proof.
  induction k as [|k IH]; cbn [repeat app].
  - rewrite Nat.add_0_r. reflexivity.
  - rewrite Nat.add_succ_r. cbn [nth_error]. exact IH.
Qed.

Lemma insert_blank_cons a k x d : insert_blank (S a) k (x :: d) = x :: insert_blank a k d.
Proof. reflexivity. Qed.

Lemma insert_blank_nth a k d i :
  i < length d ->
  nth_error (insert_blank a k d) (if Nat.ltb i a then i else i + k) = nth_error d i.
Proof.
  revert d i. induction a as [|a IH]; intros d i Hi.
  - change (Nat.ltb i 0) with false. unfold insert_blank. cbn [firstn skipn app]. apply repeat_blank_nth.
  - destruct d as [|x d]; [cbn in Hi; lia|].
    rewrite insert_blank_cons. destruct i as [|i].
    + reflexivity.
    + change (Nat.ltb (S i) (S a)) with (Nat.ltb i a).
      cbn [length] in Hi. specialize (IH d i ltac:(lia)).
      destruct (Nat.ltb i a); cbn [nth_error Nat.add]; exact IH.
Qed.

Lemma insert_blank_length a k d : length (insert_blank a k d) = length d + k.
Proof.
  unfold insert_blank. rewrite !app_length, repeat_length.
  pose proof (f_equal (@length _) (firstn_skipn a d)) as H. rewrite app_length in H. unfold doc, str in *. lia.
Qed.

Lemma repeat_blank_inv k (d : doc) j l :
  nth_error (repeat [] k ++ d) j = Some l ->
  (exists i, nth_error d i = Some l /\ i + k = j) \/ l = [].
Proof.
  revert j. induction k as [|k IH]; intros j H; cbn [repeat app] in H.
  - left. exists j. split; [exact H | lia].
  - destruct j as [|j]; cbn [nth_error] in H.
    + right. congruence.
    + destruct (IH j H) as [[i [Hi Hj]]|Hl]; [left | right; exact Hl].
      exists i. split; [exact Hi | lia].
Qed.

Lemma insert_blank_inv a k d j l :
  nth_error (insert_blank a k d) j = Some l ->
  (exists i, nth_error d i = Some l /\ (if Nat.ltb i a then i else i + k) = j) \/ l = [].
Proof.
  revert d j. induction a as [|a IH]; intros d j H.
  - unfold insert_blank in H. cbn [firstn skipn app] in H.
    destruct (repeat_blank_inv k d j l H) as [[i [Hi Hj]]|Hl]; [left | right; exact Hl].
    exists i. split; [exact Hi | exact Hj].
  - destruct d as [|x d].
    + unfold insert_blank in H. cbn [firstn skipn app] in H. rewrite app_nil_r in H.
      right. apply nth_error_In in H. apply repeat_spec in H. exact H.
    + rewrite insert_blank_cons in H. destruct j as [|j]; cbn [nth_error] in H.
      * left. exists 0. split; [exact H | reflexivity].
      * destruct (IH d j H) as [[i [Hi Hj]]|Hl]; [left | right; exact Hl].
        exists (S i). split; [exact Hi|].
        change (Nat.ltb (S i) (S a)) with (Nat.ltb i a).
        destruct (Nat.ltb i a); cbn [Nat.add]; lia.
Qed.

(* ------------------------------------------------------------------ one operation *)

Lemma apply_op_preserves o x i l :
  nth_error (l_lines x) i = Some l ->
  nth_error (l_lines (apply_op o x)) (op_index o (l_lines x) i) = Some l.
Proof.
  intros H. assert (Hi : i < length (l_lines x)) by (apply nth_error_Some; congruence).
  destruct o as [k|k| |e]; cbn [apply_op l_lines op_index].
  - rewrite insert_blank_nth by exact Hi. exact H.
  - pose proof (insert_blank_nth 0 k (l_lines x) i Hi) as E.
    change (Nat.ltb i 0) with false in E. rewrite E. exact H.
  - exact H.
  - rewrite nth_error_app1 by exact Hi. exact H.
Qed.

Lemma op_index_mono o d i j : i < j -> op_index o d i < op_index o d j.
Proof.
  intros Hij. destruct o as [k|k| |e]; cbn [op_index]; try lia.
  destruct (Nat.ltb_spec i (pkg_at d)), (Nat.ltb_spec j (pkg_at d)); lia.
Qed.

Lemma apply_op_inv o x j l :
  nth_error (l_lines (apply_op o x)) j = Some l ->
  (exists i, nth_error (l_lines x) i = Some l /\ op_index o (l_lines x) i = j) \/ l = [] \/ In l (op_extra o).
Proof.
  destruct o as [k|k| |e]; cbn [apply_op l_lines op_index op_extra]; intros H.
  - destruct (insert_blank_inv _ _ _ _ _ H) as [Hex|Hl]; [left; exact Hex | right; left; exact Hl].
  - destruct (insert_blank_inv _ _ _ _ _ H) as [[i [Hi Hj]]|Hl]; [left | right; left; exact Hl].
    exists i. split; [exact Hi|]. change (Nat.ltb i 0) with false in Hj. exact Hj.
  - left. exists j. split; [exact H | reflexivity].
  - destruct (Nat.ltb_spec j (length (l_lines x))) as [Hlt|Hge].
    + rewrite nth_error_app1 in H by exact Hlt. left. exists j. split; [exact H | reflexivity].
    + rewrite nth_error_app2 in H by exact Hge. right; right. eapply nth_error_In; exact H.
Qed.

(* ------------------------------------------------------------------ sequences of operations *)

Lemma apply_ops_cons o ops x : apply_ops (o :: ops) x = apply_ops ops (apply_op o x).
Proof. reflexivity. Qed.

(* every original line is found, unchanged, at the computed row *)
Lemma layout_preserves_doc_lines ops x i l :
  nth_error (l_lines x) i = Some l ->
  nth_error (l_lines (apply_ops ops x)) (ops_index ops x i) = Some l.
Proof.
  revert x i. induction ops as [|o ops IH]; intros x i H; [exact H|].
  rewrite apply_ops_cons. cbn [ops_index]. apply IH. apply apply_op_preserves. exact H.
Qed.

(* the order of rows is kept *)
Lemma ops_index_mono ops x i j : i < j -> ops_index ops x i < ops_index ops x j.
Proof.
  revert x i j. induction ops as [|o ops IH]; intros x i j Hij; [exact Hij|].
  cbn [ops_index]. apply IH. apply op_index_mono. exact Hij.
Qed.

(* nothing but blank lines and the appended blocks is brought in *)
Lemma layout_only_adds ops x j l :
  nth_error (l_lines (apply_ops ops x)) j = Some l ->
  (exists i, nth_error (l_lines x) i = Some l /\ ops_index ops x i = j)
  \/ l = [] \/ (exists o, In o ops /\ In l (op_extra o)).
Proof.
  revert x j. induction ops as [|o ops IH]; intros x j H.
  - left. exists j. split; [exact H | reflexivity].
  - rewrite apply_ops_cons in H. destruct (IH _ _ H) as [[i' [Hi' Hj]]|[Hl|[o' [Ho' Hin]]]].
    + destruct (apply_op_inv _ _ _ _ Hi') as [[i [Hi Hii]]|[Hl|Hin]].
      * left. exists i. split; [exact Hi|]. cbn [ops_index]. rewrite Hii. exact Hj.
      * right; left; exact Hl.
      * right; right. exists o. split; [left; reflexivity | exact Hin].
    + right; left; exact Hl.
    + right; right. exists o'. split; [right; exact Ho' | exact Hin].
Qed.

(* ------------------------------------------------------------------ cleanliness, non-emptiness *)

Lemma clean_doc_app a b : clean_doc (a ++ b) = clean_doc a && clean_doc b.
Proof. apply forallb_app. Qed.

Lemma clean_doc_repeat k : clean_doc (repeat [] k) = true.
Proof. induction k as [|k IH]; [reflexivity | exact IH]. Qed.

Lemma clean_insert_blank a k d : clean_doc d = true -> clean_doc (insert_blank a k d) = true.
Proof.
  intros Hc. unfold insert_blank. rewrite !clean_doc_app, clean_doc_repeat.
  rewrite <- (firstn_skipn a d) in Hc. rewrite clean_doc_app in Hc.
  apply andb_true_iff in Hc as [H1 H2]. rewrite H1, H2. reflexivity.
Qed.

Lemma apply_op_clean o x :
  clean_doc (l_lines x) = true -> op_clean o = true -> clean_doc (l_lines (apply_op o x)) = true.
Proof.
  intros Hc Ho. destruct o as [k|k| |e]; cbn [apply_op l_lines].
  - apply clean_insert_blank; exact Hc.
  - apply clean_insert_blank; exact Hc.
  - exact Hc.
  - rewrite clean_doc_app, Hc. exact Ho.
Qed.

Lemma apply_ops_clean ops x :
  clean_doc (l_lines x) = true -> forallb op_clean ops = true -> clean_doc (l_lines (apply_ops ops x)) = true.
Proof.
  revert x. induction ops as [|o ops IH]; intros x Hc Ho; [exact Hc|].
  cbn [forallb] in Ho. apply andb_true_iff in Ho as [Ho1 Ho2].
  rewrite apply_ops_cons. apply IH; [apply apply_op_clean; assumption | exact Ho2].
Qed.

Lemma apply_op_length o x : length (l_lines x) <= length (l_lines (apply_op o x)).
Proof.
  destruct o as [k|k| |e]; cbn [apply_op l_lines]; rewrite ?insert_blank_length, ?app_length; lia.
Qed.

Lemma apply_ops_length ops x : length (l_lines x) <= length (l_lines (apply_ops ops x)).
Proof.
  revert x. induction ops as [|o ops IH]; intros x; [apply Nat.le_refl|].
  rewrite apply_ops_cons. eapply Nat.le_trans; [apply apply_op_length | apply IH].
Qed.

Lemma apply_ops_nonempty ops x : l_lines x <> [] -> l_lines (apply_ops ops x) <> [].
Proof.
  intros Hne E. pose proof (apply_ops_length ops x) as Hl. rewrite E in Hl.
  destruct (l_lines x); [contradiction | cbn in Hl; lia].
Qed.

(* what regal sees of a re-embedded document is the re-embedded line table, whatever the line ends *)
Lemma embedding_lines ops x :
  l_lines x <> [] -> clean_doc (l_lines x) = true -> forallb op_clean ops = true ->
  regal_lines (text_of (apply_ops ops x)) = l_lines (apply_ops ops x).
Proof.
  intros Hne Hc Ho. unfold text_of. apply regal_lines_render.
  - apply apply_ops_nonempty; exact Hne.
  - apply apply_ops_clean; assumption.
Qed.

Lemma layout_preserves_lines_lemma ops x i l :
  l_lines x <> [] -> clean_doc (l_lines x) = true -> forallb op_clean ops = true ->
  nth_error (l_lines x) i = Some l ->
  nth_error (regal_lines (text_of (apply_ops ops x))) (ops_index ops x i) = Some l.
Proof.
  intros Hne Hc Ho H. rewrite embedding_lines by assumption. apply layout_preserves_doc_lines. exact H.
Qed.

Lemma nth_error_map_some {A B} (f : A -> B) l i y :
  nth_error (map f l) i = Some y -> exists x, nth_error l i = Some x /\ f x = y.
Proof.
  revert i. induction l as [|a l IH]; intros i H; destruct i; cbn in H; try discriminate.
  - injection H as <-. exists a. split; reflexivity.
  - apply IH. exact H.
Qed.

Lemma layout_preserves_raw_lines_lemma ops x i l :
  l_lines x <> [] -> clean_doc (l_lines x) = true -> forallb op_clean ops = true ->
  nth_error (l_lines x) i = Some l ->
  exists l', nth_error (raw_lines (text_of (apply_ops ops x))) (ops_index ops x i) = Some l' /\ strip_cr l' = l.
Proof.
  intros Hne Hc Ho H.
  pose proof (layout_preserves_doc_lines ops x i l H) as Hd.
  assert (Hm : map strip_cr (raw_lines (text_of (apply_ops ops x))) = l_lines (apply_ops ops x)).
  { unfold text_of. apply raw_lines_modulo_cr.
    - apply apply_ops_nonempty; exact Hne.
    - apply apply_ops_clean; assumption. }
  rewrite <- Hm in Hd. apply nth_error_map_some in Hd. exact Hd.
Qed.

(* ------------------------------------------------------------------ commutation *)

Definition nopkg (d : doc) : bool := forallb (fun l => negb (is_package_line l)) d.

Lemma find_index_none d : nopkg d = true -> find_index is_package_line d = None.
Proof.
  induction d as [|x d IH]; intros H; [reflexivity|].
  cbn [nopkg forallb] in H. apply andb_true_iff in H as [Hx Hd]. apply negb_true_iff in Hx.
  cbn [find_index]. rewrite Hx. fold (nopkg d) in Hd. rewrite (IH Hd). reflexivity.
Qed.

Lemma find_index_found pre x post :
  nopkg pre = true -> is_package_line x = true ->
  find_index is_package_line (pre ++ x :: post) = Some (length pre).
Proof.
  induction pre as [|y pre IH]; intros Hp Hx.
  - cbn [app find_index length]. rewrite Hx. reflexivity.
  - cbn [nopkg forallb] in Hp. apply andb_true_iff in Hp as [Hy Hp]. apply negb_true_iff in Hy.
    cbn [app find_index length]. rewrite Hy. fold (nopkg pre) in Hp. rewrite (IH Hp Hx). reflexivity.
Qed.

Lemma find_index_shape d :
  (exists pre x post, d = pre ++ x :: post /\ nopkg pre = true /\ is_package_line x = true)
  \/ nopkg d = true.
Proof.
  induction d as [|y d IH].
  - right; reflexivity.
  - destruct (is_package_line y) eqn:Ey.
    + left. exists [], y, d. repeat split; assumption.
    + destruct IH as [[pre [x [post [E [Hp Hx]]]]]|Hn].
      * left. exists (y :: pre), x, post. split; [rewrite E; reflexivity|]. split; [|exact Hx].
        cbn [nopkg forallb]. rewrite Ey. exact Hp.
      * right. cbn [nopkg forallb]. rewrite Ey. exact Hn.
Qed.

Lemma insert_pkg_found pre x post k :
  nopkg pre = true -> is_package_line x = true ->
  insert_blank (pkg_at (pre ++ x :: post)) k (pre ++ x :: post) = pre ++ x :: repeat [] k ++ post.
Proof.
  intros Hp Hx. unfold pkg_at. rewrite (find_index_found pre x post Hp Hx).
  clear Hp Hx. induction pre as [|y pre IH].
  - cbn [length app]. rewrite insert_blank_cons. reflexivity.
  - cbn [length app]. rewrite insert_blank_cons. rewrite IH. reflexivity.
Qed.

Lemma insert_pkg_none d k : nopkg d = true -> insert_blank (pkg_at d) k d = repeat [] k ++ d.
Proof.
  intros Hn. unfold pkg_at. rewrite (find_index_none d Hn). reflexivity.
Qed.

Lemma nopkg_app a b : nopkg (a ++ b) = nopkg a && nopkg b.
Proof. apply forallb_app. Qed.

Lemma nopkg_repeat k : nopkg (repeat [] k) = true.
Proof. induction k as [|k IH]; [reflexivity | exact IH]. Qed.

Lemma repeat_swap (k1 k2 : nat) : repeat (@nil N) k1 ++ repeat [] k2 = repeat [] k2 ++ repeat [] k1.
Proof. rewrite <- !repeat_app. f_equal. lia. Qed.

Lemma ldoc_eq a b s : a = b -> mk_ldoc a s = mk_ldoc b s.
Proof. intros ->; reflexivity. Qed.

(* OBlankPkg against each other operation, on the line table *)
Lemma pkg_pkg d k1 k2 :
  insert_blank (pkg_at (insert_blank (pkg_at d) k1 d)) k2 (insert_blank (pkg_at d) k1 d)
  = insert_blank (pkg_at (insert_blank (pkg_at d) k2 d)) k1 (insert_blank (pkg_at d) k2 d).
Proof.
  destruct (find_index_shape d) as [[pre [x [post [-> [Hp Hx]]]]]|Hn].
  - rewrite !(insert_pkg_found pre x post) by assumption.
    rewrite !(insert_pkg_found pre x) by assumption.
    rewrite !app_assoc. rewrite (repeat_swap k2 k1). reflexivity.
  - rewrite !(insert_pkg_none d) by exact Hn.
    assert (H1 : nopkg (repeat [] k1 ++ d) = true) by (rewrite nopkg_app, nopkg_repeat; exact Hn).
    assert (H2 : nopkg (repeat [] k2 ++ d) = true) by (rewrite nopkg_app, nopkg_repeat; exact Hn).
    rewrite !insert_pkg_none by assumption.
    rewrite !app_assoc. rewrite (repeat_swap k2 k1). reflexivity.
Qed.

Lemma insert_top j d : insert_blank 0 j d = repeat [] j ++ d.
Proof. reflexivity. Qed.

Lemma pkg_top d k j :
  insert_blank 0 j (insert_blank (pkg_at d) k d)
  = insert_blank (pkg_at (insert_blank 0 j d)) k (insert_blank 0 j d).
Proof.
  rewrite !insert_top.
  destruct (find_index_shape d) as [[pre [x [post [-> [Hp Hx]]]]]|Hn].
  - rewrite (insert_pkg_found pre x post) by assumption.
    rewrite (app_assoc _ pre (x :: post)).
    rewrite (insert_pkg_found (_ ++ pre) x post); [|rewrite nopkg_app, nopkg_repeat; exact Hp|exact Hx].
    rewrite <- app_assoc. reflexivity.
  - rewrite (insert_pkg_none d) by exact Hn.
    rewrite insert_pkg_none by (rewrite nopkg_app, nopkg_repeat; exact Hn).
    rewrite !app_assoc. rewrite (repeat_swap j k). reflexivity.
Qed.

Lemma pkg_append d k e :
  nopkg e = true ->
  insert_blank (pkg_at d) k d ++ e = insert_blank (pkg_at (d ++ e)) k (d ++ e).
Proof.
  intros He.
  destruct (find_index_shape d) as [[pre [x [post [-> [Hp Hx]]]]]|Hn].
  - rewrite (insert_pkg_found pre x post) by assumption.
    rewrite <- (app_assoc pre (x :: post) e). cbn [app].
    rewrite (insert_pkg_found pre x (post ++ e)) by assumption.
    rewrite <- app_assoc. cbn [app]. rewrite <- app_assoc. reflexivity.
  - rewrite (insert_pkg_none d) by exact Hn.
    rewrite insert_pkg_none by (rewrite nopkg_app, Hn; exact He).
    rewrite app_assoc. reflexivity.
Qed.

Lemma top_top d k j : insert_blank 0 j (insert_blank 0 k d) = insert_blank 0 k (insert_blank 0 j d).
Proof. rewrite !insert_top. rewrite !app_assoc. rewrite (repeat_swap j k). reflexivity. Qed.

Lemma top_append d k (e : doc) : insert_blank 0 k d ++ e = insert_blank 0 k (d ++ e).
Proof. rewrite !insert_top. rewrite app_assoc. reflexivity. Qed.

Lemma op_no_package_nopkg o : op_no_package o = nopkg (op_extra o).
Proof. reflexivity. Qed.

Lemma ops_commute_lemma o1 o2 x :
  commutable o1 o2 = true -> apply_op o2 (apply_op o1 x) = apply_op o1 (apply_op o2 x).
Proof.
  destruct x as [d s].
  destruct o1 as [k1|k1| |e1], o2 as [k2|k2| |e2]; cbn [commutable]; intros Hc;
    try discriminate Hc; cbn [apply_op l_lines l_style]; try reflexivity;
    try (apply andb_true_iff in Hc as [Hc1 Hc2]; rewrite op_no_package_nopkg in Hc1, Hc2; cbn [op_extra] in Hc1, Hc2);
    apply ldoc_eq.
  - apply pkg_pkg.
  - apply pkg_top.
  - apply pkg_append. exact Hc2.
  - symmetry. apply pkg_top.
  - apply top_top.
  - apply top_append.
  - symmetry. apply pkg_append. exact Hc1.
  - symmetry. apply top_append.
Qed.

(* any reordering of pairwise commutable operations gives the same document *)
Lemma apply_ops_perm_lemma ops ops' :
  Permutation ops ops' ->
  forall x, (forall o1 o2, In o1 ops -> In o2 ops -> o1 = o2 \/ commutable o1 o2 = true) ->
  apply_ops ops x = apply_ops ops' x.
Proof.
  induction 1 as [|o l l' Hp IH|a b l|l1 l2 l3 H12 IH12 H23 IH23]; intros x0 Hc.
  - reflexivity.
  - rewrite !apply_ops_cons. apply IH. intros o1 o2 H1 H2. apply Hc; right; assumption.
  - rewrite !apply_ops_cons. f_equal.
    destruct (Hc b a (or_introl eq_refl) (or_intror (or_introl eq_refl))) as [->|Hba]; [reflexivity|].
    apply ops_commute_lemma. exact Hba.
  - rewrite IH12 by exact Hc. apply IH23.
    intros o1 o2 H1 H2. apply Hc; eapply Permutation_in; try eassumption; apply Permutation_sym; assumption.
Qed.

(* the two forms of layout_preserves_lines together, and the reordering statement with the document first *)
Lemma layout_preserves_lines_both ops x i l :
  l_lines x <> [] -> clean_doc (l_lines x) = true -> forallb op_clean ops = true ->
  nth_error (l_lines x) i = Some l ->
  nth_error (regal_lines (text_of (apply_ops ops x))) (ops_index ops x i) = Some l /\
  exists l', nth_error (raw_lines (text_of (apply_ops ops x))) (ops_index ops x i) = Some l' /\ strip_cr l' = l.
Proof.
  intros Hne Hc Ho H. split.
  - exact (layout_preserves_lines_lemma ops x i l Hne Hc Ho H).
  - exact (layout_preserves_raw_lines_lemma ops x i l Hne Hc Ho H).
Qed.

Lemma apply_ops_reorder ops ops' x :
  Permutation ops ops' ->
  (forall o1 o2, In o1 ops -> In o2 ops -> o1 = o2 \/ commutable o1 o2 = true) ->
  apply_ops ops x = apply_ops ops' x.
Proof. intros Hp Hc. exact (apply_ops_perm_lemma ops ops' Hp x Hc). Qed.

(* ------------------------------------------------------------------ boundary shifts *)

Lemma ops_index_top k x i : ops_index [OBlankTop k] x i = i + k.
Proof. reflexivity. Qed.

Lemma rows_from_in nb j d i l :
  nth_error d i = Some l -> (nb = true -> blank_line l = false) -> In (j + i) (rows_from nb j d).
Proof.
  revert i j. induction d as [|a d IH]; intros i j Hn Hb; [destruct i; discriminate|].
  destruct i as [|i]; cbn [nth_error] in Hn.
  - injection Hn as ->. cbn [rows_from]. rewrite Nat.add_0_r.
    destruct nb; cbn [andb]; [rewrite (Hb eq_refl)|]; left; reflexivity.
  - cbn [rows_from]. replace (j + S i) with (S j + i) by lia.
    destruct (nb && blank_line a); [|right]; apply IH; assumption.
Qed.

Lemma rows_from_inv nb j d r :
  In r (rows_from nb j d) ->
  exists i l, r = j + i /\ nth_error d i = Some l /\ (nb = true -> blank_line l = false).
Proof.
  revert j. induction d as [|a d IH]; intros j H; [destruct H|].
  cbn [rows_from] in H.
  assert (Hrest : In r (rows_from nb (S j) d) ->
                  exists i l, r = j + i /\ nth_error (a :: d) i = Some l /\ (nb = true -> blank_line l = false)).
  { intros H'. destruct (IH _ H') as (i & l & -> & Hn & Hb). exists (S i), l. repeat split; [lia|exact Hn|exact Hb]. }
  destruct (nb && blank_line a) eqn:E; [exact (Hrest H)|].
  destruct H as [<-|H]; [|exact (Hrest H)].
  exists 0, a. repeat split; [lia|].
  intros ->. cbn [andb] in E. exact E.
Qed.

(* covering: every (selected) row r = S i <= t is put on row t, and the row after it on t + 1, by one of the
   selected shifts *)
Lemma boundary_shifts_cover_lemma nb t x i l :
  nth_error (l_lines x) i = Some l -> (nb = true -> blank_line l = false) -> S i <= t ->
  exists k, In k (boundary_shifts nb t (l_lines x)) /\
            S (ops_index [OBlankTop k] x i) = t /\ S (ops_index [OBlankTop k] x (S i)) = S t.
Proof.
  intros Hn Hb Hle. exists (t - S i). split; [|rewrite !ops_index_top; lia].
  unfold boundary_shifts. apply in_map_iff. exists i. split; [reflexivity|].
  apply filter_In. split.
  - exact (rows_from_in nb 0 (l_lines x) i l Hn Hb).
  - apply Nat.leb_le. exact Hle.
Qed.

(* ... and nothing else is selected: every selected shift puts some (selected) row of the document on row t *)
Lemma boundary_shifts_only_lemma nb t d k :
  In k (boundary_shifts nb t d) ->
  exists i l, nth_error d i = Some l /\ (nb = true -> blank_line l = false) /\ S i <= t /\ k = t - S i.
Proof.
  unfold boundary_shifts. intros H. apply in_map_iff in H. destruct H as (r & <- & H).
  apply filter_In in H. destruct H as (Hin & Hle). apply Nat.leb_le in Hle.
  destruct (rows_from_inv _ _ _ _ Hin) as (i & l & -> & Hn & Hb).
  exists i, l. cbn [Nat.add]. repeat split; assumption.
Qed.

(* the line itself is found on row t of the line table regal builds from the shifted text *)
Lemma boundary_shift_line_lemma nb t x i l :
  l_lines x <> [] -> clean_doc (l_lines x) = true ->
  nth_error (l_lines x) i = Some l -> (nb = true -> blank_line l = false) -> S i <= t ->
  exists k, In k (boundary_shifts nb t (l_lines x)) /\
            nth_error (regal_lines (text_of (apply_ops [OBlankTop k] x))) (t - 1) = Some l.
Proof.
  intros Hne Hc Hn Hb Hle.
  destruct (boundary_shifts_cover_lemma nb t x i l Hn Hb Hle) as (k & Hk & Hr & _).
  exists k. split; [exact Hk|].
  replace (t - 1) with (ops_index [OBlankTop k] x i) by lia.
  apply layout_preserves_lines_lemma; try assumption. reflexivity.
Qed.
