(* C17 — proofs about the guard skeletons and the channel network (Model/LspGuards.v). *)
From Coq Require Import List NArith Bool Lia Arith.
From Regal Require Import Base.StrLit Model.LspGuards Gen.LspShape.
Import ListNotations.
Local Open Scope nat_scope.

Lemma fact_beq_eq a b : fact_beq a b = true <-> a = b.
Proof. split; [apply internal_fact_dec_bl|apply internal_fact_dec_lb]. Qed.

Lemma fact_beq_refl a : fact_beq a a = true.
Proof. apply fact_beq_eq. reflexivity. Qed.

Lemma fact_beq_neq a b : a <> b -> fact_beq a b = false.
Proof. intros H. destruct (fact_beq a b) eqn:E; [apply fact_beq_eq in E; contradiction|reflexivity]. Qed.

Definition agrees (kn : list (fact * bool)) (e : env) : Prop :=
  forall f b, known_get kn f = Some b -> e f = b.

Lemma agrees_cons kn e f : agrees kn e -> agrees ((f, e f) :: kn) e.
Proof.
  intros H g b. simpl. destruct (fact_beq f g) eqn:E.
  - apply fact_beq_eq in E. subst g. intros [= <-]. reflexivity.
  - apply H.
Qed.

Lemma known_del_get kn f g b : known_get (known_del kn f) g = Some b -> g <> f /\ known_get kn g = Some b.
Proof.
  induction kn as [|[h c] kn IH]; simpl; [discriminate|].
  destruct (fact_beq h f) eqn:Ehf.
  - apply fact_beq_eq in Ehf. subst h. intros H. destruct (IH H) as [Hne Hg]. split; [exact Hne|].
    rewrite fact_beq_neq; [exact Hg|]. intros E; apply Hne; symmetry; exact E.
  - simpl. destruct (fact_beq h g) eqn:Ehg.
    + apply fact_beq_eq in Ehg. subst h. intros [= <-]. split; [|reflexivity].
      intros E. subst g. rewrite fact_beq_refl in Ehf. discriminate.
    + apply IH.
Qed.

Lemma agrees_del kn e f b : agrees kn e -> agrees (known_del kn f) (set_fact e f b).
Proof.
  intros H g c Hg. apply known_del_get in Hg. destruct Hg as [Hne Hg].
  unfold set_fact. rewrite (fact_beq_neq g f Hne). apply H. exact Hg.
Qed.

Lemma agrees_del_same kn e f : agrees kn e -> agrees (known_del kn f) e.
Proof.
  intros H g c Hg. apply known_del_get in Hg. destruct Hg as [_ Hg]. apply H. exact Hg.
Qed.

(* the static check is sound: a skeleton that passes it cannot panic, whatever the facts are and
   whatever other goroutines do to reloaded facts *)
Lemma safe_sound p : forall kn e adv, agrees kn e -> safe kn p = true -> exec p e adv = Ok.
Proof.
  induction p as [|f pt IHt pf IHf|q k IH|i k IH|f k IH]; intros kn e adv Ha Hs; simpl in *.
  - reflexivity.
  - destruct (known_get kn f) as [[|]|] eqn:Ek.
    + rewrite (Ha f true Ek). apply (IHt kn); assumption.
    + rewrite (Ha f false Ek). apply (IHf kn); assumption.
    + apply andb_true_iff in Hs. destruct Hs as [H1 H2]. destruct (e f) eqn:Ef.
      * apply (IHt ((f, true) :: kn)); [rewrite <- Ef; apply agrees_cons; exact Ha|exact H1].
      * apply (IHf ((f, false) :: kn)); [rewrite <- Ef; apply agrees_cons; exact Ha|exact H2].
  - destruct (known_get kn (nonnil q)) as [[|]|] eqn:Ek; try discriminate.
    rewrite (Ha _ true Ek). apply (IH kn); assumption.
  - destruct (known_get kn (inbounds i)) as [[|]|] eqn:Ek; try discriminate.
    rewrite (Ha _ true Ek). apply (IH kn); assumption.
  - destruct adv as [|b adv].
    + apply (IH (known_del kn f)); [apply agrees_del_same; exact Ha|exact Hs].
    + apply (IH (known_del kn f)); [apply agrees_del; exact Ha|exact Hs].
Qed.

Lemma guard_check_sound_lemma (p : prog) (e : env) (adv : list bool) : safe [] p = true -> exec p e adv = Ok.
Proof. intros H. apply (safe_sound p [] e adv); [intros f b E; discriminate|exact H]. Qed.

Lemma all_units_complete u : In u all_units.
Proof. destruct u; simpl; tauto. Qed.

Lemma current_skeletons_safe : forallb (fun u => safe [] (skeleton Current u)) all_units = true.
Proof. vm_compute. reflexivity. Qed.

Theorem no_panic_lemma : forall (u : unit_) (e : env) (adv : list bool), exec (skeleton Current u) e adv = Ok.
Proof.
  intros u e adv. apply (safe_sound _ []); [intros f b H; discriminate|].
  pose proof current_skeletons_safe as H. rewrite forallb_forall in H. apply H. apply all_units_complete.
Qed.

(* the pinned revision: five units can panic *)
Lemma pinned_didsave_panics : exec (skeleton Pinned HDidSave) (env_of [FTextPresent; FTextCRLF]) [] = Panic.
Proof. vm_compute. reflexivity. Qed.
Lemma pinned_diddelete_panics : exec (skeleton Pinned HDidDeleteFiles) (env_of [FCfgLoaded]) [] = Panic.
Proof. vm_compute. reflexivity. Qed.
Lemma pinned_didcreate_panics : exec (skeleton Pinned HDidCreateFiles) (env_of [FCfgLoaded]) [] = Panic.
Proof. vm_compute. reflexivity. Qed.
Lemma pinned_codeaction_panics :
  exec (skeleton Pinned HCodeAction) (env_of [FCfgLoaded; FDiagPresent; FClientVSCode]) [] = Panic.
Proof. vm_compute. reflexivity. Qed.
(* config reloaded, then dropped by the time the spawned goroutine reads it *)
Lemma pinned_config_goroutine_panics : exec (skeleton Pinned WConfigReload) (env_of [FCfgLoaded]) [true; false] = Panic.
Proof. vm_compute. reflexivity. Qed.

(* ------------------------------------------------------------------ channel network *)
Lemma potential_unfold n :
  potential n = 8 * n STemplate + 4 * n SFile + 2 * n SWorkspace + n SRuns + n SHoverJobs + n SCommands.
Proof. unfold potential. simpl. lia. Qed.

Lemma net_step_decreases s emit n n' : net_step s emit n = Some n' -> potential n' < potential n.
Proof.
  unfold net_step. destruct (n s) as [|k] eqn:Es; [discriminate|].
  rewrite !potential_unfold.
  destruct s; simpl; destruct emit; simpl;
    try (intros [= <-]; unfold net_upd; simpl; lia);
    try (match goal with |- context [Nat.ltb ?a ?b] => destruct (Nat.ltb a b) end; [|discriminate];
         intros [= <-]; unfold net_upd; simpl; lia).
Qed.

Lemma network_terminates_lemma steps : forall n n', net_run steps n = Some n' -> length steps + potential n' <= potential n.
Proof.
  induction steps as [|[s emit] rest IH]; intros n n' H; simpl in H.
  - injection H as <-. simpl. lia.
  - destruct (net_step s emit n) as [n1|] eqn:E; [|discriminate].
    apply net_step_decreases in E. apply IH in H. simpl. lia.
Qed.

Lemma network_no_deadlock_lemma n :
  well_bounded n -> ~ net_idle n -> exists s, n s > 0 /\ forall emit, net_step s emit n <> None.
Proof.
  intros Hb Hn.
  assert (Hroom : forall t, n t = 0 -> Nat.ltb (n t) (capacity t) = true).
  { intros t Ht. rewrite Ht. reflexivity. }
  destruct (n SRuns) as [|r] eqn:ER.
  2:{ exists SRuns. split; [lia|]. intros emit. unfold net_step. rewrite ER. destruct emit; discriminate. }
  destruct (n SHoverJobs) as [|h] eqn:EH.
  2:{ exists SHoverJobs. split; [lia|]. intros emit. unfold net_step. rewrite EH. destruct emit; discriminate. }
  destruct (n SCommands) as [|c] eqn:EC.
  2:{ exists SCommands. split; [lia|]. intros emit. unfold net_step. rewrite EC. destruct emit; discriminate. }
  destruct (n SWorkspace) as [|w] eqn:EW.
  2:{ exists SWorkspace. split; [lia|]. intros emit. unfold net_step. rewrite EW. simpl.
      destruct emit; [rewrite (Hroom SRuns ER)|]; discriminate. }
  destruct (n SFile) as [|f] eqn:EF.
  2:{ exists SFile. split; [lia|]. intros emit. unfold net_step. rewrite EF. simpl.
      destruct emit; [rewrite (Hroom SWorkspace EW)|]; discriminate. }
  destruct (n STemplate) as [|t] eqn:ET.
  2:{ exists STemplate. split; [lia|]. intros emit. unfold net_step. rewrite ET. simpl.
      destruct emit; [rewrite (Hroom SFile EF)|]; discriminate. }
  exfalso. apply Hn. intros s. destruct s; assumption.
Qed.

(* ------------------------------------------------------------------ tie to the source *)
(* the skeletons were written from exactly the risky sites that server.go has now *)
Lemma sites_match_lemma :
  lsp_server_found = true /\
  map (fun s => (lit (fst (fst s)), N.of_nat (snd (fst s)))) modelled_sites = lsp_sites /\
  forallb site_modelled modelled_sites = true.
Proof. vm_compute. repeat split. Qed.
