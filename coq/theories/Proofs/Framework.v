(* C03 (ii) — the framework's multi-body functions never produce two different values. *)
From Regal Require Import Base.Str Model.Location Model.Framework Proofs.Location.
From Coq Require Import ZArith Lia List Bool.
Import ListNotations.
Local Open Scope nat_scope.

Lemma conflict_free_nil {V} : conflict_free (@nil V).
Proof. intros v w []. Qed.

Lemma conflict_free_single {V} (x : V) : conflict_free [x].
Proof. intros v w [<-|[]] [<-|[]]. reflexivity. Qed.

Lemma conflict_free_app_nil_l {V} (a b : list V) : a = [] -> conflict_free b -> conflict_free (a ++ b).
Proof. intros -> H. exact H. Qed.

Lemma conflict_free_app_nil_r {V} (a b : list V) : b = [] -> conflict_free a -> conflict_free (a ++ b).
Proof. intros -> H. rewrite app_nil_r. exact H. Qed.

Lemma conflict_free_opt_list {V} (o : option V) : conflict_free (opt_list o).
Proof. destruct o; [apply conflict_free_single | apply conflict_free_nil]. Qed.

(* bodies of which at most one is defined (option-valued) *)
Lemma at_most_one_conflict_free {V} (l : list (option V)) :
  at_most_one l -> conflict_free (flat_map opt_list l).
Proof.
  intros H v w Hv Hw. apply in_flat_map in Hv. apply in_flat_map in Hw.
  destruct Hv as (ov & Hov & Hv). destruct Hw as (ow & How & Hw).
  destruct ov as [v'|]; [|destruct Hv]. destruct ow as [w'|]; [|destruct Hw].
  destruct Hv as [<-|[]]. destruct Hw as [<-|[]].
  apply In_nth_error in Hov. apply In_nth_error in How.
  destruct Hov as [i Hi]. destruct How as [j Hj].
  assert (i = j) by (eapply H; eassumption). subst j. congruence.
Qed.

(* ------------------------------------------------------------------ result.rego *)

Ltac split_matches :=
  repeat (match goal with |- context [match ?x with _ => _ end] => destruct x end; cbv beta iota; auto).

Lemma le1_conflict_free {V} (l : list V) : length l <= 1 -> conflict_free l.
Proof.
  destruct l as [|x [|y l]]; simpl; intros H;
    [apply conflict_free_nil | apply conflict_free_single | lia].
Qed.

Lemma ctp_exclusive p : ctp_b1 p = [] \/ ctp_b2 p = [].
Proof. unfold ctp_b1, ctp_b2. split_matches. Qed.

Lemma ctp_b1_single p : length (ctp_b1 p) <= 1.
Proof. unfold ctp_b1. split_matches. Qed.

Lemma ctp_b2_single p : length (ctp_b2 p) <= 1.
Proof. unfold ctp_b2. split_matches. Qed.

Theorem category_title_from_path_conflict_free path :
  conflict_free (category_title_from_path path).
Proof.
  unfold category_title_from_path, outputs; simpl. rewrite app_nil_r.
  apply le1_conflict_free. rewrite app_length.
  pose proof (ctp_b1_single path). pose proof (ctp_b2_single path).
  destruct (ctp_exclusive path) as [E|E]; rewrite E in *; simpl in *; lia.
Qed.

(* the two bodies of _related_resources agree unless `related_resources: false` was written,
   which OPA's annotation parser does not accept (it must be a list) *)
Theorem related_resources_conflict_free generated annotations :
  field s_related_resources annotations <> Some (JBool false) ->
  conflict_free (related_resources generated annotations).
Proof.
  intros H. unfold related_resources, outputs, rr_b1, rr_b2; simpl. rewrite app_nil_r.
  destruct (field s_related_resources annotations) as [v|]; simpl.
  - destruct v as [|b| | | | |]; try apply conflict_free_single.
    destruct b; [apply conflict_free_single | congruence].
  - apply conflict_free_single.
Qed.

Theorem related_resources_false_refuted :
  exists generated annotations, ~ conflict_free (related_resources generated annotations).
Proof.
  exists (JArr []), (JObj [(s_related_resources, JBool false)]).
  intros H. specialize (H (JBool false) (JArr [])). simpl in H.
  assert (E : JBool false = JArr []) by (apply H; [left; reflexivity | right; left; reflexivity]).
  discriminate.
Qed.

Section Fail.
  Variable V : Type.
  Variable annotated annotated_custom : jv -> jv -> jv -> jv -> option V.
  Variable fallback : jv -> jv -> option V.

  Notation fail := (fail V annotated annotated_custom fallback).

  (* the contribution of ONE link to bodies 1 and 2 together is at most one value *)
  Definition link_b1 details link : list V :=
    if package_scoped link then
      match field s_path link with
      | Some p => flat_map (fun ct => opt_list (annotated link (fst ct) (snd ct) details)) (ctp_b1 p)
      | None => []
      end
    else [].
  Definition link_b2 details link : list V :=
    if package_scoped link then
      match field s_path link with
      | Some p => flat_map (fun ct => opt_list (annotated_custom link (fst ct) (snd ct) details)) (ctp_b2 p)
      | None => []
      end
    else [].

  Lemma flat_map_le1 {A} (f : A -> list V) (l : list A) :
    length l <= 1 -> (forall a, length (f a) <= 1) -> length (flat_map f l) <= 1.
  Proof.
    destruct l as [|a [|b l]]; simpl; intros Hl Hf; [auto | rewrite app_nil_r; apply Hf | lia].
  Qed.

  Lemma opt_list_le1 (o : option V) : length (opt_list o) <= 1.
  Proof. destruct o; simpl; auto. Qed.

  Lemma link_contrib_le1 details link : length (link_b1 details link ++ link_b2 details link) <= 1.
  Proof.
    unfold link_b1, link_b2. destruct (package_scoped link); [|simpl; auto].
    destruct (field s_path link) as [p|]; [|simpl; auto].
    destruct (ctp_exclusive p) as [E|E]; rewrite E; simpl.
    - apply flat_map_le1; [apply ctp_b2_single | intros; apply opt_list_le1].
    - rewrite app_nil_r. apply flat_map_le1; [apply ctp_b1_single | intros; apply opt_list_le1].
  Qed.

  Lemma not_scoped_contrib details link :
    package_scoped link = false -> link_b1 details link = [] /\ link_b2 details link = [].
  Proof. intros H. unfold link_b1, link_b2. rewrite H. auto. Qed.

  Lemma contrib_all_nil details links :
    filter package_scoped links = [] ->
    flat_map (link_b1 details) links = [] /\ flat_map (link_b2 details) links = [].
  Proof.
    induction links as [|l links IH]; simpl; [auto|].
    destruct (package_scoped l) eqn:E; [discriminate|]. intros H.
    destruct (not_scoped_contrib details l E) as [-> ->]. simpl. apply IH. assumption.
  Qed.

  Lemma contrib_one details links :
    length (filter package_scoped links) <= 1 ->
    length (flat_map (link_b1 details) links ++ flat_map (link_b2 details) links) <= 1.
  Proof.
    induction links as [|l links IH]; simpl; [auto|].
    destruct (package_scoped l) eqn:E; simpl; intros H.
    - assert (Hn : filter package_scoped links = []) by (destruct (filter package_scoped links); [reflexivity | simpl in H; lia]).
      destruct (contrib_all_nil details links Hn) as [-> ->]. rewrite !app_nil_r.
      apply link_contrib_le1.
    - destruct (not_scoped_contrib details l E) as [-> ->]. simpl. apply IH. assumption.
  Qed.

  (* result.fail never yields two values when the metadata chain has at most one package-scoped link
     (rego.metadata.chain() has exactly one) — or is not a chain at all (fallback body only) *)
  Theorem fail_conflict_free details metadata :
    length (package_links metadata) <= 1 ->
    conflict_free (fail details metadata).
  Proof.
    intros H. unfold Framework.fail, outputs; simpl. rewrite app_nil_r.
    unfold fail_b3. destruct metadata as [| | | |links| |kv]; simpl;
      try apply conflict_free_nil.
    - (* an array: body 3 is undefined *)
      rewrite app_nil_r. apply le1_conflict_free.
      change (length (flat_map (link_b1 details) links ++ flat_map (link_b2 details) links) <= 1).
      apply contrib_one. exact H.
    - (* an object: only the fallback body *)
      apply conflict_free_opt_list.
  Qed.
End Fail.

(* with two package-scoped links of different rules the bodies of fail do disagree *)
Theorem fail_two_package_links_refuted :
  exists details metadata,
    ~ conflict_free (fail (jv * jv) (fun _ c t _ => Some (c, t)) (fun _ c t _ => Some (c, t)) (fun _ _ => None)
                          details metadata).
Proof.
  set (link := fun t : str =>
    JObj [(s_annotations, JObj [(s_scope, JStr s_package)]);
          (s_path, JArr [JStr s_regal; JStr s_rules; JStr [99%N]; JStr t])]).
  exists (JObj []), (JArr [link [97%N]; link [98%N]]).
  intros H. specialize (H (JStr [99%N], JStr [97%N]) (JStr [99%N], JStr [98%N])).
  assert (E : (JStr [99%N], JStr [97%N]) = (JStr [99%N], JStr [98%N])).
  { apply H; vm_compute; auto. }
  discriminate.
Qed.

(* ------------------------------------------------------------------ util.rego *)

Theorem to_set_conflict_free members x : conflict_free (to_set members x).
Proof.
  unfold to_set, outputs, to_set_b1, to_set_b2; simpl. rewrite app_nil_r.
  destruct (is_set x); simpl; [apply conflict_free_single|].
  destruct (members x); apply conflict_free_single.
Qed.

Theorem to_array_conflict_free members x : conflict_free (to_array members x).
Proof.
  unfold to_array, outputs, to_array_b1, to_array_b2; simpl. rewrite app_nil_r.
  destruct (is_array x); simpl; [apply conflict_free_single|].
  destruct (members x); apply conflict_free_single.
Qed.

Theorem to_location_object_conflict_free lines l :
  conflict_free (outputs [tlo_b1 lines; tlo_b2 lines] l).
Proof.
  unfold outputs, tlo_b1, tlo_b2; simpl. rewrite app_nil_r.
  destruct l; simpl; [rewrite app_nil_r; apply conflict_free_opt_list
                     | apply conflict_free_single | apply conflict_free_nil].
Qed.

Theorem cut_col_conflict_free i len line col ec :
  conflict_free (flat_map opt_list [cut_col_b1 i len line col ec; cut_col_b2 i len line col ec;
                                    cut_col_b3 i len line col ec]).
Proof. apply at_most_one_conflict_free, cut_col_bodies_exclusive. Qed.

Theorem location_to_text_conflict_free lines q :
  conflict_free (flat_map opt_list [location_to_text_b1 lines q; location_to_text_b2 lines q]).
Proof. apply at_most_one_conflict_free, location_to_text_bodies_exclusive. Qed.

Theorem location_conflict_free lines f x :
  conflict_free (flat_map opt_list [location_b1 lines f x; location_b2 lines f x; location_b3 lines f x]).
Proof. apply at_most_one_conflict_free, location_bodies_exclusive. Qed.

(* … and therefore [first_some], which Model/Location.v uses to combine the bodies, returns THE value *)
Lemma first_some_is_the_value {V} (l : list (option V)) v :
  at_most_one l -> In (Some v) l -> first_some l = Some v.
Proof.
  intros H Hin. apply In_nth_error in Hin. destruct Hin as [i Hi].
  revert i Hi H. induction l as [|o l IH]; intros i Hi H; [destruct i; discriminate|].
  destruct o as [w|].
  - assert (i = 0)%nat by (eapply (H i 0%nat); [exact Hi | reflexivity]). subst i.
    simpl in Hi. injection Hi as ->. reflexivity.
  - destruct i as [|i]; [discriminate|]. simpl. apply (IH i Hi).
    intros a b x y Ha Hb. assert (S a = S b) by (eapply H; simpl; eassumption). lia.
Qed.

(* ------------------------------------------------------------------ main.rego *)

Theorem file_name_relative_to_root_conflict_free filename root :
  conflict_free (file_name_relative_to_root filename root).
Proof.
  unfold file_name_relative_to_root, outputs, fnr_b1, fnr_b2; simpl. rewrite app_nil_r.
  destruct (has_suffix root s_slash); apply conflict_free_single.
Qed.

(* ------------------------------------------------------------------ ast/comments.rego *)

(* the parser yields at most one comment per row (a comment runs to the end of its line) *)
Theorem ignore_directives_conflict_free (comments : list (Z * option (list str))) :
  NoDup (map fst comments) -> keyed_conflict_free (directive_entries comments).
Proof.
  unfold keyed_conflict_free, directive_entries.
  induction comments as [|[r o] cs IH]; simpl; intros Hnd k v w Hv Hw; [destruct Hv|].
  inversion Hnd as [|? ? Hnotin Hnd']; subst.
  assert (Hrow : forall k' v', In (k', v') (flat_map (fun c => match snd c with
                  | Some rules => [((fst c + 1)%Z, rules)] | None => [] end) cs) -> In (k' - 1)%Z (map fst cs)).
  { intros k' v' H. apply in_flat_map in H. destruct H as ([r' o'] & Hin & H). simpl in H.
    destruct o' as [rl|]; [|destruct H]. destruct H as [[= Hk1 Hv1]|[]]. subst k'.
    replace (r' + 1 - 1)%Z with r' by lia. apply in_map_iff. exists (r', Some rl). auto. }
  destruct o as [rules|]; simpl in Hv, Hw.
  - destruct Hv as [Ev|Hv]; destruct Hw as [Ew|Hw].
    + congruence.
    + exfalso. apply Hnotin. injection Ev as Ek _. subst k. apply Hrow in Hw.
      replace (r + 1 - 1)%Z with r in Hw by lia. exact Hw.
    + exfalso. apply Hnotin. injection Ew as Ek _. subst k. apply Hrow in Hv.
      replace (r + 1 - 1)%Z with r in Hv by lia. exact Hv.
    + eapply IH; eassumption.
  - eapply IH; eassumption.
Qed.

Theorem ignore_directives_same_row_refuted :
  exists comments, ~ keyed_conflict_free (directive_entries comments).
Proof.
  exists [(1%Z, Some [[97%N]]); (1%Z, Some [[98%N]])].
  intros H. assert (E : [[97%N]] = [[98%N]]) by (eapply (H 2%Z); simpl; auto).
  discriminate.
Qed.

(* ------------------------------------------------------------------ ast/imports.rego, ast/ast.rego *)

(* a keyed rule whose value is chosen as a function of the key (at most one value per key) cannot conflict,
   however many source constructs share the key *)
Lemma keyed_by_function_conflict_free {K V} (f : K -> list V) (keys : list K) :
  (forall k, length (f k) <= 1) ->
  keyed_conflict_free (flat_map (fun k => map (pair k) (f k)) keys).
Proof.
  intros Hf k v w Hv Hw.
  apply in_flat_map in Hv. destruct Hv as (k1 & _ & Hv). apply in_map_iff in Hv.
  destruct Hv as (v' & E1 & Hv). injection E1 as Ek1 Ev1. subst k1 v'.
  apply in_flat_map in Hw. destruct Hw as (k2 & _ & Hw). apply in_map_iff in Hw.
  destruct Hw as (w' & E2 & Hw). injection E2 as Ek2 Ew2. subst k2 w'.
  specialize (Hf k). destruct (f k) as [|x [|y l]]; simpl in *.
  - destruct Hv.
  - destruct Hv as [<-|[]]. destruct Hw as [<-|[]]. reflexivity.
  - lia.
Qed.

(* the two bodies of _imported_identifier are exclusive unless the alias is the VALUE false
   (the parser only ever produces a variable name there) *)
Theorem imported_identifier_le1 i :
  imp_alias i <> Some (JBool false) -> length (imported_identifier i) <= 1.
Proof.
  intros H. unfold imported_identifier, outputs, ii_b1, ii_b2; simpl. rewrite app_nil_r.
  destruct (imp_alias i) as [a|] eqn:E; simpl.
  - destruct a as [|[|]| | | | |]; simpl; auto. exfalso. apply H. reflexivity.
  - destruct (last_opt (imp_path i)); simpl; auto.
Qed.

Theorem imported_identifier_conflict_free i :
  imp_alias i <> Some (JBool false) -> conflict_free (imported_identifier i).
Proof. intros H. apply le1_conflict_free, imported_identifier_le1, H. Qed.

Theorem imported_identifier_false_alias_refuted :
  exists i, ~ conflict_free (imported_identifier i).
Proof.
  exists {| imp_path := [s_data; [120%N]]; imp_alias := Some (JBool false) |}.
  intros H. specialize (H (JBool false) (JStr [120%N])).
  assert (E : JBool false = JStr [120%N]) by (apply H; vm_compute; auto).
  discriminate.
Qed.

Lemma first_path_le1 id imports : length (first_path id imports) <= 1.
Proof. unfold first_path. destruct (filter (has_identifier id) imports); simpl; auto. Qed.

(* resolved_imports as written: however many imports share an identifier, the key gets the first one's path *)
Theorem resolved_imports_conflict_free imports : keyed_conflict_free (resolved_imports imports).
Proof.
  unfold resolved_imports.
  apply (keyed_by_function_conflict_free (fun id => first_path id imports)).
  intros id. apply first_path_le1.
Qed.

(* the 1:1 version is conflict free only when imports sharing an identifier also share the path … *)
Theorem resolved_imports_one_to_one_conflict_free imports :
  (forall i j id, In i imports -> In j imports -> eligible i = true -> eligible j = true ->
                  In id (imported_identifier i) -> In id (imported_identifier j) -> imp_path i = imp_path j) ->
  keyed_conflict_free (resolved_imports_one_to_one imports).
Proof.
  intros H k v w Hv Hw. unfold resolved_imports_one_to_one in Hv, Hw.
  apply in_flat_map in Hv. destruct Hv as (i & Hi & Hv).
  apply in_flat_map in Hw. destruct Hw as (j & Hj & Hw).
  destruct (eligible i) eqn:Ei; [|destruct Hv]. destruct (eligible j) eqn:Ej; [|destruct Hw].
  apply in_map_iff in Hv. destruct Hv as (id1 & E1 & Hv). injection E1 as Ek1 Ev1. subst id1 v.
  apply in_map_iff in Hw. destruct Hw as (id2 & E2 & Hw). injection E2 as Ek2 Ew2. subst id2 w.
  eapply H; eassumption.
Qed.

(* … and two imports under one identifier (`import data.a.foo` + `import data.b.foo`: the parser accepts them,
   only the compiler would not) make it raise "object keys must be unique" *)
Theorem resolved_imports_one_to_one_shadowing_refuted :
  exists imports,
    (forall i, In i imports -> imp_alias i = None) /\
    keyed_conflict_free (resolved_imports imports) /\
    ~ keyed_conflict_free (resolved_imports_one_to_one imports).
Proof.
  set (foo := [102; 111; 111]%N : str).
  set (i1 := {| imp_path := [s_data; [97%N]; foo]; imp_alias := None |}).
  set (i2 := {| imp_path := [s_data; [98%N]; foo]; imp_alias := None |}).
  exists [i1; i2]. split; [|split].
  - intros i [<-|[<-|[]]]; reflexivity.
  - apply resolved_imports_conflict_free.
  - intros H. specialize (H (JStr foo) (imp_path i1) (imp_path i2)).
    assert (E : imp_path i1 = imp_path i2) by (apply H; vm_compute; auto).
    discriminate.
Qed.

Lemma first_arity_le1 name rules : length (first_arity name rules) <= 1.
Proof. unfold first_arity. destruct (filter (fun r => str_eqb (rs_name r) name) rules); simpl; auto. Qed.

(* function_decls: several functions (and rules) of one name with different arities give one declaration *)
Theorem function_decls_conflict_free rules : keyed_conflict_free (function_decls rules).
Proof.
  intros k v w Hv Hw. unfold function_decls in Hv, Hw.
  apply in_flat_map in Hv. destruct Hv as (r1 & _ & Hv).
  apply in_flat_map in Hw. destruct Hw as (r2 & _ & Hw).
  destruct (rs_args r1); [|destruct Hv]. destruct (rs_args r2); [|destruct Hw].
  apply in_map_iff in Hv. destruct Hv as (v' & E1 & Hv). injection E1 as Ek1 Ev1. subst v'.
  apply in_map_iff in Hw. destruct Hw as (w' & E2 & Hw). injection E2 as Ek2 Ew2. subst w'.
  rewrite Ek1 in Hv. rewrite Ek2 in Hw.
  pose proof (first_arity_le1 k rules) as Hl.
  destruct (first_arity k rules) as [|x [|y l]]; simpl in *.
  - destruct Hv.
  - destruct Hv as [<-|[]]. destruct Hw as [<-|[]]. reflexivity.
  - lia.
Qed.
