(* compute_edits_total: the model never returns Panic or Fuel.
   T1 (every complete round holds the furthest reaching end points), T2 (DiffReach) and the
   explicit path of M deletes + N inserts show that the forward pass meets x == M && y == N
   in some round d <= M+N; index bounds (F3), backtrack and operations then cannot fail. *)
From Regal Require Export Proofs.DiffTrace Proofs.DiffReach.
From Coq Require Import Lia.
Open Scope Z_scope.

Section Total.
  Variable A : Type.
  Variable eqb : A -> A -> bool.
  Variables a b : list A.
  Variables geta getb : Z -> res A.
  Variable sfuel : nat.
  Hypothesis Hga : forall i, geta i = list_get a i.
  Hypothesis Hgb : forall i, getb i = list_get b i.
  Hypothesis Hfuel : (length a < sfuel)%nat.

  Notation Mz := (Z.of_nat (length a)).
  Notation Nz := (Z.of_nat (length b)).
  Notation OFF := (off Mz Nz).
  Notation rd := (DiffTrace.rd A a b).
  Notation start_x := (DiffTrace.start_x A a b).
  Notation down_cond := (DiffTrace.down_cond A a b).
  Notation kspec := (kspec A eqb a b).
  Notation round_ok := (round_ok A eqb a b).
  Notation frame := (DiffTrace.frame A a b).
  Notation pre := (DiffTrace.pre A a b).
  Notation found_at := (DiffTrace.found_at A a b).
  Notation trace_ok := (trace_ok A eqb a b).
  Notation reach := (reach A eqb a b).
  Notation slides := (slides A eqb a b).

  Hypothesis Hoff1 : 1 <= OFF.

  Lemma in_range_iff i : in_range Mz Nz i = true <-> 0 <= i <= 2 * OFF.
  Proof.
    unfold in_range, vsize, off. rewrite andb_true_iff, Z.leb_le, Z.ltb_lt. lia.
  Qed.

  Lemma vget_total V i : 0 <= i <= 2 * OFF -> vget Mz Nz V i = Ok (vraw V i).
  Proof. intros H. unfold vget. apply in_range_iff in H. rewrite H. reflexivity. Qed.

  Lemma vset_total V i x : 0 <= i <= 2 * OFF -> vset Mz Nz V i x = Ok (PositiveMap.add (Z.to_pos (i + 1)) x V).
  Proof. intros H. unfold vset. apply in_range_iff in H. rewrite H. reflexivity. Qed.

  Lemma not_adjacent k d : Z.even (k + d) = true -> k <> d - 1 /\ k <> - d + 1.
  Proof.
    intros He. split; intros E; rewrite E in He.
    - replace (d - 1 + d) with (2 * d - 1) in He by lia. rewrite Z.even_sub, Z.even_mul in He. discriminate.
    - replace (- d + 1 + d) with 1 in He by lia. discriminate.
  Qed.

  Lemma choose_down_total V k d :
    0 <= d <= OFF -> - d <= k <= d -> Z.even (k + d) = true ->
    choose_down Mz Nz V k d = Ok (down_cond V k d).
  Proof.
    intros Hd Hk He. destruct (not_adjacent k d He) as [N1 N2].
    unfold choose_down, DiffTrace.down_cond.
    destruct (Z.eqb_spec k (- d)); [reflexivity|]. destruct (Z.eqb_spec k d); [reflexivity|].
    rewrite !vget_total by lia. reflexivity.
  Qed.

  (* ---- one iteration of the inner loop cannot fail (F3 + slide inside the first quadrant) ---- *)
  Lemma round_step d V V0 k :
    0 <= d <= OFF -> - d <= k <= d -> Z.even (k + d) = true -> pre d V0 -> frame d V V0 ->
    exists x,
      (do down <- choose_down Mz Nz V k d;
       do x0 <- (if down then vget Mz Nz V (k + 1 + OFF) else do l <- vget Mz Nz V (k - 1 + OFF); Ok (l + 1));
       slide A eqb Mz Nz geta getb sfuel x0 (x0 - k)) = Ok x /\
      vset Mz Nz V (k + OFF) x = Ok (PositiveMap.add (Z.to_pos (k + OFF + 1)) x V) /\
      frame d (PositiveMap.add (Z.to_pos (k + OFF + 1)) x V) V0.
  Proof.
    intros Hd Hk He Hpre Hfr. destruct (not_adjacent k d He) as [N1 N2].
    rewrite choose_down_total by assumption. simpl.
    assert (Ex0 : (if down_cond V k d then vget Mz Nz V (k + 1 + OFF)
                   else do l <- vget Mz Nz V (k - 1 + OFF); Ok (l + 1)) = Ok (start_x V k d)).
    { unfold DiffTrace.start_x. destruct (down_cond V k d) eqn:Hdc.
      - rewrite vget_total; [reflexivity|]. unfold DiffTrace.down_cond in Hdc.
        destruct (Z.eqb_spec k (- d)); [lia|]. destruct (Z.eqb_spec k d); [discriminate|]. lia.
      - rewrite vget_total; [reflexivity|]. unfold DiffTrace.down_cond in Hdc.
        destruct (Z.eqb_spec k (- d)); [discriminate|]. lia. }
    rewrite Ex0. simpl.
    rewrite (start_x_frame A a b d V V0 k Hfr Hk He).
    destruct (start_nonneg A a b d V0 k (proj1 Hd) Hpre Hk He) as [Hn1 Hn2].
    destruct (slide_total A eqb a b geta getb Hga Hgb sfuel (start_x V0 k d) (start_x V0 k d - k) Hn1 Hn2) as [x Hx]; [lia|].
    exists x. split; [assumption|]. split; [apply vset_total; lia|].
    intros j Hj Ho. unfold DiffTrace.rd. rewrite vraw_add_other; try lia.
    - apply Hfr; assumption.
    - intros E. assert (j = k) by lia. subst j.
      replace (k + d) with (Z.pred (Z.succ (k + d))) in Ho by lia. rewrite Z.odd_pred, Z.even_succ in Ho.
      rewrite <- Z.negb_even in Ho. rewrite He in Ho. discriminate.
  Qed.

  Lemma round_loop_total : forall n k V V0 d,
    0 <= d <= OFF -> k = d + 2 - 2 * Z.of_nat n -> - d <= k -> pre d V0 -> frame d V V0 ->
    exists rr, round_loop A eqb Mz Nz geta getb sfuel n k d V = Ok rr.
  Proof.
    induction n as [|n IH]; intros k V V0 d Hd Hk Hkd Hpre Hfr; simpl; [eauto|].
    assert (Hke : Z.even (k + d) = true) by (apply even_ex; exists (d + 1 - Z.of_nat (S n)); lia).
    destruct (round_step d V V0 k Hd ltac:(lia) Hke Hpre Hfr) as [x [H1 [H2 H3]]].
    destruct (choose_down Mz Nz V k d) as [down| |]; simpl in H1; try discriminate H1. simpl.
    destruct (if down then vget Mz Nz V (k + 1 + OFF) else do l <- vget Mz Nz V (k - 1 + OFF); Ok (l + 1)) as [x0| |];
      simpl in H1; try discriminate H1. simpl.
    rewrite H1. simpl. rewrite H2. simpl.
    destruct ((x =? Mz) && (x - k =? Nz)); [eauto|].
    apply (IH (k + 2) _ V0 d); try assumption; lia.
  Qed.

  Lemma round_total d V : 0 <= d <= OFF -> pre d V -> exists rr, round A eqb Mz Nz geta getb sfuel d V = Ok rr.
  Proof.
    intros Hd Hpre. unfold round. apply (round_loop_total _ _ V V d); try assumption; try lia.
    intros j _ _. reflexivity.
  Qed.

  (* ---- T1: complete rounds hold the furthest reaching points ---- *)
  Definition furthest (d : Z) (V : vmap) : Prop :=
    forall k, - d <= k <= d -> Z.even (k + d) = true ->
      reach d (rd V k) (rd V k - k) /\ forall x, reach d x (x - k) -> x <= rd V k.

  Definition tbase (d : Z) (V : vmap) : Prop := (d = 0 /\ rd V 1 = 0) \/ (1 <= d /\ furthest (d - 1) V).

  Lemma start_dominates V k d :
    Z.even (k + d) = true -> - d <= k <= d ->
    (- (d - 1) <= k - 1 -> rd V (k - 1) + 1 <= start_x V k d) /\
    (k + 1 <= d - 1 -> rd V (k + 1) <= start_x V k d).
  Proof.
    intros He Hk. destruct (not_adjacent k d He) as [N1 N2].
    unfold DiffTrace.start_x, DiffTrace.down_cond.
    destruct (Z.eqb_spec k (- d)); simpl; [lia|]. destruct (Z.eqb_spec k d); simpl; [lia|].
    destruct (Z.ltb_spec (rd V (k - 1)) (rd V (k + 1))); lia.
  Qed.

  Lemma furthest_next d V V' k x :
    0 <= d -> tbase d V -> frame d V' V -> - d <= k <= d -> Z.even (k + d) = true ->
    kspec V' d k x ->
    reach d x (x - k) /\ forall xs, reach d xs (xs - k) -> xs <= x.
  Proof.
    intros Hd Hb Hfr Hk He [Hs1 [Hs2 [Hsl Hst]]].
    rewrite (start_x_frame A a b d V' V k Hfr Hk He) in Hs1, Hs2, Hsl.
    destruct (not_adjacent k d He) as [N1 N2].
    destruct (start_dominates V k d He Hk) as [Dm1 Dp1].
    assert (Ho1 := even_odd_m1 k d He). assert (Ho2 := even_odd_p1 k d He).
    assert (Hem : Z.even (k - 1 + (d - 1)) = true) by (replace (k - 1 + (d - 1)) with (k + d - 2) by lia; rewrite Z.even_sub, He; reflexivity).
    assert (Hep : Z.even (k + 1 + (d - 1)) = true) by (replace (k + 1 + (d - 1)) with (k + d) by lia; assumption).
    destruct Hb as [[-> H1]|[Hd1 Hf]].
    - (* round 0 *)
      assert (k = 0) by lia. subst k.
      assert (E0 : start_x V 0 0 = 0) by (unfold DiffTrace.start_x, DiffTrace.down_cond; simpl; exact H1).
      rewrite E0 in Hsl.
      split.
      + destruct Hsl as [Hle Hdg]. replace (x - 0) with x in * by lia. replace (0 - 0) with 0 in Hdg by lia.
        apply reach0; [lia|exact Hdg].
      + intros xs Hr. apply reach_zero in Hr. destruct Hr as [_ [Hxs Hdg]].
        apply (slides_max A eqb a b 0 0 0 xs x); try assumption; try lia.
        split; [lia|]. replace (0 - 0) with 0 by lia. replace (xs - 0) with xs by lia. exact Hdg.
    - split.
      + (* reached: one snake from the furthest point of the previous round *)
        unfold DiffTrace.start_x in Hsl. destruct (down_cond V k d) eqn:Hdc.
        * assert (Hr : - (d - 1) <= k + 1 <= d - 1).
          { unfold DiffTrace.down_cond in Hdc. destruct (Z.eqb_spec k (- d)); [lia|]. destruct (Z.eqb_spec k d); [discriminate|]. lia. }
          destruct (Hf (k + 1) Hr Hep) as [Hreach _].
          apply (reachD A eqb a b (d - 1) (rd V (k + 1)) (rd V (k + 1) - (k + 1)) d x (x - k) Hreach); [lia| |lia].
          replace (rd V (k + 1) - (k + 1) + 1) with (rd V (k + 1) - k) by lia. exact Hsl.
        * assert (Hr : - (d - 1) <= k - 1 <= d - 1).
          { unfold DiffTrace.down_cond in Hdc. destruct (Z.eqb_spec k (- d)); [discriminate|]. lia. }
          destruct (Hf (k - 1) Hr Hem) as [Hreach _].
          apply (reachR A eqb a b (d - 1) (rd V (k - 1)) (rd V (k - 1) - (k - 1)) d x (x - k) Hreach); [lia| |lia].
          replace (rd V (k - 1) - (k - 1)) with (rd V (k - 1) + 1 - k) by lia. exact Hsl.
      + (* furthest: any other path's last snake starts no further right *)
        intros xs Hr.
        destruct (reach_succ A eqb a b d xs (xs - k) Hr Hd1) as [[px [py [Hp [Hps Ey]]]]|[px [py [Hp [Hps Ey]]]]].
        * pose proof (reach_facts A eqb a b _ _ _ Hp) as [_ [Hrange _]].
          assert (Hpk : px - py = k - 1) by lia.
          destruct (Hf (k - 1) ltac:(lia) Hem) as [_ Hmax].
          assert (Hle : px <= rd V (k - 1)) by (apply Hmax; replace (px - (k - 1)) with py by lia; exact Hp).
          apply (slides_max A eqb a b (px + 1) (start_x V k d) k xs x); try assumption; try lia.
          replace (px + 1 - k) with py by lia. exact Hps.
        * pose proof (reach_facts A eqb a b _ _ _ Hp) as [_ [Hrange _]].
          assert (Hpk : px - py = k + 1) by lia.
          destruct (Hf (k + 1) ltac:(lia) Hep) as [_ Hmax].
          assert (Hle : px <= rd V (k + 1)) by (apply Hmax; replace (px - (k + 1)) with py by lia; exact Hp).
          apply (slides_max A eqb a b px (start_x V k d) k xs x); try assumption; try lia.
          replace (px - k) with (py + 1) by lia. exact Hps.
  Qed.

  Lemma furthest_round d V V' :
    0 <= d -> tbase d V -> frame d V' V -> round_ok d V' d -> furthest d V'.
  Proof.
    intros Hd Hb Hfr Hro k Hk He. apply (furthest_next d V V' k); try assumption. apply Hro; assumption.
  Qed.

  (* a complete round that did not return: (M,N) is not reachable with d snakes *)
  Lemma no_reach_after_round d V V' :
    0 <= d -> tbase d V -> frame d V' V -> round_ok d V' d ->
    (forall k, - d <= k <= d -> Z.even (k + d) = true -> ~ found_at V' k) ->
    (forall d', 0 <= d' < d -> ~ reach d' Mz Nz) ->
    ~ reach d Mz Nz.
  Proof.
    intros Hd Hb Hfr Hro Hnf Hprev Hr.
    pose proof (reach_facts A eqb a b _ _ _ Hr) as [_ [Hrange [[m Hm] _]]].
    set (k := Mz - Nz) in *.
    assert (He : Z.even (k + d) = true) by (apply even_ex; exists m; exact Hm).
    destruct (furthest_round d V V' Hd Hb Hfr Hro k Hrange He) as [Hreach Hmax].
    assert (Hge : Mz <= rd V' k) by (apply Hmax; replace (Mz - k) with Nz by (unfold k; lia); exact Hr).
    destruct (Z.eq_dec (rd V' k) Mz) as [E|Hne].
    - apply (Hnf k Hrange He). split; [exact E|unfold k; lia].
    - set (j := rd V' k - Mz).
      replace (rd V' k) with (Mz + j) in Hreach by (unfold j; lia).
      replace (Mz + j - k) with (Nz + j) in Hreach by (unfold k; lia).
      destruct (reach_overshoot A eqb a b d j ltac:(unfold j; lia) Hreach) as [d' [Hd' Hr']].
      exact (Hprev d' Hd' Hr').
  Qed.

  (* ---- the outer loop returns a trace ---- *)
  Lemma ses_loop_total : forall rounds d V tr,
    0 <= d -> Z.of_nat rounds + d = OFF + 1 ->
    ((d = 0 /\ V = vempty /\ tr = []) \/ (1 <= d /\ exists tr', tr = V :: tr' /\ trace_ok tr (d - 1) (d - 1))) ->
    tbase d V ->
    (forall d', 0 <= d' < d -> ~ reach d' Mz Nz) ->
    exists res, ses_loop A eqb Mz Nz geta getb sfuel rounds d V tr = Ok res.
  Proof.
    induction rounds as [|r IH]; intros d V tr Hd Hr Hinv Hb Hprev.
    - exfalso. apply (Hprev (Mz + Nz)); [unfold off in *; lia|]. apply reach_MN.
    - simpl.
      assert (Hpre : pre d V).
      { destruct Hinv as [[-> [-> _]]|[Hd1 [tr' [-> Ht]]]].
        - split; [intros _; unfold DiffTrace.rd; apply vraw_empty|]. intros j Hj. lia.
        - apply trace_ok_head in Ht. destruct Ht as [V1 [tr1 [E [Hro _]]]]. injection E as <- <-.
          replace d with (d - 1 + 1) by lia. apply (round_ok_pre A eqb a b); [lia|assumption]. }
      destruct (round_total d V ltac:(lia) Hpre) as [rr Hrr]. rewrite Hrr. simpl.
      pose proof (round_inv A eqb a b geta getb sfuel Hga Hgb d V rr Hd ltac:(lia) Hpre Hrr) as Hri.
      destruct rr as [V'|V']; [eauto|].
      destruct Hri as [Hfr [Hro Hnf]].
      apply IH; try lia.
      + right. split; [lia|]. exists tr. split; [reflexivity|]. replace (d + 1 - 1) with d by lia.
        destruct Hinv as [[-> [-> ->]]|[Hd1 [tr' [-> Ht]]]].
        * apply tok0; [|assumption]. rewrite (Hfr 1); [unfold DiffTrace.rd; apply vraw_empty|lia|reflexivity].
        * apply tokS; try assumption. intros j Hj Ho. apply Hfr; [lia|assumption].
      + right. split; [lia|]. replace (d + 1 - 1) with d by lia. apply (furthest_round d V V'); assumption.
      + intros d' Hd'. destruct (Z.eq_dec d' d) as [->|Hne].
        * apply (no_reach_after_round d V V'); assumption.
        * apply Hprev. lia.
  Qed.

  Theorem ses_total : exists tr, shortest_edit_sequence A eqb Mz Nz geta getb sfuel = Ok tr.
  Proof.
    unfold shortest_edit_sequence.
    apply ses_loop_total;
      [lia | unfold off; lia | left; auto
       | left; split; [reflexivity | unfold DiffTrace.rd; apply vraw_empty] | intros d' Hd'; lia].
  Qed.

  (* ---- backtrack cannot fail on such a trace ---- *)
  Lemma bt_total : forall tr d kmax x y acc V,
    trace_ok tr d kmax -> hd_error tr = Some V -> d <= OFF ->
    - d <= x - y <= kmax -> kmax <= d -> Z.even (x - y + d) = true -> x = rd V (x - y) ->
    exists res, bt Mz Nz tr d x y acc = Ok res.
  Proof.
    induction tr as [|V0 tr IH]; intros d kmax x y acc V Ht Hhd Hoff Hk Hkm He Hx.
    - inversion Ht.
    - simpl in Hhd. injection Hhd as ->. simpl.
      destruct ((0 <? x) && (0 <? y) && (0 <? d)) eqn:Hloop.
      + apply andb_true_iff in Hloop. destruct Hloop as [_ L3]. apply Z.ltb_lt in L3.
        inversion Ht as [|Va Vb trb da ka Hd1 Hroa Hfa Htb]; subst; [lia|].
        assert (Hk2 : - d <= x - y <= d) by lia.
        assert (Hd2 : 0 <= d <= OFF) by lia.
        rewrite (choose_down_total V (x - y) d Hd2 Hk2 He). simpl.
        destruct (kp_range A a b V (x - y) d Hd1 Hk2 He) as [R1 R2].
        set (kp := if down_cond V (x - y) d then x - y + 1 else x - y - 1) in *.
        rewrite vget_total by lia. simpl.
        apply (IH (d - 1) (d - 1) _ _ _ Vb); try assumption; try reflexivity; try lia.
        * replace (vraw V (kp + OFF) - (vraw V (kp + OFF) - kp)) with kp by lia.
          replace (kp + d) with (Z.succ (kp + (d - 1))) in R2 by lia. rewrite Z.odd_succ in R2. exact R2.
        * replace (vraw V (kp + OFF) - (vraw V (kp + OFF) - kp)) with kp by lia.
          apply (Hfa kp); [lia|assumption].
      + destruct ((x <? 0) || (y <? 0)); eauto.
  Qed.

  Theorem backtrack_total tr :
    shortest_edit_sequence A eqb Mz Nz geta getb sfuel = Ok tr ->
    exists snakes, backtrack Mz Nz tr = Ok snakes.
  Proof.
    intros Hs. apply (ses_inv A eqb a b geta getb sfuel Hga Hgb) in Hs.
    destruct Hs as [D [kf [V' [Ht [Hkf [He [Hhd [[Hf1 Hf2] HDoff]]]]]]]].
    unfold backtrack. rewrite (trace_ok_length A eqb a b _ _ _ Ht).
    replace (D + 1 - 1) with D by lia.
    assert (Hk : Mz - Nz = kf) by lia.
    assert (Hr : - D <= kf <= kf) by lia. assert (Hr2 : kf <= D) by lia.
    pose proof (bt_total tr D kf Mz Nz [] V' Ht Hhd HDoff) as L. rewrite Hk in L.
    exact (L Hr Hr2 He (eq_sym Hf1)).
  Qed.
End Total.

(* ---- the loop of [operations] cannot fail on a valid chain ---- *)
Section OpsTotal.
  Variable A : Type.
  Variable eqb : A -> A -> bool.
  Variables a b : list A.
  Notation Mz := (Z.of_nat (length a)).
  Notation Nz := (Z.of_nat (length b)).
  Notation chain := (chain A eqb a b).

  Lemma ops_loop_total : forall snakes x y cnt,
    0 <= x -> 0 <= y -> chain (x, y) snakes -> last snakes (x, y) = (Mz, Nz) ->
    0 <= cnt <= x + y ->
    exists ops, ops_loop Mz Nz snakes x y cnt = Ok ops.
  Proof.
    induction snakes as [|[s0 s1] rest IH]; intros x y cnt Hx Hy Hc Hl Hcnt; simpl; [eauto|].
    simpl in Hc. destruct Hc as [Hs Hc].
    assert (Hle := chain_last_ge A eqb a b rest (s0, s1) Hc).
    assert (Hlast : last rest (s0, s1) = (Mz, Nz)).
    { destruct rest as [|q rest']; [exact Hl|]. rewrite <- Hl.
      change (last ((s0, s1) :: q :: rest') (x, y)) with (last (q :: rest') (x, y)).
      apply last_cons_default. }
    rewrite Hlast in Hle. simpl in Hle.
    unfold gstep in Hs. remember (s0 - s1 - (x - y)) as t eqn:Et.
    destruct Hs as [_ [_ [Hx' _]]].
    destruct (Z.ltb_spec 0 t) as [Ht|Ht].
    - replace (Z.max t 0) with t in Hx' by lia.
      rewrite del_loop_spec by lia. rewrite Z2Nat.id by lia.
      replace (x + t - y - (s0 - s1)) with 0 by lia. simpl.
      destruct (Z.ltb_spec (Mz + Nz) (cnt + 1 + 0)); [lia|].
      assert (E : (if x + t <? s0 then s0 else x + t) = s0 /\ (if x + t <? s0 then y + (s0 - (x + t)) else y) = s1)
        by (destruct (Z.ltb_spec (x + t) s0); lia).
      destruct E as [E1 E2]. rewrite E1, E2.
      destruct ((Mz <=? s0) && (Nz <=? s1)); [eauto|].
      destruct (IH s0 s1 (cnt + 1 + 0)) as [r Hr]; try assumption; try lia.
      rewrite Hr. simpl. eauto.
    - destruct (Z.ltb_spec t 0) as [Ht'|Ht'].
      + replace (Z.max t 0) with 0 in Hx' by lia.
        replace (x - y - (s0 - s1)) with (- t) by lia.
        destruct (Z.ltb_spec 0 (- t)); [|lia]. simpl.
        destruct (Z.ltb_spec Nz (y + - t)); [lia|].
        destruct (Z.ltb_spec (Mz + Nz) (cnt + 0 + 1)); [lia|].
        assert (E : (if x <? s0 then s0 else x) = s0 /\ (if x <? s0 then y + - t + (s0 - x) else y + - t) = s1)
          by (destruct (Z.ltb_spec x s0); lia).
        destruct E as [E1 E2]. rewrite E1, E2.
        destruct ((Mz <=? s0) && (Nz <=? s1)); [eauto|].
        destruct (IH s0 s1 (cnt + 0 + 1)) as [r Hr]; try assumption; try lia.
        rewrite Hr. simpl. eauto.
      + replace (Z.max t 0) with 0 in Hx' by lia.
        replace (x - y - (s0 - s1)) with 0 by lia. simpl.
        destruct (Z.ltb_spec (Mz + Nz) (cnt + 0 + 0)); [lia|].
        assert (E : (if x <? s0 then s0 else x) = s0 /\ (if x <? s0 then y + (s0 - x) else y) = s1)
          by (destruct (Z.ltb_spec x s0); lia).
        destruct E as [E1 E2]. rewrite E1, E2.
        destruct ((Mz <=? s0) && (Nz <=? s1)); [eauto|].
        destruct (IH s0 s1 (cnt + 0 + 0)) as [r Hr]; try assumption; try lia.
        rewrite Hr. simpl. eauto.
  Qed.

  (* operations(a, b) never panics *)
  Theorem operations_total : exists ops, operations A eqb a b = Ok ops.
  Proof.
    unfold operations, operations_gen.
    destruct ((Mz =? 0) && (Nz =? 0)) eqn:H0; [eauto|].
    assert (Hoff : 1 <= off Mz Nz).
    { unfold off. apply andb_false_iff in H0. destruct H0 as [H0|H0]; apply Z.eqb_neq in H0; lia. }
    destruct (ses_total A eqb a b _ _ (S (length a)) (lines_get_map a) (lines_get_map b) ltac:(lia) Hoff) as [tr Htr].
    rewrite Htr. simpl.
    destruct (backtrack_total A eqb a b _ _ (S (length a)) (lines_get_map a) (lines_get_map b) ltac:(lia) tr Htr) as [sn Hsn].
    rewrite Hsn. simpl.
    destruct (snakes_chain A eqb a b _ _ _ (lines_get_map a) (lines_get_map b) tr sn Htr Hsn) as [Hc Hl].
    apply ops_loop_total; try assumption; lia.
  Qed.
End OpsTotal.

Theorem compute_edits_total_proof (before after : str) : exists es, compute_edits before after = Ok es.
Proof.
  unfold compute_edits, compute_edits_with.
  destruct (operations_total str str_eqb (split_lines before) (split_lines after)) as [ops Hops].
  rewrite Hops. simpl. eauto.
Qed.
