(* C03 (i) — proofs about the error propagation model (Model/LintErr.v). *)
From Coq Require Import List Permutation.
From Regal Require Import Model.LintErr.
Import ListNotations.

Section Proofs.
  Variables file input resultset piece aggreport E : Type.
  Variable setup : res E unit.
  Variable transform : file -> res E input.
  Variable eval : input -> res E resultset.
  Variable convert : resultset -> res E piece.
  Variable need_aggregate : list piece -> bool.
  Variable eval_aggregate : list piece -> res E aggreport.

  Notation per_file := (per_file file input resultset piece E transform eval convert).
  Notation lint_rego := (lint_rego file input resultset piece E transform eval convert).
  Notation lint := (lint file input resultset piece aggreport E setup transform eval convert need_aggregate eval_aggregate).

  Lemma first_err_none_iff (rs : list (res E piece)) :
    first_err piece E rs = None <-> forall r, In r rs -> is_ok E r.
  Proof.
    induction rs as [|r rs IH]; simpl.
    - split; [intros _ r [] | reflexivity].
    - destruct r as [p|e].
      + rewrite IH. split.
        * intros H r [<-|Hr]; [exists p; reflexivity | apply H; assumption].
        * intros H r Hr. apply H. right; assumption.
      + split; [discriminate|]. intros H. destruct (H (Err e) (or_introl eq_refl)) as [a Ha]. discriminate.
  Qed.

  Lemma first_err_some (rs : list (res E piece)) e :
    In (Err e) rs -> exists e', first_err piece E rs = Some e'.
  Proof.
    induction rs as [|r rs IH]; simpl; [intros []|].
    intros [->|H]; [eauto|]. destruct r; [apply IH; assumption | eauto].
  Qed.

  Lemma per_file_ok_iff f :
    is_ok E (per_file f) <->
    exists i rs p, transform f = Ok i /\ eval i = Ok rs /\ convert rs = Ok p.
  Proof.
    unfold LintErr.per_file, bind, is_ok. split.
    - intros [p H]. destruct (transform f) as [i|] eqn:Et; [|discriminate].
      destruct (eval i) as [rs|] eqn:Ee; [|discriminate]. destruct (convert rs) as [p'|] eqn:Ec; [|discriminate].
      exists i, rs, p'. repeat split; auto.
    - intros (i & rs & p & -> & -> & ->). eauto.
  Qed.

  (* no oracle call errors => a report, whatever the completion order and the scheduling of the select *)
  Theorem lint_total_if_rules_total (files order : list file) (s : sel) :
    Permutation files order ->
    is_ok E setup ->
    (forall f, In f files -> is_ok E (per_file f)) ->
    (forall ps, is_ok E (eval_aggregate ps)) ->
    is_ok E (lint order s).
  Proof.
    intros Hperm [u Hs] Hfiles Hagg. unfold LintErr.lint. rewrite Hs. simpl.
    assert (Hnone : first_err piece E (map per_file order) = None).
    { apply first_err_none_iff. intros r Hr. apply in_map_iff in Hr. destruct Hr as (f & <- & Hf).
      apply Hfiles. apply Permutation_sym in Hperm. eapply Permutation_in; eassumption. }
    unfold LintErr.lint_rego. rewrite Hnone. simpl.
    destruct (need_aggregate _).
    - destruct (Hagg (oks piece E (map per_file order))) as [a Ha]. rewrite Ha. simpl. eexists; reflexivity.
    - eexists; reflexivity.
  Qed.

  (* one per-file error makes the whole run an error (no report at all, for any file), when main is
     blocked in the select as the error arrives, or when the random choice takes errCh *)
  Theorem one_file_error_aborts (files order : list file) (s : sel) f e :
    Permutation files order -> In f files -> per_file f = Err e ->
    s <> AllDoneFirst true ->
    is_err E (lint order s).
  Proof.
    intros Hperm Hf He Hs. unfold LintErr.lint.
    destruct setup as [u|e0]; simpl; [|eexists; reflexivity].
    assert (Hin : In (Err e) (map per_file order)).
    { rewrite <- He. apply in_map. eapply Permutation_in; eassumption. }
    destruct (first_err_some _ _ Hin) as [e' He']. unfold LintErr.lint_rego. rewrite He'.
    destruct s as [|[|]]; simpl; try (eexists; reflexivity). contradiction.
  Qed.

  (* under the normal schedule: Lint errs exactly when the set-up, some file, or the aggregate phase errs *)
  Theorem lint_ok_iff (files order : list file) :
    Permutation files order ->
    (is_ok E (lint order MainWaiting) <->
     is_ok E setup /\ (forall f, In f files -> is_ok E (per_file f)) /\
     (need_aggregate (oks piece E (map per_file order)) = true ->
      is_ok E (eval_aggregate (oks piece E (map per_file order))))).
  Proof.
    intros Hperm. split.
    - intros [r Hr]. unfold LintErr.lint in Hr.
      destruct setup as [u|e0]; simpl in Hr; [|discriminate].
      unfold LintErr.lint_rego in Hr.
      destruct (first_err piece E (map per_file order)) as [e|] eqn:Ef; simpl in Hr; [discriminate|].
      split; [eexists; reflexivity|]. split.
      + intros f Hf. apply (proj1 (first_err_none_iff _) Ef). apply in_map.
        eapply Permutation_in; eassumption.
      + intros Hn. rewrite Hn in Hr.
        destruct (eval_aggregate _) as [a|]; simpl in Hr; [eexists; reflexivity | discriminate].
    - intros ([u Hs] & Hfiles & Hagg). unfold LintErr.lint. rewrite Hs. simpl.
      assert (Hnone : first_err piece E (map per_file order) = None).
      { apply first_err_none_iff. intros r Hr. apply in_map_iff in Hr. destruct Hr as (f & <- & Hf).
        apply Hfiles. apply Permutation_sym in Hperm. eapply Permutation_in; eassumption. }
      unfold LintErr.lint_rego. rewrite Hnone. simpl.
      destruct (need_aggregate _) eqn:En.
      + destruct (Hagg eq_refl) as [a Ha]. rewrite Ha. simpl. eexists; reflexivity.
      + eexists; reflexivity.
  Qed.
End Proofs.

(* The scheduling corner: if every goroutine has finished before main reaches the select and the random
   choice takes doneCh, the error is dropped and the report silently lacks the failed file. *)
Lemma error_dropped_when_done_wins :
  let per (f : nat) : res nat nat := if Nat.eqb f 1 then Err 7 else Ok f in
  lint nat nat nat nat nat nat (Ok tt) per (fun i => Ok i) (fun r => Ok r) (fun _ => false) (fun _ => Ok 0)
       [0; 1; 2] (AllDoneFirst true) = Ok ([0; 2], None).
Proof. reflexivity. Qed.
