(* Association lists, string sets, and the invariants of the in-memory file provider. *)
From Regal Require Import Model.Provider.
From Coq Require Import Permutation Lia.

Lemma str_eqb_false a b : str_eqb a b = false <-> a <> b.
Proof. destruct (str_eqb_spec a b); split; congruence. Qed.

Lemma str_eqb_sym a b : str_eqb a b = str_eqb b a.
Proof. destruct (str_eqb_spec a b), (str_eqb_spec b a); congruence. Qed.

Lemma str_in_false s l : str_in s l = false <-> ~ In s l.
Proof. rewrite <- str_in_spec. destruct (str_in s l); split; congruence. Qed.

(* ---------------------------------------------------------------- sets *)

Lemma in_sadd x k s : In x (sadd k s) <-> x = k \/ In x s.
Proof.
  unfold sadd. destruct (str_in k s) eqn:E.
  - apply str_in_spec in E. split; [auto | intros [->|H]; assumption].
  - rewrite in_app_iff. simpl. split; [intros [H|[H|[]]]; auto | intros [->|H]; auto].
Qed.

Lemma in_sdel x k s : In x (sdel k s) <-> x <> k /\ In x s.
Proof.
  unfold sdel. rewrite filter_In. rewrite negb_true_iff, str_eqb_false. tauto.
Qed.

Lemma nodup_snoc {A} (x : A) l : NoDup l -> ~ In x l -> NoDup (l ++ [x]).
Proof.
  induction l as [|y l IH]; simpl; intros Hnd Hni.
  - constructor; [intros [] | constructor].
  - inversion Hnd as [|? ? Hy Hl]; subst. constructor.
    + rewrite in_app_iff. simpl. intros [H|[H|[]]]; [contradiction | subst; apply Hni; left; reflexivity].
    + apply IH; [assumption | tauto].
Qed.

Lemma nodup_sadd k s : NoDup s -> NoDup (sadd k s).
Proof.
  intros H. unfold sadd. destruct (str_in k s) eqn:E; [assumption|].
  apply str_in_false in E. apply nodup_snoc; assumption.
Qed.

Lemma nodup_sdel k s : NoDup s -> NoDup (sdel k s).
Proof. intros H. apply NoDup_filter. assumption. Qed.

(* ---------------------------------------------------------------- association lists *)
Section AssocFacts.
  Context {V : Type}.
  Implicit Types (m : amap V) (k : str).

  Lemma aget_aset_eq m k v : aget (aset m k v) k = Some v.
  Proof.
    induction m as [|[k' v'] m IH]; simpl.
    - rewrite str_eqb_refl. reflexivity.
    - destruct (str_eqb k' k) eqn:E; simpl.
      + rewrite str_eqb_refl. reflexivity.
      + rewrite E. exact IH.
  Qed.

  Lemma aget_aset_neq m k k' v : k <> k' -> aget (aset m k v) k' = aget m k'.
  Proof.
    intros Hne. induction m as [|[k0 v0] m IH]; simpl.
    - apply str_eqb_false in Hne. rewrite Hne. reflexivity.
    - destruct (str_eqb_spec k0 k) as [->|Hk]; simpl.
      + apply str_eqb_false in Hne. rewrite Hne. reflexivity.
      + destruct (str_eqb k0 k'); [reflexivity | exact IH].
  Qed.

  Lemma aget_adel_eq m k : aget (adel m k) k = None.
  Proof.
    induction m as [|[k0 v0] m IH]; simpl; [reflexivity|].
    destruct (str_eqb k0 k) eqn:E; [exact IH|]. simpl. rewrite E. exact IH.
  Qed.

  Lemma aget_adel_neq m k k' : k <> k' -> aget (adel m k) k' = aget m k'.
  Proof.
    intros Hne. induction m as [|[k0 v0] m IH]; simpl; [reflexivity|].
    destruct (str_eqb_spec k0 k) as [->|Hk]; simpl.
    - apply str_eqb_false in Hne. rewrite Hne. exact IH.
    - destruct (str_eqb k0 k'); [reflexivity | exact IH].
  Qed.

  Lemma aget_in_keys m k : aget m k <> None <-> In k (akeys m).
  Proof.
    induction m as [|[k0 v0] m IH]; simpl; [tauto|].
    destruct (str_eqb_spec k0 k) as [->|Hk].
    - split; [auto | discriminate].
    - rewrite IH. split; [auto | intros [H|H]; [contradiction | assumption]].
  Qed.

  Lemma aget_none_not_in m k : aget m k = None <-> ~ In k (akeys m).
  Proof.
    rewrite <- aget_in_keys. destruct (aget m k) as [v|].
    - split; [discriminate | intros H; exfalso; apply H; discriminate].
    - split; [intros _ H; apply H; reflexivity | reflexivity].
  Qed.

  Lemma amem_in m k : amem m k = true <-> In k (akeys m).
  Proof.
    unfold amem. rewrite <- aget_in_keys. destruct (aget m k); split; congruence.
  Qed.

  Lemma amem_false m k : amem m k = false <-> ~ In k (akeys m).
  Proof. rewrite <- amem_in. destruct (amem m k); split; congruence. Qed.

  Lemma in_keys_aset m k v x : In x (akeys (aset m k v)) <-> x = k \/ In x (akeys m).
  Proof.
    rewrite <- !aget_in_keys.
    destruct (str_eqb_spec k x) as [->|Hne].
    - rewrite aget_aset_eq. split; [auto | discriminate].
    - rewrite aget_aset_neq by assumption. split; [auto | intros [->|H]; [contradiction | assumption]].
  Qed.

  Lemma in_keys_adel m k x : In x (akeys (adel m k)) <-> x <> k /\ In x (akeys m).
  Proof.
    rewrite <- !aget_in_keys.
    destruct (str_eqb_spec k x) as [->|Hne].
    - rewrite aget_adel_eq. tauto.
    - rewrite aget_adel_neq by assumption. split; [intros H; split; [congruence | assumption] | tauto].
  Qed.

  Lemma aset_not_in m k v : ~ In k (akeys m) -> aset m k v = m ++ [(k, v)].
  Proof.
    induction m as [|[k0 v0] m IH]; simpl; intros Hn; [reflexivity|].
    destruct (str_eqb_spec k0 k) as [->|Hk]; [exfalso; apply Hn; left; reflexivity|].
    rewrite IH; [reflexivity | tauto].
  Qed.

  Lemma adel_not_in m k : ~ In k (akeys m) -> adel m k = m.
  Proof.
    induction m as [|[k0 v0] m IH]; simpl; intros Hn; [reflexivity|].
    destruct (str_eqb_spec k0 k) as [->|Hk]; [exfalso; apply Hn; left; reflexivity|].
    rewrite IH; [reflexivity | tauto].
  Qed.

  Lemma nodup_keys_aset m k v : NoDup (akeys m) -> NoDup (akeys (aset m k v)).
  Proof.
    induction m as [|[k0 v0] m IH]; simpl; intros Hnd.
    - constructor; [intros [] | constructor].
    - inversion Hnd as [|? ? Hni Hnd']; subst.
      destruct (str_eqb_spec k0 k) as [->|Hk]; simpl.
      + constructor; assumption.
      + constructor; [|apply IH; assumption].
        intros Hin. apply in_keys_aset in Hin. destruct Hin as [->|Hin]; [congruence | contradiction].
  Qed.

  Lemma nodup_keys_adel m k : NoDup (akeys m) -> NoDup (akeys (adel m k)).
  Proof.
    induction m as [|[k0 v0] m IH]; simpl; intros Hnd; [constructor|].
    inversion Hnd as [|? ? Hni Hnd']; subst.
    destruct (str_eqb k0 k); [apply IH; assumption|]. simpl.
    constructor; [|apply IH; assumption].
    intros Hin. apply in_keys_adel in Hin. tauto.
  Qed.

  (* the values as a multiset *)
  Lemma adel_in_perm m k v :
    NoDup (akeys m) -> aget m k = Some v -> Permutation m ((k, v) :: adel m k).
  Proof.
    induction m as [|[k0 v0] m IH]; simpl; intros Hnd Hg; [discriminate|].
    inversion Hnd as [|? ? Hni Hnd']; subst.
    destruct (str_eqb_spec k0 k) as [->|Hk].
    - injection Hg as ->. rewrite adel_not_in by assumption. apply Permutation_refl.
    - eapply perm_trans; [apply perm_skip; apply IH; assumption|]. apply perm_swap.
  Qed.

  Lemma aset_in_perm m k v v' :
    NoDup (akeys m) -> aget m k = Some v' ->
    Permutation ((k, v') :: aset m k v) ((k, v) :: m).
  Proof.
    induction m as [|[k0 v0] m IH]; simpl; intros Hnd Hg; [discriminate|].
    inversion Hnd as [|? ? Hni Hnd']; subst.
    destruct (str_eqb_spec k0 k) as [->|Hk].
    - injection Hg as ->. apply perm_swap.
    - eapply perm_trans; [apply perm_swap|].
      eapply perm_trans; [apply perm_skip; apply IH; assumption|]. apply perm_swap.
  Qed.
End AssocFacts.

(* ---------------------------------------------------------------- the provider refines a map *)
Section ProviderFacts.
  Variable C : Type.
  Implicit Types (p : provider C) (f g : str).

  Lemma put_get p f c g :
    aget (pv_files (pv_put p f c)) g = if str_eqb f g then Some c else aget (pv_files p) g.
  Proof.
    simpl. destruct (str_eqb_spec f g) as [->|Hne];
      [apply aget_aset_eq | apply aget_aset_neq; assumption].
  Qed.

  Lemma delete_get p f g :
    aget (pv_files (pv_delete p f)) g = if str_eqb f g then None else aget (pv_files p) g.
  Proof.
    simpl. destruct (str_eqb_spec f g) as [->|Hne];
      [apply aget_adel_eq | apply aget_adel_neq; assumption].
  Qed.

  (* Rename either reports an error and leaves the provider alone, or moves exactly one binding
     to a key that was free in the map and is not occupied on disk *)
  Lemma rename_ok_spec p from to p' :
    pv_rename p from to = RenOk p' ->
    exists c, aget (pv_files p) from = Some c
      /\ ~ In to (akeys (pv_files p))
      /\ disk_occupied p to = false
      /\ p' = pv_delete (pv_put p to c) from.
  Proof.
    unfold pv_rename. destruct (aget (pv_files p) from) as [c|] eqn:Hg; [|discriminate].
    destruct (amem (pv_files p) to) eqn:Hm; [discriminate|].
    destruct (disk_occupied p to) eqn:Hd; [discriminate|]. simpl.
    intros [= <-]. exists c. repeat split; try reflexivity.
    apply amem_false. assumption.
  Qed.

  Lemma rename_get p from to p' g :
    pv_rename p from to = RenOk p' -> from <> to ->
    aget (pv_files p') g =
      if str_eqb from g then None
      else if str_eqb to g then aget (pv_files p) from
      else aget (pv_files p) g.
  Proof.
    intros H Hne. apply rename_ok_spec in H. destruct H as [c [Hc [_ [_ ->]]]].
    rewrite delete_get, put_get, Hc. reflexivity.
  Qed.
End ProviderFacts.
