(* Proofs about Model/AggCache.v (C09): the cache refines  file |-> multiset of aggregate entries,
   and reporting from it equals reporting from a fresh collect -- up to the empty marker. *)
From Regal Require Import Base.Str Model.Directive Model.AggPipeline Model.AggCache
                          Proofs.Directive Proofs.AggPipeline.
From Coq Require Import Lia Permutation.

Lemma forallb_filter_id {A} (f : A -> bool) l : forallb f l = true -> filter f l = l.
Proof.
  induction l as [|x l IH]; cbn; [reflexivity|]. intros H. apply andb_true_iff in H as [Hx Hl].
  rewrite Hx. f_equal. exact (IH Hl).
Qed.

Lemma filter_none {A} (f : A -> bool) l : (forall x, In x l -> f x = false) -> filter f l = [].
Proof.
  induction l as [|x l IH]; cbn; intros H; [reflexivity|].
  rewrite (H x (or_introl eq_refl)). apply IH. intros y Hy. apply H. right; exact Hy.
Qed.

Lemma existsb_map {A B} (g : A -> B) (p : B -> bool) l : existsb p (map g l) = existsb (fun a => p (g a)) l.
Proof. induction l as [|x l IH]; cbn; [reflexivity|]. rewrite IH. reflexivity. Qed.

(* ---------- the association list ---------- *)
Section CacheLaws.
  Variable Agg : Type.
  Implicit Types c : cache Agg.

  Lemma c_get_set_same c f v : c_get (c_set c f v) f = Some v.
  Proof.
    induction c as [|[k w] c IH]; cbn.
    - rewrite str_eqb_refl. reflexivity.
    - destruct (str_eqb k f) eqn:E; cbn; [rewrite str_eqb_refl; reflexivity | rewrite E; exact IH].
  Qed.

  Lemma c_get_set_other c f g v : f <> g -> c_get (c_set c f v) g = c_get c g.
  Proof.
    intros Hne. induction c as [|[k w] c IH]; cbn.
    - destruct (str_eqb_spec f g); [contradiction | reflexivity].
    - destruct (str_eqb_spec k f) as [->|Hkf]; cbn.
      + destruct (str_eqb_spec f g); [contradiction | reflexivity].
      + destruct (str_eqb_spec k g); [reflexivity | exact IH].
  Qed.

  Lemma c_set_keys c f v :
    map fst (c_set c f v) = if str_in f (map fst c) then map fst c else map fst c ++ [f].
  Proof.
    induction c as [|[k w] c IH]; cbn; [reflexivity|].
    destruct (str_eqb_spec k f) as [->|Hkf]; cbn.
    - rewrite str_eqb_refl. reflexivity.
    - destruct (str_eqb_spec f k) as [->|_]; [contradiction|]. cbn. rewrite IH.
      destruct (str_in f (map fst c)); reflexivity.
  Qed.

  Lemma c_set_nodup c f v : NoDup (map fst c) -> NoDup (map fst (c_set c f v)).
  Proof.
    intros H. rewrite c_set_keys. destruct (str_in f (map fst c)) eqn:E; [exact H|].
    apply NoDup_snoc; [exact H|]. intros Hin. apply str_in_spec in Hin. congruence.
  Qed.

  Lemma c_get_delete_same c f : c_get (c_delete c f) f = None.
  Proof.
    induction c as [|[k w] c IH]; cbn; [reflexivity|].
    destruct (str_eqb_spec k f) as [->|Hkf]; cbn; [exact IH|].
    destruct (str_eqb_spec k f); [contradiction | exact IH].
  Qed.

  Lemma c_get_delete_other c f g : f <> g -> c_get (c_delete c f) g = c_get c g.
  Proof.
    intros Hne. induction c as [|[k w] c IH]; cbn; [reflexivity|].
    destruct (str_eqb_spec k f) as [->|Hkf]; cbn.
    - destruct (str_eqb_spec f g); [contradiction | exact IH].
    - destruct (str_eqb_spec k g); [reflexivity | exact IH].
  Qed.

  Lemma c_delete_nodup c f : NoDup (map fst c) -> NoDup (map fst (c_delete c f)).
  Proof. intros H. unfold c_delete. apply NoDup_map_filter. exact H. Qed.

  Lemma c_get_none_notin c f : c_get c f = None <-> ~ In f (map fst c).
  Proof.
    induction c as [|[k w] c IH]; cbn; [tauto|].
    destruct (str_eqb_spec k f) as [->|Hkf].
    - split; [discriminate | intros H; exfalso; apply H; left; reflexivity].
    - rewrite IH. split; [intros H [H1|H1]; [contradiction | exact (H H1)] | intros H H1; apply H; right; exact H1].
  Qed.

  Lemma c_lookup_set_same c f v : c_lookup (c_set c f v) f = v.
  Proof. unfold c_lookup. rewrite c_get_set_same. reflexivity. Qed.

  Lemma c_lookup_set_other c f g v : f <> g -> c_lookup (c_set c f v) g = c_lookup c g.
  Proof. intros H. unfold c_lookup. rewrite c_get_set_other by exact H. reflexivity. Qed.

  Lemma c_lookup_delete_same c f : c_lookup (c_delete c f) f = [].
  Proof. unfold c_lookup. rewrite c_get_delete_same. reflexivity. Qed.

  Lemma c_lookup_delete_other c f g : f <> g -> c_lookup (c_delete c f) g = c_lookup c g.
  Proof. intros H. unfold c_lookup. rewrite c_get_delete_other by exact H. reflexivity. Qed.

  (* rename moves the entries to the new key (they keep naming their old source file until re-collected) *)
  Lemma rename_lookup c old new :
    old <> new -> In old (map fst c) ->
    c_lookup (rename Agg old new c) new = c_lookup c old /\ c_lookup (rename Agg old new c) old = [] /\
    forall g, g <> old -> g <> new -> c_lookup (rename Agg old new c) g = c_lookup c g.
  Proof.
    intros Hne Hin. unfold rename.
    destruct (c_get c old) as [v|] eqn:E; [|apply c_get_none_notin in E; contradiction].
    repeat split.
    - rewrite c_lookup_delete_other by exact Hne. rewrite c_lookup_set_same. unfold c_lookup. rewrite E. reflexivity.
    - apply c_lookup_delete_same.
    - intros g Hg1 Hg2. rewrite c_lookup_delete_other by congruence. apply c_lookup_set_other. congruence.
  Qed.

  (* all entries = the entries under one key + the rest *)
  Lemma entries_split c f :
    NoDup (map fst c) -> Permutation (cache_entries c) (c_lookup c f ++ cache_entries (c_delete c f)).
  Proof.
    induction c as [|[k w] c IH]; intros Hnd; [constructor|].
    cbn [map fst] in Hnd. inversion Hnd as [|? ? Hk Hnd']; subst.
    unfold cache_entries, c_lookup in *. cbn [flat_map snd c_get c_delete filter fst].
    destruct (str_eqb_spec k f) as [->|Hkf]; cbn [negb].
    - assert (Hdel : c_delete c f = c).
      { unfold c_delete. clear IH Hnd Hnd'. induction c as [|[k' w'] c IHc]; [reflexivity|]. cbn.
        destruct (str_eqb_spec k' f) as [->|_]; [exfalso; apply Hk; left; reflexivity|].
        cbn. f_equal. apply IHc. intros H; apply Hk; right; exact H. }
      fold (c_delete c f). rewrite Hdel. apply Permutation_refl.
    - cbn [flat_map snd]. fold (c_delete c f).
      eapply Permutation_trans; [apply Permutation_app_head, (IH Hnd')|].
      rewrite !app_assoc. apply Permutation_app_tail. apply Permutation_app_comm.
  Qed.
End CacheLaws.

Arguments c_get_set_same {Agg}. Arguments c_get_set_other {Agg}. Arguments c_set_nodup {Agg}.
Arguments c_lookup_set_same {Agg}. Arguments c_lookup_set_other {Agg}.
Arguments c_lookup_delete_same {Agg}. Arguments c_lookup_delete_other {Agg}. Arguments c_delete_nodup {Agg}.
Arguments entries_split {Agg}. Arguments c_get_none_notin {Agg}.

(* ---------- refinement ---------- *)
Section CacheRefinement.
  Variable File : Type.
  Variable Agg : Type.
  Variable fname : File -> str.
  Variable brules : list str.
  Variable ckeys : list str.
  Variable B_aggregate : str -> File -> list Agg.
  Variable C_aggregate : str -> File -> option (list Agg).
  Variable src : Agg -> str.
  Variable ikey : Agg -> str.

  Notation file_aggs := (file_aggs File Agg brules ckeys B_aggregate C_aggregate).
  Notation entries_of := (entries_of File Agg brules ckeys B_aggregate C_aggregate).
  Notation entries_named := (entries_named File Agg fname brules ckeys B_aggregate C_aggregate).
  Notation represents := (represents File Agg fname brules ckeys B_aggregate C_aggregate).
  Notation replace_file := (replace_file File fname).
  Notation remove_file := (remove_file File fname).

  (* entries are built with result.aggregate: they name the file they were collected from ... *)
  Definition well_sourced (fs : list File) : Prop :=
    forall f a, In f fs -> In a (entries_of f) -> src a = fname f.
  (* ... and the rule that produced them *)
  Definition well_keyed (fs : list File) : Prop :=
    forall f k es a, In f fs -> In (k, es) (file_aggs f) -> In a es -> ikey a = k.

  Lemma entries_named_cons f fs name :
    entries_named (f :: fs) name =
    (if str_eqb (fname f) name then entries_of f else []) ++ entries_named fs name.
  Proof. unfold AggCache.entries_named. cbn [filter]. destruct (str_eqb (fname f) name); reflexivity. Qed.

  Lemma filter_neg_named name n fs :
    name <> n ->
    filter (fun f => str_eqb (fname f) name) (filter (fun g => negb (str_eqb (fname g) n)) fs) =
    filter (fun f => str_eqb (fname f) name) fs.
  Proof.
    intros Hne. induction fs as [|f fs IH]; [reflexivity|]. cbn.
    destruct (str_eqb_spec (fname f) n) as [E|E]; cbn.
    - destruct (str_eqb_spec (fname f) name) as [E'|_]; [congruence | exact IH].
    - destruct (str_eqb (fname f) name); [f_equal|]; exact IH.
  Qed.

  Lemma filter_neg_same n fs :
    filter (fun f => str_eqb (fname f) n) (filter (fun g => negb (str_eqb (fname g) n)) fs) = [].
  Proof.
    induction fs as [|f fs IH]; [reflexivity|]. cbn.
    destruct (str_eqb (fname f) n) eqn:E; cbn; [exact IH|]. rewrite E. exact IH.
  Qed.

  Lemma entries_named_remove_other name n fs :
    name <> n -> entries_named (remove_file n fs) name = entries_named fs name.
  Proof. intros H. unfold AggCache.entries_named, AggCache.remove_file. rewrite filter_neg_named by exact H. reflexivity. Qed.

  Lemma entries_named_remove_same n fs : entries_named (remove_file n fs) n = [].
  Proof. unfold AggCache.entries_named, AggCache.remove_file. rewrite filter_neg_same. reflexivity. Qed.

  (* SetFileAggregates with the export of a collect run over f' *)
  Lemma set_file_represents c fs f' :
    represents c fs -> well_sourced [f'] ->
    represents (set_file_aggregates Agg src (fname f') (file_aggs f') c) (replace_file f' fs).
  Proof.
    intros [Hnd Hrep] Hsrc. unfold set_file_aggregates. split; [apply c_set_nodup; exact Hnd|].
    intros name. unfold AggCache.replace_file. rewrite entries_named_cons.
    destruct (str_eqb_spec (fname f') name) as [<-|Hne].
    - rewrite c_lookup_set_same. fold (remove_file (fname f') fs). rewrite entries_named_remove_same, app_nil_r.
      assert (Hall : filter (fun a => str_eqb (src a) (fname f')) (flatten (file_aggs f')) = flatten (file_aggs f')).
      { apply forallb_filter_id. apply forallb_forall. intros a Ha. apply str_eqb_eq.
        apply (Hsrc f' a); [left; reflexivity | exact Ha]. }
      rewrite Hall. apply Permutation_refl.
    - rewrite c_lookup_set_other by exact Hne. cbn [app].
      fold (remove_file (fname f') fs). rewrite entries_named_remove_other by congruence. apply Hrep.
  Qed.

  (* Delete *)
  Lemma delete_represents c fs name :
    represents c fs -> represents (delete Agg name c) (remove_file name fs).
  Proof.
    intros [Hnd Hrep]. unfold delete. split; [apply c_delete_nodup; exact Hnd|].
    intros g. destruct (str_eqb_spec name g) as [<-|Hne].
    - rewrite c_lookup_delete_same, entries_named_remove_same. constructor.
    - rewrite c_lookup_delete_other by exact Hne. rewrite entries_named_remove_other by congruence. apply Hrep.
  Qed.

  (* SetAggregates: after Clear, every entry is appended under its source *)
  Lemma c_append_lookup (c : cache Agg) f a g :
    c_lookup (c_append Agg c f a) g = c_lookup c g ++ (if str_eqb f g then [a] else []).
  Proof.
    unfold c_append. destruct (str_eqb_spec f g) as [<-|Hne].
    - destruct (c_get c f) as [v|] eqn:E; rewrite c_lookup_set_same; unfold c_lookup; rewrite E; reflexivity.
    - destruct (c_get c f) as [v|] eqn:E; rewrite c_lookup_set_other by exact Hne; rewrite app_nil_r; reflexivity.
  Qed.

  Lemma c_append_nodup (c : cache Agg) f a : NoDup (map fst c) -> NoDup (map fst (c_append Agg c f a)).
  Proof. intros H. unfold c_append. destruct (c_get c f); apply c_set_nodup; exact H. Qed.

  Lemma fold_append_lookup (l : list Agg) : forall (c : cache Agg) g,
    c_lookup (fold_left (fun c a => c_append Agg c (src a) a) l c) g =
    c_lookup c g ++ filter (fun a => str_eqb (src a) g) l.
  Proof.
    induction l as [|a l IH]; intros c g; cbn [fold_left filter]; [rewrite app_nil_r; reflexivity|].
    rewrite IH, c_append_lookup, <- app_assoc. f_equal. destruct (str_eqb (src a) g); reflexivity.
  Qed.

  Lemma fold_append_nodup (l : list Agg) : forall c : cache Agg,
    NoDup (map fst c) -> NoDup (map fst (fold_left (fun c a => c_append Agg c (src a) a) l c)).
  Proof.
    induction l as [|a l IH]; intros c H; [exact H|]. cbn [fold_left]. apply IH, c_append_nodup, H.
  Qed.

  Lemma filter_src_entries fs name :
    well_sourced fs ->
    filter (fun a => str_eqb (src a) name) (flat_map entries_of fs) = entries_named fs name.
  Proof.
    induction fs as [|f fs IH]; intros Hs; [reflexivity|].
    cbn [flat_map]. rewrite filter_app, entries_named_cons. f_equal.
    - destruct (str_eqb_spec (fname f) name) as [E|E].
      + apply forallb_filter_id. apply forallb_forall. intros a Ha. apply str_eqb_eq.
        rewrite (Hs f a); [exact E | left; reflexivity | exact Ha].
      + apply filter_none. intros a Ha. apply not_true_is_false. intros Ht. apply str_eqb_eq in Ht.
        apply E. rewrite <- (Hs f a); [exact Ht | left; reflexivity | exact Ha].
    - apply IH. intros f0 a H0 Ha. apply Hs; [right; exact H0 | exact Ha].
  Qed.

  Lemma set_aggregates_represents fs :
    well_sourced fs -> represents (set_aggregates Agg src (flat_map file_aggs fs)) fs.
  Proof.
    intros Hs. unfold set_aggregates. split; [apply fold_append_nodup; constructor|].
    intros name. rewrite fold_append_lookup. cbn [c_lookup c_get app].
    assert (Hf : flatten (flat_map file_aggs fs) = flat_map entries_of fs).
    { unfold flatten, AggCache.entries_of, flatten. induction fs as [|f fs IH]; [reflexivity|].
      cbn [flat_map]. rewrite flat_map_app. f_equal. apply IH.
      intros f0 a H0 Ha. apply Hs; [right; exact H0 | exact Ha]. }
    rewrite Hf, (filter_src_entries fs name Hs). apply Permutation_refl.
  Qed.

  (* the cache holds exactly the entries of the files, as a multiset *)
  Lemma represents_entries : forall (c : cache Agg) fs,
    represents c fs -> Permutation (cache_entries c) (flat_map entries_of fs).
  Proof.
    induction c as [|[n v] c IH]; intros fs [Hnd Hrep].
    - cbn. assert (Hall : forall f, In f fs -> entries_of f = []).
      { intros f Hf. specialize (Hrep (fname f)). cbn in Hrep. apply Permutation_nil in Hrep.
        unfold AggCache.entries_named in Hrep.
        assert (Hin : In f (filter (fun g => str_eqb (fname g) (fname f)) fs))
          by (apply filter_In; split; [exact Hf | apply str_eqb_refl]).
        destruct (entries_of f) as [|a l] eqn:E; [reflexivity|]. exfalso.
        assert (Ha : In a (flat_map entries_of (filter (fun g => str_eqb (fname g) (fname f)) fs))).
        { apply in_flat_map. exists f. split; [exact Hin | rewrite E; left; reflexivity]. }
        rewrite Hrep in Ha. destruct Ha. }
      assert (Hnil : flat_map entries_of fs = []).
      { clear Hrep. induction fs as [|f fs IHf]; [reflexivity|]. cbn.
        rewrite (Hall f (or_introl eq_refl)). cbn. apply IHf. intros g Hg. apply Hall. right; exact Hg. }
      rewrite Hnil. constructor.
    - cbn [map fst] in Hnd. inversion Hnd as [|? ? Hn Hnd']; subst.
      assert (Hrest : represents c (remove_file n fs)).
      { split; [exact Hnd'|]. intros g. destruct (str_eqb_spec n g) as [<-|Hne].
        - rewrite entries_named_remove_same. unfold c_lookup.
          rewrite (proj2 (c_get_none_notin c n) Hn). constructor.
        - rewrite entries_named_remove_other by congruence.
          specialize (Hrep g). unfold c_lookup in *. cbn [c_get] in Hrep.
          destruct (str_eqb_spec n g); [contradiction | exact Hrep]. }
      specialize (IH _ Hrest).
      assert (Hv : Permutation v (entries_named fs n)).
      { specialize (Hrep n). unfold c_lookup in Hrep. cbn [c_get] in Hrep. rewrite str_eqb_refl in Hrep. exact Hrep. }
      unfold cache_entries in *. cbn [flat_map snd].
      eapply Permutation_trans; [apply Permutation_app; [exact Hv | exact IH]|].
      unfold AggCache.entries_named, AggCache.remove_file. rewrite <- flat_map_app.
      apply Permutation_flat_map. apply Permutation_sym.
      eapply Permutation_trans; [apply (filter_partition (fun f => str_eqb (fname f) n))|].
      apply Permutation_app_comm.
  Qed.

  (* GetFileAggregates regroups by IndexKey *)
  Lemma get_file_aggregates_flat (c : cache Agg) :
    get_file_aggregates Agg ikey c = map (fun a => (ikey a, [a])) (cache_entries c).
  Proof.
    unfold get_file_aggregates, cache_entries. induction c as [|[n v] c IH]; [reflexivity|].
    cbn [flat_map snd]. rewrite map_app. f_equal. exact IH.
  Qed.

  Lemma am_get_regrouped k (l : list Agg) :
    am_get k (map (fun a => (ikey a, [a])) l) = filter (fun a => str_eqb (ikey a) k) l.
  Proof.
    unfold am_get. induction l as [|a l IH]; [reflexivity|]. cbn [map flat_map filter fst snd].
    destruct (str_eqb (ikey a) k); cbn; [f_equal|]; exact IH.
  Qed.

  Lemma am_mem_regrouped k (l : list Agg) :
    am_mem k (map (fun a => (ikey a, [a])) l) = existsb (fun a => str_eqb (ikey a) k) l.
  Proof. unfold am_mem. rewrite existsb_map. reflexivity. Qed.

  Lemma am_get_keyed k fs :
    well_keyed fs ->
    am_get k (flat_map file_aggs fs) = filter (fun a => str_eqb (ikey a) k) (flat_map entries_of fs).
  Proof.
    intros Hk. unfold am_get. induction fs as [|f fs IH]; [reflexivity|].
    cbn [flat_map]. rewrite flat_map_app, filter_app. f_equal.
    - unfold AggCache.entries_of, flatten.
      assert (Hf : forall k' es a, In (k', es) (file_aggs f) -> In a es -> ikey a = k')
        by (intros k' es a H1 H2; apply (Hk f k' es a); [left; reflexivity | exact H1 | exact H2]).
      clear IH Hk. induction (file_aggs f) as [|[k' es] m IHm]; [reflexivity|].
      cbn [flat_map fst snd]. rewrite filter_app. f_equal.
      + destruct (str_eqb_spec k' k) as [->|Hne].
        * symmetry. apply forallb_filter_id. apply forallb_forall. intros a Ha. apply str_eqb_eq.
          apply (Hf k es a); [left; reflexivity | exact Ha].
        * symmetry. apply filter_none. intros a Ha. apply not_true_is_false. intros Ht. apply str_eqb_eq in Ht.
          apply Hne. rewrite <- Ht. symmetry. apply (Hf k' es a); [left; reflexivity | exact Ha].
      + apply IHm. intros k0 es0 a H1 H2. apply (Hf k0 es0 a); [right; exact H1 | exact H2].
    - apply IH. intros f0 k0 es a H0. apply Hk. right; exact H0.
  Qed.

  (* what GetFileAggregates hands to the report phase agrees, key by key and as multisets, with a fresh collect *)
  Lemma cache_get_equiv (c : cache Agg) fs k :
    represents c fs -> well_keyed fs ->
    Permutation (am_get k (get_file_aggregates Agg ikey c)) (am_get k (flat_map file_aggs fs)).
  Proof.
    intros Hrep Hk. rewrite get_file_aggregates_flat, am_get_regrouped, (am_get_keyed k fs Hk).
    apply Permutation_filter'. apply represents_entries. exact Hrep.
  Qed.

  (* a key is present in the regrouped map iff it has an entry: the marker of a rule that aggregated nothing is gone *)
  Lemma cache_mem_iff_entries (c : cache Agg) k :
    am_mem k (get_file_aggregates Agg ikey c) = true <-> am_get k (get_file_aggregates Agg ikey c) <> [].
  Proof.
    rewrite get_file_aggregates_flat, am_mem_regrouped, am_get_regrouped.
    induction (cache_entries c) as [|a l IH]; cbn; [split; [discriminate | congruence]|].
    destruct (str_eqb (ikey a) k); cbn; [split; [discriminate | reflexivity] | exact IH].
  Qed.
End CacheRefinement.

(* ---------- reporting from the cache ---------- *)
Section CacheReport.
  Variable File : Type.
  Variable Agg : Type.
  Variable fname : File -> str.
  Variable brules : list str.
  Variable ckeys : list str.
  Variable B_aggregate : str -> File -> list Agg.
  Variable C_aggregate : str -> File -> option (list Agg).
  Variable B_report : str -> list Agg -> list violation.
  Variable C_report : str -> list Agg -> list violation.
  Variable src : Agg -> str.
  Variable ikey : Agg -> str.

  Hypothesis H_bperm : forall r a b, Permutation a b -> Permutation (B_report r a) (B_report r b).
  Hypothesis H_cperm : forall k a b, Permutation a b -> Permutation (C_report k a) (C_report k b).

  Notation file_aggs := (file_aggs File Agg brules ckeys B_aggregate C_aggregate).
  Notation collect := (collect File Agg brules ckeys B_aggregate C_aggregate).
  Notation represents := (represents File Agg fname brules ckeys B_aggregate C_aggregate).
  Notation well_sourced := (well_sourced File Agg fname brules ckeys B_aggregate C_aggregate src).
  Notation well_keyed := (well_keyed File Agg brules ckeys B_aggregate C_aggregate ikey).
  Notation report_from := (fun m g => lint_aggregate_violations Agg brules ckeys B_report C_report [] 0 (Some m) g).

  (* no custom rule of the workspace is represented by its empty marker alone *)
  Definition no_bare_marker (fs : list File) : Prop :=
    forall k, In k ckeys -> am_mem k (flat_map file_aggs fs) = true -> am_get k (flat_map file_aggs fs) <> [].

  Lemma am_get_nonempty_mem k (m : aggmap Agg) : am_get k m <> [] -> am_mem k m = true.
  Proof.
    unfold am_get, am_mem. induction m as [|[k' es] m IH]; cbn; [congruence|].
    destruct (str_eqb k' k); cbn; [reflexivity|]. exact IH.
  Qed.

  Lemma perm_nonempty {A} (a b : list A) : Permutation a b -> a <> [] -> b <> [].
  Proof. intros Hp Ha Hb. subst b. apply Permutation_sym in Hp. apply Permutation_nil in Hp. contradiction. Qed.

  (* Whatever sequence of SetAggregates / SetFileAggregates / Delete led to a cache that represents the current
     files: the aggregate report computed from GetFileAggregates() equals, as a multiset, the one computed from a
     fresh collect over the current files -- provided no custom rule is present by its marker alone. *)
  Theorem report_from_cache_eq_fresh (c : cache Agg) (fs : list File) (g : gomap) :
    represents c fs -> well_keyed fs -> no_bare_marker fs ->
    Permutation (report_from (get_file_aggregates Agg ikey c) g) (report_from (collect true fs) g).
  Proof.
    intros Hrep Hk Hnm.
    rewrite (collect_true File Agg brules ckeys B_aggregate C_aggregate).
    apply (report_from_equivalent File Agg brules ckeys B_aggregate C_aggregate B_report C_report H_bperm H_cperm).
    - intros k. apply (cache_get_equiv File Agg fname brules ckeys B_aggregate C_aggregate ikey); assumption.
    - intros k Hkin.
      pose proof (cache_get_equiv File Agg fname brules ckeys B_aggregate C_aggregate ikey c fs k Hrep Hk) as Hp.
      apply bool_iff. rewrite (cache_mem_iff_entries Agg ikey c k). split.
      + intros Hne. apply am_get_nonempty_mem. exact (perm_nonempty _ _ Hp Hne).
      + intros Hm. apply (perm_nonempty _ _ (Permutation_sym Hp)). exact (Hnm k Hkin Hm).
  Qed.

  (* the single step the language server performs on an edit: re-collect the edited file, SetFileAggregates,
     report from the cache = a fresh collect over the updated file set *)
  Theorem incremental_eq_fresh_thm (c : cache Agg) (fs : list File) (f' : File) (g : gomap) :
    represents c fs -> well_sourced [f'] ->
    well_keyed (replace_file File fname f' fs) -> no_bare_marker (replace_file File fname f' fs) ->
    Permutation
      (report_from (get_file_aggregates Agg ikey (set_file_aggregates Agg src (fname f') (collect true [f']) c)) g)
      (report_from (collect true (replace_file File fname f' fs)) g).
  Proof.
    intros Hrep Hs Hk Hnm. apply report_from_cache_eq_fresh; [|exact Hk | exact Hnm].
    rewrite (collect_true File Agg brules ckeys B_aggregate C_aggregate). cbn [flat_map]. rewrite app_nil_r.
    apply (set_file_represents File Agg fname brules ckeys B_aggregate C_aggregate src); assumption.
  Qed.
End CacheReport.

(* the empty marker does not survive the cache: a custom rule that aggregated nothing is reported by a fresh
   run and not from the cached aggregates *)
Definition ex_mcagg (_ : str) (_ : N) : option (list N) := Some [].
Definition ex_mcrep (_ : str) (aggs : list N) : list violation :=
  match aggs with [] => [{| v_cat := [99]; v_title := [109]; v_file := []; v_row := None; v_col := 0 |}] | _ => [] end.

Lemma cache_marker_refuted_lemma :
  let fs := [97; 98] in
  let fresh := collect N N [] [[107]] ex_nbagg ex_mcagg true fs in
  let c := set_aggregates N (fun _ => []) (collect N N [] [[107]] ex_nbagg ex_mcagg false fs) in
  represents N N ex_fname [] [[107]] ex_nbagg ex_mcagg c fs /\
  lint_aggregate_violations N [] [[107]] ex_nbrep ex_mcrep [] 0 (Some fresh) [] <> [] /\
  lint_aggregate_violations N [] [[107]] ex_nbrep ex_mcrep [] 0 (Some (get_file_aggregates N (fun _ => []) c)) [] = [].
Proof.
  cbn zeta. split; [|split; [vm_compute; discriminate | vm_compute; reflexivity]].
  split; [vm_compute; constructor|]. intros name.
  unfold entries_named, entries_of, c_lookup. cbn [filter].
  destruct (str_eqb (ex_fname 97) name), (str_eqb (ex_fname 98) name); vm_compute; apply perm_nil.
Qed.

(* ---------- the directive cache ---------- *)
Section DirCache.
  Variable File : Type.
  Variable fname : File -> str.
  Variable fcomments : File -> list comment.

  Notation results_of := (results_of File fname fcomments).
  Notation replace_file := (replace_file File fname).
  Notation remove_file := (remove_file File fname).

  Notation dirs_represent := (dirs_represent File fname fcomments).
  Notation file_dirs := (file_dirs File fcomments).

  Lemma results_names fs : map fst (results_of fs) = map fname fs.
  Proof. unfold AggPipeline.results_of. rewrite map_map. reflexivity. Qed.

  Lemma carry_results_get fs name :
    NoDup (map fname fs) ->
    gm_get (carry (results_of fs)) name =
    match find (fun f => str_eqb (fname f) name) fs with
    | Some f => Some (file_dirs f)
    | None => None
    end.
  Proof.
    intros Hnd. destruct (find (fun f => str_eqb (fname f) name) fs) as [f|] eqn:E.
    - apply find_some in E as [Hin Hn]. apply str_eqb_eq in Hn. subst name.
      unfold carry. apply carry_from_get_in.
      + rewrite results_names. exact Hnd.
      + unfold AggPipeline.results_of. apply in_map_iff. exists f. auto.
    - unfold carry. rewrite carry_from_get_notin; [reflexivity|].
      rewrite results_names. intros Hin. apply in_map_iff in Hin as (f & Hf & Hin).
      pose proof (find_none _ _ E f Hin) as Hn. cbn in Hn. rewrite Hf, str_eqb_refl in Hn. discriminate.
  Qed.

  Lemma find_filter_other name n fs :
    name <> n ->
    find (fun f => str_eqb (fname f) name) (filter (fun g => negb (str_eqb (fname g) n)) fs) =
    find (fun f => str_eqb (fname f) name) fs.
  Proof.
    intros Hne. induction fs as [|f fs IH]; [reflexivity|]. cbn.
    destruct (str_eqb_spec (fname f) n) as [E|E]; cbn.
    - destruct (str_eqb_spec (fname f) name); [congruence | exact IH].
    - destruct (str_eqb (fname f) name); [reflexivity | exact IH].
  Qed.

  Lemma find_filter_same n fs :
    find (fun f => str_eqb (fname f) n) (filter (fun g => negb (str_eqb (fname g) n)) fs) = None.
  Proof.
    induction fs as [|f fs IH]; [reflexivity|]. cbn.
    destruct (str_eqb (fname f) n) eqn:E; cbn; [exact IH|]. rewrite E. exact IH.
  Qed.

  Lemma nodup_remove n fs : NoDup (map fname fs) -> NoDup (map fname (remove_file n fs)).
  Proof. intros H. unfold AggCache.remove_file. apply NoDup_map_filter. exact H. Qed.

  Lemma nodup_replace f' fs : NoDup (map fname fs) -> NoDup (map fname (replace_file f' fs)).
  Proof.
    intros H. unfold AggCache.replace_file. cbn [map]. constructor; [|apply NoDup_map_filter; exact H].
    intros Hin. apply in_map_iff in Hin as (g & Hg & Hin). apply filter_In in Hin as [_ Hneg].
    rewrite Hg, str_eqb_refl in Hneg. discriminate.
  Qed.

  (* SetFileIgnoreDirectives(file, report.IgnoreDirectives) after re-linting f' *)
  Lemma dir_cache_set g fs f' :
    NoDup (map fname fs) -> dirs_represent g fs ->
    dirs_represent (gm_set g (fname f') (file_dirs f')) (replace_file f' fs).
  Proof.
    intros Hnd Hrep name. rewrite (carry_results_get _ name (nodup_replace f' fs Hnd)).
    unfold AggCache.replace_file. cbn [find].
    destruct (str_eqb_spec (fname f') name) as [<-|Hne].
    - apply gm_get_set_same.
    - rewrite gm_get_set_other by exact Hne. rewrite find_filter_other by congruence.
      rewrite Hrep. apply carry_results_get. exact Hnd.
  Qed.

  Lemma gm_get_delete_same g n : gm_get (gm_delete g n) n = None.
  Proof.
    induction g as [|[k o] g IH]; [reflexivity|]. cbn.
    destruct (str_eqb_spec k n) as [->|Hne]; cbn; [exact IH|].
    destruct (str_eqb_spec k n); [contradiction | exact IH].
  Qed.

  Lemma gm_get_delete_other g n m : n <> m -> gm_get (gm_delete g n) m = gm_get g m.
  Proof.
    intros Hne. induction g as [|[k o] g IH]; [reflexivity|]. cbn.
    destruct (str_eqb_spec k n) as [->|Hk]; cbn.
    - destruct (str_eqb_spec n m); [contradiction | exact IH].
    - destruct (str_eqb_spec k m); [reflexivity | exact IH].
  Qed.

  (* Delete *)
  Lemma dir_cache_delete g fs n :
    NoDup (map fname fs) -> dirs_represent g fs -> dirs_represent (gm_delete g n) (remove_file n fs).
  Proof.
    intros Hnd Hrep name. rewrite (carry_results_get _ name (nodup_remove n fs Hnd)).
    unfold AggCache.remove_file. destruct (str_eqb_spec n name) as [<-|Hne].
    - rewrite gm_get_delete_same, find_filter_same. reflexivity.
    - rewrite gm_get_delete_other by exact Hne. rewrite find_filter_other by congruence.
      rewrite Hrep. apply carry_results_get. exact Hnd.
  Qed.

  (* handing the cached directives to the aggregate-only run = the directives of a run over the current files *)
  Lemma dir_cache_used g fs v :
    dirs_represent g fs -> agg_ignored (carry_overridden [] g) v = agg_ignored (carry (results_of fs)) v.
  Proof.
    intros Hrep. unfold agg_ignored, agg_directives. rewrite carry_overridden_get. cbn [gm_get].
    rewrite (Hrep (v_file v)). reflexivity.
  Qed.

  (* SetIgnoreDirectives(report.IgnoreDirectives) of a run over all files *)
  Lemma dir_cache_init fs : dirs_represent (carry (results_of fs)) fs.
  Proof. intros name. reflexivity. Qed.
End DirCache.

(* ---------- one edit in the language server = a fresh one-shot run ---------- *)
Section LspStep.
  Variable File : Type.
  Variable Agg : Type.
  Variable fname : File -> str.
  Variable fcomments : File -> list comment.
  Variable brules : list str.
  Variable ckeys : list str.
  Variable B_aggregate : str -> File -> list Agg.
  Variable C_aggregate : str -> File -> option (list Agg).
  Variable B_report : str -> list Agg -> list violation.
  Variable C_report : str -> list Agg -> list violation.
  Variable src : Agg -> str.
  Variable ikey : Agg -> str.

  Hypothesis H_bperm : forall r a b, Permutation a b -> Permutation (B_report r a) (B_report r b).
  Hypothesis H_cperm : forall k a b, Permutation a b -> Permutation (C_report k a) (C_report k b).

  Notation collect := (collect File Agg brules ckeys B_aggregate C_aggregate).
  Notation file_aggs := (file_aggs File Agg brules ckeys B_aggregate C_aggregate).

  Theorem lsp_step_eq_one_shot (c : cache Agg) (g : gomap) (fs : list File) (f' : File) :
    let fs' := replace_file File fname f' fs in
    NoDup (map fname fs) ->
    represents File Agg fname brules ckeys B_aggregate C_aggregate c fs ->
    dirs_represent File fname fcomments g fs ->
    well_sourced File Agg fname brules ckeys B_aggregate C_aggregate src [f'] ->
    well_keyed File Agg brules ckeys B_aggregate C_aggregate ikey fs' ->
    no_bare_marker File Agg brules ckeys B_aggregate C_aggregate fs' ->
    (2 <= length fs')%nat ->
    Permutation
      (lint_aggregate_violations Agg brules ckeys B_report C_report [] 0
         (Some (get_file_aggregates Agg ikey (set_file_aggregates Agg src (fname f') (collect true [f']) c)))
         (carry_overridden [] (gm_set g (fname f') (file_dirs File fcomments f'))))
      (one_shot File Agg fname fcomments brules ckeys B_aggregate C_aggregate B_report C_report fs').
  Proof.
    intros fs' Hnd Hrep Hdirs Hs Hk Hnm Hlen.
    eapply Permutation_trans.
    - apply (incremental_eq_fresh_thm File Agg fname brules ckeys B_aggregate C_aggregate B_report C_report src ikey
               H_bperm H_cperm c fs f'); assumption.
    - unfold AggPipeline.one_shot.
      rewrite (lint_agg_provided Agg brules ckeys B_report C_report).
      rewrite (lint_agg_multi Agg brules ckeys B_report C_report _ _ _ Hlen).
      rewrite (collect_true File Agg brules ckeys B_aggregate C_aggregate).
      rewrite (collect_multi File Agg brules ckeys B_aggregate C_aggregate fs' Hlen).
      apply (agg_report_equiv Agg brules ckeys B_report C_report H_bperm H_cperm).
      + intros k. apply Permutation_refl.
      + intros k. reflexivity.
      + intros v. apply (dir_cache_used File fname fcomments).
        apply (dir_cache_set File fname fcomments); assumption.
  Qed.
End LspStep.

(* ---------- histories of single-file replacements: the directive hand-over ---------- *)

(* the second maps.Copy of Lint for one linted file / nothing linted *)
Lemma dirs_update_nil g : dirs_update g [] = g.
Proof. reflexivity. Qed.

Lemma dirs_update_single g n o : dirs_update g [(n, o)] = gm_set g n o.
Proof. reflexivity. Qed.

(* a map with distinct keys written into the empty map is that map (SetIgnoreDirectives after Clear) *)
Lemma dirs_update_carry rs : NoDup (map fst rs) -> dirs_update [] (carry rs) = carry rs.
Proof.
  intros Hnd. unfold carry.
  assert (E : carry_from [] rs = map carried_entry rs)
    by (rewrite (carry_from_fresh rs [] Hnd) by reflexivity; reflexivity).
  rewrite E. unfold dirs_update. rewrite fold_set_carried. exact E.
Qed.

(* the general reading of the update: the last entry of [new] for a file wins, files [new] does not mention keep
   their old entry *)
Lemma gm_get_app a b f :
  gm_get (a ++ b) f = match gm_get a f with Some o => Some o | None => gm_get b f end.
Proof.
  induction a as [|[k o] a IH]; [reflexivity|]. cbn. destruct (str_eqb k f); [reflexivity | exact IH].
Qed.

Lemma dirs_update_get new : forall old f,
  gm_get (dirs_update old new) f =
  match gm_get (rev new) f with Some o => Some o | None => gm_get old f end.
Proof.
  induction new as [|[k o] new IH]; intros old f; [reflexivity|].
  unfold dirs_update in *. cbn [fold_left fst snd rev]. rewrite IH, gm_get_app. cbn [gm_get].
  destruct (gm_get (rev new) f); [reflexivity|].
  destruct (str_eqb_spec k f) as [->|Hne].
  - apply gm_get_set_same.
  - apply gm_get_set_other. exact Hne.
Qed.

Section HistoryProofs.
  Variable File : Type.
  Variable Agg : Type.
  Variable fname : File -> str.
  Variable fcomments : File -> list comment.
  Variable brules : list str.
  Variable ckeys : list str.
  Variable B_aggregate : str -> File -> list Agg.
  Variable C_aggregate : str -> File -> option (list Agg).
  Variable B_report : str -> list Agg -> list violation.
  Variable C_report : str -> list Agg -> list violation.
  Variable src : Agg -> str.
  Variable ikey : Agg -> str.

  Hypothesis H_bperm : forall r a b, Permutation a b -> Permutation (B_report r a) (B_report r b).
  Hypothesis H_cperm : forall k a b, Permutation a b -> Permutation (C_report k a) (C_report k b).

  Notation collect := (collect File Agg brules ckeys B_aggregate C_aggregate).
  Notation file_aggs := (file_aggs File Agg brules ckeys B_aggregate C_aggregate).
  Notation represents := (represents File Agg fname brules ckeys B_aggregate C_aggregate).
  Notation well_sourced := (well_sourced File Agg fname brules ckeys B_aggregate C_aggregate src).
  Notation well_keyed := (well_keyed File Agg brules ckeys B_aggregate C_aggregate ikey).
  Notation no_bare_marker := (no_bare_marker File Agg brules ckeys B_aggregate C_aggregate).
  Notation dirs_represent := (dirs_represent File fname fcomments).
  Notation file_dirs := (file_dirs File fcomments).
  Notation results_of := (results_of File fname fcomments).
  Notation exported_dirs := (exported_dirs File fname fcomments).
  Notation replace_file := (replace_file File fname).
  Notation files_after := (files_after File fname).
  Notation one_shot := (one_shot File Agg fname fcomments brules ckeys B_aggregate C_aggregate B_report C_report).
  Notation lsp_init := (lsp_init File Agg fname fcomments brules ckeys B_aggregate C_aggregate src).
  Notation lsp_replace := (lsp_replace File Agg fname fcomments brules ckeys B_aggregate C_aggregate src).
  Notation lsp_report := (lsp_report File Agg fname fcomments brules ckeys B_report C_report ikey).
  Notation lsp_history := (lsp_history File Agg fname fcomments brules ckeys B_aggregate C_aggregate src).
  Notation api_init := (api_init File fname fcomments).
  Notation api_replace := (api_replace File fname fcomments).
  Notation api_report := (api_report File Agg fname fcomments brules ckeys B_aggregate C_aggregate B_report C_report).
  Notation api_report_mixed :=
    (api_report_mixed File Agg fname fcomments brules ckeys B_aggregate C_aggregate B_report C_report).
  Notation api_history := (api_history File fname fcomments).
  Notation api_aggs := (api_aggs File Agg brules ckeys B_aggregate C_aggregate).

  (* what one run over the single file f' exports *)
  Lemma exported_single f' : exported_dirs [f'] = [(fname f', file_dirs f')].
  Proof. reflexivity. Qed.

  (* both hand-overs of a single re-linted file are the same explicit update: the file's entry is replaced by
     the directives of its new contents, whatever they are (also none) *)
  Lemma lint_dirs_single g f' :
    lint_dirs File fname fcomments g [f'] = gm_set g (fname f') (file_dirs f').
  Proof. reflexivity. Qed.

  Lemma set_file_dirs_single g f' :
    set_file_ignore_directives (fname f') (exported_dirs [f']) g = gm_set g (fname f') (file_dirs f').
  Proof.
    unfold set_file_ignore_directives. rewrite exported_single. cbn [gm_get]. rewrite str_eqb_refl. reflexivity.
  Qed.

  Lemma exported_init fs :
    NoDup (map fname fs) -> set_ignore_directives (exported_dirs fs) = carry (results_of fs).
  Proof.
    intros Hnd. unfold set_ignore_directives, AggPipeline.exported_dirs. apply dirs_update_carry.
    rewrite (results_names File fname fcomments). exact Hnd.
  Qed.

  Lemma files_after_nodup edits : forall fs0,
    NoDup (map fname fs0) -> NoDup (map fname (files_after fs0 edits)).
  Proof.
    induction edits as [|f' edits IH]; intros fs0 H; [exact H|].
    unfold AggCache.files_after in *. cbn [fold_left]. apply IH.
    apply (nodup_replace File fname). exact H.
  Qed.

  (* a map that answers like the directives of one run over the files makes the aggregate report ignore
     exactly what that run ignores *)
  Lemma dirs_represent_ignored g fs v :
    dirs_represent g fs -> agg_ignored g v = agg_ignored (carry (results_of fs)) v.
  Proof. intros Hrep. unfold agg_ignored, agg_directives. rewrite (Hrep (v_file v)). reflexivity. Qed.

  (* ---- the language server ---- *)

  Definition lsp_invariant (st : lsp_state Agg) (fs : list File) : Prop :=
    NoDup (map fname fs) /\ represents (fst st) fs /\ dirs_represent (snd st) fs.

  Lemma lsp_init_invariant fs :
    NoDup (map fname fs) -> (2 <= length fs)%nat -> well_sourced fs -> lsp_invariant (lsp_init fs) fs.
  Proof.
    intros Hnd Hlen Hs. unfold AggCache.lsp_init. split; [exact Hnd|]. cbn [fst snd]. split.
    - rewrite (collect_multi File Agg brules ckeys B_aggregate C_aggregate fs Hlen).
      apply (set_aggregates_represents File Agg fname brules ckeys B_aggregate C_aggregate src). exact Hs.
    - rewrite (exported_init fs Hnd). apply (dir_cache_init File fname fcomments).
  Qed.

  Lemma lsp_replace_invariant st fs f' :
    lsp_invariant st fs -> well_sourced [f'] -> lsp_invariant (lsp_replace st f') (replace_file f' fs).
  Proof.
    intros (Hnd & Hrep & Hdirs) Hs. unfold AggCache.lsp_replace. cbn [fst snd].
    split; [apply (nodup_replace File fname); exact Hnd|]. split.
    - rewrite (collect_true File Agg brules ckeys B_aggregate C_aggregate). cbn [flat_map]. rewrite app_nil_r.
      apply (set_file_represents File Agg fname brules ckeys B_aggregate C_aggregate src); assumption.
    - rewrite set_file_dirs_single. apply (dir_cache_set File fname fcomments); assumption.
  Qed.

  Lemma lsp_history_invariant edits : forall st fs,
    lsp_invariant st fs -> (forall f', In f' edits -> well_sourced [f']) ->
    lsp_invariant (fold_left lsp_replace edits st) (files_after fs edits).
  Proof.
    induction edits as [|f' edits IH]; intros st fs Hinv Hs; [exact Hinv|].
    unfold AggCache.files_after in *. cbn [fold_left]. apply IH.
    - apply lsp_replace_invariant; [exact Hinv | apply Hs; left; reflexivity].
    - intros g Hg. apply Hs. right; exact Hg.
  Qed.

  Lemma well_sourced_part fs f : well_sourced fs -> In f fs -> well_sourced [f].
  Proof. intros Hs Hin g a [<-|[]] Ha. apply (Hs f a Hin Ha). Qed.

  (* whatever led to a state that represents the files: the incremental report is the one-shot report *)
  Lemma lsp_report_of_invariant st fs :
    lsp_invariant st fs -> well_keyed fs -> no_bare_marker fs -> (2 <= length fs)%nat ->
    Permutation (lsp_report st) (one_shot fs).
  Proof.
    intros (Hnd & Hrep & Hdirs) Hk Hnm Hlen. unfold AggCache.lsp_report, lint_dirs.
    rewrite dirs_update_nil.
    eapply Permutation_trans.
    - apply (report_from_cache_eq_fresh File Agg fname brules ckeys B_aggregate C_aggregate B_report C_report ikey
               H_bperm H_cperm (fst st) fs (snd st)); assumption.
    - unfold AggPipeline.one_shot.
      rewrite (lint_agg_provided Agg brules ckeys B_report C_report).
      rewrite (lint_agg_multi Agg brules ckeys B_report C_report _ _ _ Hlen).
      rewrite (collect_true File Agg brules ckeys B_aggregate C_aggregate).
      rewrite (collect_multi File Agg brules ckeys B_aggregate C_aggregate fs Hlen).
      apply (agg_report_equiv Agg brules ckeys B_report C_report H_bperm H_cperm).
      + intros k. apply Permutation_refl.
      + intros k. reflexivity.
      + intros v. apply dirs_represent_ignored. exact Hdirs.
  Qed.

  (* Any history of single-file replacements in the language server (start-up lint, then per edit: re-lint the
     file alone, SetFileAggregates, SetFileIgnoreDirectives), followed by the aggregate-report-only run over the
     cached aggregates and directives, reports what ONE Lint call over the final contents reports -- inline
     ignores included, also for a file that lost its last directive on the way (or got one back). *)
  Theorem incremental_directives_eq_fresh (fs0 : list File) (edits : list File) :
    NoDup (map fname fs0) -> (2 <= length fs0)%nat ->
    well_sourced (fs0 ++ edits) ->
    well_keyed (files_after fs0 edits) -> no_bare_marker (files_after fs0 edits) ->
    (2 <= length (files_after fs0 edits))%nat ->
    Permutation (lsp_report (lsp_history fs0 edits)) (one_shot (files_after fs0 edits)).
  Proof.
    intros Hnd Hlen Hs Hk Hnm Hlen'. apply lsp_report_of_invariant; try assumption.
    unfold AggCache.lsp_history. apply lsp_history_invariant.
    - apply lsp_init_invariant; [exact Hnd | exact Hlen|].
      intros f a Hf Ha. apply (Hs f a); [apply in_or_app; left; exact Hf | exact Ha].
    - intros f' Hin. apply (well_sourced_part (fs0 ++ edits)); [exact Hs | apply in_or_app; right; exact Hin].
  Qed.

  (* the directive cache alone, after any history: it answers like one run over the final contents *)
  Theorem lsp_history_directives (fs0 : list File) (edits : list File) (v : violation) :
    NoDup (map fname fs0) ->
    agg_ignored (lint_dirs File fname fcomments
                   (fold_left (fun g f' => set_file_ignore_directives (fname f') (exported_dirs [f']) g) edits
                              (set_ignore_directives (exported_dirs fs0))) []) v =
    agg_ignored (carry (results_of (files_after fs0 edits))) v.
  Proof.
    intros Hnd. unfold lint_dirs. rewrite dirs_update_nil. apply dirs_represent_ignored.
    rewrite (exported_init fs0 Hnd).
    assert (Hgen : forall edits g fs, NoDup (map fname fs) -> dirs_represent g fs ->
              dirs_represent (fold_left (fun g f' => set_file_ignore_directives (fname f') (exported_dirs [f']) g) edits g)
                             (files_after fs edits)).
    { clear. induction edits as [|f' edits IH]; intros g fs Hnd Hrep; [exact Hrep|].
      unfold AggCache.files_after in *. cbn [fold_left]. apply IH.
      - apply (nodup_replace File fname). exact Hnd.
      - rewrite set_file_dirs_single. apply (dir_cache_set File fname fcomments); assumption. }
    apply Hgen; [exact Hnd | apply (dir_cache_init File fname fcomments)].
  Qed.

  (* ---- a client of the public API ---- *)

  Definition api_invariant (st : api_state File) (fs : list File) : Prop :=
    NoDup (map fname fs) /\ fst st = fs /\ dirs_represent (snd st) fs.

  Lemma api_init_invariant fs : NoDup (map fname fs) -> api_invariant (api_init fs) fs.
  Proof.
    intros Hnd. unfold AggCache.api_init. split; [exact Hnd|]. split; [reflexivity|]. cbn [snd].
    fold (set_ignore_directives (exported_dirs fs)). rewrite (exported_init fs Hnd).
    apply (dir_cache_init File fname fcomments).
  Qed.

  Lemma api_replace_invariant st fs f' :
    api_invariant st fs -> api_invariant (api_replace st f') (replace_file f' fs).
  Proof.
    intros (Hnd & Hfs & Hdirs). unfold AggCache.api_replace. cbn [fst snd].
    split; [apply (nodup_replace File fname); exact Hnd|]. split; [rewrite Hfs; reflexivity|].
    rewrite exported_single, dirs_update_single. apply (dir_cache_set File fname fcomments); assumption.
  Qed.

  Lemma api_history_invariant edits : forall st fs,
    api_invariant st fs -> api_invariant (fold_left api_replace edits st) (files_after fs edits).
  Proof.
    induction edits as [|f' edits IH]; intros st fs Hinv; [exact Hinv|].
    unfold AggCache.files_after in *. cbn [fold_left]. apply IH. apply api_replace_invariant. exact Hinv.
  Qed.

  Lemma api_aggs_flat fs : api_aggs fs = flat_map file_aggs fs.
  Proof.
    unfold AggCache.api_aggs, merge_aggs. induction fs as [|f fs IH]; [reflexivity|].
    cbn [map concat flat_map]. rewrite IH.
    rewrite (collect_true File Agg brules ckeys B_aggregate C_aggregate). cbn [flat_map]. rewrite app_nil_r.
    reflexivity.
  Qed.

  Lemma lint_agg_provided_any (own m : aggmap Agg) g :
    lint_aggregate_violations Agg brules ckeys B_report C_report own 1 (Some m) g =
    agg_report Agg brules ckeys B_report C_report m g.
  Proof. unfold AggPipeline.lint_aggregate_violations. cbn [Nat.ltb Nat.leb]. destruct m; reflexivity. Qed.

  Lemma one_shot_as_report fs g :
    (2 <= length fs)%nat -> (forall v, agg_ignored g v = agg_ignored (carry (results_of fs)) v) ->
    Permutation (agg_report Agg brules ckeys B_report C_report (flat_map file_aggs fs) g) (one_shot fs).
  Proof.
    intros Hlen Hd. unfold AggPipeline.one_shot.
    rewrite (lint_agg_multi Agg brules ckeys B_report C_report _ _ _ Hlen).
    rewrite (collect_multi File Agg brules ckeys B_aggregate C_aggregate fs Hlen).
    apply (agg_report_equiv Agg brules ckeys B_report C_report H_bperm H_cperm).
    - intros k. apply Permutation_refl.
    - intros k. reflexivity.
    - exact Hd.
  Qed.

  (* report-only run after any history of single-file replacements *)
  Theorem api_incremental_directives_eq_fresh (fs0 : list File) (edits : list File) :
    NoDup (map fname fs0) -> (2 <= length (files_after fs0 edits))%nat ->
    Permutation (api_report (api_history fs0 edits)) (one_shot (files_after fs0 edits)).
  Proof.
    intros Hnd Hlen.
    destruct (api_history_invariant edits (api_init fs0) fs0 (api_init_invariant fs0 Hnd)) as (_ & Hfs & Hdirs).
    unfold AggCache.api_report. fold (api_history fs0 edits) in Hfs, Hdirs.
    rewrite (lint_agg_provided Agg brules ckeys B_report C_report). rewrite Hfs, api_aggs_flat.
    unfold lint_dirs. rewrite dirs_update_nil.
    apply one_shot_as_report; [exact Hlen|]. intros v. apply dirs_represent_ignored. exact Hdirs.
  Qed.

  (* the last replacement linted by the reporting run itself, handed the directive map of BEFORE that replacement *)
  Theorem api_mixed_directives_eq_fresh (fs0 : list File) (edits : list File) (f' : File) :
    NoDup (map fname fs0) -> (2 <= length (files_after fs0 (edits ++ [f'])))%nat ->
    Permutation (api_report_mixed (api_history fs0 edits) f') (one_shot (files_after fs0 (edits ++ [f']))).
  Proof.
    intros Hnd Hlen.
    destruct (api_history_invariant edits (api_init fs0) fs0 (api_init_invariant fs0 Hnd)) as (Hnd' & Hfs & Hdirs).
    fold (api_history fs0 edits) in Hfs, Hdirs.
    assert (Hfa : files_after fs0 (edits ++ [f']) = replace_file f' (files_after fs0 edits)).
    { unfold AggCache.files_after. rewrite fold_left_app. reflexivity. }
    rewrite Hfa in *. unfold AggCache.api_report_mixed.
    rewrite lint_agg_provided_any, Hfs, api_aggs_flat, lint_dirs_single.
    apply one_shot_as_report; [exact Hlen|]. intros v. apply dirs_represent_ignored.
    apply (dir_cache_set File fname fcomments); assumption.
  Qed.
  (* the directives alone, for a client of the public API: after any history of single-file replacements the map the
     client accumulated, handed to a report-only run, or to a run that itself re-lints f', decides like one run over
     the final contents; in particular a file whose new contents have no directive left has nothing ignored *)
  Theorem api_history_directives (fs0 : list File) (edits : list File) (f' : File) (v : violation) :
    NoDup (map fname fs0) ->
    agg_ignored (lint_dirs File fname fcomments (snd (api_history fs0 edits)) []) v =
      agg_ignored (carry (results_of (files_after fs0 edits))) v /\
    agg_ignored (lint_dirs File fname fcomments (snd (api_history fs0 edits)) [f']) v =
      agg_ignored (carry (results_of (replace_file f' (files_after fs0 edits)))) v /\
    (directive_entries (fcomments f') = [] -> v_file v = fname f' ->
     agg_ignored (lint_dirs File fname fcomments (snd (api_history fs0 edits)) [f']) v = false).
  Proof.
    intros Hnd.
    destruct (api_history_invariant edits (api_init fs0) fs0 (api_init_invariant fs0 Hnd)) as (Hnd' & _ & Hdirs).
    fold (api_history fs0 edits) in Hdirs. split; [|split].
    - unfold lint_dirs. rewrite dirs_update_nil. apply dirs_represent_ignored. exact Hdirs.
    - rewrite lint_dirs_single. apply dirs_represent_ignored.
      apply (dir_cache_set File fname fcomments); assumption.
    - intros Hnone Hfile. rewrite lint_dirs_single. unfold agg_ignored, agg_directives.
      rewrite Hfile, gm_get_set_same. unfold AggCache.file_dirs. rewrite Hnone. cbn.
      unfold ignored. destruct (v_row v); reflexivity.
  Qed.
End HistoryProofs.
