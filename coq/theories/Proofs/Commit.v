(* The commit of cmd/fix.go on the file-system model: what a successful commit leaves on disk,
   dry run, conflicts, directory clean-up sparing the roots. *)
From Regal Require Import Model.Commit Proofs.Provider Proofs.Rename.
From Coq Require Import Permutation Lia.

Lemma NoDup_app_intro {A} (a b : list A) :
  NoDup a -> NoDup b -> (forall x, In x a -> In x b -> False) -> NoDup (a ++ b).
Proof.
  induction a as [|x a IH]; simpl; intros Ha Hb Hd; [exact Hb|].
  inversion Ha as [|? ? Hx Ha']; subst. constructor.
  - rewrite in_app_iff. intros [H|H]; [contradiction | apply (Hd x); [left; reflexivity | exact H]].
  - apply IH; [exact Ha' | exact Hb | intros y Hy1 Hy2; apply (Hd y); [right; exact Hy1 | exact Hy2]].
Qed.

Section CommitFacts.
  Variable C : Type.
  Implicit Types (fs : fsys C) (f d p : str).

  (* ------------------------------------------------------------ single operations *)

  Lemma os_remove_ok fs p fs' :
    os_remove fs p = OsOk fs' ->
    (fs_is_file fs p = true /\ fs_files fs' = adel (fs_files fs) p /\ fs_dirs fs' = fs_dirs fs)
    \/ (fs_is_file fs p = false /\ fs_is_dir fs p = true
        /\ fs_files fs' = fs_files fs /\ fs_dirs fs' = sdel p (fs_dirs fs)
        /\ fs_children fs p = []).
  Proof.
    unfold os_remove. destruct (fs_is_file fs p) eqn:Ef.
    - intros [= <-]. left. repeat split.
    - destruct (fs_is_dir fs p) eqn:Ed; [|discriminate].
      destruct (fs_children fs p) eqn:Ec; [|discriminate]. simpl.
      intros [= <-]. right. repeat split.
  Qed.

  Lemma wf_os_remove fs p fs' : fs_wf fs -> os_remove fs p = OsOk fs' -> fs_wf fs'.
  Proof.
    intros W H q Hq. apply os_remove_ok in H as [[_ [Hf Hd]]|[_ [_ [Hf [Hd _]]]]].
    - unfold fs_is_file, fs_is_dir in *. rewrite Hf in Hq. rewrite Hd.
      apply W. apply amem_in in Hq. apply in_keys_adel in Hq as [_ Hq]. apply amem_in. exact Hq.
    - unfold fs_is_file, fs_is_dir in *. rewrite Hf in Hq. rewrite Hd.
      specialize (W q Hq). apply str_in_false in W. apply str_in_false.
      intros Hin. apply in_sdel in Hin as [_ Hin]. contradiction.
  Qed.

  Lemma os_mkdir_all_ok fuel : forall fs d fs',
    os_mkdir_all fuel fs d = Some (OsOk fs') ->
    fs_files fs' = fs_files fs
    /\ (forall x, fs_is_dir fs x = true -> fs_is_dir fs' x = true)
    /\ (forall x, fs_is_dir fs' x = true -> fs_is_dir fs x = true \/ fs_is_file fs x = false).
  Proof.
    induction fuel as [|fuel IH]; intros fs d fs' H; simpl in H.
    - destruct (fs_is_dir fs d); [|destruct (fs_is_file fs d); discriminate].
      injection H as <-. repeat split; auto.
    - destruct (fs_is_dir fs d) eqn:Ed; [injection H as <-; repeat split; auto|].
      destruct (fs_is_file fs d) eqn:Ef; [discriminate|].
      destruct (str_eqb (dir d) d); [discriminate|].
      destruct (os_mkdir_all fuel fs (dir d)) as [[fs1|]|] eqn:E; try discriminate.
      injection H as <-. destruct (IH _ _ _ E) as [Hf [Hup Hdown]]. simpl.
      split; [exact Hf|]. split.
      + intros x Hx. unfold fs_is_dir in *. simpl. apply str_in_spec. apply in_or_app. left.
        apply str_in_spec. apply Hup. exact Hx.
      + intros x Hx. unfold fs_is_dir in Hx. simpl in Hx. apply str_in_spec in Hx.
        apply in_app_or in Hx as [Hx|[<-|[]]].
        * apply Hdown. apply str_in_spec. exact Hx.
        * right. exact Ef.
  Qed.

  Lemma wf_os_mkdir_all fuel fs d fs' :
    fs_wf fs -> os_mkdir_all fuel fs d = Some (OsOk fs') -> fs_wf fs'.
  Proof.
    intros W H q Hq. destruct (os_mkdir_all_ok _ _ _ _ H) as [Hf [_ Hdown]].
    unfold fs_is_file in Hq. rewrite Hf in Hq.
    destruct (fs_is_dir fs' q) eqn:E; [|reflexivity].
    destruct (Hdown q E) as [Hd|Hnf].
    - rewrite (W q Hq) in Hd. discriminate.
    - unfold fs_is_file in Hnf. congruence.
  Qed.

  Lemma os_write_file_ok fs f c fs' :
    os_write_file fs f c = OsOk fs' ->
    fs_files fs' = aset (fs_files fs) f c /\ fs_dirs fs' = fs_dirs fs /\ fs_is_dir fs f = false.
  Proof.
    unfold os_write_file. destruct (fs_is_dir fs f) eqn:Ed; [discriminate|].
    destruct (fs_is_dir fs (dir f)); [|discriminate]. intros [= <-]. repeat split.
  Qed.

  Lemma wf_os_write_file fs f c fs' : fs_wf fs -> os_write_file fs f c = OsOk fs' -> fs_wf fs'.
  Proof.
    intros W H q Hq. apply os_write_file_ok in H as [Hf [Hd Hnd]].
    unfold fs_is_file, fs_is_dir in *. rewrite Hf in Hq. rewrite Hd.
    apply amem_in in Hq. apply in_keys_aset in Hq as [->|Hq]; [exact Hnd|].
    apply W. apply amem_in. exact Hq.
  Qed.

  (* ------------------------------------------------------------ directory clean-up *)

  Lemma cleanup_walk_dirs fuel : forall fs target preserve d acc ds,
    cleanup_walk fuel fs target preserve d acc = CwOk ds ->
    (forall x, In x acc -> fs_is_dir fs x = true /\ ~ In x preserve) ->
    forall x, In x ds -> fs_is_dir fs x = true /\ ~ In x preserve.
  Proof.
    induction fuel as [|fuel IH]; intros fs target preserve d acc ds H Hacc; simpl in H; [discriminate|].
    destruct (str_in d preserve) eqn:Ep; [injection H as <-; exact Hacc|].
    destruct (Nat.eqb (length (split_on SLASH d)) 1); [injection H as <-; exact Hacc|].
    destruct (fs_is_dir fs d) eqn:Ed; simpl in H; [|discriminate].
    match type of H with (if ?c then _ else _) = _ => destruct c end;
      [|injection H as <-; exact Hacc].
    eapply IH; [exact H|]. intros x Hx. apply in_app_or in Hx as [Hx|[<-|[]]]; [apply Hacc; exact Hx|].
    split; [exact Ed | apply str_in_false; exact Ep].
  Qed.

  Lemma preserve_add_mono fuel : forall acc p x, In x acc -> In x (preserve_add fuel acc p).
  Proof.
    induction fuel as [|fuel IH]; intros acc p x Hx; simpl; [exact Hx|].
    assert (Hx' : In x (sadd p acc)) by (apply in_sadd; right; exact Hx).
    destruct (str_eqb (dir p) [DOT] || str_eqb (dir p) [SLASH]); [exact Hx'|].
    destruct (str_in (dir p) (sadd p acc)); [exact Hx' | apply IH; exact Hx'].
  Qed.

  Lemma preserve_add_self fuel acc p : In p (preserve_add (S fuel) acc p).
  Proof.
    simpl. assert (Hp : In p (sadd p acc)) by (apply in_sadd; left; reflexivity).
    destruct (str_eqb (dir p) [DOT] || str_eqb (dir p) [SLASH]); [exact Hp|].
    destruct (str_in (dir p) (sadd p acc)); [exact Hp | apply preserve_add_mono; exact Hp].
  Qed.

  Lemma roots_preserved roots : forall r, In r roots -> In r (preserve_dirs roots).
  Proof.
    unfold preserve_dirs.
    assert (G : forall rs acc r, In r rs \/ In r acc ->
                 In r (fold_left (fun acc r => preserve_add (S (length r)) acc r) rs acc)).
    { induction rs as [|r0 rs IH]; intros acc r H; cbn [fold_left].
      - destruct H as [[]|H]; exact H.
      - apply IH. destruct H as [[<-|H]|H].
        + right. apply preserve_add_self.
        + left. exact H.
        + right. apply preserve_add_mono. exact H. }
    intros r Hr. apply G. left. exact Hr.
  Qed.

  (* DirCleanUpPaths lists directories only, and never a project root (or an ancestor of one that
     the walk of [preserve_dirs] has recorded) *)
  Lemma cleanup_spares_roots fs target roots ds :
    dir_cleanup_paths fs target roots = CwOk ds ->
    forall x, In x ds -> fs_is_dir fs x = true /\ ~ In x roots.
  Proof.
    unfold dir_cleanup_paths. intros H x Hx.
    destruct (cleanup_walk_dirs _ _ _ _ _ _ _ H (fun y (Hy : In y []) => match Hy with end) x Hx) as [Hd Hp].
    split; [exact Hd|]. intros Hr. apply Hp. apply roots_preserved. exact Hr.
  Qed.

  (* A listed directory is really empty: whatever kind of entry a listed directory holds (regular
     file, hidden or not, symbolic link, sub-directory), that entry is the target just deleted or a
     directory listed before it. *)
  Lemma last_opt_mem {A} (l : list A) x : last_opt l = Some x -> In x l.
  Proof.
    unfold last_opt. destruct (rev l) as [|y t] eqn:E; [discriminate|].
    intros [= <-]. apply in_rev. rewrite E. left. reflexivity.
  Qed.

  Lemma cleanup_walk_only_empty fuel : forall fs target preserve d acc ds,
    cleanup_walk fuel fs target preserve d acc = CwOk ds ->
    (forall x e, In x acc -> In e (fs_children fs x) -> e = target \/ In e acc) ->
    forall x e, In x ds -> In e (fs_children fs x) -> e = target \/ In e ds.
  Proof.
    induction fuel as [|fuel IH]; intros fs target preserve d acc ds H Hacc; simpl in H; [discriminate|].
    destruct (str_in d preserve) eqn:Ep; [injection H as <-; exact Hacc|].
    destruct (Nat.eqb (length (split_on SLASH d)) 1); [injection H as <-; exact Hacc|].
    destruct (fs_is_dir fs d) eqn:Ed; simpl in H; [|discriminate].
    match type of H with (if ?c then _ else _) = _ => destruct c eqn:Eall end;
      [|injection H as <-; exact Hacc].
    eapply IH; [exact H|]. intros x e Hx He.
    apply in_app_or in Hx as [Hx|[<-|[]]].
    - destruct (Hacc x e Hx He) as [Ht|Hin]; [left; exact Ht | right; apply in_or_app; left; exact Hin].
    - rewrite forallb_forall in Eall. specialize (Eall e He).
      apply Bool.orb_true_iff in Eall as [Et|El].
      + left. apply str_eqb_eq. exact Et.
      + right. apply Bool.andb_true_iff in El as [_ El].
        destruct (last_opt acc) as [l|] eqn:Elast; [|discriminate].
        apply str_eqb_eq in El. subst l. apply in_or_app. left. apply last_opt_mem. exact Elast.
  Qed.

  Lemma cleanup_only_empty fs target roots ds :
    dir_cleanup_paths fs target roots = CwOk ds ->
    forall d e, In d ds -> In e (fs_children fs d) -> e = target \/ (In e ds /\ fs_is_dir fs e = true).
  Proof.
    unfold dir_cleanup_paths. intros H d e Hd He.
    destruct (cleanup_walk_only_empty _ _ _ _ _ _ _ H
                (fun x e (Hx : In x []) _ => match Hx with end) d e Hd He) as [Ht|Hin]; [left; exact Ht|].
    right. split; [exact Hin|].
    exact (proj1 (cleanup_walk_dirs _ _ _ _ _ _ _ H (fun y (Hy : In y []) => match Hy with end) e Hin)).
  Qed.

  (* ------------------------------------------------------------ phases: effect on the files *)

  Lemma remove_dirs_files fs0 : forall ds fs fs',
    fs_wf fs -> fs_files fs = fs_files fs0 ->
    (forall d, In d ds -> fs_is_file fs d = false) ->
    (fix go (fs : fsys C) (ds : list str) : commit_result C :=
       match ds with
       | [] => CommitOk fs
       | d :: ds' => match os_remove fs d with
                     | OsOk fs' => go fs' ds'
                     | OsErr => CommitFailed fs
                     end
       end) fs ds = CommitOk fs' ->
    fs_wf fs' /\ fs_files fs' = fs_files fs0.
  Proof.
    induction ds as [|d ds IH]; intros fs fs' W Hf Hnf H.
    - injection H as <-. split; assumption.
    - destruct (os_remove fs d) as [fs1|] eqn:E; [|discriminate].
      pose proof (wf_os_remove _ _ _ W E) as W1.
      apply os_remove_ok in E as [[Hisf _]|[_ [_ [Hf1 _]]]].
      + rewrite (Hnf d (or_introl eq_refl)) in Hisf. discriminate.
      + apply (IH fs1 fs' W1); [congruence | | exact H].
        intros d' Hd'. unfold fs_is_file. rewrite Hf1. apply Hnf. right. exact Hd'.
  Qed.

  Lemma delete_one_files roots fs f fs' :
    fs_wf fs -> delete_one roots fs f = CommitOk fs' ->
    fs_wf fs' /\ forall g, aget (fs_files fs') g = if str_eqb f g then None else aget (fs_files fs) g.
  Proof.
    intros W H. unfold delete_one in H.
    destruct (os_remove fs f) as [fs1|] eqn:E; [|discriminate].
    pose proof (wf_os_remove _ _ _ W E) as W1.
    destruct (dir_cleanup_paths fs1 f roots) as [ds| |] eqn:Ec; try discriminate.
    assert (Hnf : forall d, In d ds -> fs_is_file fs1 d = false).
    { intros d Hd. destruct (cleanup_spares_roots _ _ _ _ Ec d Hd) as [Hdir _].
      destruct (fs_is_file fs1 d) eqn:Ef; [|reflexivity]. rewrite (W1 d Ef) in Hdir. discriminate. }
    destruct (remove_dirs_files fs1 ds fs1 fs' W1 eq_refl Hnf H) as [W' Hf'].
    split; [exact W'|]. intros g. rewrite Hf'.
    apply os_remove_ok in E as [[_ [Hf1 _]]|[Hnfile [_ [Hf1 _]]]]; rewrite Hf1.
    - destruct (str_eqb_spec f g) as [->|Hne]; [apply aget_adel_eq | apply aget_adel_neq; exact Hne].
    - destruct (str_eqb_spec f g) as [->|Hne]; [|reflexivity].
      unfold fs_is_file, amem in Hnfile. destruct (aget (fs_files fs) g); [discriminate | reflexivity].
  Qed.

  Lemma delete_phase_files roots : forall dl fs fs',
    fs_wf fs -> delete_phase roots fs dl = CommitOk fs' ->
    fs_wf fs' /\ forall g, aget (fs_files fs') g = if str_in g dl then None else aget (fs_files fs) g.
  Proof.
    induction dl as [|f dl IH]; intros fs fs' W H; simpl in H.
    - injection H as <-. split; [exact W | reflexivity].
    - destruct (delete_one roots fs f) as [fs1| |] eqn:E; try discriminate.
      destruct (delete_one_files _ _ _ _ W E) as [W1 H1].
      destruct (IH _ _ W1 H) as [W' H']. split; [exact W'|].
      intros g. rewrite H', H1. simpl. rewrite (str_eqb_sym g f).
      destruct (str_eqb f g); simpl; [destruct (str_in g dl); reflexivity | reflexivity].
  Qed.

  Lemma mkdir_phase_files : forall ml fs fs',
    fs_wf fs -> mkdir_phase fs ml = CommitOk fs' -> fs_wf fs' /\ fs_files fs' = fs_files fs.
  Proof.
    induction ml as [|f ml IH]; intros fs fs' W H; cbn [mkdir_phase] in H.
    - injection H as <-. split; [exact W | reflexivity].
    - destruct (os_mkdir_all (S (length f)) fs (dir f)) as [[fs1|]|] eqn:E; try discriminate.
      destruct (IH _ _ (wf_os_mkdir_all _ _ _ _ W E) H) as [W' Hf].
      split; [exact W'|]. rewrite Hf. apply (os_mkdir_all_ok _ _ _ _ E).
  Qed.

  (* a failed directory creation phase has not touched a single file *)
  Lemma mkdir_phase_failed_files : forall ml fs fs',
    mkdir_phase fs ml = CommitFailed fs' -> fs_files fs' = fs_files fs.
  Proof.
    induction ml as [|f ml IH]; intros fs fs' H; cbn [mkdir_phase] in H; [discriminate|].
    destruct (os_mkdir_all (S (length f)) fs (dir f)) as [[fs1|]|] eqn:E; try discriminate.
    - rewrite (IH _ _ H). apply (os_mkdir_all_ok _ _ _ _ E).
    - injection H as <-. reflexivity.
  Qed.

  Lemma write_one_files files fs f fs' :
    fs_wf fs -> write_one files fs f = CommitOk fs' ->
    fs_wf fs' /\ aget files f <> None
    /\ forall g, aget (fs_files fs') g = if str_eqb f g then aget files f else aget (fs_files fs) g.
  Proof.
    intros W H. unfold write_one in H.
    destruct (aget files f) as [c|] eqn:Ec; [|discriminate].
    destruct (os_mkdir_all (S (length f)) fs (dir f)) as [[fs1|]|] eqn:E; try discriminate.
    destruct (os_write_file fs1 f c) as [fs2|] eqn:Ew; [|discriminate]. injection H as <-.
    pose proof (wf_os_mkdir_all _ _ _ _ W E) as W1.
    split; [eapply wf_os_write_file; eassumption|]. split; [discriminate|].
    intros g. apply os_write_file_ok in Ew as [Hf _]. rewrite Hf.
    destruct (os_mkdir_all_ok _ _ _ _ E) as [Hf1 _]. rewrite Hf1.
    destruct (str_eqb_spec f g) as [->|Hne]; [apply aget_aset_eq | apply aget_aset_neq; exact Hne].
  Qed.

  Lemma write_phase_files files : forall ml fs fs',
    fs_wf fs -> write_phase files fs ml = CommitOk fs' ->
    fs_wf fs' /\ forall g, aget (fs_files fs') g = if str_in g ml then aget files g else aget (fs_files fs) g.
  Proof.
    induction ml as [|f ml IH]; intros fs fs' W H; simpl in H.
    - injection H as <-. split; [exact W | reflexivity].
    - destruct (write_one files fs f) as [fs1| |] eqn:E; try discriminate.
      destruct (write_one_files _ _ _ _ W E) as [W1 [_ H1]].
      destruct (IH _ _ W1 H) as [W' H']. split; [exact W'|].
      intros g. rewrite H', H1. simpl. rewrite (str_eqb_sym g f).
      destruct (str_eqb_spec f g) as [->|Hne]; simpl; [destruct (str_in g ml); reflexivity | reflexivity].
  Qed.

  (* commit_effect: disk' = disk - deleted + modified, on the files *)
  Theorem commit_effect_lemma roots fs files dl ml fs' :
    fs_wf fs -> commit roots fs files dl ml = CommitOk fs' ->
    fs_wf fs' /\
    forall g, aget (fs_files fs') g =
              if str_in g ml then aget files g
              else if str_in g dl then None
              else aget (fs_files fs) g.
  Proof.
    intros W H. unfold commit, commit_pinned in H.
    destruct (mkdir_phase fs ml) as [fs0| |] eqn:E0; try discriminate.
    destruct (mkdir_phase_files _ _ _ W E0) as [W0 Hf0].
    destruct (delete_phase roots fs0 dl) as [fs1| |] eqn:E1; try discriminate.
    destruct (delete_phase_files _ _ _ _ W0 E1) as [W1 Hf1].
    destruct (write_phase_files _ _ _ _ W1 H) as [W2 Hf2].
    split; [exact W2|]. intros g. rewrite Hf2, Hf1, Hf0. reflexivity.
  Qed.

  (* the keys of the file map stay duplicate free *)
  Lemma delete_one_nodup roots fs f fs' :
    fs_wf fs -> NoDup (akeys (fs_files fs)) -> delete_one roots fs f = CommitOk fs' ->
    NoDup (akeys (fs_files fs')).
  Proof.
    intros W Hnd H. unfold delete_one in H.
    destruct (os_remove fs f) as [fsb|] eqn:Eb; [|discriminate].
    pose proof (wf_os_remove _ _ _ W Eb) as Wb.
    destruct (dir_cleanup_paths fsb f roots) as [ds| |] eqn:Ec; try discriminate.
    assert (Hnf : forall d, In d ds -> fs_is_file fsb d = false).
    { intros d Hd. destruct (cleanup_spares_roots _ _ _ _ Ec d Hd) as [Hdir _].
      destruct (fs_is_file fsb d) eqn:Ef; [|reflexivity]. rewrite (Wb d Ef) in Hdir. discriminate. }
    destruct (remove_dirs_files fsb ds fsb fs' Wb eq_refl Hnf H) as [_ Hfa]. rewrite Hfa.
    apply os_remove_ok in Eb as [[_ [Hfb _]]|[_ [_ [Hfb _]]]]; rewrite Hfb;
      [apply nodup_keys_adel; exact Hnd | exact Hnd].
  Qed.

  Lemma delete_phase_nodup roots : forall dl fs fs',
    fs_wf fs -> NoDup (akeys (fs_files fs)) -> delete_phase roots fs dl = CommitOk fs' ->
    NoDup (akeys (fs_files fs')).
  Proof.
    induction dl as [|f dl IH]; intros fs fs' W Hnd H; simpl in H.
    - injection H as <-. exact Hnd.
    - destruct (delete_one roots fs f) as [fsa| |] eqn:Ea; try discriminate.
      destruct (delete_one_files _ _ _ _ W Ea) as [Wa _].
      apply (IH fsa fs' Wa); [|exact H]. exact (delete_one_nodup roots fs f fsa W Hnd Ea).
  Qed.

  Lemma write_phase_nodup files : forall ml fs fs',
    NoDup (akeys (fs_files fs)) -> write_phase files fs ml = CommitOk fs' ->
    NoDup (akeys (fs_files fs')).
  Proof.
    induction ml as [|f ml IH]; intros fs fs' Hnd H; simpl in H.
    - injection H as <-. exact Hnd.
    - destruct (write_one files fs f) as [fsa| |] eqn:Ea; try discriminate.
      apply (IH fsa fs'); [|exact H].
      unfold write_one in Ea. destruct (aget files f) as [c|]; [|discriminate].
      destruct (os_mkdir_all (S (length f)) fs (dir f)) as [[fsb|]|] eqn:Eb; try discriminate.
      destruct (os_write_file fsb f c) as [fsc|] eqn:Ec; [|discriminate]. injection Ea as <-.
      apply os_write_file_ok in Ec as [Hfc _]. rewrite Hfc.
      destruct (os_mkdir_all_ok _ _ _ _ Eb) as [Hfb _]. rewrite Hfb.
      apply nodup_keys_aset. exact Hnd.
  Qed.

  Lemma commit_effect_nodup roots fs files dl ml fs' :
    fs_wf fs -> commit roots fs files dl ml = CommitOk fs' ->
    NoDup (akeys (fs_files fs)) ->
    fs_wf fs' /\
    (forall g, aget (fs_files fs') g =
               if str_in g ml then aget files g
               else if str_in g dl then None
               else aget (fs_files fs) g)
    /\ NoDup (akeys (fs_files fs')).
  Proof.
    intros W H Hnd. destruct (commit_effect_lemma _ _ _ _ _ _ W H) as [W' Heff].
    split; [exact W'|]. split; [exact Heff|].
    unfold commit, commit_pinned in H.
    destruct (mkdir_phase fs ml) as [fs0| |] eqn:E0; try discriminate.
    destruct (mkdir_phase_files _ _ _ W E0) as [W0 Hf0].
    destruct (delete_phase roots fs0 dl) as [fs1| |] eqn:E1; try discriminate.
    eapply write_phase_nodup; [|exact H].
    eapply delete_phase_nodup; [exact W0 | rewrite Hf0; exact Hnd | exact E1].
  Qed.

  (* whenever the command does not reach the commit, the tree is what it was *)
  Lemma no_commit_no_change (fl : flags) cwd gv roots fs lr dl ml :
    let '(out, fs') := finish_command fl cwd gv roots fs lr dl ml in
    out = OutDone \/ out = OutCommitFailed \/ fs' = fs.
  Proof.
    unfold finish_command. destruct lr as [pv r| |]; try (right; right; reflexivity).
    destruct (has_conflicts r); [right; right; reflexivity|].
    match goal with |- context [match ?g with GProceed => _ | GRefuse => _ end] => destruct g end;
      [|right; right; reflexivity].
    destruct (fl_dry_run fl); [right; right; reflexivity|].
    destruct (commit roots fs (pv_files pv) dl ml); auto.
  Qed.

  (* ------------------------------------------------------------ dry run, conflicts *)

  Lemma dry_run_noop_lemma (fl : flags) cwd gv roots fs lr dl ml :
    fl_dry_run fl = true -> snd (finish_command fl cwd gv roots fs lr dl ml) = fs.
  Proof.
    intros Hdry. unfold finish_command.
    destruct lr as [p r| |]; try reflexivity.
    destruct (has_conflicts r); [reflexivity|].
    rewrite Hdry. simpl. reflexivity.
  Qed.

  Lemma conflicts_no_disk_op_lemma (fl : flags) cwd gv roots fs (pv : provider C) r dl ml :
    has_conflicts r = true ->
    finish_command fl cwd gv roots fs (LDone pv r) dl ml = (OutConflicts, fs).
  Proof. intros H. unfold finish_command. rewrite H. reflexivity. Qed.
End CommitFacts.
