(* Invariants of the provider under the fixer's operations, conservation of origins,
   closest-root facts. *)
From Regal Require Import Model.Rename Proofs.Provider Proofs.CleanPath.
From Coq Require Import Permutation Lia.

(* ---------------------------------------------------------------- provider invariant *)
Section Inv.
  Variable C : Type.
  Variable files0 : amap C.       (* what was loaded *)
  Variable disk : list str.       (* paths that exist on disk while the fixer runs *)

  Local Notation pinv := (pinv C files0 disk).

  Lemma pinv_init : NoDup (akeys files0) -> pinv (new_provider files0 disk).
  Proof.
    intros Hnd. constructor; simpl; try tauto; try constructor; auto.
  Qed.

  Lemma in_keys_orig p f :
    pinv p -> In f (akeys (pv_files p)) -> ~ In f (pv_modified p) -> In f (akeys files0).
  Proof.
    intros I Hin Hnm. apply aget_in_keys. rewrite <- (inv_untouched I f Hin Hnm).
    apply aget_in_keys. assumption.
  Qed.

  Lemma in_dec_str (f : str) l : In f l \/ ~ In f l.
  Proof. destruct (str_in f l) eqn:E; [left; apply str_in_spec | right; apply str_in_false]; assumption. Qed.

  (* Put on a file the provider holds (every non-moving fix) *)
  Lemma pinv_put_existing p f c :
    pinv p -> In f (akeys (pv_files p)) -> pinv (pv_put p f c).
  Proof.
    intros I Hin. constructor; simpl.
    - apply nodup_keys_aset, I.
    - intros g Hg. apply in_keys_aset. apply in_sadd in Hg. destruct Hg as [->|Hg]; [left; reflexivity|].
      right. apply (inv_mod_in I). assumption.
    - intros g Hg Hnm. rewrite in_sadd in Hnm.
      assert (g <> f) by tauto. rewrite aget_aset_neq by congruence.
      apply (inv_untouched I); [|tauto].
      apply in_keys_aset in Hg. destruct Hg; [contradiction | assumption].
    - intros g Hg Hng. apply (inv_gone I); [assumption|].
      intros H. apply Hng. apply in_keys_aset. right; assumption.
    - intros g Hd Hg. apply in_sadd.
      apply in_keys_aset in Hg. destruct Hg as [->|Hg]; [left; reflexivity|].
      right. apply (inv_del I); assumption.
    - intros g Hg Hdisk. apply in_sadd in Hg. destruct Hg as [->|Hg].
      + destruct (in_dec_str f (pv_modified p)) as [Hm|Hm].
        * apply (inv_disk I); assumption.
        * apply (in_keys_orig p f I Hin Hm).
      + apply (inv_disk I); assumption.
    - apply (inv_del_disk I).
    - apply (inv_pvdisk I).
    - apply nodup_sadd, I.
    - apply I.
  Qed.

  (* Put on a path that is neither held nor occupies the disk (the first half of a Rename) *)
  Lemma pinv_put_fresh p f c :
    pinv p -> ~ In f (akeys (pv_files p)) -> disk_occupied p f = false -> pinv (pv_put p f c).
  Proof.
    intros I Hnin Hocc. constructor; simpl.
    - apply nodup_keys_aset, I.
    - intros g Hg. apply in_keys_aset. apply in_sadd in Hg. destruct Hg as [->|Hg]; [left; reflexivity|].
      right. apply (inv_mod_in I). assumption.
    - intros g Hg Hnm. rewrite in_sadd in Hnm.
      assert (g <> f) by tauto. rewrite aget_aset_neq by congruence.
      apply (inv_untouched I); [|tauto].
      apply in_keys_aset in Hg. destruct Hg; [contradiction | assumption].
    - intros g Hg Hng. apply (inv_gone I); [assumption|].
      intros H. apply Hng. apply in_keys_aset. right; assumption.
    - intros g Hd Hg. apply in_sadd.
      apply in_keys_aset in Hg. destruct Hg as [->|Hg]; [left; reflexivity|].
      right. apply (inv_del I); assumption.
    - intros g Hg Hdisk. apply in_sadd in Hg. destruct Hg as [->|Hg].
      + unfold disk_occupied in Hocc. rewrite (inv_pvdisk I) in Hocc.
        apply andb_false_iff in Hocc. destruct Hocc as [Hocc|Hocc].
        * apply str_in_false in Hocc. contradiction.
        * apply negb_false_iff, str_in_spec in Hocc. apply (inv_del_disk I); assumption.
      + apply (inv_disk I); assumption.
    - apply (inv_del_disk I).
    - apply (inv_pvdisk I).
    - apply nodup_sadd, I.
    - apply I.
  Qed.

  Lemma pinv_delete p f :
    pinv p -> In f (akeys (pv_files p)) -> pinv (pv_delete p f).
  Proof.
    intros I Hin. constructor; simpl.
    - apply nodup_keys_adel, I.
    - intros g Hg. apply in_sdel in Hg. destruct Hg as [Hne Hg]. apply in_keys_adel.
      split; [assumption | apply (inv_mod_in I); assumption].
    - intros g Hg Hnm. apply in_keys_adel in Hg. destruct Hg as [Hne Hg].
      rewrite aget_adel_neq by congruence. apply (inv_untouched I); [assumption|].
      intros H. apply Hnm. apply in_sdel. split; assumption.
    - intros g Hg Hng. apply in_sadd.
      destruct (str_eqb_spec g f) as [->|Hne]; [left; reflexivity|]. right.
      apply (inv_gone I); [assumption|]. intros H. apply Hng. apply in_keys_adel. split; assumption.
    - intros g Hd Hg. apply in_keys_adel in Hg. destruct Hg as [Hne Hg].
      apply in_sdel. split; [assumption|].
      apply in_sadd in Hd. destruct Hd as [->|Hd]; [contradiction|].
      apply (inv_del I); assumption.
    - intros g Hg Hdisk. apply in_sdel in Hg. destruct Hg as [_ Hg]. apply (inv_disk I); assumption.
    - intros g Hg Hdisk. apply in_sadd in Hg. destruct Hg as [->|Hg].
      + destruct (in_dec_str f (pv_modified p)) as [Hm|Hm].
        * apply (inv_disk I); assumption.
        * apply (in_keys_orig p f I Hin Hm).
      + apply (inv_del_disk I); assumption.
    - apply (inv_pvdisk I).
    - apply nodup_sdel, I.
    - apply nodup_sadd, I.
  Qed.

  Lemma pinv_rename p from to p' :
    pinv p -> pv_rename p from to = RenOk p' -> pinv p'.
  Proof.
    intros I H. apply rename_ok_spec in H. destruct H as [c [Hc [Hnin [Hocc ->]]]].
    apply pinv_delete.
    - apply pinv_put_fresh; assumption.
    - simpl. apply in_keys_aset. right. apply aget_in_keys. congruence.
  Qed.

  Lemma rename_conflict_from_held (p : provider C) from to :
    pv_rename p from to = RenConflict -> In from (akeys (pv_files p)).
  Proof.
    unfold pv_rename. destruct (aget (pv_files p) from) eqn:E; [|discriminate].
    intros _. apply aget_in_keys. congruence.
  Qed.

  Lemma pinv_handle_rename fuel pol starting p r root from to p' r' :
    pinv p ->
    handle_rename pv_rename fuel pol starting p r root from to = SOk p' r' ->
    pinv p'.
  Proof.
    revert to. induction fuel as [|fuel IH]; intros to I H; simpl in H; [discriminate|].
    destruct (pv_rename p from to) as [p1| |] eqn:E.
    - injection H as <- _. eapply pinv_rename; eassumption.
    - discriminate.
    - destruct pol.
      + injection H as <- _. apply pinv_delete; [assumption|].
        eapply rename_conflict_from_held; eassumption.
      + eapply IH; eassumption.
  Qed.

  Lemma pinv_apply_fix fuel pol starting p r x p' r' :
    pinv p -> apply_fix pv_rename fuel pol starting p r x = SOk p' r' -> pinv p'.
  Proof.
    intros I H. destruct x as [file g|root from to]; simpl in H.
    - destruct (aget (pv_files p) file) as [c|] eqn:E; [|discriminate].
      injection H as <- _. apply pinv_put_existing; [assumption|].
      apply aget_in_keys. congruence.
    - destruct (aget (pv_files p) from); [|discriminate].
      eapply pinv_handle_rename; eassumption.
  Qed.

  Lemma pinv_run_fixes fuel pol starting xs p r p' r' :
    pinv p -> run_fixes pv_rename fuel pol starting p r xs = SOk p' r' -> pinv p'.
  Proof.
    revert p r. induction xs as [|x xs IH]; intros p r I H; simpl in H.
    - injection H as <- _. assumption.
    - destruct (apply_fix pv_rename fuel pol starting p r x) as [p1 r1| |] eqn:E; try discriminate.
      eapply IH; [|eassumption]. eapply pinv_apply_fix; eassumption.
  Qed.
End Inv.

(* ---------------------------------------------------------------- conflicts are sticky *)

Lemma has_conflicts_add_moved r to from : has_conflicts (add_moved r to from) = has_conflicts r.
Proof. reflexivity. Qed.

Lemma has_conflicts_add_conflict r k root to from : has_conflicts (add_conflict r k root to from) = true.
Proof. unfold has_conflicts, add_conflict. simpl. destruct (rp_conflicts r); reflexivity. Qed.

(* ---------------------------------------------------------------- conservation of origins *)
Section Origins.
  Variable T : Type.
  Local Notation tagged := (tagged T).
  Local Notation origins := (@origins T).
  Local Notation tag_files := (@tag_files T).
  Local Notation self_tagged := (@self_tagged T).
  Local Notation preserves_origin := (@preserves_origin T).
  Local Notation origin_of := (@origin_of T).

  Lemma origins_tag m : origins (tag_files m) = akeys m.
  Proof. unfold origins, tag_files, akeys. rewrite map_map. apply map_ext. reflexivity. Qed.

  Lemma akeys_tag m : akeys (tag_files m) = akeys m.
  Proof. unfold tag_files, akeys. rewrite map_map. apply map_ext. reflexivity. Qed.

  Lemma origins_put_existing (m : amap tagged) k v v' :
    NoDup (akeys m) -> aget m k = Some v' -> fst v = fst v' ->
    Permutation (origins (aset m k v)) (origins m).
  Proof.
    intros Hnd Hg Ho.
    pose proof (aset_in_perm m k v v' Hnd Hg) as HP.
    apply (Permutation_map origin_of) in HP. simpl in HP.
    unfold origin_of at 1 3 in HP. simpl in HP. rewrite Ho in HP.
    eapply Permutation_cons_inv. exact HP.
  Qed.

  Lemma origins_rename (m : amap tagged) from to c :
    NoDup (akeys m) -> aget m from = Some c -> ~ In to (akeys m) ->
    Permutation (origins (adel (aset m to c) from)) (origins m).
  Proof.
    intros Hnd Hg Hnin.
    assert (Hne : from <> to).
    { intros ->. apply Hnin. apply aget_in_keys. congruence. }
    assert (Hnd' : NoDup (akeys (aset m to c))) by (apply nodup_keys_aset; assumption).
    assert (Hg' : aget (aset m to c) from = Some c).
    { rewrite aget_aset_neq by congruence. assumption. }
    pose proof (adel_in_perm _ _ _ Hnd' Hg') as HP.
    rewrite (aset_not_in m to c Hnin) in HP at 1.
    apply (Permutation_map origin_of) in HP. rewrite map_app in HP. simpl in HP.
    (* origins m ++ [o] ~ o :: origins (adel ...) *)
    change (origin_of (to, c)) with (fst c) in HP. change (origin_of (from, c)) with (fst c) in HP.
    apply Permutation_cons_inv with (a := fst c).
    eapply perm_trans; [apply Permutation_sym; exact HP|].
    apply Permutation_sym, Permutation_cons_append.
  Qed.

  Lemma origins_self_tagged m : self_tagged m -> origins m = akeys m.
  Proof. intros H. unfold origins, akeys. apply map_ext_in. exact H. Qed.

  Lemma self_tagged_tag m : self_tagged (tag_files m).
  Proof.
    intros kv Hin. unfold tag_files in Hin. apply in_map_iff in Hin as [[k v] [<- _]]. reflexivity.
  Qed.

  Variable m0 : amap tagged.      (* what was loaded, self-tagged *)
  Variable disk : list str.

  (* as long as no conflict has been registered, every origin is held exactly once *)
  Definition conserved (p : provider tagged) (r : report) : Prop :=
    has_conflicts r = false -> Permutation (origins (pv_files p)) (akeys m0).

  Lemma conserved_handle_rename fuel pol starting p r root from to p' r' :
    pinv tagged m0 disk p -> conserved p r ->
    handle_rename pv_rename fuel pol starting p r root from to = SOk p' r' ->
    conserved p' r'.
  Proof.
    revert to. induction fuel as [|fuel IH]; intros to I Hc H; simpl in H; [discriminate|].
    destruct (pv_rename p from to) as [p1| |] eqn:E.
    - injection H as <- <-. intros Hnc. rewrite has_conflicts_add_moved in Hnc.
      apply rename_ok_spec in E. destruct E as [c [Hg [Hnin [_ ->]]]]. simpl.
      eapply perm_trans; [|apply Hc; assumption].
      apply origins_rename; [apply I | assumption | assumption].
    - discriminate.
    - destruct pol.
      + injection H as <- <-. intros Hnc. rewrite has_conflicts_add_conflict in Hnc. discriminate.
      + eapply IH; eassumption.
  Qed.

  Lemma conserved_apply_fix fuel pol starting p r x p' r' :
    pinv tagged m0 disk p -> conserved p r -> preserves_origin x ->
    apply_fix pv_rename fuel pol starting p r x = SOk p' r' ->
    conserved p' r'.
  Proof.
    intros I Hc Hx H. destruct x as [file g|root from to]; simpl in H.
    - destruct (aget (pv_files p) file) as [c|] eqn:E; [|discriminate].
      injection H as <- <-. intros Hnc. simpl.
      eapply perm_trans; [|apply Hc; assumption].
      eapply origins_put_existing; [apply I | eassumption | apply Hx].
    - destruct (aget (pv_files p) from); [|discriminate].
      eapply conserved_handle_rename; eassumption.
  Qed.

  Lemma conserved_run_fixes fuel pol starting xs p r p' r' :
    pinv tagged m0 disk p -> conserved p r -> Forall preserves_origin xs ->
    run_fixes pv_rename fuel pol starting p r xs = SOk p' r' ->
    conserved p' r'.
  Proof.
    revert p r. induction xs as [|x xs IH]; intros p r I Hc Hall H; simpl in H.
    - injection H as <- <-. assumption.
    - inversion Hall as [|? ? Hx Hxs]; subst.
      destruct (apply_fix pv_rename fuel pol starting p r x) as [p1 r1| |] eqn:E; try discriminate.
      eapply IH; [| |assumption|eassumption].
      + eapply pinv_apply_fix; eassumption.
      + eapply conserved_apply_fix; eassumption.
  Qed.

  (* with policy rename no conflict is ever registered *)
  Lemma rename_policy_no_conflict_hr fuel starting (p : provider tagged) r root from to p' r' :
    handle_rename pv_rename fuel PRename starting p r root from to = SOk p' r' ->
    has_conflicts r' = has_conflicts r.
  Proof.
    revert to. induction fuel as [|fuel IH]; intros to H; simpl in H; [discriminate|].
    destruct (pv_rename p from to) as [p1| |] eqn:E.
    - injection H as _ <-. reflexivity.
    - discriminate.
    - eapply IH; eassumption.
  Qed.

  Lemma rename_policy_no_conflict fuel starting xs (p : provider tagged) r p' r' :
    run_fixes pv_rename fuel PRename starting p r xs = SOk p' r' ->
    has_conflicts r' = has_conflicts r.
  Proof.
    revert p r. induction xs as [|x xs IH]; intros p r H; simpl in H.
    - injection H as _ <-. reflexivity.
    - destruct (apply_fix pv_rename fuel PRename starting p r x) as [p1 r1| |] eqn:E; try discriminate.
      rewrite (IH _ _ H). destruct x as [file g|root from to]; simpl in E.
      + destruct (aget (pv_files p) file); [|discriminate]. injection E as _ <-. reflexivity.
      + destruct (aget (pv_files p) from); [|discriminate].
        eapply rename_policy_no_conflict_hr; eassumption.
  Qed.
End Origins.
