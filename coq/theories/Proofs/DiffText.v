(* E1: lifting from lines to text.  concat (split_lines s) = s; the byte offset the LSP rules
   give to position (i, 0) is the length of the first i lines of split_lines s (with the clamp
   for i past the end); hence applying the TextEdits built from a well-formed operation list
   is the concatenation of the line-level application. *)
From Regal Require Export Proofs.DiffOps.
From Coq Require Import Lia.
Open Scope Z_scope.

Lemma split_lines_concat s : concat (split_lines s) = s.
Proof.
  induction s as [|c s IH]; simpl; [reflexivity|].
  destruct (eol_here c s).
  - simpl. rewrite IH. reflexivity.
  - destruct (split_lines s) as [|l ls]; simpl in *.
    + rewrite <- IH. reflexivity.
    + rewrite <- IH. reflexivity.
Qed.

Lemma split_lines_nonempty s : forall l, In l (split_lines s) -> l <> [].
Proof.
  induction s as [|c s IH]; simpl; intros l Hl; [contradiction|].
  destruct (eol_here c s).
  - destruct Hl as [<-|Hl]; [discriminate | auto].
  - destruct (split_lines s) as [|l0 ls]; simpl in *.
    + destruct Hl as [<-|[]]. discriminate.
    + destruct Hl as [<-|Hl]; [discriminate | auto].
Qed.

Lemma line_start_0 s : line_start s 0 = 0%nat.
Proof. destruct s; reflexivity. Qed.

(* the LSP offset of line i is the total length of the first i lines (all of them when i is
   past the end: that is the specification's clamp) *)
Lemma line_start_split s : forall i, line_start s i = length (concat (firstn i (split_lines s))).
Proof.
  induction s as [|c s IH]; intros i.
  - destruct i; reflexivity.
  - destruct i as [|i]; [reflexivity|].
    simpl. destruct (eol_here c s).
    + simpl. rewrite IH. reflexivity.
    + rewrite IH. destruct (split_lines s) as [|l ls]; simpl.
      * rewrite firstn_nil. reflexivity.
      * rewrite !app_length. simpl. reflexivity.
Qed.

(* ---- generic facts about concat / firstn / skipn ---- *)
Section Concat.
  Variable T : Type.
  Implicit Types L : list (list T).

  Definition plen L (i : nat) : nat := length (concat (firstn i L)).

  Lemma plen_mono L : forall i j, (i <= j)%nat -> (plen L i <= plen L j)%nat.
  Proof.
    unfold plen. induction L as [|l L IH]; intros i j Hij.
    - rewrite !firstn_nil. simpl. lia.
    - destruct i as [|i]; [simpl; lia|]. destruct j as [|j]; [lia|].
      simpl. rewrite !app_length. specialize (IH i j ltac:(lia)). lia.
  Qed.

  Lemma plen_le L : forall i, (plen L i <= length (concat L))%nat.
  Proof.
    unfold plen. induction L as [|l L IH]; intros i.
    - destruct i; simpl; lia.
    - destruct i as [|i]; simpl; [lia|]. rewrite !app_length. specialize (IH i). lia.
  Qed.

  Lemma skipn_plen L : forall i, skipn (plen L i) (concat L) = concat (skipn i L).
  Proof.
    unfold plen. induction L as [|l L IH]; intros i.
    - destruct i; reflexivity.
    - destruct i as [|i]; [reflexivity|]. simpl. rewrite app_length.
      rewrite skipn_app. rewrite skipn_all2 by lia. simpl.
      replace (length l + length (concat (firstn i L)) - length l)%nat with (length (concat (firstn i L))) by lia.
      apply IH.
  Qed.

  Lemma firstn_plen L : forall i, firstn (plen L i) (concat L) = concat (firstn i L).
  Proof.
    unfold plen. induction L as [|l L IH]; intros i.
    - destruct i; reflexivity.
    - destruct i as [|i]; [reflexivity|]. simpl. rewrite app_length.
      rewrite firstn_app. rewrite firstn_all2 by lia.
      replace (length l + length (concat (firstn i L)) - length l)%nat with (length (concat (firstn i L))) by lia.
      rewrite IH. reflexivity.
  Qed.

  Lemma plen_skip L : forall i n, plen (skipn i L) n = (plen L (i + n) - plen L i)%nat.
  Proof.
    unfold plen. induction L as [|l L IH]; intros i n.
    - rewrite skipn_nil, !firstn_nil. reflexivity.
    - destruct i as [|i]; simpl.
      + lia.
      + rewrite IH. rewrite !app_length. lia.
  Qed.

  Lemma seg_plen L i j : (i <= j)%nat ->
    firstn (plen L j - plen L i) (skipn (plen L i) (concat L)) = concat (firstn (j - i) (skipn i L)).
  Proof.
    intros Hij. rewrite skipn_plen. rewrite <- firstn_plen. f_equal.
    rewrite plen_skip. replace (i + (j - i))%nat with j by lia. reflexivity.
  Qed.
End Concat.

(* ---- applying resolved edits ---- *)

Lemma disjoint_from_weaken l : forall p p', (p' <= p)%nat -> disjoint_from p l = true -> disjoint_from p' l = true.
Proof.
  destruct l as [|[[so eo] t] r]; simpl; intros p p' Hp H; [reflexivity|].
  apply andb_true_iff in H. destruct H as [H H3]. apply andb_true_iff in H. destruct H as [H1 H2].
  apply Nat.leb_le in H1. rewrite H2, H3. replace (p' <=? so)%nat with true by (symmetry; apply Nat.leb_le; lia).
  reflexivity.
Qed.

Lemma firstn_split {T} (n m : nat) : forall (u : list T), firstn (n + m) u = firstn n u ++ firstn m (skipn n u).
Proof.
  induction n as [|n IH]; intros u; simpl; [reflexivity|].
  destruct u as [|x u]; simpl.
  - rewrite firstn_nil. reflexivity.
  - f_equal. apply IH.
Qed.

Lemma splice_shift l s : forall p p', (p' <= p)%nat -> (p <= length s)%nat -> disjoint_from p l = true ->
  splice l s p' = firstn (p - p') (skipn p' s) ++ splice l s p.
Proof.
  intros p p' Hp Hlen H. destruct l as [|[[so eo] t] r]; simpl in *.
  - rewrite <- (firstn_skipn (p - p') (skipn p' s)) at 1. f_equal.
    rewrite skipn_add. f_equal. lia.
  - apply andb_true_iff in H. destruct H as [H _]. apply andb_true_iff in H. destruct H as [H1 _].
    apply Nat.leb_le in H1.
    replace (so - p')%nat with ((p - p') + (so - p))%nat by lia.
    rewrite firstn_split. rewrite skipn_add. replace (p - p' + p')%nat with p by lia.
    rewrite <- app_assoc. reflexivity.
Qed.

Fixpoint starts_ge (p : nat) (l : list oedit) : Prop :=
  match l with
  | [] => True
  | (so, _, _) :: r => (p <= so)%nat /\ starts_ge so r
  end.

Lemma disjoint_starts l : forall p, disjoint_from p l = true -> starts_ge p l.
Proof.
  induction l as [|[[so eo] t] r IH]; simpl; intros p H; [exact I|].
  apply andb_true_iff in H. destruct H as [H H3]. apply andb_true_iff in H. destruct H as [H1 H2].
  apply Nat.leb_le in H1, H2. split; [assumption|].
  apply IH. apply disjoint_from_weaken with (p := eo); assumption.
Qed.

Lemma sort_sorted l : forall p, starts_ge p l -> sort_by_start l = l.
Proof.
  induction l as [|[[so eo] t] r IH]; simpl; intros p H; [reflexivity|].
  destruct H as [_ H]. unfold sort_by_start in *. simpl. rewrite (IH so H).
  destruct r as [|[[so' eo'] t'] r']; simpl; [reflexivity|].
  destruct H as [H _]. replace (so' <? so)%nat with false by (symmetry; apply Nat.ltb_ge; lia).
  reflexivity.
Qed.

Lemma edit_in_doc_char0 s e : edit_in_doc s e = true -> e_sc e = 0 /\ e_ec e = 0.
Proof.
  unfold edit_in_doc. intros H.
  apply andb_true_iff in H. destruct H as [H H6]. apply andb_true_iff in H. destruct H as [H H5].
  apply andb_true_iff in H. destruct H as [H H4]. apply andb_true_iff in H. destruct H as [H H3].
  apply Z.eqb_eq in H3, H6. auto.
Qed.

Section Text.
  Variables s after : str.
  Notation la := (split_lines s).
  Notation lb := (split_lines after).
  Notation Mz := (Z.of_nat (length la)).
  Notation Nz := (Z.of_nat (length lb)).

  Definition LS (i : Z) : nat := line_start s (Z.to_nat i).

  Lemma LS_plen i : LS i = plen N la (Z.to_nat i).
  Proof. unfold LS, plen. apply line_start_split. Qed.

  Lemma LS_mono i j : i <= j -> (LS i <= LS j)%nat.
  Proof. intros H. rewrite !LS_plen. apply plen_mono. lia. Qed.

  Lemma LS_le_len i : (LS i <= length s)%nat.
  Proof.
    rewrite LS_plen. pose proof (plen_le N la (Z.to_nat i)) as H.
    rewrite split_lines_concat in H. exact H.
  Qed.

  Lemma LS_seg i j : 0 <= i <= j ->
    firstn (LS j - LS i) (skipn (LS i) s) = concat (slice la i j).
  Proof.
    intros H. rewrite !LS_plen.
    pose proof (seg_plen N la (Z.to_nat i) (Z.to_nat j) ltac:(lia)) as E.
    rewrite split_lines_concat in E. rewrite E. unfold slice. do 2 f_equal. lia.
  Qed.

  Lemma LS_skip i : skipn (LS i) s = concat (zskip la i).
  Proof.
    rewrite LS_plen. pose proof (skipn_plen N la (Z.to_nat i)) as E.
    rewrite split_lines_concat in E. exact E.
  Qed.

  (* the resolved form of the edits ComputeEdits builds from an operation list *)
  Fixpoint oedits (ops : list op) : list oedit :=
    match ops with
    | [] => []
    | Del i1 i2 :: r => (LS i1, LS i2, []) :: oedits r
    | Ins i1 i2 j1 j2 :: r =>
        match concat (slice lb j1 j2) with
        | [] => oedits r
        | c => (LS i1, LS i2, c) :: oedits r
        end
    end.

  Notation ops_wf := (ops_wf str la lb).
  Notation apply_ops := (apply_ops str la lb).

  Lemma resolve_edits : forall ops pos, ops_wf ops pos ->
    resolve_all s (flat_map (edit_of_op lb) ops) = Some (oedits ops).
  Proof.
    induction ops as [|[i1 i2|i1 i2 j1 j2] r IH]; intros pos Hw; simpl in *.
    - reflexivity.
    - destruct Hw as [Hp [H12 [H2 Hw]]]. rewrite (IH _ Hw).
      unfold resolve, pos_offset. simpl.
      replace (0 <=? i1) with true by (symmetry; apply Z.leb_le; lia).
      replace (0 <=? i2) with true by (symmetry; apply Z.leb_le; lia). reflexivity.
    - destruct Hw as [Hp [-> [H1 [Hj [Hj2 Hw]]]]].
      destruct (concat (slice lb j1 j2)) as [|c0 c] eqn:Ec; simpl.
      + apply (IH _ Hw).
      + rewrite (IH _ Hw). unfold resolve, pos_offset. simpl.
        replace (0 <=? i1) with true by (symmetry; apply Z.leb_le; lia). reflexivity.
  Qed.

  Lemma splice_edits : forall ops pos, ops_wf ops pos ->
    disjoint_from (LS pos) (oedits ops) = true /\
    splice (oedits ops) s (LS pos) = concat (apply_ops ops pos).
  Proof.
    induction ops as [|[i1 i2|i1 i2 j1 j2] r IH]; intros pos Hw; simpl in *.
    - split; [reflexivity|]. apply LS_skip.
    - destruct Hw as [Hp [H12 [H2 Hw]]]. destruct (IH _ Hw) as [Hd Hs].
      split.
      + rewrite Hd. replace (LS pos <=? LS i1)%nat with true by (symmetry; apply Nat.leb_le; apply LS_mono; lia).
        replace (LS i1 <=? LS i2)%nat with true by (symmetry; apply Nat.leb_le; apply LS_mono; lia).
        reflexivity.
      + rewrite Hs, concat_app. rewrite LS_seg by lia. reflexivity.
    - destruct Hw as [Hp [-> [H1 [Hj [Hj2 Hw]]]]]. destruct (IH _ Hw) as [Hd Hs].
      rewrite !concat_app.
      destruct (concat (slice lb j1 j2)) as [|c0 c] eqn:Ec.
      + split.
        * apply disjoint_from_weaken with (p := LS i1); [apply LS_mono; lia | assumption].
        * rewrite (splice_shift _ s (LS i1) (LS pos)); [|apply LS_mono; lia|apply LS_le_len|assumption].
          rewrite Hs. rewrite LS_seg by lia. reflexivity.
      + split.
        * simpl. rewrite Hd. replace (LS pos <=? LS i1)%nat with true by (symmetry; apply Nat.leb_le; apply LS_mono; lia).
          rewrite Nat.leb_refl. reflexivity.
        * simpl. rewrite Hs. rewrite LS_seg by lia. reflexivity.
  Qed.

  Lemma ordered_edits : forall ops pos, ops_wf ops pos ->
    edits_ordered (flat_map (edit_of_op lb) ops) = true /\
    (forall e es, flat_map (edit_of_op lb) ops = e :: es -> pos <= e_sl e) /\
    forallb (edit_in_doc s) (flat_map (edit_of_op lb) ops) = true.
  Proof.
    induction ops as [|[i1 i2|i1 i2 j1 j2] r IH]; intros pos Hw; simpl in *.
    - repeat split; try reflexivity. intros e es H. discriminate.
    - destruct Hw as [Hp [H12 [H2 Hw]]]. destruct (IH _ Hw) as [Ho [Hh Hin]].
      repeat split.
      + rewrite Ho. unfold pos_le at 1. simpl.
        replace (i1 <? i2) with true by (symmetry; apply Z.ltb_lt; lia). simpl.
        destruct (flat_map (edit_of_op lb) r) as [|e' es'] eqn:Er; [reflexivity|].
        specialize (Hh e' es' eq_refl). unfold pos_le. simpl.
        destruct (Z.ltb_spec i2 (e_sl e')) as [?|?]; [reflexivity|].
        replace (i2 =? e_sl e') with true by (symmetry; apply Z.eqb_eq; lia). simpl.
        pose proof (forallb_forall (edit_in_doc s) (e' :: es')) as [Hf _].
        specialize (Hf Hin e' (or_introl eq_refl)). unfold edit_in_doc in Hf.
        apply edit_in_doc_char0 in Hf. destruct Hf as [Hf _]. rewrite Hf. reflexivity.
      + intros e es [= <- _]. simpl. lia.
      + rewrite Hin. unfold edit_in_doc. simpl.
        repeat (apply andb_true_iff; split); try reflexivity; apply Z.leb_le; lia.
    - destruct Hw as [Hp [-> [H1 [Hj [Hj2 Hw]]]]]. destruct (IH _ Hw) as [Ho [Hh Hin]].
      destruct (concat (slice lb j1 j2)) as [|c0 c] eqn:Ec; simpl.
      + repeat split; try assumption. intros e es H. specialize (Hh e es H). lia.
      + repeat split.
        * rewrite Ho. unfold pos_le at 1. simpl. rewrite Z.ltb_irrefl, Z.eqb_refl. simpl.
          destruct (flat_map (edit_of_op lb) r) as [|e' es'] eqn:Er; [reflexivity|].
          specialize (Hh e' es' eq_refl). unfold pos_le. simpl.
          destruct (Z.ltb_spec i1 (e_sl e')) as [?|?]; [reflexivity|].
          replace (i1 =? e_sl e') with true by (symmetry; apply Z.eqb_eq; lia). simpl.
          pose proof (forallb_forall (edit_in_doc s) (e' :: es')) as [Hf _].
          specialize (Hf Hin e' (or_introl eq_refl)). unfold edit_in_doc in Hf.
          apply edit_in_doc_char0 in Hf. destruct Hf as [Hf _]. rewrite Hf. reflexivity.
        * intros e es [= <- _]. simpl. lia.
        * rewrite Hin. unfold edit_in_doc. simpl.
          repeat (apply andb_true_iff; split); try reflexivity; apply Z.leb_le; lia.
  Qed.

  (* E1 assembled *)
  Lemma text_apply ops :
    ops_wf ops 0 ->
    lsp_apply (flat_map (edit_of_op lb) ops) s = Some (concat (apply_ops ops 0)).
  Proof.
    intros Hw. unfold lsp_apply. rewrite (resolve_edits _ _ Hw).
    destruct (splice_edits _ _ Hw) as [Hd Hs].
    assert (H0 : LS 0 = 0%nat) by (unfold LS; apply line_start_0).
    rewrite H0 in Hd, Hs.
    rewrite (sort_sorted _ 0%nat (disjoint_starts _ _ Hd)). rewrite Hd, Hs. reflexivity.
  Qed.
End Text.

(* ---- when is the clamp needed? only when the last line of the document is unterminated ---- *)
Lemma split_lines_nil s : split_lines s = [] -> s = [].
Proof.
  destruct s as [|c s]; [reflexivity|]. simpl. destruct (eol_here c s); [discriminate|].
  destruct (split_lines s); discriminate.
Qed.

Lemma eol_here_nil c s : eol_here c s = true -> eol_here c [] = true.
Proof.
  unfold eol_here. destruct (N.eqb c NL); [reflexivity|]. simpl.
  destruct (N.eqb c CR); [reflexivity|discriminate].
Qed.

Lemma split_lines_length s :
  length (split_lines s) = (count_eol s + (if open_tail s then 1 else 0))%nat.
Proof.
  induction s as [|c s IH]; [reflexivity|].
  simpl split_lines. simpl count_eol.
  destruct (eol_here c s) eqn:He.
  - simpl length. rewrite IH. destruct s as [|c' s'].
    + simpl. rewrite (eol_here_nil c [] He). reflexivity.
    + reflexivity.
  - destruct s as [|c' s'].
    + simpl. rewrite He. reflexivity.
    + destruct (split_lines (c' :: s')) as [|l ls] eqn:Es.
      * apply split_lines_nil in Es. discriminate.
      * change (open_tail (c :: c' :: s')) with (open_tail (c' :: s')).
        simpl length in *. rewrite IH. reflexivity.
Qed.

Lemma in_doc_strict s e :
  open_tail s = false -> edit_in_doc s e = true -> edit_in_doc_strict s e = true.
Proof.
  intros Ho H. unfold edit_in_doc in H. unfold edit_in_doc_strict.
  rewrite split_lines_length, Ho, Nat.add_0_r in H. exact H.
Qed.
