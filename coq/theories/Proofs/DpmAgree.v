(* Proofs about Model/DpmAgree.v (C12): the directory the directory-package-mismatch FIX computes from a
   package path is the one the RULE expects, for every package path and both settings of
   exclude-test-suffix. *)
From Regal Require Import Model.DpmAgree.
From Coq Require Import Lia.

Local Open Scope nat_scope.

Lemma strs_eqb_spec a : forall b, strs_eqb a b = true <-> a = b.
Proof.
  induction a as [|x a IH]; intros [|y b]; simpl; try (split; [discriminate|congruence]); [tauto|].
  rewrite Bool.andb_true_iff, IH, str_eqb_eq. split; [intros [-> ->]; reflexivity|intros H; injection H; tauto].
Qed.

Lemma strs_eqb_refl a : strs_eqb a a = true.
Proof. apply strs_eqb_spec. reflexivity. Qed.

Lemma last_n_app {A} (r d : list A) : last_n (length d) (r ++ d) = d.
Proof.
  unfold last_n. rewrite app_length. replace (length r + length d - length d) with (length r) by lia.
  rewrite skipn_app, skipn_all, Nat.sub_diag. reflexivity.
Qed.

Lemma last_n_zero {A} (l : list A) : last_n 0 l = [].
Proof. unfold last_n. rewrite Nat.sub_0_r. apply skipn_all. Qed.

Lemma regular_nonempty c : regular_name c = true -> nil_b c = false.
Proof. destruct c; [discriminate|reflexivity]. Qed.

Lemma rev_last (pkg : list str) l r : rev pkg = l :: r -> pkg = removelast pkg ++ [l] /\ last pkg [] = l.
Proof.
  intros H. assert (E : pkg = rev r ++ [l]) by (rewrite <- (rev_involutive pkg), H; reflexivity).
  rewrite E. rewrite removelast_last, last_last. split; reflexivity.
Qed.

(* ---- the loop of getPackagePathDirectory, trimming the last component only ---- *)
Lemma fix_parts_last ex : forall pkg i n ps,
  n = i + length pkg -> pkg <> [] ->
  fix_parts_from (trim_last ex) n i pkg = Some ps ->
  ps = removelast pkg ++ [if ex then trim_suffix (last pkg []) sfx_test else last pkg []]
  /\ Forall (fun c => regular_name c = true) pkg.
Proof.
  induction pkg as [|c rest IH]; intros i n ps Hn Hne H; [congruence|].
  cbn [fix_parts_from] in H.
  destruct (regular_name c) eqn:Hc; [|discriminate]. cbn [negb] in H.
  destruct rest as [|c2 rest'].
  - cbn [fix_parts_from] in H. injection H as <-. simpl in Hn.
    unfold trim_last. replace (S i =? n) with true by (symmetry; apply Nat.eqb_eq; lia).
    simpl. split; [destruct ex; reflexivity|]. constructor; [exact Hc|constructor].
  - destruct (fix_parts_from (trim_last ex) n (S i) (c2 :: rest')) as [ps'|] eqn:Hr; [|discriminate].
    injection H as <-.
    destruct (IH (S i) n ps') as [-> HF]; [simpl in *; lia|discriminate|exact Hr|].
    unfold trim_last. replace (S i =? n) with false by (symmetry; apply Nat.eqb_neq; simpl in Hn; lia).
    split; [reflexivity|]. constructor; assumption.
Qed.

Lemma filter_nonempty_regular (l : list str) :
  Forall (fun c => regular_name c = true) l -> filter (fun p => negb (nil_b p)) l = l.
Proof.
  induction 1 as [|c l Hc _ IH]; simpl; [reflexivity|].
  rewrite (regular_nonempty c Hc). simpl. rewrite IH. reflexivity.
Qed.

Lemma forall_removelast {A} (P : A -> Prop) l : Forall P l -> Forall P (removelast l).
Proof.
  induction 1 as [|x l Hx Hl IH]; simpl; [constructor|]. destruct l; [constructor|]. constructor; assumption.
Qed.

(* ---- the two computations give the same directory components ---- *)
Theorem dpm_same_values ex pkg d :
  pkg <> [] -> fix_dirs ex pkg = Some d -> rule_pkg_values ex pkg = Some d.
Proof.
  intros Hne H. unfold fix_dirs, fix_dirs_with in H.
  destruct (fix_parts_from (trim_last ex) (length pkg) 0 pkg) as [ps|] eqn:Hp; [|discriminate].
  injection H as <-.
  destruct (fix_parts_last ex pkg 0 (length pkg) ps eq_refl Hne Hp) as [-> HF].
  rewrite filter_app.
  pose proof (filter_nonempty_regular _ (forall_removelast _ _ HF)) as Hfilt.
  unfold str in *. rewrite Hfilt. clear Hfilt.
  unfold rule_pkg_values. unfold str in *.
  destruct (rev pkg) as [|l r] eqn:Hrev.
  { exfalso. apply Hne. rewrite <- (rev_involutive pkg), Hrev. reflexivity. }
  destruct (rev_last pkg l r Hrev) as [Epkg Elast]. unfold str in *. rewrite Elast.
  assert (Hl : regular_name l = true).
  { rewrite Epkg in HF. apply Forall_app in HF as [_ HF]. inversion HF; assumption. }
  destruct ex; cbn [filter].
  - destruct (nil_b (trim_suffix l sfx_test)); reflexivity.
  - rewrite (regular_nonempty l Hl). cbn [negb]. rewrite <- Epkg. reflexivity.
Qed.

(* ---- the directory the fix moves a file to is one the rule accepts, under every root ---- *)
Theorem dpm_rule_and_fix_agree ex pkg d root :
  fix_dirs ex pkg = Some d -> rule_reports ex pkg (root ++ d) = false.
Proof.
  intros H. unfold rule_reports, rule_reports_with.
  destruct pkg as [|c rest].
  - unfold fix_dirs, fix_dirs_with in H. simpl in H. injection H as <-.
    destruct ex; simpl; [reflexivity|]. rewrite last_n_zero. reflexivity.
  - rewrite (dpm_same_values ex (c :: rest) d ltac:(discriminate) H).
    rewrite last_n_app, strs_eqb_refl. reflexivity.
Qed.

(* ---- and it is the only one: the rule is silent exactly for the files whose last directory
        components are the ones the fix computes ---- *)
Theorem dpm_rule_silent_iff ex pkg d dirs :
  pkg <> [] -> fix_dirs ex pkg = Some d ->
  (rule_reports ex pkg dirs = false <-> last_n (length d) dirs = d).
Proof.
  intros Hne H. unfold rule_reports, rule_reports_with. rewrite (dpm_same_values ex pkg d Hne H).
  rewrite Bool.negb_false_iff. apply strs_eqb_spec.
Qed.

(* ---- in terms of what Fix answers: "file is where it should be" only where the rule reports nothing,
        and a move goes to a place where the rule reports nothing ---- *)
Theorem dpm_fix_answer_sound ex pkg root dirs :
  match fix_answer_of ex pkg root dirs with
  | FixInPlace => rule_reports ex pkg dirs = false
  | FixMoveTo dirs' => rule_reports ex pkg dirs' = false /\ dirs' <> dirs
  | FixRefuses => fix_dirs ex pkg = None
  end.
Proof.
  unfold fix_answer_of, fix_answer_with. fold (fix_dirs ex pkg).
  destruct (fix_dirs ex pkg) as [d|] eqn:H; [|reflexivity].
  destruct (strs_eqb (root ++ d) dirs) eqn:E.
  - apply strs_eqb_spec in E. subst dirs. apply dpm_rule_and_fix_agree. exact H.
  - split; [apply dpm_rule_and_fix_agree; exact H|].
    intros E'. rewrite E', strs_eqb_refl in E. discriminate.
Qed.

(* a reported file is never "in place": the fix moves it (or refuses the package name) *)
Corollary dpm_reported_is_moved ex pkg root dirs :
  rule_reports ex pkg dirs = true -> fix_answer_of ex pkg root dirs <> FixInPlace.
Proof.
  intros Hr Hf. pose proof (dpm_fix_answer_sound ex pkg root dirs) as S. rewrite Hf in S. congruence.
Qed.
