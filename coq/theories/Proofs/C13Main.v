(* The statements of Props/C13.v, assembled from the lemmas of the other proof files. *)
From Regal Require Import Model.Commit Base.StrLit.
From Regal Require Import Proofs.Provider Proofs.CleanPath Proofs.Rename Proofs.Candidate Proofs.Roots
     Proofs.Commit Proofs.Conserve Proofs.CommitTotal.
From Coq Require Import Permutation Lia.

Lemma provider_refines_map_main (C : Type) (p : provider C) :
  (forall f c g, aget (pv_files (pv_put p f c)) g = if str_eqb f g then Some c else aget (pv_files p) g)
  /\ (forall f g, aget (pv_files (pv_delete p f)) g = if str_eqb f g then None else aget (pv_files p) g)
  /\ (forall from to p', pv_rename p from to = RenOk p' ->
        exists c, aget (pv_files p) from = Some c
                  /\ ~ In to (akeys (pv_files p))
                  /\ disk_occupied p to = false
                  /\ p' = pv_delete (pv_put p to c) from)
  /\ (forall from to, pv_rename p from to = RenConflict \/ pv_rename p from to = RenNotFound ->
        True).
Proof.
  repeat split.
  - intros. apply put_get.
  - intros. apply delete_get.
  - intros from to p'. apply rename_ok_spec.
Qed.

Lemma provider_invariant_main (C : Type) (files0 : amap C) (disk : list str) fuel pol starting xs p r :
  NoDup (akeys files0) ->
  run_fixes pv_rename fuel pol starting (new_provider files0 disk) new_report xs = SOk p r ->
  pinv C files0 disk p.
Proof.
  intros Hnd H. eapply pinv_run_fixes; [|exact H]. apply pinv_init. exact Hnd.
Qed.

Lemma rename_conservation_main (T : Type) (files0 : amap T) (disk : list str) fuel pol starting
      (xs : list (fixres (tagged T))) p r :
  NoDup (akeys files0) ->
  Forall preserves_origin xs ->
  run_fixes pv_rename fuel pol starting (new_provider (tag_files files0) disk) new_report xs = SOk p r ->
  (has_conflicts r = false ->
     Permutation (origins (pv_files p)) (akeys files0)
     /\ NoDup (akeys (pv_files p))
     /\ (forall f, In f (pv_modified p) -> In f disk -> In f (akeys files0)))
  /\ (pol = PRename -> has_conflicts r = false)
  /\ (has_conflicts r = true ->
        forall (fl : flags) cwd gv roots (fs : fsys (tagged T)) dl ml,
          finish_command fl cwd gv roots fs (LDone p r) dl ml = (OutConflicts, fs)).
Proof.
  intros Hnd Hxs Hrun.
  assert (Hnd' : NoDup (akeys (tag_files files0))) by (rewrite akeys_tag; exact Hnd).
  assert (I0 : pinv (tagged T) (tag_files files0) disk (new_provider (tag_files files0) disk))
    by (apply pinv_init; exact Hnd').
  assert (I : pinv (tagged T) (tag_files files0) disk p) by (eapply pinv_run_fixes; eassumption).
  assert (Hc0 : conserved T (tag_files files0) (new_provider (tag_files files0) disk) new_report).
  { intros _. simpl. rewrite origins_tag, akeys_tag. apply Permutation_refl. }
  pose proof (conserved_run_fixes T (tag_files files0) disk fuel pol starting xs _ _ p r I0 Hc0 Hxs Hrun) as Hc.
  split; [|split].
  - intros Hnc. split; [|split].
    + rewrite <- (akeys_tag T files0). apply Hc. exact Hnc.
    + apply (inv_nodup I).
    + intros f Hm Hd. rewrite <- (akeys_tag T files0). apply (inv_disk I f Hm Hd).
  - intros ->. rewrite (rename_policy_no_conflict T fuel starting xs _ _ p r Hrun). reflexivity.
  - intros Hconf fl cwd gv roots fs dl ml. apply conflicts_no_disk_op_lemma. exact Hconf.
Qed.

Lemma candidate_fresh_main (C : Type) fuel starting (p : provider C) r root from to ds nb :
  clean_file to ds nb ->
  (length (occupied p) < fuel)%nat ->
  handle_rename pv_rename fuel PRename starting p r root from to <> SOutOfFuel
  /\ forall p' r',
      handle_rename pv_rename fuel PRename starting p r root from to = SOk p' r' ->
      exists k c,
        aget (pv_files p) from = Some c
        /\ ~ In (cand_iter k to) (akeys (pv_files p))
        /\ disk_occupied p (cand_iter k to) = false
        /\ dir (cand_iter k to) = cpath ds
        /\ p' = pv_delete (pv_put p (cand_iter k to) c) from.
Proof.
  intros Hcf Hfuel. split.
  - eapply handle_rename_terminates; eassumption.
  - intros p' r' H. destruct (handle_rename_ok C fuel _ _ _ _ _ _ _ _ H) as [k [c [H1 [H2 [H3 [H4 _]]]]]].
    exists k, c. repeat split; try assumption. eapply cand_iter_dir. exact Hcf.
Qed.

Lemma commit_effect_main (C : Type) roots (fs : fsys C) files dl ml fs' :
  fs_wf fs -> commit roots fs files dl ml = CommitOk fs' ->
  fs_wf fs' /\
  forall g, aget (fs_files fs') g =
            if str_in g ml then aget files g
            else if str_in g dl then None
            else aget (fs_files fs) g.
Proof. apply commit_effect_lemma. Qed.

(* when a target directory cannot be created the commit stops before a single file is touched *)
Lemma blocked_directory_no_loss_main (C : Type) roots (fs : fsys C) files dl ml fs' :
  mkdir_phase fs ml = CommitFailed fs' ->
  commit roots fs files dl ml = CommitFailed fs' /\ fs_files fs' = fs_files fs.
Proof.
  intros H. split; [unfold commit; rewrite H; reflexivity | eapply mkdir_phase_failed_files; exact H].
Qed.

Lemma cleanup_spares_roots_main (C : Type) (fs : fsys C) target roots ds :
  dir_cleanup_paths fs target roots = CwOk ds ->
  forall d, In d ds -> fs_is_dir fs d = true /\ ~ In d roots.
Proof. apply cleanup_spares_roots. Qed.

Lemma root_contains_file_main path roots :
  let r := find_closest_matching_root path roots in
  (r = [] \/ r = path
   \/ (In r roots /\ exists rest, path = trim_suffix r [SLASH] ++ [SLASH] ++ rest))
  /\ (forall x, ~ In path roots -> In x roots -> root_matches path x = true -> (length x <= length r)%nat)
  /\ (forall ps cs, path = cpath ps -> r = cpath cs -> Forall regular ps -> Forall regular cs ->
                    exists qs, ps = cs ++ qs).
Proof.
  cbv zeta. split; [apply fcmr_sound|]. split.
  - intros x H1 H2 H3. apply fcmr_closest; assumption.
  - intros ps cs -> Hr Hps Hcs. eapply fcmr_contains_components; eassumption.
Qed.

(* the commit cannot stop half way: either it goes through, or it stops in the directory creation
   phase, before a single file has been touched *)
Lemma commit_total_main (C : Type) roots (fs : fsys C) files dl (tl : list target) :
  fs_tree fs ->
  Forall treg tl -> independent tl ->
  (forall t, In t tl -> aget files (tpath t) <> None /\ fs_is_dir fs (tpath t) = false) ->
  NoDup dl ->
  (forall f, In f dl -> fs_is_file fs f = true /\ anchored (preserve_dirs roots) f) ->
  (exists fs', commit roots fs files dl (map tpath tl) = CommitOk fs')
  \/ (exists fs', commit roots fs files dl (map tpath tl) = CommitFailed fs'
                  /\ fs_files fs' = fs_files fs).
Proof. apply commit_total_lemma. Qed.

(* decidable checks for concrete trees *)
Fixpoint nodupb (l : list str) : bool :=
  match l with [] => true | x :: l' => negb (str_in x l') && nodupb l' end.

Lemma nodupb_spec l : nodupb l = true -> NoDup l.
Proof.
  induction l as [|x l IH]; simpl; intros H; [constructor|].
  apply andb_true_iff in H as [H1 H2]. constructor; [|apply IH; exact H2].
  apply negb_true_iff in H1. apply str_in_false. exact H1.
Qed.

Lemma fs_tree_check {C} (fs : fsys C) :
  forallb (fun k => negb (str_in k (fs_dirs fs))) (akeys (fs_files fs)) = true ->
  nodupb (akeys (fs_files fs)) = true ->
  fs_is_dir fs [SLASH] = true ->
  forallb (fun p => fs_is_dir fs (dir p)) (fs_entries fs) = true ->
  fs_tree fs.
Proof.
  intros H1 H2 H3 H4. constructor.
  - intros p Hp. unfold fs_is_file in Hp. apply amem_in in Hp.
    rewrite forallb_forall in H1. specialize (H1 p Hp). apply negb_true_iff in H1. exact H1.
  - apply nodupb_spec. exact H2.
  - exact H3.
  - intros p Hp. rewrite forallb_forall in H4. apply H4. exact Hp.
Qed.

(* ---------------------------------------------------------------- witnesses against the pinned code *)
From Coq Require Import String.
Local Open Scope string_scope.

(* Rename consulted only the in-memory map: a target that exists on disk without having been
   loaded was accepted (and later overwritten) *)
Lemma rename_pinned_refuted_main :
  exists (p : provider str) from to p',
    In to (pv_disk p) /\ ~ In to (akeys (pv_files p)) /\ ~ In to (pv_deleted p)
    /\ pv_rename_pinned p from to = RenOk p'
    /\ In to (pv_modified p')
    /\ pv_rename p from to = RenConflict.
Proof.
  exists (new_provider [(lit "/R/p/x.rego", lit "A")] [lit "/R/p/x.rego"; lit "/R/a/x.rego"]),
         (lit "/R/p/x.rego"), (lit "/R/a/x.rego").
  eexists. split; [right; left; reflexivity|]. split; [vm_compute; intuition discriminate|].
  split; [intros []|]. split; [vm_compute; reflexivity|]. split; [left; reflexivity | vm_compute; reflexivity].
Qed.

(* deletes before directory creation: with a regular file where the package directory has to go
   the pinned order removes the source and then fails; the repaired order fails first *)
Definition blocked_fs : fsys str :=
  {| fs_files := [(lit "/R/p/x.rego", lit "A"); (lit "/R/a", lit "blocker")];
     fs_dirs := [lit "/"; lit "/R"; lit "/R/p"] |}.
Definition blocked_files : amap str := [(lit "/R/a/x.rego", lit "A")].

Lemma commit_pinned_refuted_main :
  exists fs',
    commit_pinned [lit "/R"] blocked_fs blocked_files [lit "/R/p/x.rego"] [lit "/R/a/x.rego"] = CommitFailed fs'
    /\ aget (fs_files blocked_fs) (lit "/R/p/x.rego") = Some (lit "A")
    /\ fs_files fs' = [(lit "/R/a", lit "blocker")]          (* the moved file is nowhere any more *)
    /\ exists fs'', commit [lit "/R"] blocked_fs blocked_files [lit "/R/p/x.rego"] [lit "/R/a/x.rego"] = CommitFailed fs''
                    /\ fs_files fs'' = fs_files blocked_fs.
Proof.
  eexists. split; [vm_compute; reflexivity|]. split; [vm_compute; reflexivity|]. split.
  - vm_compute. reflexivity.
  - eexists. split; vm_compute; reflexivity.
Qed.

(* decidable check of [fs_wf] for concrete trees *)
Lemma fs_wf_check {C} (fs : fsys C) :
  forallb (fun k => negb (str_in k (fs_dirs fs))) (akeys (fs_files fs)) = true -> fs_wf fs.
Proof.
  intros H p Hp. unfold fs_is_file in Hp. apply amem_in in Hp.
  rewrite forallb_forall in H. specialize (H p Hp). apply negb_true_iff in H. exact H.
Qed.
