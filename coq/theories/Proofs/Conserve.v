(* End to end: the command, run on a tree whose files carry their own path as a tag, leaves a tree
   in which every tag occurs exactly once; files it did not load keep path and content. *)
From Regal Require Import Model.Commit Proofs.Provider Proofs.Rename Proofs.Commit.
From Coq Require Import Permutation Lia.

(* ---------------------------------------------------------------- association lists as multisets *)
Section AssocPerm.
  Context {V : Type}.

  Lemma aget_app (a b : amap V) k :
    aget (a ++ b) k = match aget a k with Some v => Some v | None => aget b k end.
  Proof.
    induction a as [|[k0 v0] a IH]; simpl; [reflexivity|].
    destruct (str_eqb k0 k); [reflexivity | exact IH].
  Qed.

  Lemma aget_in (m : amap V) k v : NoDup (akeys m) -> In (k, v) m -> aget m k = Some v.
  Proof.
    induction m as [|[k0 v0] m IH]; simpl; intros Hnd Hin; [destruct Hin|].
    inversion Hnd as [|? ? Hni Hnd']; subst.
    destruct Hin as [[= -> ->]|Hin]; [rewrite str_eqb_refl; reflexivity|].
    destruct (str_eqb_spec k0 k) as [->|Hne]; [|apply IH; assumption].
    exfalso. apply Hni. apply in_map_iff. exists (k, v). split; [reflexivity | exact Hin].
  Qed.

  Lemma aget_some_in (m : amap V) k v : aget m k = Some v -> In (k, v) m.
  Proof.
    induction m as [|[k0 v0] m IH]; simpl; [discriminate|].
    destruct (str_eqb_spec k0 k) as [->|Hne]; [intros [= ->]; left; reflexivity | intros H; right; apply IH; exact H].
  Qed.

  (* two duplicate-free association lists denoting the same map are permutations of each other *)
  Lemma aget_ext_perm (a b : amap V) :
    NoDup (akeys a) -> NoDup (akeys b) -> (forall k, aget a k = aget b k) -> Permutation a b.
  Proof.
    intros Ha Hb Hext. apply NoDup_Permutation.
    - eapply NoDup_map_inv. exact Ha.
    - eapply NoDup_map_inv. exact Hb.
    - intros [k v]. split; intros Hin.
      + apply aget_some_in. rewrite <- Hext. apply aget_in; assumption.
      + apply aget_some_in. rewrite Hext. apply aget_in; assumption.
  Qed.

  Lemma akeys_filter_in (m : amap V) (f : str * V -> bool) k :
    In k (akeys (filter f m)) -> In k (akeys m).
  Proof.
    unfold akeys. intros H. apply in_map_iff in H as [kv [<- Hin]].
    apply filter_In in Hin as [Hin _]. apply in_map. exact Hin.
  Qed.

  Lemma nodup_keys_filter (m : amap V) (f : str * V -> bool) :
    NoDup (akeys m) -> NoDup (akeys (filter f m)).
  Proof.
    induction m as [|[k v] m IH]; simpl; intros Hnd; [constructor|].
    inversion Hnd as [|? ? Hni Hnd']; subst.
    destruct (f (k, v)); [|apply IH; assumption]. simpl. constructor; [|apply IH; assumption].
    intros H. apply Hni. eapply akeys_filter_in. exact H.
  Qed.

  Lemma aget_filter_key (m : amap V) (g : str -> bool) k :
    aget (filter (fun kv => g (fst kv)) m) k = if g k then aget m k else None.
  Proof.
    induction m as [|[k0 v0] m IH]; simpl; [destruct (g k); reflexivity|].
    destruct (g k0) eqn:E0; simpl.
    - destruct (str_eqb_spec k0 k) as [->|Hne]; [rewrite E0; reflexivity | exact IH].
    - destruct (str_eqb_spec k0 k) as [->|Hne]; [rewrite E0 in IH |- *; exact IH | exact IH].
  Qed.
End AssocPerm.

(* ---------------------------------------------------------------- loading the provider *)
Section Load.
  Variable C : Type.

  Lemma load_files_spec (fs : fsys C) : forall sel acc m,
    load_files fs sel acc = Some m ->
    NoDup (akeys acc) ->
    (forall k, In k (akeys acc) -> aget acc k = aget (fs_files fs) k) ->
    NoDup (akeys m) /\ (forall k, In k (akeys m) -> aget m k = aget (fs_files fs) k).
  Proof.
    induction sel as [|f sel IH]; intros acc m H Hnd Hacc; simpl in H.
    - injection H as <-. split; assumption.
    - destruct (aget (fs_files fs) f) as [c|] eqn:E; [|discriminate].
      apply (IH _ _ H); [apply nodup_keys_aset; exact Hnd|].
      intros k Hk. destruct (str_eqb_spec f k) as [->|Hne].
      + rewrite aget_aset_eq. symmetry. exact E.
      + rewrite aget_aset_neq by exact Hne. apply Hacc.
        apply in_keys_aset in Hk as [->|Hk]; [contradiction | exact Hk].
  Qed.

  Lemma load_provider_spec (fs : fsys C) sel p0 :
    load_provider fs sel = Some p0 ->
    NoDup (akeys (pv_files p0))
    /\ (forall k, In k (akeys (pv_files p0)) -> aget (pv_files p0) k = aget (fs_files fs) k)
    /\ p0 = new_provider (pv_files p0) (fs_entries fs).
  Proof.
    unfold load_provider. destruct (load_files fs sel []) as [m|] eqn:E; [|discriminate].
    intros [= <-]. simpl.
    destruct (load_files_spec fs sel [] m E) as [H1 H2]; [constructor | intros k [] |].
    repeat split; assumption.
  Qed.
End Load.

(* ---------------------------------------------------------------- the theorem *)
Section Conserve.
  Variable T : Type.
  Notation tagged := (tagged T).

  Lemma str_in_perm (l l' : list str) x : Permutation l l' -> str_in x l = str_in x l'.
  Proof.
    intros HP. destruct (str_in x l') eqn:E.
    - apply str_in_spec. apply str_in_spec in E. eapply Permutation_in; [apply Permutation_sym; exact HP | exact E].
    - apply str_in_false. apply str_in_false in E. intros H. apply E. eapply Permutation_in; eassumption.
  Qed.

  Lemma self_tagged_sub (m m' : amap tagged) :
    self_tagged m -> (forall kv, In kv m' -> In kv m) -> self_tagged m'.
  Proof. intros H Hsub kv Hin. apply H, Hsub, Hin. Qed.

  Theorem fix_conserves_lemma
      (fs0 : fsys T) (sel : list str) (p0 : provider tagged)
      (pol : policy) (fuel : nat) (xs : list (fixres tagged)) (p : provider tagged) (r : report)
      (fl : flags) (cwd : str) (gv : git_view) (roots dl ml : list str)
      (out : outcome) (fs1 : fsys tagged) :
    fs_wf (tag_fs fs0) ->
    NoDup (akeys (fs_files fs0)) ->
    load_provider (tag_fs fs0) sel = Some p0 ->
    Forall preserves_origin xs ->
    run_fixes pv_rename fuel pol (akeys (pv_files p0)) p0 new_report xs = SOk p r ->
    Permutation dl (pv_deleted p) -> Permutation ml (pv_modified p) ->
    finish_command fl cwd gv roots (tag_fs fs0) (LDone p r) dl ml = (out, fs1) ->
    (out = OutDone ->
       Permutation (origins (fs_files fs1)) (akeys (fs_files fs0))
       /\ NoDup (akeys (fs_files fs1))
       /\ (forall f, In f (akeys (fs_files fs0)) -> ~ In f (akeys (pv_files p0)) ->
                     aget (fs_files fs1) f = aget (fs_files (tag_fs fs0)) f))
    /\ (out <> OutDone -> out <> OutCommitFailed -> fs1 = tag_fs fs0).
  Proof.
    intros W Hnd0 Hload Hxs Hrun Hdl Hml Hfin.
    split.
    2:{ intros H1 H2.
        pose proof (no_commit_no_change tagged fl cwd gv roots (tag_fs fs0) (LDone p r) dl ml) as N.
        rewrite Hfin in N. destruct N as [N|[N|N]]; [contradiction | contradiction | exact N]. }
    intros Hout.
    set (fst0 := tag_fs fs0) in *.
    destruct (load_provider_spec tagged fst0 sel p0 Hload) as [Hndm [Hm0 Hp0]].
    set (m0 := pv_files p0) in *.
    set (disk := fs_entries fst0) in *.
    assert (I0 : pinv tagged m0 disk p0) by (rewrite Hp0; apply pinv_init; exact Hndm).
    assert (I : pinv tagged m0 disk p)
      by exact (pinv_run_fixes tagged m0 disk fuel pol _ xs p0 new_report p r I0 Hrun).
    assert (Hst0 : self_tagged (fs_files fst0)) by apply self_tagged_tag.
    assert (Hstm : self_tagged m0).
    { intros [k v] Hin. apply Hst0. apply aget_some_in. rewrite <- Hm0.
      - apply aget_in; assumption.
      - apply in_map_iff. exists (k, v). split; [reflexivity | exact Hin]. }
    assert (Hc0 : conserved T m0 p0 new_report).
    { intros _. rewrite origins_self_tagged by exact Hstm. apply Permutation_refl. }
    assert (Hc : conserved T m0 p r)
      by exact (conserved_run_fixes T m0 disk fuel pol _ xs p0 new_report p r I0 Hc0 Hxs Hrun).
    (* the command reached the commit, and it succeeded *)
    unfold finish_command in Hfin.
    destruct (has_conflicts r) eqn:Hconf; [injection Hfin as <- _; discriminate|].
    match type of Hfin with context [match ?g with GProceed => _ | GRefuse => _ end] => destruct g end;
      [|injection Hfin as <- _; discriminate].
    destruct (fl_dry_run fl); [injection Hfin as <- _; discriminate|].
    destruct (commit roots fst0 (pv_files p) dl ml) as [fsx|fsx|] eqn:Ecommit;
      [|injection Hfin as <- _; discriminate|injection Hfin as <- _; discriminate].
    injection Hfin as _ <-.
    destruct (commit_effect_nodup tagged roots fst0 (pv_files p) dl ml fsx W Ecommit) as [_ [Heff Hndx]].
    { unfold fst0, tag_fs. simpl. rewrite akeys_tag. exact Hnd0. }
    (* what the tree must be: the files that were not loaded, then the provider's files *)
    pose (g := fun k : str => negb (amem m0 k)).
    set (unsel := filter (fun kv : str * tagged => g (fst kv)) (fs_files fst0)).
    assert (Hndd : NoDup (akeys (fs_files fst0))).
    { unfold fst0, tag_fs. simpl. rewrite akeys_tag. exact Hnd0. }
    assert (Hkeys_sub : forall k, In k (akeys m0) -> In k (akeys (fs_files fst0))).
    { intros k Hk. apply aget_in_keys. rewrite <- Hm0 by exact Hk. apply aget_in_keys. exact Hk. }
    assert (Hdisk_in : forall k, In k (akeys (fs_files fst0)) -> In k disk).
    { intros k Hk. unfold disk, fs_entries. apply in_or_app. left. exact Hk. }
    assert (Hext : forall k, aget (fs_files fsx) k = aget (unsel ++ pv_files p) k).
    { intros k. rewrite Heff, aget_app. unfold unsel. rewrite aget_filter_key. unfold g.
      rewrite (str_in_perm _ _ k Hml), (str_in_perm _ _ k Hdl).
      destruct (str_in k (pv_modified p)) eqn:Em.
      - apply str_in_spec in Em.
        destruct (amem m0 k) eqn:Ek; cbn [negb]; [reflexivity|].
        destruct (aget (fs_files fst0) k) eqn:Ed; [|reflexivity].
        exfalso. apply amem_false in Ek. apply Ek. apply (inv_disk I k Em).
        apply Hdisk_in. apply aget_in_keys. congruence.
      - apply str_in_false in Em.
        destruct (str_in k (pv_deleted p)) eqn:Edel.
        + apply str_in_spec in Edel.
          assert (Hnk : ~ In k (akeys (pv_files p))).
          { intros Hk. apply Em. apply (inv_del I k Edel Hk). }
          apply aget_none_not_in in Hnk. rewrite Hnk.
          destruct (amem m0 k) eqn:Ek; cbn [negb]; [reflexivity|].
          destruct (aget (fs_files fst0) k) eqn:Ed; [|reflexivity].
          exfalso. apply amem_false in Ek. apply Ek. apply (inv_del_disk I k Edel).
          apply Hdisk_in. apply aget_in_keys. congruence.
        + apply str_in_false in Edel.
          destruct (amem m0 k) eqn:Ek; cbn [negb].
          * apply amem_in in Ek.
            destruct (in_dec_str k (akeys (pv_files p))) as [Hk|Hk].
            -- rewrite (inv_untouched I k Hk Em). symmetry. apply Hm0. exact Ek.
            -- exfalso. apply Edel. apply (inv_gone I k Ek Hk).
          * apply amem_false in Ek.
            destruct (aget (fs_files fst0) k) eqn:Ed; [reflexivity|].
            destruct (in_dec_str k (akeys (pv_files p))) as [Hk|Hk].
            -- exfalso. apply Ek. apply (in_keys_orig _ _ _ _ _ I Hk Em).
            -- apply aget_none_not_in in Hk. symmetry. exact Hk. }
    assert (Hnde : NoDup (akeys (unsel ++ pv_files p))).
    { unfold akeys. rewrite map_app. apply NoDup_app_intro.
      - apply (nodup_keys_filter (fs_files fst0)). exact Hndd.
      - apply (inv_nodup I).
      - intros k Hk1 Hk2.
        assert (Hk1' : aget unsel k <> None) by (apply aget_in_keys; exact Hk1).
        unfold unsel in Hk1'. rewrite aget_filter_key in Hk1'. unfold g in Hk1'.
        destruct (amem m0 k) eqn:Ek; cbn [negb] in Hk1'; [congruence|].
        apply amem_false in Ek.
        assert (Hkd : In k disk).
        { apply Hdisk_in. apply aget_in_keys. exact Hk1'. }
        destruct (in_dec_str k (pv_modified p)) as [Hm|Hm].
        + apply Ek. apply (inv_disk I k Hm Hkd).
        + apply Ek. apply (in_keys_orig _ _ _ _ _ I Hk2 Hm). }
    pose proof (aget_ext_perm _ _ Hndx Hnde Hext) as HP.
    split; [|split].
    - (* origins *)
      eapply perm_trans; [apply Permutation_map; exact HP|].
      unfold origins. rewrite map_app.
      eapply perm_trans; [apply Permutation_app_head; apply (Hc Hconf)|].
      (* origins of the unselected part are their keys; together with the loaded keys they are all keys *)
      assert (Hsu : self_tagged unsel).
      { apply (self_tagged_sub (fs_files fst0)); [exact Hst0|].
        intros kv Hin. unfold unsel in Hin. apply filter_In in Hin. tauto. }
      fold (origins unsel). rewrite (origins_self_tagged T unsel Hsu).
      replace (akeys (fs_files fs0)) with (akeys (fs_files fst0))
        by (unfold fst0, tag_fs; simpl; apply akeys_tag).
      apply NoDup_Permutation.
      + apply NoDup_app_intro; [apply (nodup_keys_filter (fs_files fst0)); exact Hndd | exact Hndm |].
        intros k Hk1 Hk2.
        assert (Hk1' : aget unsel k <> None) by (apply aget_in_keys; exact Hk1).
        unfold unsel in Hk1'. rewrite aget_filter_key in Hk1'. unfold g in Hk1'.
        apply amem_in in Hk2. rewrite Hk2 in Hk1'. cbn [negb] in Hk1'. congruence.
      + exact Hndd.
      + intros k. rewrite in_app_iff. split.
        * intros [Hk|Hk]; [eapply akeys_filter_in; exact Hk | apply Hkeys_sub; exact Hk].
        * intros Hk. destruct (amem m0 k) eqn:Ek.
          -- right. apply amem_in. exact Ek.
          -- left. apply aget_in_keys. unfold unsel. rewrite aget_filter_key. unfold g. rewrite Ek. cbn [negb].
             apply aget_in_keys. exact Hk.
    - exact Hndx.
    - intros f Hf Hnf. rewrite Hext, aget_app. unfold unsel. rewrite aget_filter_key. unfold g.
      apply amem_false in Hnf. fold m0 in Hnf. rewrite Hnf. cbn [negb].
      assert (Hf' : In f (akeys (fs_files fst0))).
      { unfold fst0, tag_fs. simpl. rewrite akeys_tag. exact Hf. }
      apply aget_in_keys in Hf'. destruct (aget (fs_files fst0) f); [reflexivity | congruence].
  Qed.
End Conserve.
