(* C19: obligations on the table regenerated from the .rego sources (Gen/GatedRules.v). *)
From Regal Require Import Base.Str Model.Notices Proofs.Notices Gen.GatedRules.

Lemma gated_rules_match_needs : table_matches gated_rules needs_table = true.
Proof. vm_compute. reflexivity. Qed.

Lemma gated_rules_have_no_aggregate : gated_with_aggregate = [].
Proof. reflexivity. Qed.

(* every `notices` rule of the bundle fires exactly when the need written down for its rule is unmet,
   for all capabilities and files *)
Lemma gate_matches_needs_lemma g :
  In g gated_rules ->
  exists n, In n needs_table /\ g_cat g = nd_cat n /\ g_title g = nd_title n /\
            g_severity g = nd_severity n /\
            forall c f, eval_body c f (g_body g) = need_unmet (nd_need n) c f.
Proof. apply table_matches_sound. exact gated_rules_match_needs. Qed.
