(* C19: obligations on the table regenerated from the .rego sources (Gen/GatedRules.v). *)
From Regal Require Import Base.Str Model.Notices Proofs.Notices Gen.GatedRules.

Lemma gated_rules_match_needs : table_matches gated_rules needs_table = true.
Proof. vm_compute. reflexivity. Qed.

Lemma gated_rules_have_no_aggregate : gated_with_aggregate = [].
Proof. reflexivity. Qed.

(* every `notices` rule of the bundle fires exactly when the need written down for its rule is unmet,
   for all capabilities and files *)
Lemma gate_matches_needs_lemma g :
  In g gated_rules ->
  exists n, In n needs_table /\ g_cat g = nd_cat n /\ g_title g = nd_title n /\
            g_severity g = nd_severity n /\
            forall c f, eval_body c f (g_body g) = need_unmet (nd_need n) c f.
Proof. apply table_matches_sound. exact gated_rules_match_needs. Qed.

(* the end-to-end statements for the gates of the tree as it is now *)
Lemma bundle_unmet_need_silent_and_listed (F V : Type) (info : F -> file_info)
      (report_of custom_report_of : rule_id -> F -> list V) (c : caps)
      (to_run custom_to_run : list rule_id) (order : list F) (nd : need_row) :
  In nd needs_table ->
  let r := (nd_cat nd, nd_title nd) in
  let notices_of := fun (r : rule_id) (f : F) => table_notices gated_rules c r (info f) in
  In r to_run -> ~ In r custom_to_run ->
  order <> [] ->
  (forall f, In f order -> need_unmet (nd_need nd) c (info f) = true) ->
  (forall f v, ~ In (f, (r, v)) (rego_violations F V notices_of report_of custom_report_of to_run custom_to_run order)) /\
  exists n, In n (lint_notices F notices_of to_run order) /\
            n_category n = nd_cat nd /\ n_title n = nd_title nd /\ n_severity n = nd_severity nd /\ n_level n = s_notice.
Proof.
  intros Hnd r notices_of. apply (unmet_need_silent_and_listed F V info report_of custom_report_of gated_rules needs_table
                                    gated_rules_match_needs c to_run custom_to_run order nd Hnd).
Qed.

Lemma bundle_listed_notice_has_unmet_need (F : Type) (info : F -> file_info) (c : caps)
      (to_run : list rule_id) (order : list F) (n : notice) :
  let notices_of := fun (r : rule_id) (f : F) => table_notices gated_rules c r (info f) in
  In n (lint_notices F notices_of to_run order) ->
  exists nd f, In nd needs_table /\ In f order /\ In (nd_cat nd, nd_title nd) to_run /\
               need_unmet (nd_need nd) c (info f) = true /\
               n_category n = nd_cat nd /\ n_title n = nd_title nd /\ n_severity n = nd_severity nd.
Proof.
  intros notices_of. apply (listed_notice_has_unmet_need F info gated_rules needs_table gated_rules_match_needs c).
Qed.

(* capabilities.rego as it is now: the rules defining the predicates are the ones the model was written from, so a
   predicate holds by its rules exactly when [eval_pred] says so, for all capabilities *)
Lemma cap_pred_rules_as_spec : pred_rules_eqb cap_pred_rules pred_rules_spec = true.
Proof. vm_compute. reflexivity. Qed.

Lemma cap_preds_as_written_lemma p c : pred_by_rules cap_pred_rules p c = eval_pred p c.
Proof. rewrite (pred_rules_eqb_eq _ _ cap_pred_rules_as_spec). apply pred_rules_spec_sound. Qed.

(* each gate follows its own need and no other: the value of a `notices` condition is the same for two targets that
   agree on the dimensions the need of its row reads *)
Lemma gate_follows_its_own_need_lemma g :
  In g gated_rules ->
  exists n, In n needs_table /\ g_cat g = nd_cat n /\ g_title g = nd_title n /\ g_severity g = nd_severity n /\
            forall c c' f, (forall d, In d (need_reads (nd_need n)) -> dim_on d c = dim_on d c') ->
                           eval_body c f (g_body g) = eval_body c' f (g_body g).
Proof.
  intros Hg. destruct (gate_matches_needs_lemma g Hg) as (n & Hn & H1 & H2 & H3 & H4).
  exists n. repeat split; try assumption.
  intros c c' f Hd. rewrite !H4. apply need_unmet_reads_only. exact Hd.
Qed.

(* targets that realise every on/off assignment of the dimensions read by the needs stand for all capabilities:
   for any capabilities c one of the targets gives every gate of the tree the same value as c *)
Lemma covering_targets_suffice_lemma targets :
  dims_covered needs_table targets = true ->
  forall c, exists c0, In c0 targets /\
    forall g f, In g gated_rules -> eval_body c0 f (g_body g) = eval_body c f (g_body g).
Proof.
  intros H c. destruct (dims_covered_sound _ _ H c) as (c0 & Hin & Hr). exists c0. split; [exact Hin|].
  intros g f Hg. destruct (gate_matches_needs_lemma g Hg) as (n & Hn & _ & _ & _ & H4).
  rewrite !H4. apply Hr. exact Hn.
Qed.
