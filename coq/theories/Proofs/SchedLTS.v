(* The worker transition system of Model/Sched.v: every complete execution of a program whose
   shared accesses are all inside its single critical section ends in the sequential fold of
   the per-worker merge, taken in lock-acquisition order. *)
From Coq Require Import List Permutation Lia Arith Bool.
From Regal Require Import Model.Sched.
Import ListNotations.
Local Open Scope nat_scope.

Lemma NoDup_app_snoc {A} (l : list A) (x : A) : NoDup l -> ~ In x l -> NoDup (l ++ [x]).
Proof.
  intros Hnd Hx. induction Hnd as [ | y l Hy Hnd IH]; cbn.
  - constructor; [intros [] | constructor].
  - constructor.
    + intros Hin. apply in_app_or in Hin. destruct Hin as [Hin | [<- | []]]; [contradiction | ].
      apply Hx. left. reflexivity.
    + apply IH. intros Hin. apply Hx. right. exact Hin.
Qed.

Section LTSProof.
  Variable L St R : Type.
  Variable upd : L -> R -> St -> St.
  Variable put : L -> St -> St -> St.
  (* an update of location l only changes location l *)
  Hypothesis put_upd : forall l r s, put l (upd l r s) s = upd l r s.
  Variable leqb : L -> L -> bool.
  Variable written : list L.
  Variable prog : list (stmt L).
  Variable n : nat.
  Variable res : nat -> R.
  Variable s0 : St.
  Hypothesis prog_ok : locked_ok leqb written PBefore prog = true.

  Notation state := (state L St).
  Notation step := (step upd put n res).
  Notation run := (run upd put n res).
  Notation lok := (locked_ok leqb written).

  Definition F (l : list nat) : St := fold_left (merge_of upd prog) (map res l) s0.

  Arguments F l : simpl never.

  Lemma F_snoc l i : F (l ++ [i]) = rest_merge upd (after_lock prog) (res i) (F l).
  Proof. unfold F. rewrite map_app, fold_left_app. reflexivity. Qed.

  Definition tmp_ok (s : state) (i : nat) : Prop :=
    w_tmp (ws s i) = None \/
    (w_tmp (ws s i) = Some (sh s) /\ exists l p, w_prog (ws s i) = SWrite l :: p).

  Definition w_before (s : state) (i : nat) : Prop :=
    ~ In i (acq s) /\ lk s <> Some i /\ lok PBefore (w_prog (ws s i)) = true /\
    after_lock (w_prog (ws s i)) = after_lock prog /\ w_tmp (ws s i) = None.

  Definition w_in (s : state) (i : nat) : Prop :=
    lk s = Some i /\ In i (acq s) /\ lok PIn (w_prog (ws s i)) = true /\
    rest_merge upd (w_prog (ws s i)) (res i) (sh s) = F (acq s) /\ tmp_ok s i.

  Definition w_after (s : state) (i : nat) : Prop :=
    In i (acq s) /\ lk s <> Some i /\ lok PAfter (w_prog (ws s i)) = true /\
    w_tmp (ws s i) = None.

  Definition winv (s : state) (i : nat) : Prop := w_before s i \/ w_in s i \/ w_after s i.

  Definition inv (s : state) : Prop :=
    NoDup (acq s) /\ (forall j, In j (acq s) -> j < n) /\ (forall i, i < n -> winv s i) /\
    (lk s = None -> sh s = F (acq s)) /\ (forall i, lk s = Some i -> i < n).

  Lemma inv_init : inv (init prog s0).
  Proof.
    unfold inv, init; cbn. repeat split.
    - constructor.
    - intros j [].
    - intros i _. left. unfold w_before; cbn. repeat split; auto; discriminate.
    - discriminate.
  Qed.

  Lemma set_w_same (f : nat -> wstate L St) i w : set_w L St f i w i = w.
  Proof. unfold set_w. rewrite Nat.eqb_refl. reflexivity. Qed.

  Lemma set_w_other (f : nat -> wstate L St) i j w : j <> i -> set_w L St f i w j = f j.
  Proof. intros H. unfold set_w. destruct (Nat.eqb_spec j i); [contradiction | reflexivity]. Qed.

  (* a step that changes neither the shared state, the lock nor the history keeps every other
     worker's invariant *)
  Lemma winv_frame (s s' : state) i :
    sh s' = sh s -> lk s' = lk s -> acq s' = acq s -> ws s' i = ws s i -> winv s i -> winv s' i.
  Proof.
    intros Hsh Hlk Hacq Hws [H | [H | H]]; [left | right; left | right; right];
      unfold w_before, w_in, w_after, tmp_ok in *; rewrite ?Hsh, ?Hlk, ?Hacq, ?Hws; exact H.
  Qed.

  Lemma not_in_phase_other (s : state) i j : lk s = Some j -> i <> j -> winv s i ->
    w_before s i \/ w_after s i.
  Proof.
    intros Hlk Hij [H | [H | H]]; [left; exact H | | right; exact H].
    destruct H as [Hl _]. rewrite Hlk in Hl. injection Hl as ->. contradiction.
  Qed.

  Lemma holder_in (s : state) j : lk s = Some j -> winv s j -> w_in s j.
  Proof.
    intros Hlk [H | [H | H]]; [ | exact H | ].
    - destruct H as (_ & Hn & _). contradiction.
    - destruct H as (_ & Hn & _). contradiction.
  Qed.

  Lemma inv_step (s s' : state) j : inv s -> step s j = Some s' -> inv s'.
  Proof.
    intros (Hnd & Hbound & Hw & Hfree & Hheld) Hstep.
    unfold Sched.step in Hstep.
    destruct (Nat.ltb j n) eqn:Hjn; cbn [negb] in Hstep; [ | discriminate].
    apply Nat.ltb_lt in Hjn.
    pose proof (Hw j Hjn) as Hj.
    destruct (w_prog (ws s j)) as [ | hd p] eqn:Hprog; [discriminate | ].
    assert (Hlocal : forall s1, sh s1 = sh s -> lk s1 = lk s -> acq s1 = acq s ->
              ws s1 = set_w L St (ws s) j {| w_prog := p; w_tmp := w_tmp (ws s j) |} ->
              (forall ph, lok ph (hd :: p) = true -> lok ph p = true) ->
              after_lock (hd :: p) = after_lock p ->
              (forall r x, rest_merge upd (hd :: p) r x = rest_merge upd p r x) ->
              (forall l q, hd :: p <> SWrite l :: q) ->
              inv s1).
    { intros s1 Hsh Hlk Hacq Hws Hlok Hal Hrm Hnw.
      unfold inv. rewrite Hlk, Hacq, Hsh. repeat split; auto.
      intros i Hi. destruct (Nat.eq_dec i j) as [-> | Hij].
      - assert (Hwj : ws s1 j = {| w_prog := p; w_tmp := w_tmp (ws s j) |})
          by (rewrite Hws; apply set_w_same).
        destruct Hj as [H | [H | H]].
        + left. destruct H as (H1 & H2 & H3 & H4 & H5). unfold w_before.
          rewrite Hlk, Hacq, Hwj; cbn. rewrite Hprog in H3, H4.
          repeat split; auto. rewrite <- H4. symmetry. exact Hal.
        + right; left. destruct H as (H1 & H2 & H3 & H4 & H5). unfold w_in, tmp_ok.
          rewrite Hlk, Hacq, Hsh, Hwj; cbn. rewrite Hprog in H3, H4.
          repeat split; auto.
          * rewrite <- H4. symmetry. apply Hrm.
          * destruct H5 as [H5 | (_ & l & q & H5)]; [left; exact H5 | ].
            rewrite Hprog in H5. exfalso. exact (Hnw l q H5).
        + right; right. destruct H as (H1 & H2 & H3 & H4). unfold w_after.
          rewrite Hlk, Hacq, Hwj; cbn. rewrite Hprog in H3. repeat split; auto.
      - apply (winv_frame s s1); auto. rewrite Hws. apply set_w_other. exact Hij. }
    destruct hd as [ | | l | l | ].
    - (* Lock *)
      destruct (lk s) as [h | ] eqn:Hlk; [discriminate | ].
      injection Hstep as <-.
      assert (Hjb : w_before s j).
      { destruct Hj as [H | [H | H]]; [exact H | | ].
        - destruct H as (H & _). congruence.
        - destruct H as (_ & _ & H & _). rewrite Hprog in H. discriminate. }
      destruct Hjb as (Hnin & _ & Hlok & Hal & Htmp). rewrite Hprog in Hlok, Hal. cbn in Hlok, Hal.
      unfold inv; cbn. repeat split.
      + apply NoDup_app_snoc; assumption.
      + intros k Hk. apply in_app_or in Hk. destruct Hk as [Hk | [<- | []]]; auto.
      + intros i Hi. destruct (Nat.eq_dec i j) as [-> | Hij].
        * right; left. unfold w_in, tmp_ok; cbn. rewrite set_w_same; cbn.
          repeat split; auto.
          -- apply in_or_app. right. left. reflexivity.
          -- rewrite F_snoc, <- Hal, (Hfree eq_refl). reflexivity.
        * pose proof (Hw i Hi) as [H | [H | H]].
          -- left. destruct H as (H1 & H2 & H3 & H4 & H5). unfold w_before; cbn.
             rewrite set_w_other by exact Hij. repeat split; auto.
             ++ intros Hin. apply in_app_or in Hin. destruct Hin as [Hin | [Hin | []]]; auto.
             ++ intros [= E]. auto.
          -- destruct H as (H & _). congruence.
          -- right; right. destruct H as (H1 & H2 & H3 & H4). unfold w_after; cbn.
             rewrite set_w_other by exact Hij. repeat split; auto.
             ++ apply in_or_app. left. exact H1.
             ++ intros [= E]. auto.
      + discriminate.
      + intros i [= <-]. exact Hjn.
    - (* Unlock *)
      destruct (lk s) as [h | ] eqn:Hlk; [ | discriminate].
      destruct (Nat.eqb_spec h j) as [-> | Hne]; [ | discriminate].
      injection Hstep as <-.
      pose proof (holder_in s j Hlk Hj) as (_ & Hin & Hlok & Hrm & Htmp).
      rewrite Hprog in Hlok, Hrm. cbn in Hlok, Hrm.
      assert (Ht : w_tmp (ws s j) = None).
      { destruct Htmp as [H | (_ & l & q & H)]; [exact H | ]. rewrite Hprog in H. discriminate. }
      unfold inv; cbn. repeat split; auto.
      + intros i Hi. destruct (Nat.eq_dec i j) as [-> | Hij].
        * right; right. unfold w_after; cbn. rewrite set_w_same; cbn.
          repeat split; auto. discriminate.
        * pose proof (not_in_phase_other s i j Hlk Hij (Hw i Hi)) as [H | H].
          -- left. destruct H as (H1 & H2 & H3 & H4 & H5). unfold w_before; cbn.
             rewrite set_w_other by exact Hij. repeat split; auto. discriminate.
          -- right; right. destruct H as (H1 & H2 & H3 & H4). unfold w_after; cbn.
             rewrite set_w_other by exact Hij. repeat split; auto. discriminate.
      + discriminate.
    - (* Write *)
      assert (Hjin : w_in s j).
      { destruct Hj as [H | [H | H]]; [ | exact H | ].
        - destruct H as (_ & _ & H & _). rewrite Hprog in H. discriminate.
        - destruct H as (_ & _ & H & _). rewrite Hprog in H. discriminate. }
      destruct Hjin as (Hlk & Hin & Hlok & Hrm & Htmp).
      rewrite Hprog in Hlok, Hrm. cbn in Hlok, Hrm.
      destruct (w_tmp (ws s j)) as [t | ] eqn:Ht.
      + (* store *)
        injection Hstep as <-.
        assert (Hts : t = sh s).
        { unfold tmp_ok in Htmp. rewrite Ht in Htmp.
          destruct Htmp as [H | (H & _)]; [discriminate | ]. injection H as ->. reflexivity. }
        subst t. rewrite put_upd.
        unfold inv; cbn. repeat split; auto.
        * intros i Hi. destruct (Nat.eq_dec i j) as [-> | Hij].
          -- right; left. unfold w_in, tmp_ok; cbn. rewrite set_w_same; cbn.
             repeat split; auto.
          -- pose proof (not_in_phase_other s i j Hlk Hij (Hw i Hi)) as [H | H].
             ++ left. destruct H as (H1 & H2 & H3 & H4 & H5). unfold w_before; cbn.
                rewrite set_w_other by exact Hij. repeat split; auto.
             ++ right; right. destruct H as (H1 & H2 & H3 & H4). unfold w_after; cbn.
                rewrite set_w_other by exact Hij. repeat split; auto.
        * intros Hn. rewrite Hlk in Hn. discriminate.
      + (* load *)
        injection Hstep as <-.
        unfold inv; cbn. repeat split; auto.
        intros i Hi. destruct (Nat.eq_dec i j) as [-> | Hij].
        * right; left. unfold w_in, tmp_ok; cbn. rewrite set_w_same; cbn.
          repeat split; auto. right. split; [reflexivity | eauto].
        * apply (winv_frame s); auto. cbn. apply set_w_other. exact Hij.
    - (* Read *)
      injection Hstep as <-. apply Hlocal; auto.
      + intros ph H. cbn in H. destruct ph; auto; apply andb_true_iff in H; apply H.
      + intros l0 q [=].
    - (* Local *)
      injection Hstep as <-. apply Hlocal; auto.
      intros l0 q [=].
  Qed.

  Lemma inv_run sched : forall s s', inv s -> run s sched = Some s' -> inv s'.
  Proof.
    induction sched as [ | i sched IH]; intros s s' Hinv Hrun; cbn in Hrun.
    - injection Hrun as <-. exact Hinv.
    - destruct (step s i) as [s1 | ] eqn:Hs; [ | discriminate].
      apply (IH s1); [ | exact Hrun]. apply (inv_step s s1 i); assumption.
  Qed.

  (* every complete execution ends in the sequential fold over the lock-acquisition order,
     and that order is a permutation of the workers *)
  Theorem complete_is_fold sched s' :
    complete upd put prog n res s0 sched s' ->
    sh s' = fold_left (merge_of upd prog) (map res (acq s')) s0 /\ Permutation (acq s') (seq 0 n).
  Proof.
    intros [Hrun Hfin].
    pose proof (inv_run sched _ _ inv_init Hrun) as (Hnd & Hbound & Hw & Hfree & Hheld).
    assert (Hafter : forall i, i < n -> w_after s' i).
    { intros i Hi. pose proof (Hfin i Hi) as Hp.
      destruct (Hw i Hi) as [H | [H | H]]; [ | | exact H].
      - destruct H as (_ & _ & H & _). rewrite Hp in H. discriminate.
      - destruct H as (_ & _ & H & _). rewrite Hp in H. discriminate. }
    split.
    - apply Hfree. destruct (lk s') as [h | ] eqn:Hlk; [ | reflexivity].
      pose proof (Hafter h (Hheld h eq_refl)) as (_ & Hn & _). contradiction.
    - apply NoDup_Permutation; [exact Hnd | apply seq_NoDup | ].
      intros x. rewrite in_seq. split.
      + intros Hx. pose proof (Hbound x Hx). lia.
      + intros [_ Hx]. apply (Hafter x Hx).
  Qed.
End LTSProof.
