(* Clean paths as component lists, and what Base/PathModel.v's clean / pjoin / dir do on them.
   cpath [a;b] = "/a/b", cpath [] = "/", rpath [a;b] = "a/b". *)
From Regal Require Import Base.PathModel Model.Rename.
From Coq Require Import Lia.

Definition nonempty_comp (c : str) : bool := negb (str_eqb c []).


(* ---------------------------------------------------------------- split_on / join *)

Lemma split_on_app_sep c a b :
  split_on c (a ++ c :: b) = split_on c a ++ split_on c b.
Proof.
  induction a as [|x a IH]; simpl.
  - rewrite N.eqb_refl. reflexivity.
  - destruct (N.eqb x c) eqn:E.
    + rewrite IH. reflexivity.
    + rewrite IH. pose proof (split_on_nonempty c a) as Hn.
      destruct (split_on c a) as [|w ws]; [contradiction|]. reflexivity.
Qed.

Lemma split_on_no_sep_id c w : ~ In c w -> split_on c w = [w].
Proof.
  induction w as [|x w IH]; intros Hn; simpl; [reflexivity|].
  destruct (N.eqb_spec x c) as [->|Hne]; [exfalso; apply Hn; left; reflexivity|].
  rewrite IH; [reflexivity|]. intros H; apply Hn; right; exact H.
Qed.

Lemma split_on_join c (cs : list str) :
  cs <> [] -> Forall (fun w => ~ In c w) cs -> split_on c (join [c] cs) = cs.
Proof.
  induction cs as [|w cs IH]; intros Hne Hall; [contradiction|].
  inversion Hall as [|? ? Hw Hcs]; subst.
  destruct cs as [|w' cs'].
  - simpl. apply split_on_no_sep_id; assumption.
  - rewrite join_cons2. cbn [app].
    rewrite split_on_app_sep, split_on_no_sep_id by assumption.
    rewrite IH; [reflexivity | discriminate | assumption].
Qed.

(* ---------------------------------------------------------------- comps_of *)

Lemma comps_of_app_sep a b : comps_of (a ++ SLASH :: b) = comps_of a ++ comps_of b.
Proof. unfold comps_of. rewrite split_on_app_sep, filter_app. reflexivity. Qed.

Lemma regular_nonempty c : regular c -> negb (str_eqb c []) = true.
Proof.
  intros [Hne _]. destruct (str_eqb_spec c []); [contradiction | reflexivity].
Qed.

Lemma filter_regular cs :
  Forall regular cs -> filter (fun c => negb (str_eqb c [])) cs = cs.
Proof.
  induction 1 as [|c cs Hc _ IH]; simpl; [reflexivity|].
  rewrite (regular_nonempty c Hc), IH. reflexivity.
Qed.

Lemma regular_no_slash cs : Forall regular cs -> Forall (fun w => ~ In SLASH w) cs.
Proof. intros H. eapply Forall_impl; [|exact H]. intros c [_ [Hs _]]. exact Hs. Qed.

Lemma comps_of_rpath cs : Forall regular cs -> comps_of (rpath cs) = cs.
Proof.
  intros Hall. unfold comps_of, rpath.
  destruct cs as [|c cs]; [reflexivity|].
  rewrite split_on_join; [apply filter_regular; assumption | discriminate | apply regular_no_slash; assumption].
Qed.

Lemma comps_of_cpath cs : Forall regular cs -> comps_of (cpath cs) = cs.
Proof.
  intros Hall. unfold cpath.
  change (SLASH :: join [SLASH] cs) with ([] ++ SLASH :: rpath cs).
  rewrite comps_of_app_sep, comps_of_rpath by assumption. reflexivity.
Qed.

(* ---------------------------------------------------------------- clean *)

Lemma clean_comps_skip_empty rooted cs st :
  clean_comps rooted cs st = clean_comps rooted (filter (fun c => negb (str_eqb c [])) cs) st.
Proof.
  revert st; induction cs as [|c cs IH]; intros st; [reflexivity|].
  simpl. destruct (str_eqb_spec c []) as [->|Hne]; simpl.
  - apply IH.
  - destruct (str_eqb_spec c []); [contradiction|]. simpl.
    destruct (str_eqb c [DOT]); [apply IH|].
    destruct (str_eqb c dotdot).
    + destruct st as [|top rest]; [destruct rooted; apply IH|].
      destruct (str_eqb top dotdot); apply IH.
    + apply IH.
Qed.

Lemma clean_comps_regular rooted cs st :
  Forall regular cs -> clean_comps rooted cs st = rev st ++ cs.
Proof.
  revert st; induction cs as [|c cs IH]; intros st Hall; simpl.
  - rewrite app_nil_r. reflexivity.
  - inversion Hall as [|? ? Hc Hcs]; subst.
    destruct Hc as [Hne [_ [Hd Hdd]]].
    destruct (str_eqb_spec c []); [contradiction|].
    destruct (str_eqb_spec c [DOT]); [contradiction|].
    destruct (str_eqb_spec c dotdot); [contradiction|]. simpl.
    rewrite IH by assumption. simpl. rewrite <- app_assoc. reflexivity.
Qed.

Lemma clean_via_comps p :
  clean p =
  let comps := clean_comps (is_rooted p) (comps_of p) [] in
  if is_rooted p then SLASH :: join [SLASH] comps
  else match comps with [] => [DOT] | _ => join [SLASH] comps end.
Proof. unfold clean, comps_of. rewrite <- clean_comps_skip_empty. reflexivity. Qed.

Lemma clean_cpath_like p cs :
  is_rooted p = true -> comps_of p = cs -> Forall regular cs -> clean p = cpath cs.
Proof.
  intros Hr Hc Hall. rewrite clean_via_comps, Hr, Hc. cbv zeta.
  rewrite clean_comps_regular by assumption. reflexivity.
Qed.

Lemma clean_cpath cs : Forall regular cs -> clean (cpath cs) = cpath cs.
Proof. intros H. apply clean_cpath_like; [reflexivity | apply comps_of_cpath; assumption | assumption]. Qed.

(* ---------------------------------------------------------------- pjoin *)

Lemma cpath_nonempty cs : str_eqb (cpath cs) [] = false.
Proof. reflexivity. Qed.

Lemma rpath_nonempty cs : Forall regular cs -> cs <> [] -> str_eqb (rpath cs) [] = false.
Proof.
  intros Hall Hne. destruct cs as [|c cs]; [contradiction|].
  inversion Hall as [|? ? [Hc _] _]; subst.
  destruct c as [|x c]; [contradiction|].
  unfold rpath. destruct cs; reflexivity.
Qed.

Lemma pjoin_cpath_rpath cs ks :
  Forall regular cs -> Forall regular ks -> ks <> [] ->
  pjoin [cpath cs; rpath ks] = cpath (cs ++ ks).
Proof.
  intros Hcs Hks Hne. unfold pjoin. simpl filter.
  rewrite (rpath_nonempty ks Hks Hne). simpl negb. cbv iota.
  cbn [join]. change ([SLASH] ++ rpath ks) with (SLASH :: rpath ks).
  apply clean_cpath_like.
  - reflexivity.
  - rewrite comps_of_app_sep, comps_of_cpath, comps_of_rpath by assumption. reflexivity.
  - apply Forall_app; split; assumption.
Qed.

(* a single regular component appended *)
Lemma pjoin_cpath_comp cs c :
  Forall regular cs -> regular c -> pjoin [cpath cs; c] = cpath (cs ++ [c]).
Proof.
  intros Hcs Hc. change c with (rpath [c]) at 1.
  apply pjoin_cpath_rpath; [assumption | constructor; [assumption | constructor] | discriminate].
Qed.

(* ---------------------------------------------------------------- dir / base *)

Lemma upto_last_slash_no_slash c : ~ In SLASH c -> upto_last_slash c = [].
Proof.
  induction c as [|x c IH]; intros Hn; simpl; [reflexivity|].
  rewrite IH by (intros H; apply Hn; right; exact H).
  destruct (N.eqb_spec x SLASH) as [->|]; [exfalso; apply Hn; left; reflexivity | reflexivity].
Qed.

Lemma upto_last_slash_app a c :
  ~ In SLASH c -> upto_last_slash (a ++ SLASH :: c) = a ++ [SLASH].
Proof.
  intros Hn. induction a as [|x a IH]; simpl.
  - rewrite (upto_last_slash_no_slash c Hn). reflexivity.
  - rewrite IH. destruct (a ++ [SLASH]) eqn:E; [destruct a; discriminate | reflexivity].
Qed.

Lemma join_snoc (sep : str) cs c :
  cs <> [] -> join sep (cs ++ [c]) = join sep cs ++ sep ++ c.
Proof.
  induction cs as [|w cs IH]; intros Hne; [contradiction|].
  destruct cs as [|w' cs'].
  - reflexivity.
  - change ((w :: w' :: cs') ++ [c]) with (w :: ((w' :: cs') ++ [c])).
    assert (E : exists y ys, (w' :: cs') ++ [c] = y :: ys) by (eexists; eexists; reflexivity).
    destruct E as [y [ys E]]. rewrite E, join_cons2, <- E.
    rewrite IH by discriminate. rewrite join_cons2. rewrite <- !app_assoc. reflexivity.
Qed.

Lemma cpath_snoc cs c : cs <> [] -> cpath (cs ++ [c]) = cpath cs ++ SLASH :: c.
Proof.
  intros Hne. unfold cpath. rewrite join_snoc by assumption. reflexivity.
Qed.

Lemma dir_cpath_snoc cs c :
  Forall regular cs -> regular c -> dir (cpath (cs ++ [c])) = cpath cs.
Proof.
  intros Hcs [_ [Hs _]]. unfold dir.
  destruct cs as [|w cs'].
  - change (cpath ([] ++ [c])) with ([] ++ SLASH :: c).
    rewrite upto_last_slash_app by assumption. reflexivity.
  - rewrite cpath_snoc by discriminate.
    rewrite upto_last_slash_app by assumption.
    apply clean_cpath_like; [reflexivity | | assumption].
    change (cpath (w :: cs') ++ [SLASH]) with (cpath (w :: cs') ++ SLASH :: []).
    rewrite comps_of_app_sep, comps_of_cpath by assumption. apply app_nil_r.
Qed.

Lemma after_last_slash_no_slash c : ~ In SLASH c -> after_last_slash c = c.
Proof.
  destruct c as [|x c]; intros Hn; [reflexivity|]. simpl.
  assert (Hex : existsb (N.eqb SLASH) c = false).
  { destruct (existsb (N.eqb SLASH) c) eqn:E; [|reflexivity].
    apply existsb_exists in E. destruct E as [y [Hy Heq]]. apply N.eqb_eq in Heq. subst y.
    exfalso; apply Hn; right; exact Hy. }
  rewrite Hex. destruct (N.eqb_spec x SLASH) as [->|]; [exfalso; apply Hn; left; reflexivity | reflexivity].
Qed.

Lemma after_last_slash_app a c :
  ~ In SLASH c -> after_last_slash (a ++ SLASH :: c) = c.
Proof.
  intros Hn. induction a as [|x a IH].
  - simpl. destruct (existsb (N.eqb SLASH) c) eqn:E.
    + apply existsb_exists in E. destruct E as [y [Hy Heq]]. apply N.eqb_eq in Heq. subst y. contradiction.
    + reflexivity.
  - simpl. assert (Hex : existsb (N.eqb SLASH) (a ++ SLASH :: c) = true).
    { apply existsb_exists. exists SLASH. split; [apply in_or_app; right; left; reflexivity | reflexivity]. }
    rewrite Hex. exact IH.
Qed.

Lemma last_not_slash_keep (p : str) x :
  x <> SLASH -> rev (drop_trailing_slashes_rev (rev (p ++ [x]))) = p ++ [x].
Proof.
  intros Hx. rewrite rev_app_distr. simpl.
  destruct (N.eqb_spec x SLASH); [contradiction|].
  simpl. rewrite rev_involutive. reflexivity.
Qed.

Lemma path_base_cpath_snoc cs c :
  regular c -> path_base (cpath (cs ++ [c])) = c.
Proof.
  intros [Hne [Hs _]].
  assert (Hform : exists a, cpath (cs ++ [c]) = a ++ SLASH :: c).
  { destruct cs as [|w cs']; [exists []; reflexivity|].
    exists (cpath (w :: cs')). apply cpath_snoc. discriminate. }
  destruct Hform as [a Ha]. rewrite Ha.
  destruct (exists_last Hne) as [c0 [x Hc]].
  assert (Hx : x <> SLASH).
  { intros ->. apply Hs. rewrite Hc. apply in_or_app; right; left; reflexivity. }
  unfold path_base.
  destruct (a ++ SLASH :: c) eqn:E; [destruct a; discriminate|]. rewrite <- E.
  assert (Hkeep : rev (drop_trailing_slashes_rev (rev (a ++ SLASH :: c))) = a ++ SLASH :: c).
  { rewrite Hc. replace (a ++ SLASH :: c0 ++ [x]) with ((a ++ SLASH :: c0) ++ [x])
      by (rewrite <- app_assoc; reflexivity).
    apply last_not_slash_keep; assumption. }
  rewrite Hkeep, after_last_slash_app by assumption.
  destruct c; [contradiction | reflexivity].
Qed.

(* ---------------------------------------------------------------- path.Clean of a rooted path *)

Lemma clean_comps_regular_out cs : forall st,
  Forall (fun c => ~ In SLASH c) cs -> Forall regular st ->
  Forall regular (clean_comps true cs st).
Proof.
  induction cs as [|c cs IH]; intros st Hcs Hst; simpl.
  - apply Forall_rev. exact Hst.
  - inversion Hcs as [|? ? Hc Hcs']; subst.
    destruct (str_eqb_spec c []) as [->|Hne]; simpl; [apply IH; assumption|].
    destruct (str_eqb_spec c [DOT]) as [->|Hd]; simpl; [apply IH; assumption|].
    destruct (str_eqb_spec c dotdot) as [->|Hdd].
    + destruct st as [|top rest]; [apply IH; assumption|].
      inversion Hst as [|? ? Htop Hrest]; subst.
      destruct (str_eqb_spec top dotdot) as [->|Ht].
      * destruct Htop as [_ [_ [_ Htop]]]. contradiction.
      * apply IH; assumption.
    + apply IH; [assumption|]. constructor; [|exact Hst]. repeat split; assumption.
Qed.

Lemma clean_rooted_cpath p :
  is_rooted p = true -> exists cs, Forall regular cs /\ clean p = cpath cs.
Proof.
  intros Hr. unfold clean. rewrite Hr.
  exists (clean_comps true (split_on SLASH p) []). split; [|reflexivity].
  apply clean_comps_regular_out; [|constructor].
  apply Forall_forall. intros w Hw. eapply split_on_no_sep. exact Hw.
Qed.
