(* FindClosestMatchingRoot does not depend on the order of the roots (config.GetPotentialRoots
   returns them in Go map order). *)
From Regal Require Import Model.Rename Proofs.Provider Proofs.Rename Proofs.Roots.
From Coq Require Import Lia Permutation.
Local Open Scope nat_scope.

Lemma app_same_len {A} (a b x y : list A) : a ++ x = b ++ y -> length a = length b -> a = b.
Proof.
  revert b. induction a as [|u a IH]; intros [|v b] H L; simpl in *; try discriminate; [reflexivity|].
  injection H as -> H. f_equal. apply IH; [exact H | lia].
Qed.

Lemma trim_slash_cases (r : str) :
  (exists r0, r = r0 ++ [SLASH] /\ trim_suffix r [SLASH] = r0)
  \/ (trim_suffix r [SLASH] = r /\ forall r0, r <> r0 ++ [SLASH]).
Proof.
  unfold trim_suffix. simpl. destruct (rev r) as [|c t] eqn:E.
  - right. split; [reflexivity|]. intros r0 ->. rewrite rev_app_distr in E. discriminate.
  - destruct (N.eqb_spec c SLASH) as [->|Hne].
    + left. exists (rev t). split; [|reflexivity].
      rewrite <- (rev_involutive r), E. reflexivity.
    + right. split; [reflexivity|]. intros r0 ->. rewrite rev_app_distr in E. simpl in E.
      injection E as <- _. contradiction.
Qed.

(* two roots of the same length that both match a path are the same root *)
Lemma matches_same_len path r1 r2 :
  root_matches path r1 = true -> root_matches path r2 = true -> length r1 = length r2 -> r1 = r2.
Proof.
  intros H1 H2 L. apply root_matches_spec in H1 as [a Ha]. apply root_matches_spec in H2 as [b Hb].
  destruct (trim_slash_cases r1) as [[p1 [E1 T1]]|[T1 N1]];
  destruct (trim_slash_cases r2) as [[p2 [E2 T2]]|[T2 N2]]; rewrite T1 in Ha; rewrite T2 in Hb.
  - subst r1 r2. f_equal. rewrite !app_length in L. simpl in L.
    rewrite Ha in Hb. apply app_same_len in Hb; [exact Hb | lia].
  - exfalso. subst r1. rewrite app_length in L. simpl in L.
    (* path = p1 ++ "/" ++ a = r2 ++ "/" ++ b with |p1| + 1 = |r2| *)
    rewrite Ha in Hb. rewrite app_assoc in Hb.
    apply app_same_len in Hb; [|rewrite app_length; simpl; lia].
    apply (N2 p1). symmetry. exact Hb.
  - exfalso. subst r2. rewrite app_length in L. simpl in L.
    rewrite Ha in Hb. symmetry in Hb. rewrite app_assoc in Hb.
    apply app_same_len in Hb; [|rewrite app_length; simpl; lia].
    apply (N1 p2). symmetry. exact Hb.
  - rewrite Ha in Hb. apply app_same_len in Hb; [exact Hb | exact L].
Qed.

(* what the answer is, independently of the loop *)
Definition fcmr_char (path : str) (roots : list str) (r : str) : Prop :=
  (In path roots /\ r = path)
  \/ (~ In path roots /\
      ((In r roots /\ root_matches path r = true /\ 0 < length r
        /\ forall x, In x roots -> root_matches path x = true -> length x <= length r)
       \/ (r = [] /\ forall x, In x roots -> root_matches path x = true -> length x = 0))).

Lemma fcmr_loop_char path : forall roots cur best,
  ~ In path roots ->
  match best with
  | Some b => length b = cur /\ 0 < cur /\ root_matches path b = true
  | None => cur = 0
  end ->
  let r := fcmr_loop root_matches path roots cur best in
  (match best with Some b => r = b | None => r = [] end
   /\ forall x, In x roots -> root_matches path x = true -> length x <= cur)
  \/ (In r roots /\ root_matches path r = true /\ cur < length r
      /\ forall x, In x roots -> root_matches path x = true -> length x <= length r).
Proof.
  induction roots as [|x roots IH]; intros cur best Hnin Hbest; simpl.
  - left. split; [destruct best; reflexivity | intros x []].
  - destruct (str_eqb_spec x path) as [->|Hne]; [exfalso; apply Hnin; left; reflexivity|].
    assert (Hnin' : ~ In path roots) by (intros H; apply Hnin; right; exact H).
    destruct (root_matches path x) eqn:Hm; simpl.
    + destruct (Nat.ltb_spec cur (length x)) as [Hlt|Hge].
      * right. destruct (IH (length x) (Some x) Hnin') as [[Hr Hall]|[Hin [Hmr [Hlen Hall]]]].
        { split; [reflexivity|]. split; [lia | exact Hm]. }
        -- rewrite Hr. split; [left; reflexivity|]. split; [exact Hm|]. split; [exact Hlt|].
           intros y [<-|Hy] Hmy; [lia | apply Hall; assumption].
        -- split; [right; exact Hin|]. split; [exact Hmr|]. split; [lia|].
           intros y [<-|Hy] Hmy; [lia | apply Hall; assumption].
      * destruct (IH cur best Hnin' Hbest) as [[Hr Hall]|[Hin [Hmr [Hlen Hall]]]].
        -- left. split; [exact Hr|]. intros y [<-|Hy] Hmy; [exact Hge | apply Hall; assumption].
        -- right. split; [right; exact Hin|]. split; [exact Hmr|]. split; [exact Hlen|].
           intros y [<-|Hy] Hmy; [lia | apply Hall; assumption].
    + destruct (IH cur best Hnin' Hbest) as [[Hr Hall]|[Hin [Hmr [Hlen Hall]]]].
      * left. split; [exact Hr|]. intros y [<-|Hy] Hmy; [congruence | apply Hall; assumption].
      * right. split; [right; exact Hin|]. split; [exact Hmr|]. split; [exact Hlen|].
        intros y [<-|Hy] Hmy; [congruence | apply Hall; assumption].
Qed.

Lemma fcmr_satisfies_char path roots : fcmr_char path roots (find_closest_matching_root path roots).
Proof.
  destruct (in_dec_str path roots) as [Hin|Hnin].
  - left. split; [exact Hin|]. unfold find_closest_matching_root.
    (* as soon as the loop meets the path it answers the path *)
    assert (G : forall rs cur best, In path rs -> fcmr_loop root_matches path rs cur best = path).
    { induction rs as [|x rs IH]; intros cur best H; [destruct H|]. simpl.
      destruct (str_eqb_spec x path) as [->|Hne]; [reflexivity|].
      destruct H as [H|H]; [contradiction|].
      destruct (negb (root_matches path x)); [apply IH; exact H|].
      destruct (Nat.ltb cur (length x)); apply IH; exact H. }
    apply G. exact Hin.
  - right. split; [exact Hnin|]. unfold find_closest_matching_root.
    destruct (fcmr_loop_char path roots 0 None Hnin eq_refl) as [[Hr Hall]|[Hin [Hm [Hlen Hall]]]].
    + right. split; [exact Hr|]. intros x Hx Hmx. specialize (Hall x Hx Hmx). lia.
    + left. repeat split; assumption.
Qed.

Lemma fcmr_char_unique path roots r r' :
  fcmr_char path roots r -> fcmr_char path roots r' -> r = r'.
Proof.
  intros [[H1 ->]|[N1 H1]] [[H2 ->]|[N2 H2]]; try reflexivity; try contradiction.
  destruct H1 as [[I1 [M1 [P1 A1]]]|[-> A1]]; destruct H2 as [[I2 [M2 [P2 A2]]]|[-> A2]].
  - apply (matches_same_len path); [exact M1 | exact M2|].
    specialize (A1 r' I2 M2). specialize (A2 r I1 M1). lia.
  - specialize (A2 r I1 M1). lia.
  - specialize (A1 r' I2 M2). lia.
  - reflexivity.
Qed.

Lemma fcmr_char_perm path roots roots' r :
  (forall x, In x roots <-> In x roots') -> fcmr_char path roots r -> fcmr_char path roots' r.
Proof.
  intros E [[H ->]|[N H]].
  - left. split; [apply E; exact H | reflexivity].
  - right. split; [rewrite <- E; exact N|].
    destruct H as [[I [M [P A]]]|[-> A]].
    + left. split; [apply E; exact I|]. split; [exact M|]. split; [exact P|].
      intros x Hx. apply A. apply E. exact Hx.
    + right. split; [reflexivity|]. intros x Hx. apply A. apply E. exact Hx.
Qed.

Theorem fcmr_order_independent path roots roots' :
  (forall x, In x roots <-> In x roots') ->
  find_closest_matching_root path roots = find_closest_matching_root path roots'.
Proof.
  intros E. apply (fcmr_char_unique path roots').
  - apply (fcmr_char_perm path roots roots'); [exact E | apply fcmr_satisfies_char].
  - apply fcmr_satisfies_char.
Qed.
