(* Proofs about the map-level YAML layer of Model/ConfigMerge.v: what comes back when the
   document written by MarshalYAML is read again by UnmarshalYAML. *)
From Coq Require Import Lia.
From Regal Require Import Base.Str Model.ConfigMerge Gen.ProvidedConfig Proofs.ConfigMerge.
Local Open Scope N_scope.

(* ---------------- association lists, continued ---------------- *)

Lemma aget_app {A} (a b : list (str * A)) k :
  aget (a ++ b) k = match aget a k with Some v => Some v | None => aget b k end.
Proof.
  induction a as [|[k0 v0] a IH]; [reflexivity|]. cbn [app aget].
  destruct (str_eqb k0 k); [reflexivity | exact IH].
Qed.

Lemma aset_notin {A} (m : list (str * A)) k v :
  str_in k (keys m) = false -> aset m k v = m ++ [(k, v)].
Proof.
  induction m as [|[k0 v0] m IH]; intros H; [reflexivity|].
  change (str_in k (k0 :: keys m) = false) in H. cbn [str_in] in H.
  apply orb_false_iff in H. destruct H as [H1 H2].
  cbn [aset app]. rewrite (str_eqb_sym k0 k), H1. rewrite IH by assumption. reflexivity.
Qed.

Lemma adel_notin {A} (m : list (str * A)) k : str_in k (keys m) = false -> adel m k = m.
Proof.
  induction m as [|[k0 v0] m IH]; intros H; [reflexivity|].
  change (str_in k (k0 :: keys m) = false) in H. cbn [str_in] in H.
  apply orb_false_iff in H. destruct H as [H1 H2].
  cbn [adel]. rewrite (str_eqb_sym k0 k), H1, IH by assumption. reflexivity.
Qed.

Lemma filter_notin {A} (m : list (str * A)) k :
  str_in k (keys m) = false -> filter (fun kv => negb (str_eqb (fst kv) k)) m = m.
Proof.
  induction m as [|[k0 v0] m IH]; intros H; [reflexivity|].
  change (str_in k (k0 :: keys m) = false) in H. cbn [str_in] in H.
  apply orb_false_iff in H. destruct H as [H1 H2].
  cbn [filter fst]. rewrite (str_eqb_sym k0 k), H1. cbn [negb]. rewrite IH by assumption. reflexivity.
Qed.

Lemma strs_of_map l : strs_of (map JStr l) = Some l.
Proof. induction l as [|x l IH]; [reflexivity|]. cbn [map strs_of]. rewrite IH. reflexivity. Qed.

Lemma str_in_app k a b : str_in k (a ++ b) = str_in k a || str_in k b.
Proof. induction a as [|x a IH]; [reflexivity|]. cbn [app str_in]. rewrite IH, orb_assoc. reflexivity. Qed.

(* ---------------- one rule ---------------- *)

Lemma rule_roundtrip r : rule_wf r = true -> rule_of (rule_doc r) = Ok (norm_rule r).
Proof.
  unfold rule_wf. intros H. apply andb_true_iff in H. destruct H as [H Hi].
  apply andb_true_iff in H. destruct H as [_ Hl].
  apply negb_true_iff in Hl. apply negb_true_iff in Hi.
  unfold rule_doc, rule_of.
  assert (F : filter (fun kv => negb (str_eqb (fst kv) IGNORE) && negb (str_eqb (fst kv) LEVEL)) (r_extra r)
              = r_extra r).
  { clear -Hl Hi. induction (r_extra r) as [|[k0 v0] m IH]; [reflexivity|].
    change (str_in LEVEL (k0 :: keys m) = false) in Hl. change (str_in IGNORE (k0 :: keys m) = false) in Hi.
    cbn [str_in] in Hl, Hi. apply orb_false_iff in Hl. apply orb_false_iff in Hi.
    destruct Hl as [L1 L2]. destruct Hi as [I1 I2].
    cbn [filter fst]. rewrite (str_eqb_sym k0 IGNORE), I1, (str_eqb_sym k0 LEVEL), L1. cbn [negb andb].
    rewrite IH by assumption. reflexivity. }
  rewrite F.
  cbn [aget]. rewrite str_eqb_refl.
  assert (E1 : str_eqb LEVEL IGNORE = false) by reflexivity. rewrite E1.
  destruct (r_ignore r) as [[|f fs]|] eqn:Ei.
  - (* Some [] : not written *)
    cbn [app]. assert (N : aget (r_extra r) IGNORE = None) by (apply aget_none_notin; exact Hi).
    rewrite N. cbn [bind adel]. rewrite str_eqb_refl.
    rewrite (adel_notin _ LEVEL Hl), (adel_notin _ IGNORE Hi).
    unfold norm_rule. rewrite Ei. reflexivity.
  - cbn [app aget]. rewrite str_eqb_refl. cbn [aget]. rewrite str_eqb_refl.
    rewrite strs_of_map. cbn [bind adel]. rewrite str_eqb_refl.
    assert (E2 : str_eqb IGNORE LEVEL = false) by reflexivity. rewrite E2.
    rewrite (adel_notin _ LEVEL Hl). cbn [adel]. rewrite str_eqb_refl.
    rewrite (adel_notin _ IGNORE Hi). unfold norm_rule. rewrite Ei. reflexivity.
  - cbn [app]. assert (N : aget (r_extra r) IGNORE = None) by (apply aget_none_notin; exact Hi).
    rewrite N. cbn [bind adel]. rewrite str_eqb_refl.
    rewrite (adel_notin _ LEVEL Hl), (adel_notin _ IGNORE Hi).
    unfold norm_rule. rewrite Ei. reflexivity.
Qed.

(* ---------------- one category ---------------- *)

Definition rule_docs (rs : category) : list (str * jval) :=
  map (fun nr => (fst nr, rule_doc (snd nr))) rs.

Definition default_entry (l : option str) : list (str * jval) :=
  match l with Some l => [(DEFAULT, level_doc l)] | None => [] end.

Lemma keys_rule_docs rs : keys (rule_docs rs) = keys rs.
Proof. unfold rule_docs, keys. rewrite map_map. reflexivity. Qed.

Lemma category_rules_back rs dflt :
  str_in DEFAULT (keys rs) = false -> forallb (fun nr => rule_wf (snd nr)) rs = true ->
  map_result (fun nr => bind (rule_of (snd nr)) (fun r => Ok (fst nr, r)))
    (filter (fun nr => negb (str_eqb (fst nr) DEFAULT)) (rule_docs rs ++ default_entry dflt))
  = Ok (map (fun nr => (fst nr, norm_rule (snd nr))) rs).
Proof.
  intros Hn Hw. rewrite filter_app.
  rewrite (filter_notin (rule_docs rs) DEFAULT) by (rewrite keys_rule_docs; exact Hn).
  assert (D : filter (fun nr : str * jval => negb (str_eqb (fst nr) DEFAULT)) (default_entry dflt) = []).
  { destruct dflt; [cbn [default_entry filter fst]; rewrite str_eqb_refl|]; reflexivity. }
  rewrite D, app_nil_r. clear D Hn.
  induction rs as [|[n r] rs IH]; [reflexivity|].
  cbn [forallb snd] in Hw. apply andb_true_iff in Hw. destruct Hw as [Hr Hw].
  cbn [rule_docs map fst snd map_result]. rewrite (rule_roundtrip r Hr). cbn [bind].
  fold (rule_docs rs). rewrite (IH Hw). reflexivity.
Qed.

Lemma category_default_back rs dflt :
  str_in DEFAULT (keys rs) = false ->
  aget (rule_docs rs ++ default_entry dflt) DEFAULT = option_map level_doc dflt.
Proof.
  intros Hn. rewrite aget_app.
  assert (N : aget (rule_docs rs) DEFAULT = None)
    by (apply aget_none_notin; rewrite keys_rule_docs; exact Hn).
  rewrite N. destruct dflt; [cbn [default_entry aget]; rewrite str_eqb_refl|]; reflexivity.
Qed.

(* ---------------- placing the category defaults ---------------- *)

Definition cat_docs (rs : list (str * category)) : list (str * list (str * jval)) :=
  map (fun cr => (fst cr, rule_docs (snd cr))) rs.

Definition place_step (acc : option (list (str * list (str * jval)))) (cl : str * str) :=
  match acc with
  | None => None
  | Some m => match aget m (fst cl) with
              | Some rm => Some (aset m (fst cl) (aset rm DEFAULT (level_doc (snd cl))))
              | None => None
              end
  end.

Definition placed_cats (dc : list (str * str)) (m : list (str * list (str * jval))) :=
  map (fun cr => (fst cr, snd cr ++ default_entry (aget dc (fst cr)))) m.

Lemma aset_replace {A} (m : list (str * A)) k v v0 :
  distinct (keys m) = true -> aget m k = Some v0 ->
  aset m k v = map (fun kv => if str_eqb (fst kv) k then (k, v) else kv) m.
Proof.
  induction m as [|[k0 x0] m IH]; intros Hd Hg; [discriminate|].
  change (distinct (k0 :: keys m) = true) in Hd. cbn [distinct] in Hd.
  apply andb_true_iff in Hd. destruct Hd as [Hn Hd].
  cbn [aset map fst aget] in *. destruct (str_eqb_spec k0 k) as [->|Hne].
  - f_equal. apply negb_true_iff in Hn.
    clear -Hn. induction m as [|[k1 x1] m IH]; [reflexivity|].
    change (str_in k (k1 :: keys m) = false) in Hn. cbn [str_in] in Hn.
    apply orb_false_iff in Hn. destruct Hn as [H1 H2].
    cbn [map fst]. rewrite (str_eqb_sym k1 k), H1, <- IH by assumption. reflexivity.
  - f_equal. apply IH; assumption.
Qed.



Lemma in_keys {A} (m : list (str * A)) k v : In (k, v) m -> str_in k (keys m) = true.
Proof.
  induction m as [|[k0 v0] m IH]; [intros []|]. intros [H|H].
  - injection H as -> ->. change (str_in k (k :: keys m) = true). cbn [str_in]. rewrite str_eqb_refl. reflexivity.
  - change (str_in k (k0 :: keys m) = true). cbn [str_in]. rewrite (IH H). apply orb_true_r.
Qed.

Lemma aget_some_in' {A} (m : list (str * A)) k v : aget m k = Some v -> In (k, v) m.
Proof.
  induction m as [|[k0 v0] m IH]; simpl; [discriminate|].
  destruct (str_eqb_spec k0 k) as [->|]; [intros [= ->]; left; reflexivity | right; auto].
Qed.

Lemma aget_replace_other {A} (m : list (str * A)) k v k' :
  str_eqb k k' = false ->
  aget (map (fun kv => if str_eqb (fst kv) k then (k, v) else kv) m) k' = aget m k'.
Proof.
  intros Hne. induction m as [|[k0 v0] m IH]; [reflexivity|].
  cbn [map fst aget]. destruct (str_eqb_spec k0 k) as [->|Hk].
  - cbn [aget]. rewrite Hne. exact IH.
  - cbn [aget]. rewrite IH. reflexivity.
Qed.

Lemma place_spec dc : forall m,
  distinct (keys dc) = true -> distinct (keys m) = true ->
  (forall k l, In (k, l) dc -> exists rm, aget m k = Some rm /\ str_in DEFAULT (keys rm) = false) ->
  fold_left place_step dc (Some m) = Some (placed_cats dc m).
Proof.
  induction dc as [|[k l] dc IH]; intros m Hdc Hdm Hok.
  - cbn [fold_left]. f_equal. unfold placed_cats. cbn [aget default_entry].
    clear. induction m as [|[k0 x0] m IHm]; [reflexivity|]. cbn [map fst snd]. rewrite app_nil_r.
    rewrite <- IHm. reflexivity.
  - change (distinct (k :: keys dc) = true) in Hdc. cbn [distinct] in Hdc.
    apply andb_true_iff in Hdc. destruct Hdc as [Hkn Hdc]. apply negb_true_iff in Hkn.
    destruct (Hok k l (or_introl eq_refl)) as (rm & Eg & Hrm).
    cbn [fold_left place_step fst snd]. rewrite Eg.
    rewrite (aset_notin rm DEFAULT _ Hrm).
    rewrite (aset_replace m k _ rm Hdm Eg).
    set (m1 := map _ m).
    assert (K1 : keys m1 = keys m).
    { unfold m1, keys. rewrite map_map. apply map_ext. intros [k0 x0]. cbn [fst].
      destruct (str_eqb_spec k0 k) as [->|]; reflexivity. }
    rewrite IH.
    + f_equal. unfold placed_cats, m1. rewrite map_map. apply map_ext_in. intros [k0 x0] Hi0.
      cbn [fst snd aget]. destruct (str_eqb_spec k0 k) as [->|Hne].
      * cbn [fst snd]. rewrite str_eqb_refl.
        assert (N : aget dc k = None) by (apply aget_none_notin; exact Hkn). rewrite N.
        assert (x0 = rm).
        { assert (aget m k = Some x0) by (apply aget_in; assumption). congruence. }
        subst x0. cbn [default_entry]. rewrite app_nil_r. reflexivity.
      * cbn [fst snd]. rewrite (str_eqb_sym k k0).
        destruct (str_eqb_spec k0 k); [contradiction | reflexivity].
    + assumption.
    + rewrite K1. assumption.
    + intros k' l' Hi. destruct (Hok k' l' (or_intror Hi)) as (rm' & Eg' & Hrm').
      exists rm'. split; [|assumption]. unfold m1. rewrite aget_replace_other; [assumption|].
      destruct (str_eqb_spec k k') as [->|]; [|reflexivity].
      apply in_keys in Hi. congruence.
Qed.


Lemma map_result_ok {A B} (f : A -> result B) (g : A -> B) (l : list A) :
  (forall x, In x l -> f x = Ok (g x)) -> map_result f l = Ok (map g l).
Proof.
  induction l as [|x l IH]; intros H; [reflexivity|].
  cbn [map_result map]. rewrite (H x (or_introl eq_refl)). cbn [bind].
  rewrite IH by (intros y Hy; apply H; right; exact Hy). reflexivity.
Qed.

Lemma map_result_app {A B} (f : A -> result B) (a b : list A) ra rb :
  map_result f a = Ok ra -> map_result f b = Ok rb -> map_result f (a ++ b) = Ok (ra ++ rb).
Proof.
  revert ra. induction a as [|x a IH]; intros ra Ha Hb.
  - cbn in Ha. injection Ha as <-. exact Hb.
  - cbn [app map_result] in *. destruct (f x) as [y|e]; [|discriminate]. cbn [bind] in *.
    destruct (map_result f a) as [ys|e]; [|discriminate]. cbn [bind] in *. injection Ha as <-.
    rewrite (IH ys eq_refl Hb). reflexivity.
Qed.

(* the value written under "rules" *)
Definition global_entry (g : str) : list (str * jval) :=
  if nonempty g then [(DEFAULT, level_doc g)] else [].

Definition rules_doc (c : config) : list (str * jval) :=
  map (fun cr => (fst cr, JObj (snd cr))) (placed_cats (d_cats (c_defaults c)) (cat_docs (c_rules c)))
  ++ global_entry (d_global (c_defaults c)).

Definition doc_tail (c : config) : list (str * jval) :=
  opt_entry CAPABILITIES (option_map caps_doc (c_caps c))
  ++ opt_entry FEATURES (option_map features_doc (c_features c))
  ++ opt_entry PROJECT (option_map project_doc (c_project c))
  ++ (if nonempty (c_caps_url c) then [(CAPS_URL, JStr (c_caps_url c))] else [])
  ++ match c_ignore c with [] => [] | fs => [(IGNORE, JObj [(FILES, JArr (map JStr fs))])] end.

(* the pieces of roundtrip_wf *)
Record rt_wf (c : config) : Prop := {
  w_cats : distinct (keys (c_rules c)) = true;
  w_dc : distinct (keys (d_cats (c_defaults c))) = true;
  w_nodef : str_in DEFAULT (keys (c_rules c)) = false;
  w_rules : forall cat rs, In (cat, rs) (c_rules c) ->
      str_in DEFAULT (keys rs) = false /\ forallb (fun nr => rule_wf (snd nr)) rs = true;
  w_sub : forall k l, In (k, l) (d_cats (c_defaults c)) -> str_in k (keys (c_rules c)) = true }.

Lemma rt_wf_of c : roundtrip_wf c = true -> rt_wf c.
Proof.
  unfold roundtrip_wf, config_wf, rules_wf. intros H.
  apply andb_true_iff in H. destruct H as [H Hsub].
  apply andb_true_iff in H. destruct H as [H Hnr].
  apply andb_true_iff in H. destruct H as [H Hnc].
  apply andb_true_iff in H. destruct H as [H Hdc].
  apply andb_true_iff in H. destruct H as [Hdk Hrw].
  constructor; try assumption.
  - apply negb_true_iff. assumption.
  - intros cat rs Hi. split.
    + rewrite forallb_forall in Hnr. specialize (Hnr _ Hi). apply negb_true_iff in Hnr. exact Hnr.
    + rewrite forallb_forall in Hrw. specialize (Hrw _ Hi). cbn [snd] in Hrw.
      apply andb_true_iff in Hrw. tauto.
  - intros k l Hi. rewrite forallb_forall in Hsub. exact (Hsub _ Hi).
Qed.

Lemma keys_cat_docs rs : keys (cat_docs rs) = keys rs.
Proof. unfold cat_docs, keys. rewrite map_map. reflexivity. Qed.

Lemma aget_cat_docs rs cat : aget (cat_docs rs) cat = option_map rule_docs (aget rs cat).
Proof.
  unfold cat_docs. induction rs as [|[k0 c0] rs IH]; [reflexivity|].
  cbn [map fst snd aget]. destruct (str_eqb k0 cat); [reflexivity | exact IH].
Qed.

Lemma str_in_keys_aget {A} (m : list (str * A)) k :
  str_in k (keys m) = true -> exists v, aget m k = Some v.
Proof.
  intros H. destruct (aget m k) as [v|] eqn:E; [exists v; reflexivity|].
  apply aget_none_notin in E. congruence.
Qed.

Lemma keys_placed_docs dc rs :
  keys (map (fun cr : str * list (str * jval) => (fst cr, JObj (snd cr))) (placed_cats dc (cat_docs rs))) = keys rs.
Proof. unfold keys, placed_cats, cat_docs. rewrite !map_map. apply map_ext. intros [k v]. reflexivity. Qed.

Lemma marshal_eq c : rt_wf c -> marshal c = Some (JObj ((RULES, JObj (rules_doc c)) :: doc_tail c)).
Proof.
  intros W. unfold marshal.
  change (fold_left _ (d_cats (c_defaults c)) (Some ?m)) with (fold_left place_step (d_cats (c_defaults c)) (Some m)).
  change (map (fun cr : str * category => (fst cr, map (fun nr : str * rule => (fst nr, rule_doc (snd nr))) (snd cr))) (c_rules c))
    with (cat_docs (c_rules c)).
  rewrite place_spec.
  - unfold rules_doc, global_entry, doc_tail.
    destruct (nonempty (d_global (c_defaults c))) eqn:Eg.
    + rewrite aset_notin; [reflexivity|].
      rewrite keys_placed_docs. exact (w_nodef c W).
    + rewrite app_nil_r. reflexivity.
  - exact (w_dc c W).
  - rewrite keys_cat_docs. exact (w_cats c W).
  - intros k l Hi. destruct (str_in_keys_aget _ _ (w_sub c W k l Hi)) as (rs & Hrs).
    exists (rule_docs rs). rewrite aget_cat_docs, Hrs. split; [reflexivity|].
    rewrite keys_rule_docs. apply (w_rules c W k rs). apply aget_some_in'. exact Hrs.
Qed.

(* ---------------- reading the rules back ---------------- *)

Lemma rules_back c : rt_wf c -> rules_of (rules_doc c) = Ok (norm_rules (c_rules c)).
Proof.
  intros W. unfold rules_of, rules_doc. rewrite filter_app.
  assert (G : filter (fun kv : str * jval => negb (str_eqb (fst kv) DEFAULT))
                     (global_entry (d_global (c_defaults c))) = []).
  { unfold global_entry. destruct (nonempty _); [cbn [filter fst]; rewrite str_eqb_refl|]; reflexivity. }
  rewrite G, app_nil_r. clear G.
  rewrite filter_notin.
  2:{ rewrite keys_placed_docs. exact (w_nodef c W). }
  unfold placed_cats, cat_docs. rewrite !map_map. cbn [fst snd].
  unfold norm_rules, map_rules.
  pose proof (w_rules c W) as Hr. clear W. revert Hr.
  generalize (d_cats (c_defaults c)) as dc. generalize (c_rules c) as rules.
  induction rules as [|[cat rs] l IH]; intros dc Hr; [reflexivity|].
  cbn [map fst snd map_result].
  destruct (Hr cat rs (or_introl eq_refl)) as [Hn Hw].
  fold (rule_docs rs). rewrite (category_rules_back rs _ Hn Hw). cbn [bind].
  rewrite IH by (intros c0 r0 Hi; apply (Hr c0); right; exact Hi). reflexivity.
Qed.

(* ---------------- reading the defaults back ---------------- *)

Definition cats_back (dc : list (str * str)) (rs : list (str * category)) : list (str * str) :=
  concat (map (fun cr => match aget dc (fst cr) with Some l => [(fst cr, l)] | None => [] end) rs).

Lemma default_level_doc l : default_level (level_doc l) = Ok l.
Proof. unfold default_level, level_doc. cbn [aget]. rewrite str_eqb_refl. reflexivity. Qed.

Lemma nonempty_false s : nonempty s = false -> s = [].
Proof. destruct s; [reflexivity | discriminate]. Qed.

Lemma defaults_back c : rt_wf c ->
  defaults_of (rules_doc c) =
  Ok {| d_global := d_global (c_defaults c);
        d_cats := cats_back (d_cats (c_defaults c)) (c_rules c) |}.
Proof.
  intros W. unfold defaults_of, rules_doc.
  set (dc := d_cats (c_defaults c)). set (g := d_global (c_defaults c)).
  set (A := map (fun cr : str * list (str * jval) => (fst cr, JObj (snd cr))) (placed_cats dc (cat_docs (c_rules c)))).
  assert (KA : str_in DEFAULT (keys A) = false).
  { unfold A. rewrite keys_placed_docs. exact (w_nodef c W). }
  rewrite aget_app. assert (NA : aget A DEFAULT = None) by (apply aget_none_notin; exact KA). rewrite NA.
  (* global *)
  assert (G : match aget (global_entry g) DEFAULT with Some j => default_level j | None => Ok [] end = Ok g).
  { unfold global_entry. destruct (nonempty g) eqn:Eg.
    - cbn [aget]. rewrite str_eqb_refl. apply default_level_doc.
    - cbn [aget]. rewrite (nonempty_false g Eg). reflexivity. }
  rewrite G. cbn [bind].
  (* categories *)
  set (F := fun kv : str * jval =>
              match snd kv with
              | JObj rm => match aget rm DEFAULT with
                           | Some dj => bind (default_level dj) (fun l => Ok [(fst kv, l)])
                           | None => Ok []
                           end
              | _ => Err ENotAMap
              end).
  assert (HA : map_result F A =
               Ok (map (fun cr : str * category => match aget dc (fst cr) with Some l => [(fst cr, l)] | None => [] end) (c_rules c))).
  { unfold A, placed_cats, cat_docs. rewrite !map_map. cbn [fst snd].
    pose proof (w_rules c W) as Hr. clear -Hr. revert Hr. generalize (c_rules c) as rules.
    induction rules as [|[cat rs] l IH]; intros Hr; [reflexivity|].
    cbn [map fst snd map_result]. unfold F at 1. cbn [fst snd].
    destruct (Hr cat rs (or_introl eq_refl)) as [Hn _].
    fold (rule_docs rs). rewrite (category_default_back rs _ Hn).
    destruct (aget dc cat) as [lv|]; cbn [option_map].
    - rewrite default_level_doc. cbn [bind]. rewrite IH by (intros c0 r0 Hi; apply (Hr c0); right; exact Hi). reflexivity.
    - cbn [bind]. rewrite IH by (intros c0 r0 Hi; apply (Hr c0); right; exact Hi). reflexivity. }
  assert (HG : map_result F (global_entry g) = Ok (map (fun _ => []) (global_entry g))).
  { unfold global_entry. destruct (nonempty g); [|reflexivity].
    cbn [map_result map]. unfold F. cbn [snd level_doc aget fst].
    assert (E : str_eqb LEVEL DEFAULT = false) by reflexivity. rewrite E. reflexivity. }
  rewrite (map_result_app F _ _ _ _ HA HG). cbn [bind]. f_equal. f_equal.
  rewrite concat_app. unfold cats_back.
  assert (Z : concat (map (fun _ : str * jval => ([] : list (str * str))) (global_entry g)) = []).
  { unfold global_entry. destruct (nonempty g); reflexivity. }
  rewrite Z, app_nil_r. reflexivity.
Qed.

Lemma cats_back_get dc rs cat :
  distinct (keys rs) = true ->
  (forall k l, In (k, l) dc -> str_in k (keys rs) = true) ->
  aget (cats_back dc rs) cat = aget dc cat.
Proof.
  intros Hd Hsub.
  assert (G : aget (cats_back dc rs) cat = if str_in cat (keys rs) then aget dc cat else None).
  { clear Hsub. unfold cats_back. induction rs as [|[k0 c0] rs IH]; [reflexivity|].
    change (distinct (k0 :: keys rs) = true) in Hd. cbn [distinct] in Hd.
    apply andb_true_iff in Hd. destruct Hd as [Hn Hd]. apply negb_true_iff in Hn.
    cbn [map fst concat]. rewrite aget_app. change (keys ((k0, c0) :: rs)) with (k0 :: keys rs).
    cbn [str_in]. rewrite (str_eqb_sym cat k0).
    destruct (str_eqb_spec k0 cat) as [->|Hne].
    - cbn [orb]. destruct (aget dc cat) as [l|]; cbn [aget].
      + rewrite str_eqb_refl. reflexivity.
      + rewrite IH by assumption. rewrite Hn. reflexivity.
    - cbn [orb]. destruct (aget dc k0) as [l|]; cbn [aget].
      + destruct (str_eqb_spec k0 cat); [contradiction|]. apply IH; assumption.
      + apply IH; assumption. }
  rewrite G. destruct (str_in cat (keys rs)) eqn:E; [reflexivity|].
  destruct (aget dc cat) as [l|] eqn:Ed; [|reflexivity].
  apply aget_some_in' in Ed. rewrite (Hsub _ _ Ed) in E. discriminate.
Qed.


Lemma tail_get c x :
  aget ((RULES, x) :: doc_tail c) IGNORE =
    match c_ignore c with [] => None | fs => Some (JObj [(FILES, JArr (map JStr fs))]) end /\
  aget ((RULES, x) :: doc_tail c) PROJECT = option_map project_doc (c_project c) /\
  aget ((RULES, x) :: doc_tail c) CAPABILITIES = option_map caps_doc (c_caps c) /\
  aget ((RULES, x) :: doc_tail c) FEATURES = option_map features_doc (c_features c).
Proof.
  unfold doc_tail.
  destruct (c_caps c), (c_features c), (c_project c), (nonempty (c_caps_url c)), (c_ignore c);
    repeat split; reflexivity.
Qed.

Lemma root_back r : root_of (root_doc r) = Some r.
Proof. destruct r as [p [v|]]; reflexivity. Qed.

Lemma roots_back rs : roots_of (map root_doc rs) = Some rs.
Proof. induction rs as [|r rs IH]; [reflexivity|]. cbn [map roots_of]. rewrite root_back, IH. reflexivity. Qed.

Lemma project_back p : project_of (Some (project_doc p)) = Ok (Some p).
Proof.
  destruct p as [[rs|] [v|]]; unfold project_doc, project_of; cbn [p_roots p_ver option_map opt_entry app].
  - cbn [aget]. rewrite str_eqb_refl. rewrite roots_back.
    assert (E : str_eqb ROOTS REGO_VERSION = false) by reflexivity. rewrite E. rewrite str_eqb_refl. reflexivity.
  - cbn [aget]. rewrite str_eqb_refl. rewrite roots_back.
    assert (E : str_eqb ROOTS REGO_VERSION = false) by reflexivity. rewrite E. reflexivity.
  - cbn [aget]. assert (E : str_eqb REGO_VERSION ROOTS = false) by reflexivity. rewrite E, str_eqb_refl. reflexivity.
  - reflexivity.
Qed.

Section RoundTrip.
  Variable lookup : str -> option caps.
  Variable abs : str -> str.
  Variable base : caps.
  Hypothesis Hdefault : lookup DEFAULT_CAPS_URL = Some base.

  Theorem yaml_roundtrip_partial c :
    roundtrip_wf c = true ->
    exists j c',
      marshal c = Some j /\ unmarshal lookup abs true j = Ok c' /\
      c_rules c' = norm_rules (c_rules c) /\
      d_global (c_defaults c') = d_global (c_defaults c) /\
      (forall cat, aget (d_cats (c_defaults c')) cat = aget (d_cats (c_defaults c)) cat) /\
      c_ignore c' = c_ignore c /\
      c_project c' = c_project c /\
      c_features c' = features_back (c_features c) /\
      c_caps c' = Some base /\ c_caps_url c' = DEFAULT_CAPS_URL.
  Proof.
    intros Hwf. pose proof (rt_wf_of c Hwf) as W.
    eexists. eexists. split; [apply marshal_eq; exact W|].
    destruct (tail_get c (JObj (rules_doc c))) as (Ti & Tp & Tc & Tf).
    set (top := (RULES, JObj (rules_doc c)) :: doc_tail c) in *.
    assert (Er : aget top RULES = Some (JObj (rules_doc c))).
    { unfold top. cbn [aget]. rewrite str_eqb_refl. reflexivity. }
    assert (Fi : field (field (Some (JObj top)) IGNORE) FILES =
                 match c_ignore c with [] => None | fs => Some (JArr (map JStr fs)) end).
    { unfold field at 2. rewrite Ti. destruct (c_ignore c) as [|f fs]; [reflexivity|].
      unfold field. cbn [aget]. rewrite str_eqb_refl. reflexivity. }
    assert (Fc : field (Some (JObj top)) CAPABILITIES = option_map caps_doc (c_caps c)).
    { unfold field. rewrite Tc. destruct (c_caps c); reflexivity. }
    assert (Ff : field (Some (JObj top)) FEATURES = option_map features_doc (c_features c)).
    { unfold field. rewrite Tf. destruct (c_features c); reflexivity. }
    assert (Pj : project_of (aget top PROJECT) = Ok (c_project c)).
    { rewrite Tp. destruct (c_project c) as [p|]; [apply project_back | reflexivity]. }
    assert (Ig : match field (field (Some (JObj top)) IGNORE) FILES with
                 | Some (JArr l) => match strs_of l with Some fs => Ok fs | None => Err EDecode end
                 | None => Ok []
                 | Some _ => Err EDecode
                 end = Ok (c_ignore c)).
    { rewrite Fi. destruct (c_ignore c) as [|f fs]; [reflexivity|]. rewrite strs_of_map. reflexivity. }
    assert (Cu : caps_url_of abs (field (field (Some (JObj top)) CAPABILITIES) FROM) = Ok DEFAULT_CAPS_URL).
    { rewrite Fc. destruct (c_caps c); reflexivity. }
    assert (Cm : names_of (arr_field (field (field (Some (JObj top)) CAPABILITIES) MINUS) BUILTINS) = []).
    { rewrite Fc. destruct (c_caps c); reflexivity. }
    assert (Cp : plus_of (arr_field (field (field (Some (JObj top)) CAPABILITIES) PLUS) BUILTINS) = []).
    { rewrite Fc. destruct (c_caps c); reflexivity. }
    assert (Fv : match field (field (field (Some (JObj top)) FEATURES) REMOTE) CHECK_VERSION_DASH with
                 | Some (JBool true) => true | _ => false end =
                 match c_features c with Some (Some true) => true | _ => false end).
    { rewrite Ff. destruct (c_features c) as [[[|]|]|]; reflexivity. }
    unfold unmarshal. rewrite Er, Pj, Ig. cbn [bind].
    rewrite (defaults_back c W). cbn [bind]. rewrite (rules_back c W). cbn [bind].
    rewrite Cu. cbn [bind]. rewrite Hdefault, Cm, Cp, Fv.
    split; [reflexivity|].
    cbn [c_rules c_defaults d_global d_cats c_ignore c_project c_features c_caps c_caps_url fold_left].
    repeat split.
    - intros cat. apply cats_back_get; [exact (w_cats c W) | exact (w_sub c W)].
    - destruct (c_features c) as [[[|]|]|]; reflexivity.
  Qed.
End RoundTrip.

(* the full statement fails: the resolved capabilities are written as a plain list that the
   reader ignores, so whatever capabilities.from / plus / minus did is gone after a reload
   (and capabilities_url is reset to the default) *)
Definition wit_lookup (url : str) : option caps := Some [([99; 111; 117; 110; 116], [120]); ([112; 114; 105; 110; 116], [121])].
Definition wit_doc : jval :=
  JObj [(CAPABILITIES, JObj [(MINUS, JObj [(BUILTINS, JArr [JObj [(NAME, JStr [112; 114; 105; 110; 116])]])])])].

Theorem yaml_roundtrip_refuted :
  exists lookup abs doc c j c',
    unmarshal lookup abs true doc = Ok c /\ roundtrip_wf c = true /\
    marshal c = Some j /\ unmarshal lookup abs true j = Ok c' /\ c_caps c' <> c_caps c.
Proof.
  exists wit_lookup, (fun p => p), wit_doc.
  eexists. eexists. eexists.
  split; [vm_compute; reflexivity|].
  split; [vm_compute; reflexivity|].
  split; [vm_compute; reflexivity|].
  split; [vm_compute; reflexivity|].
  vm_compute. discriminate.
Qed.

(* ---------------- what UnmarshalYAML returns is well-formed ---------------- *)

Lemma str_in_adel {A} (m : list (str * A)) k k' :
  str_in k' (keys (adel m k)) = if str_eqb k k' then false else str_in k' (keys m).
Proof.
  induction m as [|[k0 v0] m IH]; [cbn; destruct (str_eqb k k'); reflexivity|].
  cbn [adel]. change (keys ((k0, v0) :: m)) with (k0 :: keys m). cbn [str_in].
  destruct (str_eqb_spec k0 k) as [->|Hne].
  - rewrite IH. destruct (str_eqb_spec k k') as [->|Hne'].
    + reflexivity.
    + rewrite (str_eqb_sym k' k). destruct (str_eqb_spec k k'); [contradiction | reflexivity].
  - change (keys ((k0, v0) :: adel m k)) with (k0 :: keys (adel m k)). cbn [str_in]. rewrite IH.
    destruct (str_eqb_spec k k') as [->|Hne'].
    + rewrite (str_eqb_sym k' k0). destruct (str_eqb_spec k0 k'); [contradiction | reflexivity].
    + reflexivity.
Qed.

Lemma distinct_adel {A} (m : list (str * A)) k : distinct (keys m) = true -> distinct (keys (adel m k)) = true.
Proof.
  induction m as [|[k0 v0] m IH]; [reflexivity|]. intros Hd.
  change (distinct (k0 :: keys m) = true) in Hd. cbn [distinct] in Hd.
  apply andb_true_iff in Hd. destruct Hd as [Hn Hd]. cbn [adel].
  destruct (str_eqb k0 k); [apply IH; assumption|].
  change (distinct (k0 :: keys (adel m k)) = true). cbn [distinct].
  rewrite (IH Hd), andb_true_r. rewrite str_in_adel.
  destruct (str_eqb k k0); [reflexivity | exact Hn].
Qed.

Lemma rule_of_wf j r : rule_doc_wf j = true -> rule_of j = Ok r -> rule_wf r = true.
Proof.
  destruct j as [| | | | |m]; try discriminate. cbn [rule_doc_wf rule_of]. intros Hd H.
  assert (E : r_extra r = adel (adel m LEVEL) IGNORE).
  { destruct (aget m IGNORE) as [[| | | | |im]|]; cbn [bind] in H; try discriminate.
    - injection H as <-. reflexivity.
    - destruct (aget im FILES) as [[| | | |l|]|]; cbn [bind] in H; try discriminate;
        try (injection H as <-; reflexivity).
      destruct (strs_of l); cbn [bind] in H; [injection H as <-; reflexivity | discriminate].
    - injection H as <-. reflexivity. }
  unfold rule_wf. rewrite E.
  rewrite (distinct_adel _ IGNORE (distinct_adel _ LEVEL Hd)).
  rewrite !str_in_adel. rewrite str_eqb_refl.
  assert (E1 : str_eqb IGNORE LEVEL = false) by reflexivity. rewrite E1, str_eqb_refl. reflexivity.
Qed.

Lemma map_result_keys {A B} (f : str * A -> result (str * B)) (l : list (str * A)) r :
  (forall x y, f x = Ok y -> fst y = fst x) ->
  map_result f l = Ok r -> keys r = keys l.
Proof.
  intros Hf. revert r. induction l as [|x l IH]; intros r H.
  - cbn in H. injection H as <-. reflexivity.
  - cbn [map_result] in H. destruct (f x) as [y|e] eqn:Ex; [|discriminate]. cbn [bind] in H.
    destruct (map_result f l) as [ys|e]; [|discriminate]. cbn [bind] in H. injection H as <-.
    change (fst y :: keys ys = fst x :: keys l). rewrite (Hf _ _ Ex), (IH ys eq_refl). reflexivity.
Qed.

Lemma map_result_forall {A B} (f : A -> result B) (P : A -> Prop) (Q : B -> Prop) (l : list A) r :
  (forall x y, P x -> f x = Ok y -> Q y) ->
  Forall P l -> map_result f l = Ok r -> Forall Q r.
Proof.
  intros Hf HP. revert r. induction HP as [|x l Hx Hl IH]; intros r H.
  - cbn in H. injection H as <-. constructor.
  - cbn [map_result] in H. destruct (f x) as [y|e] eqn:Ex; [|discriminate]. cbn [bind] in H.
    destruct (map_result f l) as [ys|e]; [|discriminate]. cbn [bind] in H. injection H as <-.
    constructor; [exact (Hf _ _ Hx Ex) | exact (IH ys eq_refl)].
Qed.

Lemma keys_filter_ne {A} (m : list (str * A)) k :
  keys (filter (fun kv => negb (str_eqb (fst kv) k)) m) = filter (fun x => negb (str_eqb x k)) (keys m).
Proof.
  induction m as [|[k0 v0] m IH]; [reflexivity|]. cbn [filter fst].
  change (keys ((k0, v0) :: m)) with (k0 :: keys m). cbn [filter].
  destruct (str_eqb k0 k); cbn [negb]; [exact IH|].
  change (keys ((k0, v0) :: filter (fun kv : str * A => negb (str_eqb (fst kv) k)) m))
    with (k0 :: keys (filter (fun kv : str * A => negb (str_eqb (fst kv) k)) m)).
  rewrite IH. reflexivity.
Qed.

Lemma str_in_filter_ne ks k k' :
  str_in k' (filter (fun x => negb (str_eqb x k)) ks) = if str_eqb k k' then false else str_in k' ks.
Proof.
  induction ks as [|x ks IH]; [cbn; destruct (str_eqb k k'); reflexivity|].
  cbn [filter str_in]. destruct (str_eqb_spec x k) as [->|Hne]; cbn [negb].
  - rewrite IH. destruct (str_eqb_spec k k') as [->|Hne'].
    + reflexivity.
    + rewrite (str_eqb_sym k' k). destruct (str_eqb_spec k k'); [contradiction | reflexivity].
  - cbn [str_in]. rewrite IH. destruct (str_eqb_spec k k') as [->|Hne'].
    + rewrite (str_eqb_sym k' x). destruct (str_eqb_spec x k'); [contradiction | reflexivity].
    + reflexivity.
Qed.

Lemma distinct_filter_ne ks k : distinct ks = true -> distinct (filter (fun x => negb (str_eqb x k)) ks) = true.
Proof.
  induction ks as [|x ks IH]; [reflexivity|]. intros Hd. cbn [distinct] in Hd.
  apply andb_true_iff in Hd. destruct Hd as [Hn Hd]. cbn [filter].
  destruct (str_eqb x k) eqn:E; cbn [negb]; [apply IH; assumption|].
  cbn [distinct]. rewrite (IH Hd), andb_true_r. rewrite str_in_filter_ne.
  rewrite (str_eqb_sym k x), E. exact Hn.
Qed.

(* one category *)
Lemma category_of_wf rm rs :
  distinct (keys rm) = true -> forallb (fun nr => rule_doc_wf (snd nr)) rm = true ->
  map_result (fun nr : str * jval => bind (rule_of (snd nr)) (fun r => Ok (fst nr, r)))
             (filter (fun nr => negb (str_eqb (fst nr) DEFAULT)) rm) = Ok rs ->
  distinct (keys rs) = true /\ str_in DEFAULT (keys rs) = false /\
  forallb (fun nr => rule_wf (snd nr)) rs = true.
Proof.
  intros Hd Hw H.
  assert (K : keys rs = filter (fun x => negb (str_eqb x DEFAULT)) (keys rm)).
  { rewrite <- keys_filter_ne. eapply map_result_keys; [|exact H].
    intros x y E. cbv beta in E. destruct (rule_of (snd x)); cbn [bind] in E; [injection E as <-; reflexivity | discriminate]. }
  repeat split.
  - rewrite K. apply distinct_filter_ne. exact Hd.
  - rewrite K, str_in_filter_ne, str_eqb_refl. reflexivity.
  - apply forallb_forall. apply Forall_forall.
    eapply (map_result_forall _ (fun nr => rule_doc_wf (snd nr) = true) (fun nr => rule_wf (snd nr) = true)); [| |exact H].
    + intros x y Px E. cbv beta in E. destruct (rule_of (snd x)) as [r|] eqn:Er; cbn [bind] in E; [|discriminate].
      injection E as <-. cbn [snd]. eapply rule_of_wf; eassumption.
    + apply Forall_forall. intros x Hx. apply filter_In in Hx. destruct Hx as [Hx _].
      rewrite forallb_forall in Hw. exact (Hw _ Hx).
Qed.

Lemma rules_of_wf rules rs :
  distinct (keys rules) = true -> forallb (fun kv => cat_doc_wf (snd kv)) rules = true ->
  rules_of rules = Ok rs ->
  keys rs = filter (fun x => negb (str_eqb x DEFAULT)) (keys rules) /\
  rules_wf rs = true /\
  forallb (fun cr => negb (str_in DEFAULT (keys (snd cr)))) rs = true.
Proof.
  intros Hd Hw H. unfold rules_of in H.
  set (F := fun kv : str * jval => match snd kv with
                                   | JObj rm => bind (map_result (fun nr : str * jval => bind (rule_of (snd nr)) (fun r => Ok (fst nr, r)))
                                                                 (filter (fun nr => negb (str_eqb (fst nr) DEFAULT)) rm))
                                                     (fun rs0 => Ok (fst kv, rs0))
                                   | _ => Err ENotAMap end) in H.
  assert (K : keys rs = filter (fun x => negb (str_eqb x DEFAULT)) (keys rules)).
  { rewrite <- keys_filter_ne. eapply map_result_keys; [|exact H].
    intros x y E. unfold F in E. destruct (snd x); try discriminate.
    match type of E with bind ?x _ = _ => destruct x end; cbn [bind] in E; [injection E as <-; reflexivity | discriminate]. }
  assert (G : Forall (fun cr : str * category =>
                        distinct (keys (snd cr)) = true /\ str_in DEFAULT (keys (snd cr)) = false /\
                        forallb (fun nr => rule_wf (snd nr)) (snd cr) = true) rs).
  { eapply (map_result_forall F (fun kv => cat_doc_wf (snd kv) = true)); [| |exact H].
    - intros x y Px E. unfold F in E. destruct (snd x) as [| | | | |rm] eqn:Es; try discriminate.
      match type of E with bind ?x _ = _ => destruct x as [rs0|] eqn:Em end; cbn [bind] in E; [|discriminate]. injection E as <-. cbn [snd].
      cbn [cat_doc_wf] in Px. apply andb_true_iff in Px. destruct Px as [P1 P2].
      eapply category_of_wf; eassumption.
    - apply Forall_forall. intros x Hx. apply filter_In in Hx. destruct Hx as [Hx _].
      rewrite forallb_forall in Hw. exact (Hw _ Hx). }
  split; [exact K|]. split.
  - unfold rules_wf. rewrite K, (distinct_filter_ne _ DEFAULT Hd). cbn [andb].
    apply forallb_forall. intros cr Hi. rewrite Forall_forall in G. destruct (G _ Hi) as (G1 & _ & G3).
    apply andb_true_iff. split; assumption.
  - apply forallb_forall. intros cr Hi. rewrite Forall_forall in G. destruct (G _ Hi) as (_ & G2 & _).
    apply negb_true_iff. exact G2.
Qed.

(* the category defaults *)
Lemma defaults_of_wf rules ds :
  rules_doc_wf rules = true -> defaults_of rules = Ok ds ->
  distinct (keys (d_cats ds)) = true /\
  forallb (fun cl => str_in (fst cl) (filter (fun x => negb (str_eqb x DEFAULT)) (keys rules))) (d_cats ds) = true.
Proof.
  unfold rules_doc_wf. intros Hw H. apply andb_true_iff in Hw. destruct Hw as [Hw Hdd].
  apply andb_true_iff in Hw. destruct Hw as [Hd _].
  unfold defaults_of in H.
  destruct (match aget rules DEFAULT with Some j => default_level j | None => Ok [] end) as [g|]; [|discriminate].
  cbn [bind] in H.
  set (F := fun kv : str * jval => match snd kv with
             | JObj rm => match aget rm DEFAULT with
                          | Some dj => bind (default_level dj) (fun l => Ok [(fst kv, l)])
                          | None => Ok []
                          end
             | _ => Err ENotAMap end) in H.
  destruct (map_result F rules) as [cs|] eqn:Em; [|discriminate]. cbn [bind] in H. injection H as <-. cbn [d_cats].
  (* every produced entry is keyed by a key of [rules] whose value has a "default" entry *)
  assert (G : forall sub cs', (forall x, In x sub -> In x rules) -> distinct (keys sub) = true ->
              map_result F sub = Ok cs' ->
              distinct (keys (concat cs')) = true /\
              (forall k, str_in k (keys (concat cs')) = true ->
                 str_in k (keys sub) = true /\ exists rm, aget rules k = Some (JObj rm) /\ aget rm DEFAULT <> None)).
  { induction sub as [|[k0 v0] sub IH]; intros cs' Hsub Hds Hm.
    - cbn in Hm. injection Hm as <-. split; [reflexivity | intros k Hk; discriminate].
    - cbn [map_result] in Hm. destruct (F (k0, v0)) as [c|] eqn:Ef; [|discriminate]. cbn [bind] in Hm.
      destruct (map_result F sub) as [cs''|] eqn:Em'; [|discriminate]. cbn [bind] in Hm. injection Hm as <-.
      change (distinct (k0 :: keys sub) = true) in Hds. cbn [distinct] in Hds.
      apply andb_true_iff in Hds. destruct Hds as [Hn Hds].
      destruct (IH cs'' (fun x Hx => Hsub x (or_intror Hx)) Hds eq_refl) as (I1 & I2).
      cbn [concat]. unfold F in Ef. cbn [snd fst] in Ef.
      destruct v0 as [| | | | |rm]; try discriminate.
      destruct (aget rm DEFAULT) as [dj|] eqn:Ed.
      + destruct (default_level dj) as [l|]; cbn [bind] in Ef; [|discriminate]. injection Ef as <-.
        cbn [app]. change (keys ((k0, l) :: concat cs'')) with (k0 :: keys (concat cs'')). split.
        * cbn [distinct]. rewrite I1, andb_true_r. apply negb_true_iff.
          destruct (str_in k0 (keys (concat cs''))) eqn:E; [|reflexivity].
          destruct (I2 _ E) as (E' & _). apply negb_true_iff in Hn. congruence.
        * intros k Hk. cbn [str_in] in Hk. change (keys ((k0, JObj rm) :: sub)) with (k0 :: keys sub). cbn [str_in].
          destruct (str_eqb_spec k k0) as [Ek|Hne].
          -- subst k0. split; [reflexivity|]. exists rm. split; [|congruence].
             apply aget_in; [exact Hd | apply Hsub; left; reflexivity].
          -- cbn [orb] in Hk. destruct (I2 _ Hk) as (E1 & E2). split; [exact E1 | exact E2].
      + injection Ef as <-. cbn [app]. split; [exact I1|].
        intros k Hk. destruct (I2 _ Hk) as (E1 & E2). split; [|exact E2].
        change (keys ((k0, JObj rm) :: sub)) with (k0 :: keys sub). cbn [str_in]. rewrite E1. apply orb_true_r. }
  destruct (G rules cs (fun x Hx => Hx) Hd Em) as (G1 & G2).
  split; [exact G1|].
  apply forallb_forall. intros [k l] Hi. cbn [fst].
  assert (Hk : str_in k (keys (concat cs)) = true).
  { clear -Hi. induction (concat cs) as [|[k1 l1] m IH]; [destruct Hi|].
    change (keys ((k1, l1) :: m)) with (k1 :: keys m). cbn [str_in]. destruct Hi as [E|Hi].
    - injection E as -> ->. rewrite str_eqb_refl. reflexivity.
    - rewrite (IH Hi). apply orb_true_r. }
  destruct (G2 _ Hk) as (E1 & rm & E2 & E3).
  rewrite str_in_filter_ne, E1.
  destruct (str_eqb_spec DEFAULT k) as [<-|]; [|reflexivity].
  (* the key is "default": excluded, its object has no "default" entry *)
  exfalso. rewrite E2 in Hdd. apply negb_true_iff in Hdd. apply aget_none_notin in Hdd. contradiction.
Qed.

Theorem unmarshal_wf lookup abs dash doc c :
  doc_wf doc = true -> unmarshal lookup abs dash doc = Ok c -> roundtrip_wf c = true.
Proof.
  intros Hw H. destruct doc as [| | | | |top]; try discriminate. cbn [doc_wf] in Hw. unfold unmarshal in H.
  set (rules := match aget top RULES with
                | None | Some JNull => Ok [] | Some (JObj m) => Ok m | Some _ => Err EDecode end) in H.
  assert (R : exists m, rules = Ok m /\ rules_doc_wf m = true \/ exists e, rules = Err e).
  { unfold rules. destruct (aget top RULES) as [[| | | | |m]|]; try (exists []; right; eexists; reflexivity);
      try (exists []; left; split; reflexivity).
    exists m. left. split; [reflexivity | exact Hw]. }
  destruct R as (m & [[Er Hm]|[e Er]]); rewrite Er in H; cbn [bind] in H; [|discriminate].
  destruct (project_of (aget top PROJECT)) as [proj|]; cbn [bind] in H; [|discriminate].
  match type of H with bind ?x _ = _ => destruct x as [ign|] end; cbn [bind] in H; [|discriminate].
  destruct (defaults_of m) as [ds|] eqn:Ed; cbn [bind] in H; [|discriminate].
  destruct (rules_of m) as [rs|] eqn:Ers; cbn [bind] in H; [|discriminate].
  match type of H with bind ?x _ = _ => destruct x as [url|] end; cbn [bind] in H; [|discriminate].
  destruct (lookup url) as [base|]; [|discriminate].
  injection H as <-.
  pose proof Hm as Hm'. unfold rules_doc_wf in Hm'. apply andb_true_iff in Hm'. destruct Hm' as [Hm' _].
  apply andb_true_iff in Hm'. destruct Hm' as [Hdk Hcw].
  destruct (rules_of_wf m rs Hdk Hcw Ers) as (K & W1 & W2).
  destruct (defaults_of_wf m ds Hm Ed) as (D1 & D2).
  unfold roundtrip_wf, config_wf. cbn [c_rules c_defaults].
  rewrite W1, D1, W2. rewrite K, str_in_filter_ne, str_eqb_refl. cbn [negb andb]. exact D2.
Qed.

(* ---------------- what LoadConfigWithDefaultsFromBundle returns is well-formed ---------------- *)

Lemma keys_aset {A} (m : list (str * A)) k v :
  keys (aset m k v) = if str_in k (keys m) then keys m else keys m ++ [k].
Proof.
  induction m as [|[k0 v0] m IH]; [reflexivity|].
  cbn [aset]. change (keys ((k0, v0) :: m)) with (k0 :: keys m). cbn [str_in].
  rewrite (str_eqb_sym k k0). destruct (str_eqb_spec k0 k) as [->|Hne]; cbn [orb].
  - reflexivity.
  - change (keys ((k0, v0) :: aset m k v)) with (k0 :: keys (aset m k v)). rewrite IH.
    destruct (str_in k (keys m)); reflexivity.
Qed.

Lemma distinct_snoc ks k : distinct ks = true -> str_in k ks = false -> distinct (ks ++ [k]) = true.
Proof.
  induction ks as [|x ks IH]; intros Hd Hn; [reflexivity|].
  cbn [distinct app] in *. apply andb_true_iff in Hd. destruct Hd as [H1 H2].
  cbn [str_in] in Hn. apply orb_false_iff in Hn. destruct Hn as [N1 N2].
  rewrite (IH H2 N2), andb_true_r. rewrite str_in_app. cbn [str_in].
  apply negb_true_iff in H1. rewrite H1. cbn [orb]. rewrite (str_eqb_sym x k), N1. reflexivity.
Qed.

Lemma distinct_aset {A} (m : list (str * A)) k v : distinct (keys m) = true -> distinct (keys (aset m k v)) = true.
Proof.
  intros Hd. rewrite keys_aset. destruct (str_in k (keys m)) eqn:E; [exact Hd | apply distinct_snoc; assumption].
Qed.

Lemma str_in_aset {A} (m : list (str * A)) k v k' :
  str_in k' (keys (aset m k v)) = str_eqb k' k || str_in k' (keys m).
Proof.
  rewrite keys_aset. destruct (str_in k (keys m)) eqn:E.
  - destruct (str_eqb_spec k' k) as [->|]; [rewrite E; reflexivity | reflexivity].
  - rewrite str_in_app. cbn [str_in]. rewrite orb_false_r, orb_comm. reflexivity.
Qed.

Lemma distinct_acopy {A} (src dst : list (str * A)) : distinct (keys dst) = true -> distinct (keys (acopy dst src)) = true.
Proof.
  unfold acopy. revert dst. induction src as [|[k v] src IH]; intros dst Hd; [exact Hd|].
  cbn [fold_left fst snd]. apply IH. apply distinct_aset. exact Hd.
Qed.

Lemma str_in_acopy {A} (src dst : list (str * A)) k :
  str_in k (keys (acopy dst src)) = str_in k (keys dst) || str_in k (keys src).
Proof.
  unfold acopy. revert dst. induction src as [|[k0 v] src IH]; intros dst.
  - cbn. rewrite orb_false_r. reflexivity.
  - cbn [fold_left fst snd]. rewrite IH, str_in_aset. change (keys ((k0, v) :: src)) with (k0 :: keys src).
    cbn [str_in]. destruct (str_eqb k k0), (str_in k (keys dst)); cbn [orb]; rewrite ?orb_true_r; reflexivity.
Qed.

Lemma distinct_merge_rules src : forall dst, distinct (keys dst) = true -> distinct (keys (merge_rules dst src)) = true.
Proof.
  unfold merge_rules, category. induction src as [|[k v] src IH]; intros dst Hd; [exact Hd|].
  cbn [fold_left fst snd]. apply IH. destruct (aget dst k); apply distinct_aset; exact Hd.
Qed.

Lemma str_in_merge_rules src : forall dst k,
  str_in k (keys (merge_rules dst src)) = str_in k (keys dst) || str_in k (keys src).
Proof.
  unfold merge_rules, category. induction src as [|[k0 v] src IH]; intros dst k.
  - cbn. rewrite orb_false_r. reflexivity.
  - cbn [fold_left fst snd]. rewrite IH. change (keys ((k0, v) :: src)) with (k0 :: keys src). cbn [str_in].
    destruct (aget dst k0); rewrite str_in_aset;
      destruct (str_eqb k k0), (str_in k (keys dst)); cbn [orb]; rewrite ?orb_true_r; reflexivity.
Qed.

Lemma keys_map_rules f rs : keys (map_rules f rs) = keys rs.
Proof. unfold map_rules, keys. rewrite map_map. reflexivity. Qed.

Lemma in_map_rules f rs cat c' :
  In (cat, c') (map_rules f rs) ->
  exists c, In (cat, c) rs /\ c' = map (fun nr => (fst nr, f cat (fst nr) (snd nr))) c.
Proof.
  unfold map_rules. intros H. apply in_map_iff in H. destruct H as ([k c] & E & Hi).
  cbn [fst snd] in E. injection E as -> <-. exists c. split; [exact Hi | reflexivity].
Qed.

Lemma forallb_aget {A} (P : str * A -> bool) (m : list (str * A)) :
  (forall k v, aget m k = Some v -> P (k, v) = true) -> distinct (keys m) = true -> forallb P m = true.
Proof.
  intros H Hd. apply forallb_forall. intros [k v] Hi. apply H. apply aget_in; assumption.
Qed.

Lemma in_of_aget {A} (m : list (str * A)) k v : aget m k = Some v -> In (k, v) m.
Proof.
  induction m as [|[k0 v0] m IH]; simpl; [discriminate|].
  destruct (str_eqb_spec k0 k) as [->|]; [intros [= ->]; left; reflexivity | right; auto].
Qed.

Record cat_ok (c : category) : Prop := {
  co_distinct : distinct (keys c) = true;
  co_nodefault : str_in DEFAULT (keys c) = false;
  co_rules : forall name r, In (name, r) c -> rule_wf r = true }.

Lemma cats_ok_of c : roundtrip_wf c = true -> forall cat rs, In (cat, rs) (c_rules c) -> cat_ok rs.
Proof.
  intros H cat rs Hi. pose proof (rt_wf_of c H) as W.
  destruct (w_rules c W cat rs Hi) as [H1 H2].
  unfold roundtrip_wf, config_wf, rules_wf in H.
  apply andb_true_iff in H. destruct H as [H _].
  apply andb_true_iff in H. destruct H as [H _].
  apply andb_true_iff in H. destruct H as [H _].
  apply andb_true_iff in H. destruct H as [H _].
  apply andb_true_iff in H. destruct H as [_ Hrw].
  rewrite forallb_forall in Hrw. specialize (Hrw _ Hi). cbn [snd] in Hrw. apply andb_true_iff in Hrw.
  constructor; [tauto | exact H1 |].
  intros name r Hr. rewrite forallb_forall in H2. exact (H2 _ Hr).
Qed.

Lemma complete_rule_wf p r : rule_wf p = true -> rule_wf r = true -> rule_wf (complete_rule p r) = true.
Proof.
  unfold rule_wf. intros Hp Hr.
  apply andb_true_iff in Hp. destruct Hp as [Hp P3]. apply andb_true_iff in Hp. destruct Hp as [P1 P2].
  apply andb_true_iff in Hr. destruct Hr as [Hr R3]. apply andb_true_iff in Hr. destruct Hr as [R1 R2].
  cbn [complete_rule r_extra]. rewrite (distinct_acopy _ _ P1), !str_in_acopy.
  apply negb_true_iff in P2, P3, R2, R3. rewrite P2, P3, R2, R3. reflexivity.
Qed.

Lemma cat_ok_acopy d s : cat_ok d -> cat_ok s -> cat_ok (merge_struct_map d s).
Proof.
  intros [D1 D2 D3] [S1 S2 S3]. unfold merge_struct_map. constructor.
  - apply distinct_acopy. exact D1.
  - rewrite str_in_acopy, D2, S2. reflexivity.
  - intros name r Hi.
    assert (Hg : aget (acopy d s) name = Some r) by (apply aget_in; [apply distinct_acopy; exact D1 | exact Hi]).
    rewrite aget_acopy in Hg by exact S1.
    destruct (aget s name) as [r'|] eqn:E.
    + injection Hg as <-. apply (S3 name). apply in_of_aget. exact E.
    + apply (D3 name). apply in_of_aget. exact Hg.
Qed.

Theorem load_wf (p u : config) (dcaps : caps) :
  provided_plain p -> roundtrip_wf p = true -> roundtrip_wf u = true ->
  roundtrip_wf (load p (Some u) dcaps) = true.
Proof.
  intros Hpp Hp Hu.
  pose proof (rt_wf_of p Hp) as Wp. pose proof (rt_wf_of u Hu) as Wu.
  pose proof (cats_ok_of p Hp) as Cp. pose proof (cats_ok_of u Hu) as Cu.
  set (M0 := merge_rules (c_rules p) (c_rules u)).
  assert (D0 : distinct (keys M0) = true) by (apply distinct_merge_rules; exact (w_cats p Wp)).
  assert (C0 : forall cat c, In (cat, c) M0 -> cat_ok c).
  { intros cat c Hi. assert (Hg : aget M0 cat = Some c) by (apply aget_in; assumption).
    unfold M0 in Hg. rewrite merge_rules_get in Hg by exact (w_cats u Wu).
    destruct (aget (c_rules u) cat) as [scat|] eqn:Es.
    - injection Hg as <-. destruct (aget (c_rules p) cat) as [dcat|] eqn:Ed.
      + apply cat_ok_acopy; [apply (Cp cat) | apply (Cu cat)]; apply in_of_aget; assumption.
      + apply (Cu cat). apply in_of_aget. exact Es.
    - apply (Cp cat). apply in_of_aget. exact Hg. }
  (* the two passes over the rules keep keys and well-formedness *)
  assert (PASS : forall f rs, (forall cat name r, rule_wf r = true -> rule_wf (f cat name r) = true) ->
                 distinct (keys rs) = true -> (forall cat c, In (cat, c) rs -> cat_ok c) ->
                 distinct (keys (map_rules f rs)) = true /\ (forall cat c, In (cat, c) (map_rules f rs) -> cat_ok c)).
  { intros f rs Hf Hd Hc. split; [rewrite keys_map_rules; exact Hd|].
    intros cat c' Hi. destruct (in_map_rules _ _ _ _ Hi) as (c & Hic & ->).
    destruct (Hc cat c Hic) as [O1 O2 O3].
    assert (K : keys (map (fun nr : str * rule => (fst nr, f cat (fst nr) (snd nr))) c) = keys c)
      by (unfold keys; rewrite map_map; reflexivity).
    constructor; [rewrite K; exact O1 | rewrite K; exact O2 |].
    intros name r Hr. apply in_map_iff in Hr. destruct Hr as ([n0 r0] & E & Hr0). cbn [fst snd] in E.
    injection E as -> <-. apply Hf. exact (O3 _ _ Hr0). }
  set (f1 := fun cat name r => match get_rule p cat name with
                               | Some pr => if in_user u cat name then complete_rule pr r else r
                               | None => r end).
  assert (F1 : forall cat name r, rule_wf r = true -> rule_wf (f1 cat name r) = true).
  { intros cat name r Hr. unfold f1. destruct (get_rule p cat name) as [pr|] eqn:Ep; [|exact Hr].
    destruct (in_user u cat name); [|exact Hr]. apply complete_rule_wf; [|exact Hr].
    destruct (get_rule_in _ _ _ _ Ep) as (rs & I1 & I2).
    exact (co_rules _ (Cp cat rs I1) name pr I2). }
  destruct (PASS f1 M0 F1 D0 C0) as (D1 & C1).
  set (M1 := map_rules f1 M0) in *.
  set (pm := with_default_caps dcaps (restore_options p u (merge_config p u))).
  set (f2 := fun cat name r =>
               let pl := match aget (provided_levels p) name with Some l => l | None => ERROR end in
               {| r_level := select_level u pm cat name pl; r_ignore := r_ignore r; r_extra := r_extra r |}).
  assert (F2 : forall cat name r, rule_wf r = true -> rule_wf (f2 cat name r) = true)
    by (intros cat name r Hr; exact Hr).
  destruct (PASS f2 M1 F2 D1 C1) as (D2 & C2).
  (* assemble *)
  assert (ER : c_rules (load p (Some u) dcaps) = map_rules f2 M1) by reflexivity.
  assert (ED : d_cats (c_defaults (load p (Some u) dcaps)) = acopy [] (d_cats (c_defaults u))).
  { destruct Hpp as [Hd _]. cbn. rewrite Hd. reflexivity. }
  unfold roundtrip_wf, config_wf, rules_wf. rewrite ER, ED.
  assert (KM : forall k, str_in k (keys (map_rules f2 M1)) = str_in k (keys (c_rules p)) || str_in k (keys (c_rules u))).
  { intros k. rewrite keys_map_rules. unfold M1. rewrite keys_map_rules. apply str_in_merge_rules. }
  repeat (apply andb_true_iff; split).
  - exact D2.
  - apply forallb_forall. intros [cat c] Hi. destruct (C2 cat c Hi) as [O1 O2 O3]. cbn [snd].
    apply andb_true_iff. split; [exact O1|]. apply forallb_forall. intros [n r] Hr. exact (O3 n r Hr).
  - apply (distinct_acopy _ [] eq_refl).
  - rewrite KM, (w_nodef p Wp), (w_nodef u Wu). reflexivity.
  - apply forallb_forall. intros [cat c] Hi. destruct (C2 cat c Hi) as [_ O2 _]. cbn [snd]. rewrite O2. reflexivity.
  - apply forallb_forall. intros [k l] Hi. cbn [fst]. rewrite KM.
    assert (Hk : str_in k (keys (d_cats (c_defaults u))) = true).
    { apply in_keys in Hi. rewrite str_in_acopy in Hi. exact Hi. }
    destruct (str_in_keys_aget _ _ Hk) as (l' & Hl). rewrite (w_sub u Wu k l' (in_of_aget _ _ _ Hl)). apply orb_true_r.
Qed.

(* ---------------- the round trip of configurations that were actually loaded ---------------- *)

Lemma provided_config_roundtrip_wf : roundtrip_wf provided_config = true.
Proof. vm_compute. reflexivity. Qed.

Theorem yaml_roundtrip_loaded
  (lookup : str -> option caps) (abs : str -> str) (base : caps) :
  lookup DEFAULT_CAPS_URL = Some base ->
  forall doc u dcaps c,
  doc_wf doc = true -> unmarshal lookup abs true doc = Ok u ->
  c = u \/ c = load provided_config (Some u) dcaps ->
  exists j c',
    marshal c = Some j /\ unmarshal lookup abs true j = Ok c' /\
    c_rules c' = norm_rules (c_rules c) /\
    d_global (c_defaults c') = d_global (c_defaults c) /\
    (forall cat, aget (d_cats (c_defaults c')) cat = aget (d_cats (c_defaults c)) cat) /\
    c_ignore c' = c_ignore c /\
    c_project c' = c_project c /\
    c_features c' = features_back (c_features c) /\
    c_caps c' = Some base /\ c_caps_url c' = DEFAULT_CAPS_URL.
Proof.
  intros Hd doc u dcaps c Hw Hu Hc.
  pose proof (unmarshal_wf lookup abs true doc u Hw Hu) as Wu.
  apply (yaml_roundtrip_partial lookup abs base Hd).
  destruct Hc as [->| ->]; [exact Wu|].
  apply load_wf; [exact (proj1 provided_config_plain) | exact provided_config_roundtrip_wf | exact Wu].
Qed.
