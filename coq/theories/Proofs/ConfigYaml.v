(* Proofs about the map-level YAML layer of Model/ConfigMerge.v: what comes back when the
   document written by MarshalYAML is read again by UnmarshalYAML. *)
From Coq Require Import Lia.
From Regal Require Import Base.Str Model.ConfigMerge Proofs.ConfigMerge.
Local Open Scope N_scope.

(* ---------------- association lists, continued ---------------- *)

Lemma aget_app {A} (a b : list (str * A)) k :
  aget (a ++ b) k = match aget a k with Some v => Some v | None => aget b k end.
Proof.
  induction a as [|[k0 v0] a IH]; [reflexivity|]. cbn [app aget].
  destruct (str_eqb k0 k); [reflexivity | exact IH].
Qed.

Lemma aset_notin {A} (m : list (str * A)) k v :
  str_in k (keys m) = false -> aset m k v = m ++ [(k, v)].
Proof.
  induction m as [|[k0 v0] m IH]; intros H; [reflexivity|].
  change (str_in k (k0 :: keys m) = false) in H. cbn [str_in] in H.
  apply orb_false_iff in H. destruct H as [H1 H2].
  cbn [aset app]. rewrite (str_eqb_sym k0 k), H1. rewrite IH by assumption. reflexivity.
Qed.

Lemma adel_notin {A} (m : list (str * A)) k : str_in k (keys m) = false -> adel m k = m.
Proof.
  induction m as [|[k0 v0] m IH]; intros H; [reflexivity|].
  change (str_in k (k0 :: keys m) = false) in H. cbn [str_in] in H.
  apply orb_false_iff in H. destruct H as [H1 H2].
  cbn [adel]. rewrite (str_eqb_sym k0 k), H1, IH by assumption. reflexivity.
Qed.

Lemma filter_notin {A} (m : list (str * A)) k :
  str_in k (keys m) = false -> filter (fun kv => negb (str_eqb (fst kv) k)) m = m.
Proof.
  induction m as [|[k0 v0] m IH]; intros H; [reflexivity|].
  change (str_in k (k0 :: keys m) = false) in H. cbn [str_in] in H.
  apply orb_false_iff in H. destruct H as [H1 H2].
  cbn [filter fst]. rewrite (str_eqb_sym k0 k), H1. cbn [negb]. rewrite IH by assumption. reflexivity.
Qed.

Lemma strs_of_map l : strs_of (map JStr l) = Some l.
Proof. induction l as [|x l IH]; [reflexivity|]. cbn [map strs_of]. rewrite IH. reflexivity. Qed.

Lemma str_in_app k a b : str_in k (a ++ b) = str_in k a || str_in k b.
Proof. induction a as [|x a IH]; [reflexivity|]. cbn [app str_in]. rewrite IH, orb_assoc. reflexivity. Qed.

(* ---------------- one rule ---------------- *)

Lemma rule_roundtrip r : rule_wf r = true -> rule_of (rule_doc r) = Ok (norm_rule r).
Proof.
  unfold rule_wf. intros H. apply andb_true_iff in H. destruct H as [H Hi].
  apply andb_true_iff in H. destruct H as [_ Hl].
  apply negb_true_iff in Hl. apply negb_true_iff in Hi.
  unfold rule_doc, rule_of.
  assert (F : filter (fun kv => negb (str_eqb (fst kv) IGNORE) && negb (str_eqb (fst kv) LEVEL)) (r_extra r)
              = r_extra r).
  { clear -Hl Hi. induction (r_extra r) as [|[k0 v0] m IH]; [reflexivity|].
    change (str_in LEVEL (k0 :: keys m) = false) in Hl. change (str_in IGNORE (k0 :: keys m) = false) in Hi.
    cbn [str_in] in Hl, Hi. apply orb_false_iff in Hl. apply orb_false_iff in Hi.
    destruct Hl as [L1 L2]. destruct Hi as [I1 I2].
    cbn [filter fst]. rewrite (str_eqb_sym k0 IGNORE), I1, (str_eqb_sym k0 LEVEL), L1. cbn [negb andb].
    rewrite IH by assumption. reflexivity. }
  rewrite F.
  cbn [aget]. rewrite str_eqb_refl.
  assert (E1 : str_eqb LEVEL IGNORE = false) by reflexivity. rewrite E1.
  destruct (r_ignore r) as [[|f fs]|] eqn:Ei.
  - (* Some [] : not written *)
    cbn [app]. assert (N : aget (r_extra r) IGNORE = None) by (apply aget_none_notin; exact Hi).
    rewrite N. cbn [bind adel]. rewrite str_eqb_refl.
    rewrite (adel_notin _ LEVEL Hl), (adel_notin _ IGNORE Hi).
    unfold norm_rule. rewrite Ei. reflexivity.
  - cbn [app aget]. rewrite str_eqb_refl. cbn [aget]. rewrite str_eqb_refl.
    rewrite strs_of_map. cbn [bind adel]. rewrite str_eqb_refl.
    assert (E2 : str_eqb IGNORE LEVEL = false) by reflexivity. rewrite E2.
    rewrite (adel_notin _ LEVEL Hl). cbn [adel]. rewrite str_eqb_refl.
    rewrite (adel_notin _ IGNORE Hi). unfold norm_rule. rewrite Ei. reflexivity.
  - cbn [app]. assert (N : aget (r_extra r) IGNORE = None) by (apply aget_none_notin; exact Hi).
    rewrite N. cbn [bind adel]. rewrite str_eqb_refl.
    rewrite (adel_notin _ LEVEL Hl), (adel_notin _ IGNORE Hi).
    unfold norm_rule. rewrite Ei. reflexivity.
Qed.

(* ---------------- one category ---------------- *)

Definition rule_docs (rs : category) : list (str * jval) :=
  map (fun nr => (fst nr, rule_doc (snd nr))) rs.

Definition default_entry (l : option str) : list (str * jval) :=
  match l with Some l => [(DEFAULT, level_doc l)] | None => [] end.

Lemma keys_rule_docs rs : keys (rule_docs rs) = keys rs.
Proof. unfold rule_docs, keys. rewrite map_map. reflexivity. Qed.

Lemma category_rules_back rs dflt :
  str_in DEFAULT (keys rs) = false -> forallb (fun nr => rule_wf (snd nr)) rs = true ->
  map_result (fun nr => bind (rule_of (snd nr)) (fun r => Ok (fst nr, r)))
    (filter (fun nr => negb (str_eqb (fst nr) DEFAULT)) (rule_docs rs ++ default_entry dflt))
  = Ok (map (fun nr => (fst nr, norm_rule (snd nr))) rs).
Proof.
  intros Hn Hw. rewrite filter_app.
  rewrite (filter_notin (rule_docs rs) DEFAULT) by (rewrite keys_rule_docs; exact Hn).
  assert (D : filter (fun nr : str * jval => negb (str_eqb (fst nr) DEFAULT)) (default_entry dflt) = []).
  { destruct dflt; [cbn [default_entry filter fst]; rewrite str_eqb_refl|]; reflexivity. }
  rewrite D, app_nil_r. clear D Hn.
  induction rs as [|[n r] rs IH]; [reflexivity|].
  cbn [forallb snd] in Hw. apply andb_true_iff in Hw. destruct Hw as [Hr Hw].
  cbn [rule_docs map fst snd map_result]. rewrite (rule_roundtrip r Hr). cbn [bind].
  fold (rule_docs rs). rewrite (IH Hw). reflexivity.
Qed.

Lemma category_default_back rs dflt :
  str_in DEFAULT (keys rs) = false ->
  aget (rule_docs rs ++ default_entry dflt) DEFAULT = option_map level_doc dflt.
Proof.
  intros Hn. rewrite aget_app.
  assert (N : aget (rule_docs rs) DEFAULT = None)
    by (apply aget_none_notin; rewrite keys_rule_docs; exact Hn).
  rewrite N. destruct dflt; [cbn [default_entry aget]; rewrite str_eqb_refl|]; reflexivity.
Qed.

(* ---------------- placing the category defaults ---------------- *)

Definition cat_docs (rs : list (str * category)) : list (str * list (str * jval)) :=
  map (fun cr => (fst cr, rule_docs (snd cr))) rs.

Definition place_step (acc : option (list (str * list (str * jval)))) (cl : str * str) :=
  match acc with
  | None => None
  | Some m => match aget m (fst cl) with
              | Some rm => Some (aset m (fst cl) (aset rm DEFAULT (level_doc (snd cl))))
              | None => None
              end
  end.

Definition placed_cats (dc : list (str * str)) (m : list (str * list (str * jval))) :=
  map (fun cr => (fst cr, snd cr ++ default_entry (aget dc (fst cr)))) m.

Lemma aset_replace {A} (m : list (str * A)) k v v0 :
  distinct (keys m) = true -> aget m k = Some v0 ->
  aset m k v = map (fun kv => if str_eqb (fst kv) k then (k, v) else kv) m.
Proof.
  induction m as [|[k0 x0] m IH]; intros Hd Hg; [discriminate|].
  change (distinct (k0 :: keys m) = true) in Hd. cbn [distinct] in Hd.
  apply andb_true_iff in Hd. destruct Hd as [Hn Hd].
  cbn [aset map fst aget] in *. destruct (str_eqb_spec k0 k) as [->|Hne].
  - f_equal. apply negb_true_iff in Hn.
    clear -Hn. induction m as [|[k1 x1] m IH]; [reflexivity|].
    change (str_in k (k1 :: keys m) = false) in Hn. cbn [str_in] in Hn.
    apply orb_false_iff in Hn. destruct Hn as [H1 H2].
    cbn [map fst]. rewrite (str_eqb_sym k1 k), H1, <- IH by assumption. reflexivity.
  - f_equal. apply IH; assumption.
Qed.



Lemma in_keys {A} (m : list (str * A)) k v : In (k, v) m -> str_in k (keys m) = true.
Proof.
  induction m as [|[k0 v0] m IH]; [intros []|]. intros [H|H].
  - injection H as -> ->. change (str_in k (k :: keys m) = true). cbn [str_in]. rewrite str_eqb_refl. reflexivity.
  - change (str_in k (k0 :: keys m) = true). cbn [str_in]. rewrite (IH H). apply orb_true_r.
Qed.

Lemma aget_some_in' {A} (m : list (str * A)) k v : aget m k = Some v -> In (k, v) m.
Proof.
  induction m as [|[k0 v0] m IH]; simpl; [discriminate|].
  destruct (str_eqb_spec k0 k) as [->|]; [intros [= ->]; left; reflexivity | right; auto].
Qed.

Lemma aget_replace_other {A} (m : list (str * A)) k v k' :
  str_eqb k k' = false ->
  aget (map (fun kv => if str_eqb (fst kv) k then (k, v) else kv) m) k' = aget m k'.
Proof.
  intros Hne. induction m as [|[k0 v0] m IH]; [reflexivity|].
  cbn [map fst aget]. destruct (str_eqb_spec k0 k) as [->|Hk].
  - cbn [aget]. rewrite Hne. exact IH.
  - cbn [aget]. rewrite IH. reflexivity.
Qed.

Lemma place_spec dc : forall m,
  distinct (keys dc) = true -> distinct (keys m) = true ->
  (forall k l, In (k, l) dc -> exists rm, aget m k = Some rm /\ str_in DEFAULT (keys rm) = false) ->
  fold_left place_step dc (Some m) = Some (placed_cats dc m).
Proof.
  induction dc as [|[k l] dc IH]; intros m Hdc Hdm Hok.
  - cbn [fold_left]. f_equal. unfold placed_cats. cbn [aget default_entry].
    clear. induction m as [|[k0 x0] m IHm]; [reflexivity|]. cbn [map fst snd]. rewrite app_nil_r.
    rewrite <- IHm. reflexivity.
  - change (distinct (k :: keys dc) = true) in Hdc. cbn [distinct] in Hdc.
    apply andb_true_iff in Hdc. destruct Hdc as [Hkn Hdc]. apply negb_true_iff in Hkn.
    destruct (Hok k l (or_introl eq_refl)) as (rm & Eg & Hrm).
    cbn [fold_left place_step fst snd]. rewrite Eg.
    rewrite (aset_notin rm DEFAULT _ Hrm).
    rewrite (aset_replace m k _ rm Hdm Eg).
    set (m1 := map _ m).
    assert (K1 : keys m1 = keys m).
    { unfold m1, keys. rewrite map_map. apply map_ext. intros [k0 x0]. cbn [fst].
      destruct (str_eqb_spec k0 k) as [->|]; reflexivity. }
    rewrite IH.
    + f_equal. unfold placed_cats, m1. rewrite map_map. apply map_ext_in. intros [k0 x0] Hi0.
      cbn [fst snd aget]. destruct (str_eqb_spec k0 k) as [->|Hne].
      * cbn [fst snd]. rewrite str_eqb_refl.
        assert (N : aget dc k = None) by (apply aget_none_notin; exact Hkn). rewrite N.
        assert (x0 = rm).
        { assert (aget m k = Some x0) by (apply aget_in; assumption). congruence. }
        subst x0. cbn [default_entry]. rewrite app_nil_r. reflexivity.
      * cbn [fst snd]. rewrite (str_eqb_sym k k0).
        destruct (str_eqb_spec k0 k); [contradiction | reflexivity].
    + assumption.
    + rewrite K1. assumption.
    + intros k' l' Hi. destruct (Hok k' l' (or_intror Hi)) as (rm' & Eg' & Hrm').
      exists rm'. split; [|assumption]. unfold m1. rewrite aget_replace_other; [assumption|].
      destruct (str_eqb_spec k k') as [->|]; [|reflexivity].
      apply in_keys in Hi. congruence.
Qed.


Lemma map_result_ok {A B} (f : A -> result B) (g : A -> B) (l : list A) :
  (forall x, In x l -> f x = Ok (g x)) -> map_result f l = Ok (map g l).
Proof.
  induction l as [|x l IH]; intros H; [reflexivity|].
  cbn [map_result map]. rewrite (H x (or_introl eq_refl)). cbn [bind].
  rewrite IH by (intros y Hy; apply H; right; exact Hy). reflexivity.
Qed.

Lemma map_result_app {A B} (f : A -> result B) (a b : list A) ra rb :
  map_result f a = Ok ra -> map_result f b = Ok rb -> map_result f (a ++ b) = Ok (ra ++ rb).
Proof.
  revert ra. induction a as [|x a IH]; intros ra Ha Hb.
  - cbn in Ha. injection Ha as <-. exact Hb.
  - cbn [app map_result] in *. destruct (f x) as [y|e]; [|discriminate]. cbn [bind] in *.
    destruct (map_result f a) as [ys|e]; [|discriminate]. cbn [bind] in *. injection Ha as <-.
    rewrite (IH ys eq_refl Hb). reflexivity.
Qed.

(* the value written under "rules" *)
Definition global_entry (g : str) : list (str * jval) :=
  if nonempty g then [(DEFAULT, level_doc g)] else [].

Definition rules_doc (c : config) : list (str * jval) :=
  map (fun cr => (fst cr, JObj (snd cr))) (placed_cats (d_cats (c_defaults c)) (cat_docs (c_rules c)))
  ++ global_entry (d_global (c_defaults c)).

Definition doc_tail (c : config) : list (str * jval) :=
  opt_entry CAPABILITIES (option_map caps_doc (c_caps c))
  ++ opt_entry FEATURES (option_map features_doc (c_features c))
  ++ opt_entry PROJECT (option_map project_doc (c_project c))
  ++ (if nonempty (c_caps_url c) then [(CAPS_URL, JStr (c_caps_url c))] else [])
  ++ match c_ignore c with [] => [] | fs => [(IGNORE, JObj [(FILES, JArr (map JStr fs))])] end.

(* the pieces of roundtrip_wf *)
Record rt_wf (c : config) : Prop := {
  w_cats : distinct (keys (c_rules c)) = true;
  w_dc : distinct (keys (d_cats (c_defaults c))) = true;
  w_nodef : str_in DEFAULT (keys (c_rules c)) = false;
  w_rules : forall cat rs, In (cat, rs) (c_rules c) ->
      str_in DEFAULT (keys rs) = false /\ forallb (fun nr => rule_wf (snd nr)) rs = true;
  w_sub : forall k l, In (k, l) (d_cats (c_defaults c)) -> str_in k (keys (c_rules c)) = true }.

Lemma rt_wf_of c : roundtrip_wf c = true -> rt_wf c.
Proof.
  unfold roundtrip_wf, config_wf, rules_wf. intros H.
  apply andb_true_iff in H. destruct H as [H Hsub].
  apply andb_true_iff in H. destruct H as [H Hnr].
  apply andb_true_iff in H. destruct H as [H Hnc].
  apply andb_true_iff in H. destruct H as [H Hdc].
  apply andb_true_iff in H. destruct H as [Hdk Hrw].
  constructor; try assumption.
  - apply negb_true_iff. assumption.
  - intros cat rs Hi. split.
    + rewrite forallb_forall in Hnr. specialize (Hnr _ Hi). apply negb_true_iff in Hnr. exact Hnr.
    + rewrite forallb_forall in Hrw. specialize (Hrw _ Hi). cbn [snd] in Hrw.
      apply andb_true_iff in Hrw. tauto.
  - intros k l Hi. rewrite forallb_forall in Hsub. exact (Hsub _ Hi).
Qed.

Lemma keys_cat_docs rs : keys (cat_docs rs) = keys rs.
Proof. unfold cat_docs, keys. rewrite map_map. reflexivity. Qed.

Lemma aget_cat_docs rs cat : aget (cat_docs rs) cat = option_map rule_docs (aget rs cat).
Proof.
  unfold cat_docs. induction rs as [|[k0 c0] rs IH]; [reflexivity|].
  cbn [map fst snd aget]. destruct (str_eqb k0 cat); [reflexivity | exact IH].
Qed.

Lemma str_in_keys_aget {A} (m : list (str * A)) k :
  str_in k (keys m) = true -> exists v, aget m k = Some v.
Proof.
  intros H. destruct (aget m k) as [v|] eqn:E; [exists v; reflexivity|].
  apply aget_none_notin in E. congruence.
Qed.

Lemma keys_placed_docs dc rs :
  keys (map (fun cr : str * list (str * jval) => (fst cr, JObj (snd cr))) (placed_cats dc (cat_docs rs))) = keys rs.
Proof. unfold keys, placed_cats, cat_docs. rewrite !map_map. apply map_ext. intros [k v]. reflexivity. Qed.

Lemma marshal_eq c : rt_wf c -> marshal c = Some (JObj ((RULES, JObj (rules_doc c)) :: doc_tail c)).
Proof.
  intros W. unfold marshal.
  change (fold_left _ (d_cats (c_defaults c)) (Some ?m)) with (fold_left place_step (d_cats (c_defaults c)) (Some m)).
  change (map (fun cr : str * category => (fst cr, map (fun nr : str * rule => (fst nr, rule_doc (snd nr))) (snd cr))) (c_rules c))
    with (cat_docs (c_rules c)).
  rewrite place_spec.
  - unfold rules_doc, global_entry, doc_tail.
    destruct (nonempty (d_global (c_defaults c))) eqn:Eg.
    + rewrite aset_notin; [reflexivity|].
      rewrite keys_placed_docs. exact (w_nodef c W).
    + rewrite app_nil_r. reflexivity.
  - exact (w_dc c W).
  - rewrite keys_cat_docs. exact (w_cats c W).
  - intros k l Hi. destruct (str_in_keys_aget _ _ (w_sub c W k l Hi)) as (rs & Hrs).
    exists (rule_docs rs). rewrite aget_cat_docs, Hrs. split; [reflexivity|].
    rewrite keys_rule_docs. apply (w_rules c W k rs). apply aget_some_in'. exact Hrs.
Qed.

(* ---------------- reading the rules back ---------------- *)

Lemma rules_back c : rt_wf c -> rules_of (rules_doc c) = Ok (norm_rules (c_rules c)).
Proof.
  intros W. unfold rules_of, rules_doc. rewrite filter_app.
  assert (G : filter (fun kv : str * jval => negb (str_eqb (fst kv) DEFAULT))
                     (global_entry (d_global (c_defaults c))) = []).
  { unfold global_entry. destruct (nonempty _); [cbn [filter fst]; rewrite str_eqb_refl|]; reflexivity. }
  rewrite G, app_nil_r. clear G.
  rewrite filter_notin.
  2:{ rewrite keys_placed_docs. exact (w_nodef c W). }
  unfold placed_cats, cat_docs. rewrite !map_map. cbn [fst snd].
  unfold norm_rules, map_rules.
  pose proof (w_rules c W) as Hr. clear W. revert Hr.
  generalize (d_cats (c_defaults c)) as dc. generalize (c_rules c) as rules.
  induction rules as [|[cat rs] l IH]; intros dc Hr; [reflexivity|].
  cbn [map fst snd map_result].
  destruct (Hr cat rs (or_introl eq_refl)) as [Hn Hw].
  fold (rule_docs rs). rewrite (category_rules_back rs _ Hn Hw). cbn [bind].
  rewrite IH by (intros c0 r0 Hi; apply (Hr c0); right; exact Hi). reflexivity.
Qed.

(* ---------------- reading the defaults back ---------------- *)

Definition cats_back (dc : list (str * str)) (rs : list (str * category)) : list (str * str) :=
  concat (map (fun cr => match aget dc (fst cr) with Some l => [(fst cr, l)] | None => [] end) rs).

Lemma default_level_doc l : default_level (level_doc l) = Ok l.
Proof. unfold default_level, level_doc. cbn [aget]. rewrite str_eqb_refl. reflexivity. Qed.

Lemma nonempty_false s : nonempty s = false -> s = [].
Proof. destruct s; [reflexivity | discriminate]. Qed.

Lemma defaults_back c : rt_wf c ->
  defaults_of (rules_doc c) =
  Ok {| d_global := d_global (c_defaults c);
        d_cats := cats_back (d_cats (c_defaults c)) (c_rules c) |}.
Proof.
  intros W. unfold defaults_of, rules_doc.
  set (dc := d_cats (c_defaults c)). set (g := d_global (c_defaults c)).
  set (A := map (fun cr : str * list (str * jval) => (fst cr, JObj (snd cr))) (placed_cats dc (cat_docs (c_rules c)))).
  assert (KA : str_in DEFAULT (keys A) = false).
  { unfold A. rewrite keys_placed_docs. exact (w_nodef c W). }
  rewrite aget_app. assert (NA : aget A DEFAULT = None) by (apply aget_none_notin; exact KA). rewrite NA.
  (* global *)
  assert (G : match aget (global_entry g) DEFAULT with Some j => default_level j | None => Ok [] end = Ok g).
  { unfold global_entry. destruct (nonempty g) eqn:Eg.
    - cbn [aget]. rewrite str_eqb_refl. apply default_level_doc.
    - cbn [aget]. rewrite (nonempty_false g Eg). reflexivity. }
  rewrite G. cbn [bind].
  (* categories *)
  set (F := fun kv : str * jval =>
              match snd kv with
              | JObj rm => match aget rm DEFAULT with
                           | Some dj => bind (default_level dj) (fun l => Ok [(fst kv, l)])
                           | None => Ok []
                           end
              | _ => Err ENotAMap
              end).
  assert (HA : map_result F A =
               Ok (map (fun cr : str * category => match aget dc (fst cr) with Some l => [(fst cr, l)] | None => [] end) (c_rules c))).
  { unfold A, placed_cats, cat_docs. rewrite !map_map. cbn [fst snd].
    pose proof (w_rules c W) as Hr. clear -Hr. revert Hr. generalize (c_rules c) as rules.
    induction rules as [|[cat rs] l IH]; intros Hr; [reflexivity|].
    cbn [map fst snd map_result]. unfold F at 1. cbn [fst snd].
    destruct (Hr cat rs (or_introl eq_refl)) as [Hn _].
    fold (rule_docs rs). rewrite (category_default_back rs _ Hn).
    destruct (aget dc cat) as [lv|]; cbn [option_map].
    - rewrite default_level_doc. cbn [bind]. rewrite IH by (intros c0 r0 Hi; apply (Hr c0); right; exact Hi). reflexivity.
    - cbn [bind]. rewrite IH by (intros c0 r0 Hi; apply (Hr c0); right; exact Hi). reflexivity. }
  assert (HG : map_result F (global_entry g) = Ok (map (fun _ => []) (global_entry g))).
  { unfold global_entry. destruct (nonempty g); [|reflexivity].
    cbn [map_result map]. unfold F. cbn [snd level_doc aget fst].
    assert (E : str_eqb LEVEL DEFAULT = false) by reflexivity. rewrite E. reflexivity. }
  rewrite (map_result_app F _ _ _ _ HA HG). cbn [bind]. f_equal. f_equal.
  rewrite concat_app. unfold cats_back.
  assert (Z : concat (map (fun _ : str * jval => ([] : list (str * str))) (global_entry g)) = []).
  { unfold global_entry. destruct (nonempty g); reflexivity. }
  rewrite Z, app_nil_r. reflexivity.
Qed.

Lemma cats_back_get dc rs cat :
  distinct (keys rs) = true ->
  (forall k l, In (k, l) dc -> str_in k (keys rs) = true) ->
  aget (cats_back dc rs) cat = aget dc cat.
Proof.
  intros Hd Hsub.
  assert (G : aget (cats_back dc rs) cat = if str_in cat (keys rs) then aget dc cat else None).
  { clear Hsub. unfold cats_back. induction rs as [|[k0 c0] rs IH]; [reflexivity|].
    change (distinct (k0 :: keys rs) = true) in Hd. cbn [distinct] in Hd.
    apply andb_true_iff in Hd. destruct Hd as [Hn Hd]. apply negb_true_iff in Hn.
    cbn [map fst concat]. rewrite aget_app. change (keys ((k0, c0) :: rs)) with (k0 :: keys rs).
    cbn [str_in]. rewrite (str_eqb_sym cat k0).
    destruct (str_eqb_spec k0 cat) as [->|Hne].
    - cbn [orb]. destruct (aget dc cat) as [l|]; cbn [aget].
      + rewrite str_eqb_refl. reflexivity.
      + rewrite IH by assumption. rewrite Hn. reflexivity.
    - cbn [orb]. destruct (aget dc k0) as [l|]; cbn [aget].
      + destruct (str_eqb_spec k0 cat); [contradiction|]. apply IH; assumption.
      + apply IH; assumption. }
  rewrite G. destruct (str_in cat (keys rs)) eqn:E; [reflexivity|].
  destruct (aget dc cat) as [l|] eqn:Ed; [|reflexivity].
  apply aget_some_in' in Ed. rewrite (Hsub _ _ Ed) in E. discriminate.
Qed.


Lemma tail_get c x :
  aget ((RULES, x) :: doc_tail c) IGNORE =
    match c_ignore c with [] => None | fs => Some (JObj [(FILES, JArr (map JStr fs))]) end /\
  aget ((RULES, x) :: doc_tail c) PROJECT = option_map project_doc (c_project c) /\
  aget ((RULES, x) :: doc_tail c) CAPABILITIES = option_map caps_doc (c_caps c) /\
  aget ((RULES, x) :: doc_tail c) FEATURES = option_map features_doc (c_features c).
Proof.
  unfold doc_tail.
  destruct (c_caps c), (c_features c), (c_project c), (nonempty (c_caps_url c)), (c_ignore c);
    repeat split; reflexivity.
Qed.

Lemma root_back r : root_of (root_doc r) = Some r.
Proof. destruct r as [p [v|]]; reflexivity. Qed.

Lemma roots_back rs : roots_of (map root_doc rs) = Some rs.
Proof. induction rs as [|r rs IH]; [reflexivity|]. cbn [map roots_of]. rewrite root_back, IH. reflexivity. Qed.

Lemma project_back p : project_of (Some (project_doc p)) = Ok (Some p).
Proof.
  destruct p as [[rs|] [v|]]; unfold project_doc, project_of; cbn [p_roots p_ver option_map opt_entry app].
  - cbn [aget]. rewrite str_eqb_refl. rewrite roots_back.
    assert (E : str_eqb ROOTS REGO_VERSION = false) by reflexivity. rewrite E. rewrite str_eqb_refl. reflexivity.
  - cbn [aget]. rewrite str_eqb_refl. rewrite roots_back.
    assert (E : str_eqb ROOTS REGO_VERSION = false) by reflexivity. rewrite E. reflexivity.
  - cbn [aget]. assert (E : str_eqb REGO_VERSION ROOTS = false) by reflexivity. rewrite E, str_eqb_refl. reflexivity.
  - reflexivity.
Qed.

Section RoundTrip.
  Variable lookup : str -> option caps.
  Variable abs : str -> str.
  Variable base : caps.
  Hypothesis Hdefault : lookup DEFAULT_CAPS_URL = Some base.

  Theorem yaml_roundtrip_partial c :
    roundtrip_wf c = true ->
    exists j c',
      marshal c = Some j /\ unmarshal lookup abs true j = Ok c' /\
      c_rules c' = norm_rules (c_rules c) /\
      d_global (c_defaults c') = d_global (c_defaults c) /\
      (forall cat, aget (d_cats (c_defaults c')) cat = aget (d_cats (c_defaults c)) cat) /\
      c_ignore c' = c_ignore c /\
      c_project c' = c_project c /\
      c_features c' = features_back (c_features c) /\
      c_caps c' = Some base /\ c_caps_url c' = DEFAULT_CAPS_URL.
  Proof.
    intros Hwf. pose proof (rt_wf_of c Hwf) as W.
    eexists. eexists. split; [apply marshal_eq; exact W|].
    destruct (tail_get c (JObj (rules_doc c))) as (Ti & Tp & Tc & Tf).
    set (top := (RULES, JObj (rules_doc c)) :: doc_tail c) in *.
    assert (Er : aget top RULES = Some (JObj (rules_doc c))).
    { unfold top. cbn [aget]. rewrite str_eqb_refl. reflexivity. }
    assert (Fi : field (field (Some (JObj top)) IGNORE) FILES =
                 match c_ignore c with [] => None | fs => Some (JArr (map JStr fs)) end).
    { unfold field at 2. rewrite Ti. destruct (c_ignore c) as [|f fs]; [reflexivity|].
      unfold field. cbn [aget]. rewrite str_eqb_refl. reflexivity. }
    assert (Fc : field (Some (JObj top)) CAPABILITIES = option_map caps_doc (c_caps c)).
    { unfold field. rewrite Tc. destruct (c_caps c); reflexivity. }
    assert (Ff : field (Some (JObj top)) FEATURES = option_map features_doc (c_features c)).
    { unfold field. rewrite Tf. destruct (c_features c); reflexivity. }
    assert (Pj : project_of (aget top PROJECT) = Ok (c_project c)).
    { rewrite Tp. destruct (c_project c) as [p|]; [apply project_back | reflexivity]. }
    assert (Ig : match field (field (Some (JObj top)) IGNORE) FILES with
                 | Some (JArr l) => match strs_of l with Some fs => Ok fs | None => Err EDecode end
                 | None => Ok []
                 | Some _ => Err EDecode
                 end = Ok (c_ignore c)).
    { rewrite Fi. destruct (c_ignore c) as [|f fs]; [reflexivity|]. rewrite strs_of_map. reflexivity. }
    assert (Cu : caps_url_of abs (field (field (Some (JObj top)) CAPABILITIES) FROM) = Ok DEFAULT_CAPS_URL).
    { rewrite Fc. destruct (c_caps c); reflexivity. }
    assert (Cm : names_of (arr_field (field (field (Some (JObj top)) CAPABILITIES) MINUS) BUILTINS) = []).
    { rewrite Fc. destruct (c_caps c); reflexivity. }
    assert (Cp : plus_of (arr_field (field (field (Some (JObj top)) CAPABILITIES) PLUS) BUILTINS) = []).
    { rewrite Fc. destruct (c_caps c); reflexivity. }
    assert (Fv : match field (field (field (Some (JObj top)) FEATURES) REMOTE) CHECK_VERSION_DASH with
                 | Some (JBool true) => true | _ => false end =
                 match c_features c with Some (Some true) => true | _ => false end).
    { rewrite Ff. destruct (c_features c) as [[[|]|]|]; reflexivity. }
    unfold unmarshal. rewrite Er, Pj, Ig. cbn [bind].
    rewrite (defaults_back c W). cbn [bind]. rewrite (rules_back c W). cbn [bind].
    rewrite Cu. cbn [bind]. rewrite Hdefault, Cm, Cp, Fv.
    split; [reflexivity|].
    cbn [c_rules c_defaults d_global d_cats c_ignore c_project c_features c_caps c_caps_url fold_left].
    repeat split.
    - intros cat. apply cats_back_get; [exact (w_cats c W) | exact (w_sub c W)].
    - destruct (c_features c) as [[[|]|]|]; reflexivity.
  Qed.
End RoundTrip.

(* the full statement fails: the resolved capabilities are written as a plain list that the
   reader ignores, so whatever capabilities.from / plus / minus did is gone after a reload
   (and capabilities_url is reset to the default) *)
Definition wit_lookup (url : str) : option caps := Some [([99; 111; 117; 110; 116], [120]); ([112; 114; 105; 110; 116], [121])].
Definition wit_doc : jval :=
  JObj [(CAPABILITIES, JObj [(MINUS, JObj [(BUILTINS, JArr [JObj [(NAME, JStr [112; 114; 105; 110; 116])]])])])].

Theorem yaml_roundtrip_refuted :
  exists lookup abs doc c j c',
    unmarshal lookup abs true doc = Ok c /\ roundtrip_wf c = true /\
    marshal c = Some j /\ unmarshal lookup abs true j = Ok c' /\ c_caps c' <> c_caps c.
Proof.
  exists wit_lookup, (fun p => p), wit_doc.
  eexists. eexists. eexists.
  split; [vm_compute; reflexivity|].
  split; [vm_compute; reflexivity|].
  split; [vm_compute; reflexivity|].
  split; [vm_compute; reflexivity|].
  vm_compute. discriminate.
Qed.
