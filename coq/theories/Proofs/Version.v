(* Proofs about Model/Version.v: the string-level lookup that the Go code performs
   selects the deepest configured directory that contains the file, for every map of
   clean distinct keys and every rooted clean file name (no bound on sizes). *)
From Regal Require Import Base.PathModel Model.Version Proofs.PathLemmas.
From Coq Require Import Lia Permutation.
Local Open Scope nat_scope.

Definition key_of (ks : list str) : str := join [SLASH] ks.
Definition file_of (ds : list str) (base : str) : str := SLASH :: join [SLASH] (ds ++ [base]).

(* ---------- generic fold: "last maximal matching key wins" ---------- *)
Section Fold.
  Context {K : Type} (test : K -> bool) (L : K -> nat).

  Definition gstep (acc : nat * version) (kv : K * version) : nat * version :=
    if test (fst kv)
    then if Nat.leb (fst acc) (L (fst kv)) then (L (fst kv), snd kv) else acc
    else acc.

  Lemma gfold_inv m d :
    let r := fold_left gstep m (O, d) in
    ((forall kv, In kv m -> test (fst kv) = false) /\ r = (O, d)) \/
    (exists kv, In kv m /\ test (fst kv) = true /\ r = (L (fst kv), snd kv) /\
                forall kv', In kv' m -> test (fst kv') = true -> L (fst kv') <= L (fst kv)).
  Proof.
    induction m as [|x m IH] using rev_ind; cbn zeta.
    - left. split; [intros kv []| reflexivity].
    - rewrite fold_left_app. cbn [fold_left]. cbn zeta in IH.
      remember (fold_left gstep m (O, d)) as acc eqn:Eacc. clear Eacc.
      unfold gstep. destruct (test (fst x)) eqn:Tx.
      + destruct IH as [[Hnone Hr] | (kv & Hin & Hk & Hr & Hmax)].
        * rewrite Hr. cbn [fst Nat.leb]. right. exists x.
          split; [apply in_or_app; right; left; reflexivity|].
          split; [exact Tx|]. split; [reflexivity|].
          intros kv' Hin' Hk'. apply in_app_or in Hin'. destruct Hin' as [Hin'|[<-|[]]].
          -- rewrite Hnone in Hk' by assumption. discriminate.
          -- lia.
        * rewrite Hr. cbn [fst]. destruct (Nat.leb_spec (L (fst kv)) (L (fst x))) as [Hle|Hgt].
          -- right. exists x.
             split; [apply in_or_app; right; left; reflexivity|].
             split; [exact Tx|]. split; [reflexivity|].
             intros kv' Hin' Hk'. apply in_app_or in Hin'. destruct Hin' as [Hin'|[<-|[]]].
             ++ specialize (Hmax kv' Hin' Hk'). lia.
             ++ lia.
          -- right. exists kv.
             split; [apply in_or_app; left; exact Hin|].
             split; [exact Hk|]. split; [reflexivity|].
             intros kv' Hin' Hk'. apply in_app_or in Hin'. destruct Hin' as [Hin'|[<-|[]]].
             ++ apply Hmax; assumption.
             ++ lia.
      + destruct IH as [[Hnone Hr] | (kv & Hin & Hk & Hr & Hmax)].
        * left. split; [|exact Hr]. intros kv' Hin'. apply in_app_or in Hin'.
          destruct Hin' as [Hin'|[<-|[]]]; [apply Hnone; assumption | exact Tx].
        * right. exists kv.
          split; [apply in_or_app; left; exact Hin|].
          split; [exact Hk|]. split; [exact Hr|].
          intros kv' Hin' Hk'. apply in_app_or in Hin'. destruct Hin' as [Hin'|[<-|[]]].
          -- apply Hmax; assumption.
          -- congruence.
  Qed.
End Fold.

(* ---------- string level = component level on good inputs ---------- *)

Lemma good_noslash cs : good_comps cs -> Forall (fun c => ~ In SLASH c) cs.
Proof. intros H. eapply Forall_impl; [|exact H]. intros c (_ & Hc & _); exact Hc. Qed.

Lemma key_of_nonempty k ks : good_comp k -> key_of (k :: ks) <> [].
Proof.
  intros (Hk & _). unfold key_of. destruct ks; cbn [join]; [exact Hk|].
  destruct k; [contradiction | discriminate].
Qed.

Lemma matching_dir_key ks : good_comps ks -> matching_dir (key_of ks) = enc ks.
Proof.
  intros Hg. unfold matching_dir, pjoin. destruct ks as [|k ks].
  - cbn [key_of join filter str_eqb negb]. cbn [join].
    change [SLASH] with (repeat SLASH 1). rewrite clean_root_only. reflexivity.
  - assert (Hne : key_of (k :: ks) <> []) by (apply key_of_nonempty; inversion Hg; assumption).
    cbn [filter]. destruct (str_eqb_spec [SLASH] []) as [E|_]; [discriminate|]. cbn [negb].
    destruct (str_eqb_spec (key_of (k :: ks)) []) as [E|_]; [contradiction|]. cbn [negb].
    cbn [join]. change ([SLASH] ++ [SLASH] ++ key_of (k :: ks)) with (repeat SLASH 2 ++ join [SLASH] (k :: ks)).
    rewrite clean_rooted_good by (assumption || discriminate).
    destruct (str_eqb_spec (SLASH :: join [SLASH] (k :: ks)) [SLASH]) as [E|_].
    + injection E as E. contradiction.
    + unfold enc. cbn [app]. rewrite join_app_enc by discriminate. reflexivity.
Qed.

Lemma join_snoc ds base : ds <> [] -> join [SLASH] (ds ++ [base]) = join [SLASH] ds ++ SLASH :: base.
Proof.
  induction ds as [|d ds IH]; intros Hne; [contradiction|].
  destruct ds as [|d' ds'].
  - reflexivity.
  - change ((d :: d' :: ds') ++ [base]) with (d :: d' :: (ds' ++ [base])).
    rewrite !join_cons2. change (d' :: ds' ++ [base]) with ((d' :: ds') ++ [base]).
    rewrite IH by discriminate. rewrite <- !app_assoc. reflexivity.
Qed.

Lemma prefix_test ks ds base :
  good_comps ks -> good_comps ds -> ~ In SLASH base ->
  has_prefix (dir (file_of ds base) ++ [SLASH]) (enc ks) = comps_prefix ks ds.
Proof.
  intros Hk Hd Hb. unfold dir, file_of. destruct ds as [|d ds].
  - cbn [app join]. change (SLASH :: base) with ([] ++ SLASH :: base).
    rewrite upto_last_slash_app by assumption. cbn [app].
    change [SLASH] with (repeat SLASH 1). rewrite clean_root_only. cbn [repeat app].
    destruct ks as [|k ks]; [reflexivity|].
    cbn [comps_prefix]. unfold enc. cbn [enc_tail has_prefix]. rewrite N.eqb_refl. cbn [andb].
    inversion Hk as [|? ? (Hk1 & Hk2 & _) _]; subst.
    destruct k as [|x k]; [contradiction|]. cbn [app has_prefix].
    destruct (N.eqb_spec SLASH x) as [<-|Hne]; [exfalso; apply Hk2; left; reflexivity | reflexivity].
  - rewrite join_snoc by discriminate.
    change (SLASH :: join [SLASH] (d :: ds) ++ SLASH :: base)
      with ((SLASH :: join [SLASH] (d :: ds)) ++ SLASH :: base).
    rewrite upto_last_slash_app by assumption.
    change ((SLASH :: join [SLASH] (d :: ds)) ++ [SLASH]) with (SLASH :: join [SLASH] (d :: ds) ++ [SLASH]).
    rewrite clean_rooted_trailing by (assumption || discriminate).
    change ((SLASH :: join [SLASH] (d :: ds)) ++ [SLASH]) with (SLASH :: (join [SLASH] (d :: ds) ++ [SLASH])).
    rewrite join_app_enc by discriminate.
    apply (has_prefix_enc ks (d :: ds)); apply good_noslash; assumption.
Qed.

(* the Go lookup step on a clean key is the generic step on components *)
Lemma lookup_step_comps ds base acc ks v :
  good_comps ks -> good_comps ds -> ~ In SLASH base ->
  lookup_step matching_dir (dir (file_of ds base)) acc (key_of ks, v) =
  gstep (fun ks => comps_prefix ks ds) (fun ks => length (key_of ks)) acc (ks, v).
Proof.
  intros Hk Hd Hb. unfold lookup_step, gstep. destruct acc as [lg sel]. cbn [fst snd].
  rewrite matching_dir_key by assumption. rewrite prefix_test by assumption. reflexivity.
Qed.

Definition keys_of (m : list (list str * version)) : vmap :=
  map (fun kv => (key_of (fst kv), snd kv)) m.

Lemma fold_lookup_comps ds base m acc :
  Forall (fun kv => good_comps (fst kv)) m -> good_comps ds -> ~ In SLASH base ->
  fold_left (lookup_step matching_dir (dir (file_of ds base))) (keys_of m) acc =
  fold_left (gstep (fun ks => comps_prefix ks ds) (fun ks => length (key_of ks))) m acc.
Proof.
  revert acc; induction m as [|[ks v] m IH]; intros acc Hm Hd Hb; [reflexivity|].
  inversion Hm as [|? ? Hks Hm']; subst. cbn [keys_of map fold_left fst snd].
  rewrite lookup_step_comps by assumption. apply IH; assumption.
Qed.

(* ---------- depth and string length agree on prefixes of one directory ---------- *)

Lemma comps_prefix_chain ks1 ks2 ds :
  comps_prefix ks1 ds = true -> comps_prefix ks2 ds = true -> length ks1 <= length ks2 ->
  exists r, ks2 = ks1 ++ r.
Proof.
  revert ks2 ds; induction ks1 as [|k ks1 IH]; intros ks2 ds H1 H2 Hle.
  - exists ks2; reflexivity.
  - destruct ds as [|d ds]; [discriminate|].
    destruct ks2 as [|k2 ks2]; [cbn in Hle; lia|].
    cbn [comps_prefix] in H1, H2.
    apply andb_true_iff in H1. destruct H1 as [E1 H1]. apply str_eqb_eq in E1.
    apply andb_true_iff in H2. destruct H2 as [E2 H2]. apply str_eqb_eq in E2.
    subst k k2. cbn [length] in Hle.
    destruct (IH ks2 ds H1 H2 ltac:(lia)) as [r ->]. exists r; reflexivity.
Qed.

Lemma length_join_app (a b : list str) :
  a <> [] -> b <> [] ->
  length (join [SLASH] (a ++ b)) = length (join [SLASH] a) + 1 + length (join [SLASH] b).
Proof.
  induction a as [|x a IH]; intros Ha Hb; [contradiction|].
  destruct a as [|y a'].
  - destruct b as [|z b']; [contradiction|].
    change ([x] ++ z :: b') with (x :: z :: b'). rewrite join_cons2.
    rewrite !app_length. cbn [join length]. lia.
  - change ((x :: y :: a') ++ b) with (x :: y :: (a' ++ b)). rewrite !join_cons2.
    change (y :: a' ++ b) with ((y :: a') ++ b).
    rewrite !app_length, IH by (discriminate || assumption). cbn [length]. lia.
Qed.

Lemma key_len_mono ks1 ks2 ds :
  good_comps ks2 ->
  comps_prefix ks1 ds = true -> comps_prefix ks2 ds = true ->
  length ks1 < length ks2 -> length (key_of ks1) < length (key_of ks2).
Proof.
  intros Hg H1 H2 Hlt.
  destruct (comps_prefix_chain ks1 ks2 ds H1 H2 ltac:(lia)) as [r ->].
  assert (Hr : r <> []) by (intros ->; rewrite app_nil_r in Hlt; lia).
  unfold key_of. destruct ks1 as [|k ks1].
  - cbn [app join length]. destruct r as [|x r]; [contradiction|].
    inversion Hg as [|? ? (Hx & _) _]; subst.
    destruct r; cbn [join]; [|rewrite app_length]; destruct x; try contradiction; cbn [length]; lia.
  - rewrite length_join_app by (discriminate || assumption). lia.
Qed.

Lemma key_same_depth ks1 ks2 ds :
  comps_prefix ks1 ds = true -> comps_prefix ks2 ds = true ->
  length ks1 = length ks2 -> ks1 = ks2.
Proof.
  intros H1 H2 E.
  destruct (comps_prefix_chain ks1 ks2 ds H1 H2 ltac:(lia)) as [r ->].
  rewrite app_length in E. destruct r; [rewrite app_nil_r; reflexivity | cbn in E; lia].
Qed.

(* ---------- the lookup selects the deepest containing key ---------- *)

Theorem lookup_selects_deepest (m : list (list str * version)) ds base default :
  Forall (fun kv => good_comps (fst kv)) m -> NoDup (map fst m) ->
  good_comps ds -> ~ In SLASH base ->
  let r := version_from_map (keys_of m) (file_of ds base) default in
  (forall ks v, In (ks, v) m -> comps_prefix ks ds = true ->
     (forall ks' v', In (ks', v') m -> comps_prefix ks' ds = true -> length ks' <= length ks) ->
     r = v) /\
  ((forall ks v, In (ks, v) m -> comps_prefix ks ds = false) -> r = default).
Proof.
  intros Hm Hnd Hd Hb. cbn zeta.
  unfold version_from_map, version_from_map_gen.
  destruct m as [|kv0 m0] eqn:Em.
  - split; [intros ks v []| reflexivity].
  - rewrite <- Em in *. clear Em kv0 m0.
    replace (match keys_of m with [] => default | _ :: _ =>
               snd (fold_left (lookup_step matching_dir (dir (file_of ds base))) (keys_of m) (O, default)) end)
      with (snd (fold_left (lookup_step matching_dir (dir (file_of ds base))) (keys_of m) (O, default)))
      by (destruct m; reflexivity).
    rewrite fold_lookup_comps by assumption.
    pose proof (gfold_inv (fun ks => comps_prefix ks ds) (fun ks => length (key_of ks)) m default) as Inv.
    cbn zeta in Inv. destruct Inv as [[Hnone Hr] | ([ks0 v0] & Hin & Hk & Hr & Hmax)].
    + rewrite Hr. split; [|reflexivity].
      intros ks v Hin Hp _. specialize (Hnone (ks, v) Hin). cbn [fst] in Hnone. congruence.
    + rewrite Hr. cbn [fst snd] in *. split.
      * intros ks v Hin' Hp Hdeep.
        (* ks is deepest; ks0 has maximal string length: they coincide *)
        assert (Hg0 : good_comps ks0).
        { rewrite Forall_forall in Hm. apply (Hm (ks0, v0) Hin). }
        assert (Hgk : good_comps ks).
        { rewrite Forall_forall in Hm. apply (Hm (ks, v) Hin'). }
        assert (Hle : length ks0 <= length ks) by (apply (Hdeep ks0 v0); assumption).
        assert (E : ks0 = ks).
        { destruct (Nat.eq_dec (length ks0) (length ks)) as [E|Hne].
          - apply (key_same_depth ks0 ks ds); assumption.
          - exfalso. assert (Hlt : length ks0 < length ks) by lia.
            pose proof (key_len_mono ks0 ks ds Hgk Hk Hp Hlt) as Hl.
            specialize (Hmax (ks, v) Hin' Hp). cbn [fst] in Hmax. lia. }
        subst ks0.
        (* NoDup keys: one value per key *)
        clear -Hin Hin' Hnd. induction m as [|[k w] m IH]; [destruct Hin|].
        cbn [map fst] in Hnd. inversion Hnd as [|? ? Hnotin Hnd']; subst.
        destruct Hin as [E1|Hin]; destruct Hin' as [E2|Hin'].
        -- congruence.
        -- exfalso. apply Hnotin. injection E1 as -> ->. apply (in_map fst) in Hin'. exact Hin'.
        -- exfalso. apply Hnotin. injection E2 as -> ->. apply (in_map fst) in Hin. exact Hin.
        -- apply IH; assumption.
      * intros Hnone. specialize (Hnone ks0 v0 Hin). congruence.
Qed.

(* map iteration order does not matter on clean distinct keys *)
Corollary lookup_order_irrelevant (m m' : list (list str * version)) ds base default :
  Forall (fun kv => good_comps (fst kv)) m -> NoDup (map fst m) ->
  good_comps ds -> ~ In SLASH base -> Permutation m m' ->
  version_from_map (keys_of m) (file_of ds base) default =
  version_from_map (keys_of m') (file_of ds base) default.
Proof.
  intros Hm Hnd Hd Hb Hp.
  assert (Hm' : Forall (fun kv => good_comps (fst kv)) m').
  { rewrite Forall_forall in *. intros x Hx. apply Hm. eapply Permutation_in; [|exact Hx].
    apply Permutation_sym; exact Hp. }
  assert (Hnd' : NoDup (map fst m')).
  { eapply Permutation_NoDup; [|exact Hnd]. apply Permutation_map; exact Hp. }
  destruct (lookup_selects_deepest m ds base default Hm Hnd Hd Hb) as [A1 A2].
  destruct (lookup_selects_deepest m' ds base default Hm' Hnd' Hd Hb) as [B1 B2].
  cbn zeta in *.
  (* does some key match? take a deepest one *)
  assert (Hdec : (forall ks v, In (ks, v) m -> comps_prefix ks ds = false) \/
                 exists ks v, In (ks, v) m /\ comps_prefix ks ds = true /\
                   forall ks' v', In (ks', v') m -> comps_prefix ks' ds = true -> length ks' <= length ks).
  { clear. induction m as [|[k w] m IH].
    - left; intros ks v [].
    - destruct IH as [Hnone | (ks & v & Hin & Hp & Hmax)].
      + destruct (comps_prefix k ds) eqn:Ek.
        * right. exists k, w. repeat split; [left; reflexivity | exact Ek |].
          intros ks' v' [E|Hin'] Hp'; [injection E as <- <-; lia|].
          rewrite (Hnone ks' v' Hin') in Hp'. discriminate.
        * left. intros ks v [E|Hin]; [injection E as <- <-; exact Ek | apply (Hnone ks v Hin)].
      + destruct (comps_prefix k ds) eqn:Ek.
        * destruct (Nat.le_gt_cases (length k) (length ks)) as [Hle|Hgt].
          -- right. exists ks, v. repeat split; [right; exact Hin | exact Hp |].
             intros ks' v' [E|Hin'] Hp'; [injection E as <- <-; exact Hle | apply (Hmax ks' v' Hin' Hp')].
          -- right. exists k, w. repeat split; [left; reflexivity | exact Ek |].
             intros ks' v' [E|Hin'] Hp'; [injection E as <- <-; lia|].
             specialize (Hmax ks' v' Hin' Hp'). lia.
        * right. exists ks, v. repeat split; [right; exact Hin | exact Hp |].
          intros ks' v' [E|Hin'] Hp'; [injection E as <- <-; congruence | apply (Hmax ks' v' Hin' Hp')]. }
  destruct Hdec as [Hnone | (ks & v & Hin & Hpk & Hmax)].
  - rewrite A2 by exact Hnone. rewrite B2; [reflexivity|].
    intros ks v Hin. apply (Hnone ks v). eapply Permutation_in; [|exact Hin].
    apply Permutation_sym; exact Hp.
  - rewrite (A1 ks v Hin Hpk Hmax). symmetry. apply (B1 ks v).
    + eapply Permutation_in; [exact Hp | exact Hin].
    + exact Hpk.
    + intros ks' v' Hin' Hp'. apply (Hmax ks' v'); [|exact Hp'].
      eapply Permutation_in; [|exact Hin']. apply Permutation_sym; exact Hp.
Qed.

(* a sibling directory sharing a name prefix is not claimed: direct corollary, and the
   regression witness against the pinned code (path.Join dropped the separator) *)
Local Open Scope N_scope.
Lemma pinned_sibling_refuted :
  exists m f, version_from_map_pinned m f VUndef <> spec_version m f VUndef.
Proof.
  exists [([97], V0)], [SLASH; 97; 98; SLASH; 112]. vm_compute. discriminate.
Qed.

Lemma current_sibling_ok :
  version_from_map [([97], V0)] [SLASH; 97; 98; SLASH; 112] VUndef = VUndef.
Proof. vm_compute. reflexivity. Qed.

(* ---------- AllRegoVersions: later inserts win (manifest < project < roots) ---------- *)

Fixpoint last_of (l : vmap) (k : str) : option version :=
  match l with
  | [] => None
  | (k', v) :: l' => match last_of l' k with
                     | Some w => Some w
                     | None => if str_eqb k' k then Some v else None
                     end
  end.

Lemma assoc_get_set m k v k' :
  assoc_get (assoc_set m k v) k' = if str_eqb k k' then Some v else assoc_get m k'.
Proof.
  induction m as [|[k0 v0] m IH]; cbn [assoc_set assoc_get].
  - reflexivity.
  - destruct (str_eqb_spec k0 k) as [->|Hne]; cbn [assoc_get].
    + destruct (str_eqb_spec k k'); reflexivity.
    + destruct (str_eqb_spec k0 k') as [->|Hne'].
      * destruct (str_eqb_spec k k'); [congruence | reflexivity].
      * exact IH.
Qed.

Lemma assoc_get_fold l m0 k :
  assoc_get (fold_left (fun m kv => assoc_set m (fst kv) (snd kv)) l m0) k =
  match last_of l k with Some v => Some v | None => assoc_get m0 k end.
Proof.
  revert m0; induction l as [|[k1 v1] l IH]; intros m0; cbn [fold_left last_of fst snd].
  - reflexivity.
  - rewrite IH. destruct (last_of l k); [reflexivity|]. rewrite assoc_get_set.
    destruct (str_eqb k1 k); reflexivity.
Qed.

Theorem all_rego_versions_precedence manifests project roots k :
  assoc_get (all_rego_versions manifests project roots) k =
  match last_of roots k with
  | Some v => Some v                                   (* a configured root wins *)
  | None =>
    match project, str_eqb [] k with
    | Some v, true => Some v                           (* then the project-wide version *)
    | _, _ => last_of manifests k                      (* then a .manifest in that directory *)
    end
  end.
Proof.
  unfold all_rego_versions. rewrite assoc_get_fold.
  destruct (last_of roots k); [reflexivity|].
  destruct project as [v|].
  - rewrite assoc_get_set. destruct (str_eqb [] k); [reflexivity|].
    rewrite assoc_get_fold. destruct (last_of manifests k); reflexivity.
  - rewrite assoc_get_fold. destruct (last_of manifests k); destruct (str_eqb [] k); reflexivity.
Qed.

Lemma assoc_set_keys m k v k' :
  In k' (map fst (assoc_set m k v)) <-> k' = k \/ In k' (map fst m).
Proof.
  induction m as [|[k0 v0] m IH]; cbn [assoc_set map fst In].
  - intuition.
  - destruct (str_eqb_spec k0 k) as [->|Hne]; cbn [map fst In]; [intuition|].
    rewrite IH. intuition.
Qed.

Lemma assoc_set_nodup m k v : NoDup (map fst m) -> NoDup (map fst (assoc_set m k v)).
Proof.
  induction m as [|[k0 v0] m IH]; intros Hnd; cbn [assoc_set].
  - cbn. constructor; [intros []| constructor].
  - cbn [map fst] in Hnd. inversion Hnd as [|? ? Hnotin Hnd']; subst.
    destruct (str_eqb_spec k0 k) as [->|Hne]; cbn [map fst].
    + constructor; assumption.
    + constructor; [|apply IH; assumption].
      rewrite assoc_set_keys. intros [E|Hin]; [congruence | contradiction].
Qed.

Lemma fold_set_nodup l m0 :
  NoDup (map fst m0) -> NoDup (map fst (fold_left (fun m kv => assoc_set m (fst kv) (snd kv)) l m0)).
Proof.
  revert m0; induction l as [|kv l IH]; intros m0 H; cbn [fold_left]; [exact H|].
  apply IH. apply assoc_set_nodup. exact H.
Qed.

(* the map handed to the lookup never holds a key twice *)
Theorem all_rego_versions_nodup manifests project roots :
  NoDup (map fst (all_rego_versions manifests project roots)).
Proof.
  unfold all_rego_versions. apply fold_set_nodup.
  destruct project; [apply assoc_set_nodup|]; apply fold_set_nodup; constructor.
Qed.

(* ---------- spelling invariance: relative and absolute names of one file agree ---------- *)
Local Open Scope nat_scope.

Lemma join_app_sep (a b : list str) :
  a <> [] -> b <> [] -> join [SLASH] (a ++ b) = join [SLASH] a ++ SLASH :: join [SLASH] b.
Proof.
  induction a as [|x a IH]; intros Ha Hb; [contradiction|].
  destruct a as [|y a'].
  - destruct b as [|z b']; [contradiction|]. reflexivity.
  - change ((x :: y :: a') ++ b) with (x :: y :: (a' ++ b)). rewrite !join_cons2.
    change (y :: a' ++ b) with ((y :: a') ++ b). rewrite IH by (discriminate || assumption).
    rewrite <- !app_assoc. reflexivity.
Qed.

Lemma good_first_not_slash c cs : good_comps (c :: cs) -> is_rooted (join [SLASH] (c :: cs)) = false.
Proof.
  intros Hg. inversion Hg as [|? ? (Hne & Hns & _) _]; subst.
  destruct c as [|x c']; [contradiction|].
  destruct cs as [|c2 cs]; cbn [join app is_rooted];
    (destruct (N.eqb_spec x SLASH) as [->|]; [exfalso; apply Hns; left; reflexivity | reflexivity]).
Qed.

Lemma good_app a b : good_comps a -> good_comps b -> good_comps (a ++ b).
Proof. intros; apply Forall_app; split; assumption. Qed.

Lemma join_single (sep w : str) : join sep [w] = w.
Proof. reflexivity. Qed.

Lemma abs_path_relative cwdc relc :
  good_comps cwdc -> good_comps relc -> relc <> [] ->
  abs_path (SLASH :: join [SLASH] cwdc) (join [SLASH] relc) = SLASH :: join [SLASH] (cwdc ++ relc).
Proof.
  intros Hc Hr Hne. unfold abs_path. destruct relc as [|r relc]; [contradiction|].
  rewrite good_first_not_slash by assumption. unfold pjoin. cbn [filter].
  destruct (str_eqb_spec (SLASH :: join [SLASH] cwdc) []) as [E|_]; [discriminate|]. cbn [negb].
  destruct (str_eqb_spec (join [SLASH] (r :: relc)) []) as [E|_].
  { exfalso. apply (key_of_nonempty r relc); [inversion Hr; assumption | exact E]. }
  cbn [negb]. rewrite join_cons2, join_single.
  destruct cwdc as [|c cwdc].
  - change (join [SLASH] []) with (@nil N). cbn [app].
    change (SLASH :: SLASH :: join [SLASH] (r :: relc)) with (repeat SLASH 2 ++ join [SLASH] (r :: relc)).
    apply clean_rooted_good; [assumption | discriminate].
  - rewrite join_app_sep by discriminate.
    change ((SLASH :: join [SLASH] (c :: cwdc)) ++ [SLASH] ++ join [SLASH] (r :: relc))
      with (repeat SLASH 1 ++ (join [SLASH] (c :: cwdc) ++ SLASH :: join [SLASH] (r :: relc))).
    rewrite <- join_app_sep by discriminate.
    apply clean_rooted_good; [apply good_app; assumption | discriminate].
Qed.

Lemma abs_path_absolute cwd cs :
  good_comps cs -> cs <> [] ->
  abs_path cwd (SLASH :: join [SLASH] cs) = SLASH :: join [SLASH] cs.
Proof.
  intros Hg Hne. unfold abs_path. cbn [is_rooted]. rewrite N.eqb_refl.
  change (SLASH :: join [SLASH] cs) with (repeat SLASH 1 ++ join [SLASH] cs).
  apply clean_rooted_good; assumption.
Qed.

(* The name handed to the lookup is the same for a path given relative to the working directory
   and for the absolute path of the same file, whatever the working directory of the second run. *)
Theorem spelling_invariant cwdc relc cwd' prefix :
  good_comps cwdc -> good_comps relc -> relc <> [] -> prefix <> [] ->
  input_from_paths_name (SLASH :: join [SLASH] cwdc) prefix (join [SLASH] relc) =
  input_from_paths_name cwd' prefix (SLASH :: join [SLASH] (cwdc ++ relc)).
Proof.
  intros Hc Hr Hne Hp. unfold input_from_paths_name.
  destruct (str_eqb_spec prefix []) as [E|_]; [contradiction|].
  rewrite abs_path_relative by assumption.
  rewrite abs_path_absolute; [reflexivity | apply good_app; assumption |].
  destruct cwdc; [assumption | discriminate].
Qed.

(* and trimming the project prefix from the absolute path yields the "/"-rooted name the lookup
   theorem [lookup_selects_deepest] speaks about *)
Lemma name_under_prefix rootc ds base :
  rootc <> [] ->
  trim_prefix (SLASH :: join [SLASH] (rootc ++ ds ++ [base])) (SLASH :: join [SLASH] rootc) = file_of ds base.
Proof.
  intros Hr. rewrite join_app_sep; [|assumption|destruct ds; discriminate].
  change (SLASH :: join [SLASH] rootc ++ SLASH :: join [SLASH] (ds ++ [base]))
    with ((SLASH :: join [SLASH] rootc) ++ (SLASH :: join [SLASH] (ds ++ [base]))).
  rewrite trim_prefix_app. reflexivity.
Qed.
